package main

import (
	"crypto/md5"
	"crypto/sha256"
	"fmt"
	"hash"
	"math"
	"strings"

	"github.com/uber/kraken/lib/hrw"
	"verifharness/hlib"
)

// C22: the real hrw.RendezvousHash on node sets, keys and every single-node removal/addition.
//
// One case = one pool of nodes (labels canonicalised to 0..p-1, at most 15), a few node sets
// drawn from the pool (each in two insertion orders), and a block of keys.  For every key the
// case carries the REAL score of every pool node (order-preserving image of the float64 in N)
// and what GetOrderedNodes returned: on the set, on the same set inserted in another order, its
// top-n prefix, after RemoveNode(x) and after re-adding x, for the chosen x's.
func init() { hlib.Register("C22", c22) }

type c22conf struct {
	name    string
	factory hrw.HashFactory
	sf      hrw.UIntToFloat
}

var c22confs = []c22conf{
	{"murmur3+UInt64ToFloat64", hrw.Murmur3Hash, hrw.UInt64ToFloat64}, // what ring.go and ca_store.go use
	{"murmur3+BigIntToFloat64", hrw.Murmur3Hash, hrw.BigIntToFloat64},
	{"sha256+BigIntToFloat64", func() hash.Hash { return sha256.New() }, hrw.BigIntToFloat64},
	{"md5+UInt64ToFloat64", func() hash.Hash { return md5.New() }, hrw.UInt64ToFloat64},
}

type c22node struct {
	label  string
	weight int
}

type c22set struct {
	u, u2 []int // pool indices: insertion order, second insertion order (a permutation of u)
	topn  int
	xs    []int // pool indices removed / re-added (subset of u)
}

// c22code maps a float64 to a uint64 so that a < b  <=>  code(a) < code(b) for all non-NaN
// a, b (with -0 == +0).  NaN is reported separately.
func c22code(f float64) (uint64, bool) {
	if f != f {
		return 0, true
	}
	if f == 0 {
		f = 0 // -0 -> +0: Go's `<` does not distinguish them
	}
	b := math.Float64bits(f)
	if b>>63 == 1 {
		return ^b, false
	}
	return b | 1<<63, false
}

func c22hexkey(k string) bool {
	if len(k)%2 != 0 {
		return false
	}
	for _, c := range k {
		if !(c >= '0' && c <= '9' || c >= 'a' && c <= 'f' || c >= 'A' && c <= 'F') {
			return false
		}
	}
	return true
}

func c22build(conf c22conf, pool []c22node, order []int) *hrw.RendezvousHash {
	rh := hrw.NewRendezvousHash(conf.factory, conf.sf)
	for _, i := range order {
		rh.AddNode(pool[i].label, pool[i].weight)
	}
	return rh
}

// digits encodes a list of pool indices as one hexadecimal numeral, digit = index+1.
func c22digits(ids []int) string {
	if len(ids) == 0 {
		return "0"
	}
	var sb strings.Builder
	sb.WriteString("0x")
	for _, i := range ids {
		if i < 0 || i > 14 {
			// an unknown label: digit 0 never denotes a node, the model will reject the list
			sb.WriteByte('0')
			continue
		}
		sb.WriteByte("123456789abcdef"[i])
	}
	return sb.String()
}

type c22stats struct{ pairs, tied, nan, keys int }

func c22case(ctx *hlib.Ctx, conf c22conf, pool []c22node, sets []c22set, keys []string, kind string, tags []string, st *c22stats) {
	id := map[string]int{}
	for i, n := range pool {
		id[n.label] = i
	}
	ids := func(ns []*hrw.RendezvousHashNode) []int {
		out := make([]int, len(ns))
		for i, n := range ns {
			v, ok := id[n.Label]
			if !ok || pool[v].weight != n.Weight {
				v = -1
			}
			out[i] = v
		}
		return out
	}
	all := make([]int, len(pool))
	for i := range all {
		all[i] = i
	}
	rhPool := c22build(conf, pool, all)
	type built struct {
		u, u2    *hrw.RendezvousHash
		rem, add []*hrw.RendezvousHash
	}
	bs := make([]built, len(sets))
	for si, s := range sets {
		b := built{u: c22build(conf, pool, s.u), u2: c22build(conf, pool, s.u2)}
		for _, x := range s.xs {
			r := c22build(conf, pool, s.u)
			r.RemoveNode(pool[x].label)
			a := c22build(conf, pool, s.u)
			a.RemoveNode(pool[x].label)
			a.AddNode(pool[x].label, pool[x].weight)
			b.rem = append(b.rem, r)
			b.add = append(b.add, a)
		}
		bs[si] = b
	}
	nt := false
	var hist []string
	var skeys []string
	for _, k := range keys {
		st.keys++
		valid := c22hexkey(k)
		codes := make([]uint64, len(pool))
		scs := make([]string, len(pool))
		nan := false
		for i := range pool {
			// a free-standing node: independent of where AddNode puts nodes in rh.Nodes
			pn := &hrw.RendezvousHashNode{RHash: rhPool, Label: pool[i].label, Weight: pool[i].weight}
			c, isnan := c22code(pn.Score(k))
			nan = nan || isnan
			codes[i] = c
			scs[i] = fmt.Sprintf("0x%x", c)
		}
		if nan {
			st.nan++
			hist = append(hist, "key-nan-score")
		}
		var sobs []string
		for si, s := range sets {
			b := bs[si]
			tied := false
			for i := range s.u {
				for j := i + 1; j < len(s.u); j++ {
					if codes[s.u[i]] == codes[s.u[j]] {
						tied = true
					}
				}
			}
			st.pairs++
			if tied {
				st.tied++
				hist = append(hist, "pair-tied")
			} else {
				hist = append(hist, "pair-tiefree")
				if valid && len(s.u) >= 2 {
					nt = true
				}
			}
			o := []string{
				c22digits(ids(b.u.GetOrderedNodes(k, len(s.u)))),
				c22digits(ids(b.u2.GetOrderedNodes(k, len(s.u2)))),
				c22digits(ids(b.u.GetOrderedNodes(k, s.topn))),
			}
			for xi := range s.xs {
				o = append(o, c22digits(ids(b.rem[xi].GetOrderedNodes(k, len(s.u)))))
				o = append(o, c22digits(ids(b.add[xi].GetOrderedNodes(k, len(s.u)+1))))
			}
			sobs = append(sobs, hlib.List(o))
		}
		skeys = append(skeys, fmt.Sprintf("mkk %s %s %s", hlib.B(valid && !nan), hlib.List(scs), hlib.List(sobs)))
	}
	var ws, ss []string
	for _, n := range pool {
		ws = append(ws, hlib.Z(int64(n.weight))+"%Z")
	}
	for _, s := range sets {
		ss = append(ss, fmt.Sprintf("mks %s %s %d %s", c22digits(s.u), c22digits(s.u2), s.topn, c22digits(s.xs)))
	}
	coq := fmt.Sprintf("mkcase %s %s %s", hlib.List(ws), hlib.List(ss), hlib.List(skeys))
	var labels []string
	for _, n := range pool {
		labels = append(labels, fmt.Sprintf("%s/%d", n.label, n.weight))
	}
	sample := map[string]interface{}{"conf": conf.name, "pool": labels, "sets": ss, "keys": keys}
	if len(skeys) > 0 {
		sample["first_key_term"] = skeys[0]
	}
	ctx.Emit(hlib.Case{Coq: coq, NT: nt, Kind: kind, Hist: hist, Sample: sample, Tags: tags,
		Key: conf.name + "|" + strings.Join(labels, ",") + "|" + strings.Join(ss, ";") + "|" + strings.Join(keys, ",")})
}

func c22perm(r *hlib.Rng, xs []int) []int {
	out := append([]int{}, xs...)
	for i := len(out) - 1; i > 0; i-- {
		j := r.Intn(i + 1)
		out[i], out[j] = out[j], out[i]
	}
	return out
}

func c22rev(xs []int) []int {
	out := make([]int, len(xs))
	for i, x := range xs {
		out[len(xs)-1-i] = x
	}
	return out
}

func c22seq(n int) []int {
	out := make([]int, n)
	for i := range out {
		out[i] = i
	}
	return out
}

// a set over the given members: second order is the reverse (always different when len >= 2)
// or a random permutation; xs = every member (full) or two of them (light)
func c22mkset(r *hlib.Rng, members []int, full bool) c22set {
	u := c22perm(r, members)
	var u2 []int
	if r.Bool() {
		u2 = c22rev(u)
	} else {
		u2 = c22perm(r, u)
	}
	s := c22set{u: u, u2: u2, topn: r.Intn(len(u) + 2)}
	if full || len(u) <= 2 {
		s.xs = append([]int{}, u...)
	} else {
		p := c22perm(r, u)
		s.xs = p[:2]
	}
	return s
}

func c22pool(r *hlib.Rng, p int, wkind int) []c22node {
	pool := make([]c22node, p)
	style := r.Intn(3)
	for i := range pool {
		var l string
		switch style {
		case 0:
			l = fmt.Sprintf("host-%d.example.com:%d", r.Intn(1000)*16+i, 15000+r.Intn(3))
		case 1:
			l = fmt.Sprintf("10.%d.%d.%d:80", r.Intn(256), r.Intn(256), i)
		default:
			l = fmt.Sprintf("/mnt/vol%d-%x", i, r.Intn(4096))
		}
		w := 100
		switch wkind {
		case 1:
			w = r.Range(1, 1000)
		case 2:
			w = []int{1, 2, 999, 1000, 1 << 20, 1<<31 - 1}[r.Intn(6)]
		}
		pool[i] = c22node{l, w}
	}
	return pool
}

func c22(ctx *hlib.Ctx) {
	r := hlib.NewRng(ctx.Seed)
	st := &c22stats{}
	thorough := ctx.Tier == "thorough"
	def := c22confs[0]

	// ---- hand-written seeds (always run first) ----
	abc := []c22node{{"a", 100}, {"b", 100}, {"c", 100}}
	full3 := c22set{u: []int{0, 1, 2}, u2: []int{2, 1, 0}, topn: 2, xs: []int{0, 1, 2}}
	c22case(ctx, def, abc, []c22set{full3}, []string{"", "00", "0000", "ffff", "aBcD", "ABCD", "abcd"}, "seed-boundary-keys", nil, st)
	c22case(ctx, def, []c22node{{"only", 7}}, []c22set{{u: []int{0}, u2: []int{0}, topn: 0, xs: []int{0}}}, []string{"00", "a1b2"}, "seed-single-node", nil, st)
	// C22_ties_refuted witness: two nodes of weight 0 score 0 on every key
	c22case(ctx, def, []c22node{{"a", 0}, {"b", 0}}, []c22set{{u: []int{0, 1}, u2: []int{1, 0}, topn: 1, xs: []int{0, 1}}},
		[]string{"00", "1234"}, "seed-zero-weight-tie", []string{"zero-weight-tie"}, st)
	// one zero-weight node among weighted ones: no tie, the property holds
	c22case(ctx, def, []c22node{{"a", 0}, {"b", 5}, {"c", 1000}}, []c22set{full3}, []string{"00", "1234"}, "seed-one-zero-weight", nil, st)
	// negative weights give negative scores; still a strict order
	c22case(ctx, def, []c22node{{"a", -3}, {"b", 5}, {"c", -1000}}, []c22set{full3}, []string{"00", "1234"}, "seed-negative-weight", nil, st)
	// keys outside the property's domain (not even-length hex): every score is NaN
	c22case(ctx, def, abc, []c22set{full3}, []string{"abc", "zz", "12g4", "0x12", " 00"}, "seed-non-hex-keys", nil, st)
	// more than 12 nodes: sort.Sort leaves its insertion-sort path
	{
		pool := c22pool(r, 15, 1)
		c22case(ctx, def, pool, []c22set{c22mkset(r, c22seq(15), true)}, []string{"00", "7f3a", "ffff"}, "seed-15-nodes", nil, st)
	}
	// the configuration of lib/store/ca_store.go:553-567: volumes, keys "%02X", top 1
	{
		pool := []c22node{{"/data/vol1", 100}, {"/data/vol2", 100}, {"/data/vol3", 100}, {"/data/vol4", 50}}
		var keys []string
		for i := 0; i < 256; i += 17 {
			keys = append(keys, fmt.Sprintf("%02X", i))
		}
		c22case(ctx, def, pool, []c22set{{u: []int{0, 1, 2, 3}, u2: []int{3, 0, 2, 1}, topn: 1, xs: []int{0, 1, 2, 3}}}, keys, "seed-castore-volumes", nil, st)
	}

	// ---- generated blocks ----
	K := 16
	if thorough {
		K = 64
	}
	shardNext := 0
	shardStride := 1
	if !thorough {
		shardStride = 31 // quick: a stride sample of the shard space
	}
	shardOff := int(r.U64() % 65536)
	upperNext := 0
	for i := 0; i < ctx.N; i++ {
		rr := r.Fork()
		conf := def
		if rr.Chance(30) {
			conf = c22confs[rr.Intn(len(c22confs))]
		}
		var keys []string
		kind := ""
		full := true
		shardBlocks := 6
		if thorough {
			shardBlocks = 8
		}
		light := false
		switch m := i % 10; {
		case m < shardBlocks: // the shard space (all of it in thorough); mostly light blocks
			kind = "shard-keys"
			full = m == 0
			light = !full
			for j := 0; j < K; j++ {
				keys = append(keys, fmt.Sprintf("%04x", (shardOff+shardNext*shardStride)%65536))
				shardNext++
			}
		case m == shardBlocks && (!thorough || (i/10)%2 == 0):
			kind = "upper-2hex-keys"
			for j := 0; j < K; j++ {
				keys = append(keys, fmt.Sprintf("%02X", upperNext%256))
				upperNext++
			}
		case m < 9:
			kind = "long-keys"
			for j := 0; j < K; j++ {
				n := []int{32, 32, 32, 20, 1, 3, 64}[rr.Intn(7)]
				keys = append(keys, fmt.Sprintf("%x", rr.Bytes(n)))
			}
		default:
			kind = "mixed-malformed-keys"
			for j := 0; j < K; j++ {
				k := fmt.Sprintf("%x", rr.Bytes(rr.Range(0, 8)))
				switch rr.Intn(4) {
				case 0:
					k += "f" // odd length
				case 1:
					k = "g" + k + "h"
				case 2:
					k = strings.ToUpper(k)
				}
				keys = append(keys, k)
			}
		}
		p := rr.Range(1, 10)
		if rr.Chance(8) {
			p = rr.Range(13, 15)
		}
		if light && thorough {
			p = rr.Range(1, 6) // keeps the exhaustive sweep affordable
		}
		wkind := rr.Intn(3)
		pool := c22pool(rr, p, wkind)
		var tags []string
		if rr.Chance(3) && p >= 2 {
			// a tie on every key: two zero-weight nodes
			a, b := rr.Intn(p), rr.Intn(p)
			if a != b {
				pool[a].weight, pool[b].weight = 0, 0
				kind = "zero-weight-tie"
				tags = []string{"zero-weight-tie"}
			}
		}
		sets := []c22set{c22mkset(rr, c22seq(p), full)}
		if full && p >= 2 {
			sub := c22perm(rr, c22seq(p))[:rr.Range(1, p-1)]
			sets = append(sets, c22mkset(rr, sub, true))
		}
		c22case(ctx, conf, pool, sets, keys, kind, tags, st)
	}
	fmt.Printf("C22 driver: %d keys, %d (key,set) pairs explored; %d pairs with tied scores; %d keys with NaN scores\n",
		st.keys, st.pairs, st.tied, st.nan)
}
