// Command c22 hosts the C22 driver (public API of lib/hrw only).
package main

import "verifharness/hlib"

func main() { hlib.Main() }
