// Command c34 hosts the driver of property C34 (utils/httputil retry loop).
package main

import "verifharness/hlib"

func main() { hlib.Main() }
