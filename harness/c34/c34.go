package main

import (
	"bufio"
	"bytes"
	"errors"
	"fmt"
	"io"
	"net/http"
	"net/http/httptest"
	"os"
	"path/filepath"
	"regexp"
	"sort"
	"strconv"
	"strings"
	"sync"
	"testing/iotest"
	"time"

	"github.com/cenkalti/backoff"
	"github.com/uber/kraken/utils/httputil"
	"verifharness/hlib"
)

// C34: the retry loop of httputil.Send, driven through the public API.
//
// mode 0: Send(..., SendTransport(scripted RoundTripper)) - the round tripper plays the case's
//         script (how much of the body it reads, error or status) and records every request it
//         is handed; covers partial consumption and the https->http fallback.
// mode 1: Send against a local httptest server through a real http.Transport - the server reads
//         the whole body, records the request it received and answers with the scripted status
//         or drops the connection.
func init() { hlib.Register("C34", c34) }

var c34methods = []string{"GET", "HEAD", "POST", "PUT", "PATCH", "DELETE"}
var c34codes = []int{200, 201, 202, 204, 400, 403, 404, 409, 429, 500, 502, 503, 504}

type c34rt struct {
	read int // units of the body the transport reads; <0 = to EOF
	out  int // status code; <0 = transport error
}

type c34in struct {
	mode            int
	https, fallback bool
	accepted        []int // nil = SendAcceptedCodes not given (default {200})
	extra           []int
	valid           int // 0 valid, 1 bad url, 2 bad method
	method, url     int
	hdrs            [][2]int
	kind            int // 0 none, 1 replayable (GetBody), 2 stream
	sub             int // concrete reader type
	unit, blocks    int
	pre             int    // replay sub 3: bytes consumed from the reader before Send
	bodySeed        uint64 // content of the body
	raw             []byte // explicit content (unit 1), overrides bodySeed/blocks
	bo              []bool
	boKind          int // 0 scripted BackOff, 1 backoff.WithMaxRetries(ConstantBackOff(0), len(bo)), 2 no SendRetry
	script          []c34rt
}

type c34trip struct {
	https       bool
	method, url int
	hdrs        [][2]int
	extra       string
	read        []int
}

type c34run struct {
	mu     sync.Mutex
	in     *c34in
	data   []byte
	next   int
	trips  []c34trip
	prefix string // expected URL without scheme, up to the id
}

func (r *c34run) pop() c34rt {
	if r.next < len(r.in.script) {
		s := r.in.script[r.next]
		r.next++
		return s
	}
	r.next++
	return c34rt{-1, 200} // default_rt of the model
}

var c34hk = regexp.MustCompile(`^X-H([0-9])$`)
var c34hv = regexp.MustCompile(`^v([0-9]+)$`)
var c34url = regexp.MustCompile(`^/p([0-9]+)\?x=([0-9]+)$`)

func (r *c34run) record(https bool, method, uri string, h http.Header, body []byte) {
	t := c34trip{https: https, method: 999, url: 999}
	for i, m := range c34methods {
		if m == method {
			t.method = i
		}
	}
	if m := c34url.FindStringSubmatch(uri); m != nil && m[1] == m[2] {
		t.url, _ = strconv.Atoi(m[1])
	}
	var extra []string
	for k, vs := range h {
		if k == "Content-Length" || k == "Transfer-Encoding" {
			continue // body framing, not a header of the request as the caller wrote it
		}
		mk := c34hk.FindStringSubmatch(k)
		if mk != nil && len(vs) == 1 {
			if mv := c34hv.FindStringSubmatch(vs[0]); mv != nil {
				a, _ := strconv.Atoi(mk[1])
				b, _ := strconv.Atoi(mv[1])
				t.hdrs = append(t.hdrs, [2]int{a, b})
				continue
			}
		}
		extra = append(extra, k+"="+strings.Join(vs, ","))
	}
	sort.Slice(t.hdrs, func(i, j int) bool { return t.hdrs[i][0] < t.hdrs[j][0] })
	sort.Strings(extra)
	t.extra = strings.Join(extra, ";")
	t.read = c34decode(body, r.in.unit, r.data)
	r.trips = append(r.trips, t)
}

// scripted RoundTripper (mode 0)
type c34mock struct{ r *c34run }

func (m *c34mock) RoundTrip(req *http.Request) (*http.Response, error) {
	m.r.mu.Lock()
	defer m.r.mu.Unlock()
	step := m.r.pop()
	var got []byte
	if req.Body != nil {
		if step.read < 0 {
			got, _ = io.ReadAll(req.Body)
		} else {
			buf := make([]byte, step.read*m.r.in.unit)
			n, _ := io.ReadFull(req.Body, buf)
			got = buf[:n]
		}
		req.Body.Close()
	}
	uri := "?"
	if req.URL.Host == "c34.test" {
		uri = req.URL.RequestURI()
	}
	m.r.record(req.URL.Scheme == "https", req.Method, uri, req.Header, got)
	if step.out < 0 {
		return nil, errors.New("scripted transport error")
	}
	return &http.Response{
		Status: strconv.Itoa(step.out), StatusCode: step.out, Proto: "HTTP/1.1", ProtoMajor: 1, ProtoMinor: 1,
		Header: http.Header{}, Body: io.NopCloser(strings.NewReader("")), Request: req,
	}, nil
}

// local server (mode 1)
type c34server struct {
	mu  sync.Mutex
	cur *c34run
	ts  *httptest.Server
}

func (s *c34server) ServeHTTP(w http.ResponseWriter, req *http.Request) {
	s.mu.Lock()
	r := s.cur
	s.mu.Unlock()
	body, _ := io.ReadAll(req.Body)
	r.mu.Lock()
	step := r.pop()
	r.record(false, req.Method, req.URL.RequestURI(), req.Header, body)
	r.mu.Unlock()
	if step.out < 0 {
		if hj, ok := w.(http.Hijacker); ok {
			if conn, _, err := hj.Hijack(); err == nil {
				conn.Close()
				return
			}
		}
		panic(http.ErrAbortHandler)
	}
	w.WriteHeader(step.out)
}

// BackOff implementations
type c34bo struct {
	ans   []bool
	i     int
	calls int
	inner backoff.BackOff
}

func (b *c34bo) NextBackOff() time.Duration {
	b.calls++
	if b.inner != nil {
		return b.inner.NextBackOff()
	}
	if b.i < len(b.ans) {
		a := b.ans[b.i]
		b.i++
		if a {
			return 0
		}
	}
	return backoff.Stop
}
func (b *c34bo) Reset() {}

type c34closer struct {
	io.Reader
	closed bool
}

func (c *c34closer) Read(p []byte) (int, error) {
	if c.closed {
		return 0, errors.New("read after close")
	}
	return c.Reader.Read(p)
}
func (c *c34closer) Close() error { c.closed = true; return nil }

func c34body(seed uint64, unit, blocks int) []byte {
	r := hlib.NewRng(seed)
	data := make([]byte, 0, unit*blocks)
	for i := 0; i < blocks; i++ {
		if unit == 1 {
			data = append(data, byte(r.Intn(256)))
			continue
		}
		blk := r.Bytes(unit)
		blk[0], blk[1], blk[2] = byte(i), byte(i>>8), 0xC3
		data = append(data, blk...)
	}
	return data
}

// c34decode canonicalises bytes to units: unit 1 = the byte values; larger units = index of the
// block in the original body (blocks are pairwise distinct by construction), 999 = unknown
// block, 1000+n = trailing partial block of n bytes.
func c34decode(obs []byte, unit int, data []byte) []int {
	out := []int{}
	if unit <= 1 {
		for _, b := range obs {
			out = append(out, int(b))
		}
		return out
	}
	index := map[string]int{}
	for i := 0; (i+1)*unit <= len(data); i++ {
		index[string(data[i*unit:(i+1)*unit])] = i
	}
	for off := 0; off < len(obs); off += unit {
		end := off + unit
		if end > len(obs) {
			out = append(out, 1000+len(obs)-off)
			break
		}
		id, ok := index[string(obs[off:end])]
		if !ok {
			id = 999
		}
		out = append(out, id)
	}
	return out
}

func c34reader(ctx *hlib.Ctx, in *c34in, data []byte) (io.Reader, func()) {
	cleanup := func() {}
	switch in.kind {
	case 1:
		switch in.sub % 4 {
		case 0:
			return bytes.NewReader(data), cleanup
		case 1:
			return bytes.NewBuffer(append([]byte{}, data...)), cleanup
		case 2:
			return strings.NewReader(string(data)), cleanup
		default:
			pre := bytes.Repeat([]byte{0xEE}, in.pre)
			r := bytes.NewReader(append(pre, data...))
			io.CopyN(io.Discard, r, int64(in.pre))
			return r, cleanup
		}
	case 2:
		switch in.sub % 6 {
		case 0:
			h := len(data) / 2
			return io.MultiReader(bytes.NewReader(data[:h]), bytes.NewReader(data[h:])), cleanup
		case 1:
			return struct{ io.Reader }{bytes.NewReader(data)}, cleanup
		case 2:
			return bufio.NewReader(bytes.NewReader(data)), cleanup
		case 3:
			p := filepath.Join(ctx.Tmp, "c34body")
			if err := os.WriteFile(p, data, 0o644); err != nil {
				panic(err)
			}
			f, err := os.Open(p)
			if err != nil {
				panic(err)
			}
			return f, func() { f.Close() }
		case 4:
			return iotest.OneByteReader(bytes.NewReader(data)), cleanup
		default:
			return &c34closer{Reader: bytes.NewReader(data)}, cleanup
		}
	}
	return nil, cleanup
}

var c34retryable []int

func c34exec(ctx *hlib.Ctx, in *c34in, srv *c34server) (*c34run, string, string) {
	data := c34body(in.bodySeed, in.unit, in.blocks)
	if in.raw != nil {
		data = append([]byte{}, in.raw...)
	}
	if in.kind == 0 {
		data = nil
	}
	run := &c34run{in: in, data: data}
	var opts []httputil.SendOption
	body, cleanup := c34reader(ctx, in, data)
	defer cleanup()
	if in.kind != 0 {
		opts = append(opts, httputil.SendBody(body))
	}
	scheme, host := "http", "c34.test"
	if in.https {
		scheme = "https"
	}
	if in.mode == 1 {
		host = strings.TrimPrefix(srv.ts.URL, "http://")
		srv.mu.Lock()
		srv.cur = run
		srv.mu.Unlock()
		opts = append(opts, httputil.SendTransport(&http.Transport{DisableKeepAlives: true}))
	} else {
		opts = append(opts, httputil.SendTransport(&c34mock{run}))
	}
	rawurl := fmt.Sprintf("%s://%s/p%d?x=%d", scheme, host, in.url, in.url)
	method := c34methods[in.method]
	switch in.valid {
	case 1:
		rawurl = scheme + "://" + host + "/%zz"
	case 2:
		method = "BAD METHOD"
	}
	if len(in.hdrs) > 0 {
		h := map[string]string{}
		for _, kv := range in.hdrs {
			h[fmt.Sprintf("X-H%d", kv[0])] = fmt.Sprintf("v%d", kv[1])
		}
		opts = append(opts, httputil.SendHeaders(h))
	}
	if in.accepted != nil {
		opts = append(opts, httputil.SendAcceptedCodes(in.accepted...))
	}
	bo := &c34bo{ans: in.bo}
	switch in.boKind {
	case 1:
		bo.inner = backoff.WithMaxRetries(backoff.NewConstantBackOff(0), uint64(len(in.bo)))
	}
	if in.boKind != 2 {
		ro := []httputil.RetryOption{httputil.RetryBackoff(bo)}
		if len(in.extra) > 0 {
			ro = append(ro, httputil.RetryCodes(in.extra...))
		}
		opts = append(opts, httputil.SendRetry(ro...))
	}
	if in.https && in.fallback {
		opts = append(opts, httputil.EnableHTTPFallback())
	}
	resp, err := httputil.Send(method, rawurl, opts...)
	var res string
	switch {
	case err == nil:
		res = fmt.Sprintf("(ROk %d)", resp.StatusCode)
		resp.Body.Close()
	case httputil.IsNetworkError(err):
		res = "RNetErr"
	default:
		if se, ok := err.(httputil.StatusError); ok {
			res = fmt.Sprintf("(RStatus %d)", se.Status)
		} else {
			res = "RBadReq"
		}
	}
	nb := "None"
	if in.boKind != 2 {
		nb = hlib.Some(hlib.N(bo.calls))
	}
	return run, res, nb
}

func c34pairs(p [][2]int) string {
	s := make([]string, len(p))
	for i, kv := range p {
		s[i] = hlib.Pair(hlib.N(kv[0]), hlib.N(kv[1]))
	}
	return hlib.List(s)
}

func c34optN(v int) string {
	if v < 0 {
		return "None"
	}
	return hlib.Some(hlib.N(v))
}

func c34emit(ctx *hlib.Ctx, in *c34in, srv *c34server, kind string) {
	run, res, nb := c34exec(ctx, in, srv)
	acc := in.accepted
	if acc == nil {
		acc = []int{200}
	}
	extra := in.extra
	bol := in.bo
	if in.boKind == 2 {
		extra, bol = nil, nil
	}
	cfg := fmt.Sprintf("(mkcfg %s %s %s %s %s)", hlib.B(in.https), hlib.B(in.https && in.fallback), hlib.Ns(acc), hlib.Ns(extra), hlib.Ns(c34retryable))
	hd := append([][2]int{}, in.hdrs...)
	sort.Slice(hd, func(i, j int) bool { return hd[i][0] < hd[j][0] })
	req := fmt.Sprintf("(mkreq %s %d %d %s)", hlib.B(in.valid == 0), in.method, in.url, c34pairs(hd))
	kd := []string{"BNone", "BReplay", "BStream"}[in.kind]
	ids := c34decode(run.data, in.unit, run.data)
	bos := make([]string, len(bol))
	for i, b := range bol {
		bos[i] = hlib.B(b)
	}
	// the script as far as the environment was consulted: one entry per observed round trip
	// (entries never played cannot influence the implementation; if the model wanted more round
	// trips than were observed it disagrees on their number whatever the entries say)
	played := in.script
	if len(run.trips) < len(played) {
		played = played[:len(run.trips)]
	}
	scr := make([]string, len(played))
	var hist []string
	for i, s := range played {
		scr[i] = fmt.Sprintf("mkrt %s %s", c34optN(s.read), c34optN(s.out))
	}
	first := ""
	trips := make([]string, len(run.trips))
	maxread := 0
	for i, t := range run.trips {
		if i == 0 {
			first = t.extra
		}
		trips[i] = fmt.Sprintf("mkotrip %s %d %d %s %s %s", hlib.B(t.https), t.method, t.url, c34pairs(t.hdrs), hlib.B(t.extra == first), hlib.Ns(t.read))
		if len(t.read) > maxread {
			maxread = len(t.read)
		}
		if i < len(in.script) {
			s := in.script[i]
			switch {
			case s.out < 0:
				hist = append(hist, "trip-error")
			case s.out == 200:
				hist = append(hist, "trip-200")
			default:
				hist = append(hist, fmt.Sprintf("trip-%dxx", s.out/100))
			}
		} else {
			hist = append(hist, "trip-default")
		}
	}
	hist = append(hist, "body-"+kd, fmt.Sprintf("mode-%d", in.mode))
	coq := fmt.Sprintf("mkcase %s %s %s %s %s %s %s %s %s", cfg, req, kd, hlib.Ns(ids), hlib.List(bos), hlib.List(scr), hlib.List(trips), res, nb)
	// non-trivial: a request with a non-empty body met a retry-worthy outcome (it was re-sent, or
	// the helper had to decide not to re-send it)
	nt := in.kind != 0 && len(ids) > 0 && (len(run.trips) >= 2 || (in.boKind != 2 && bo0(nb) >= 1))
	ctx.Emit(hlib.Case{Coq: coq, NT: nt, Kind: kind, Hist: hist,
		Sample: map[string]interface{}{"mode": in.mode, "https": in.https, "fallback": in.fallback, "accepted": acc, "retry_codes": extra,
			"method": c34methods[in.method], "headers": len(in.hdrs), "body_kind": kd, "reader_type": in.sub, "body_units": len(ids), "unit_bytes": in.unit,
			"backoff": bol, "script": scr, "round_trips": len(run.trips), "result": res, "next_backoff_calls": nb}})
}

func bo0(nb string) int {
	if nb == "None" {
		return 0
	}
	v, _ := strconv.Atoi(strings.TrimSuffix(strings.TrimPrefix(nb, "(Some "), ")"))
	return v
}

func c34script(xs ...int) []c34rt {
	var s []c34rt
	for i := 0; i+1 < len(xs); i += 2 {
		s = append(s, c34rt{xs[i], xs[i+1]})
	}
	return s
}

func c34(ctx *hlib.Ctx) {
	for code := 100; code < 600; code++ {
		if httputil.IsRetryable(httputil.StatusError{Status: code}) {
			c34retryable = append(c34retryable, code)
		}
	}
	srv := &c34server{}
	srv.ts = httptest.NewServer(srv)
	defer srv.ts.Close()
	r := hlib.NewRng(ctx.Seed)
	T, F := true, false

	// ---- seeds: the _refuted witnesses of Proof/C34.v and the boundaries reasoned about
	base := func() *c34in {
		return &c34in{method: 2, url: 1, hdrs: [][2]int{{0, 1}, {2, 3}}, unit: 1, blocks: 3, raw: []byte{1, 2, 3}, kind: 2, sub: 1}
	}
	for mode := 0; mode < 2; mode++ {
		for sub := 0; sub < 6; sub++ {
			in := base() // stream body, 503 then 200: attempt 2 must not carry an empty body and report success
			in.mode, in.sub, in.bo, in.script = mode, sub, []bool{T}, c34script(-1, 503, -1, 200)
			c34emit(ctx, in, srv, "seed-stream-retry")
			in = base() // same after a transport error
			in.mode, in.sub, in.bo, in.script = mode, sub, []bool{T, T}, c34script(-1, -1, -1, -1, -1, 200)
			c34emit(ctx, in, srv, "seed-stream-retry-neterr")
		}
		for sub := 0; sub < 4; sub++ {
			in := base()
			in.mode, in.kind, in.sub, in.pre, in.bo, in.script = mode, 1, sub, 2, []bool{T, T}, c34script(-1, 503, -1, -1, -1, 200)
			c34emit(ctx, in, srv, "seed-replay-retry")
		}
		in := base() // accepted code that is also a RetryCodes code must not be retried
		in.mode, in.kind, in.sub, in.accepted, in.extra, in.bo, in.script = mode, 1, 0, []int{200}, []int{200}, []bool{T, T}, c34script(-1, 200, -1, 200, -1, 200)
		c34emit(ctx, in, srv, "seed-accepted-in-retrycodes")
		in = base() // accepted retryable code
		in.mode, in.kind, in.sub, in.accepted, in.bo, in.script = mode, 1, 0, []int{200, 503}, []bool{T}, c34script(-1, 503, -1, 200)
		c34emit(ctx, in, srv, "seed-accepted-503")
		in = base() // backoff exhausted
		in.mode, in.kind, in.sub, in.bo, in.script = mode, 1, 0, []bool{T, T}, c34script(-1, 503, -1, 502, -1, 504, -1, 200)
		c34emit(ctx, in, srv, "seed-backoff-exhausted")
		in = base() // Stop at once
		in.mode, in.kind, in.sub, in.bo, in.script = mode, 1, 0, []bool{F, T}, c34script(-1, 503, -1, 200)
		c34emit(ctx, in, srv, "seed-backoff-stop")
		in = base() // no SendRetry
		in.mode, in.kind, in.sub, in.boKind, in.script = mode, 1, 0, 2, c34script(-1, 503, -1, 200)
		c34emit(ctx, in, srv, "seed-no-retry-option")
		in = base() // empty bodies
		in.mode, in.kind, in.sub, in.raw, in.bo, in.script = mode, 1, 0, []byte{}, []bool{T}, c34script(-1, 503, -1, 200)
		c34emit(ctx, in, srv, "seed-empty-replay")
		in = base()
		in.mode, in.raw, in.bo, in.script = mode, []byte{}, []bool{T}, c34script(-1, 503, -1, 200)
		c34emit(ctx, in, srv, "seed-empty-stream")
		in = base()
		in.mode, in.kind, in.bo, in.script = mode, 0, []bool{T}, c34script(-1, 503, -1, 200)
		c34emit(ctx, in, srv, "seed-no-body")
	}
	for kind := 0; kind < 3; kind++ { // https -> http fallback after the https attempt consumed the body
		in := base()
		in.kind, in.sub, in.https, in.fallback, in.bo, in.script = kind, 0, T, T, []bool{T}, c34script(-1, -1, -1, 200)
		c34emit(ctx, in, srv, "seed-fallback")
		in = base()
		in.kind, in.sub, in.https, in.fallback, in.bo, in.script = kind, 0, T, T, []bool{T}, c34script(1, -1, -1, -1, 2, 503, -1, 200)
		c34emit(ctx, in, srv, "seed-fallback-retry")
		in = base()
		in.kind, in.sub, in.https, in.fallback, in.bo, in.script = kind, 0, T, F, []bool{T}, c34script(-1, -1, -1, 200)
		c34emit(ctx, in, srv, "seed-https-no-fallback")
	}
	{
		in := base() // partial consumption, then retry
		in.kind, in.sub, in.bo, in.script = 1, 0, []bool{T, T}, c34script(1, -1, 0, 503, -1, 200)
		c34emit(ctx, in, srv, "seed-partial-replay")
		in = base()
		in.bo, in.script = []bool{T, T}, c34script(1, -1, 0, 503, -1, 200)
		c34emit(ctx, in, srv, "seed-partial-stream")
		in = base() // witness of C34_partial_body_refuted_old
		in.bo, in.script = []bool{T}, c34script(1, -1, -1, 200)
		c34emit(ctx, in, srv, "seed-partial-stream")
		in = base() // witness of C34_accepted_retried_refuted_old
		in.kind, in.accepted, in.extra, in.bo, in.script = 0, []int{200}, []int{200}, []bool{T, T}, c34script(-1, 200, -1, 200, -1, 200)
		c34emit(ctx, in, srv, "seed-accepted-in-retrycodes")
		in = base()
		in.valid = 1
		c34emit(ctx, in, srv, "seed-bad-url")
		in = base()
		in.valid = 2
		c34emit(ctx, in, srv, "seed-bad-method")
		in = base() // 64 KiB bodies through the real transport
		in.raw = nil
		in.mode, in.kind, in.sub, in.unit, in.blocks, in.bo, in.script = 1, 1, 0, 1024, 64, []bool{T, T}, c34script(-1, 503, -1, -1, -1, 200)
		c34emit(ctx, in, srv, "seed-64k-replay")
		in = base()
		in.raw = nil
		in.mode, in.sub, in.unit, in.blocks, in.bo, in.script = 1, 0, 1024, 64, []bool{T, T}, c34script(-1, 503, -1, -1, -1, 200)
		c34emit(ctx, in, srv, "seed-64k-stream")
	}

	// ---- thorough: small scope, exhaustively: every script over 5 round-trip behaviours, of
	// length 3 without fallback (at most 3 attempts) and of length 4 with https->http fallback
	if ctx.Tier == "thorough" {
		alpha := []c34rt{{-1, -1}, {1, -1}, {-1, 503}, {-1, 200}, {-1, 404}}
		bos := [][]bool{{}, {T}, {T, T}, {F}, {T, F}}
		for kind := 0; kind < 3; kind++ {
			for sch := 0; sch < 3; sch++ {
				nb, ns := 5, 125
				if sch == 2 {
					nb, ns = 3, 625
				}
				for _, bo := range bos[:nb] {
					for a := 0; a < ns; a++ {
						script := []c34rt{alpha[a%5], alpha[a/5%5], alpha[a/25%5]}
						if sch == 2 {
							script = append(script, alpha[a/125])
						}
						in := &c34in{method: 3, url: 2, hdrs: [][2]int{{1, 1}}, unit: 1, blocks: 2, bodySeed: 3, kind: kind, sub: a % 6,
							https: sch > 0, fallback: sch == 2, bo: bo, script: script}
						c34emit(ctx, in, srv, "exhaustive")
					}
				}
			}
		}
	}

	// ---- random cases
	sizes := []int{0, 1, 2, 3, 7, 16, 64}
	for i := 0; i < ctx.N; i++ {
		in := &c34in{unit: 1, bodySeed: r.U64()}
		kindName := "random-mock"
		if r.Chance(25) {
			in.mode = 1
			kindName = "random-server"
		}
		if r.Chance(10) {
			in.valid = 1 + r.Intn(2)
			kindName = "malformed"
		}
		in.method, in.url = r.Intn(len(c34methods)), r.Intn(8)
		if in.mode == 1 && in.method < 2 {
			in.method = 2 + r.Intn(4) // GET/HEAD with a body through a real server: not what callers do
		}
		keys := []int{0, 1, 2, 3, 4, 5}
		for j := r.Intn(4); j > 0; j-- {
			k := r.Intn(len(keys))
			in.hdrs = append(in.hdrs, [2]int{keys[k], r.Intn(10)})
			keys = append(keys[:k], keys[k+1:]...)
		}
		switch k := r.Intn(100); {
		case k < 15:
			in.kind = 0
		case k < 58:
			in.kind = 1
		default:
			in.kind = 2
		}
		in.sub, in.pre = r.Intn(12), r.Intn(4)
		in.blocks = sizes[r.Intn(len(sizes))]
		if in.mode == 1 && r.Chance(15) {
			in.unit, in.blocks = 1024, []int{1, 4, 63, 64}[r.Intn(4)]
		}
		nbo := r.Intn(5)
		for j := 0; j < nbo; j++ {
			in.bo = append(in.bo, !r.Chance(12))
		}
		switch k := r.Intn(100); {
		case k < 15:
			in.boKind = 1
			if len(in.bo) == 0 {
				in.bo = []bool{true} // WithMaxRetries(_, 0) means unlimited
			}
			for j := range in.bo {
				in.bo[j] = true
			}
		case k < 23:
			in.boKind = 2
		}
		if r.Chance(40) {
			in.accepted = []int{}
			for _, c := range c34codes {
				if r.Chance(25) {
					in.accepted = append(in.accepted, c)
				}
			}
		}
		if r.Chance(25) {
			for _, c := range c34codes {
				if r.Chance(20) {
					in.extra = append(in.extra, c)
				}
			}
		}
		if in.mode == 0 && r.Chance(30) {
			in.https, in.fallback = true, r.Chance(70)
		}
		acc := in.accepted
		if acc == nil {
			acc = []int{200}
		}
		for j := 0; j < 2*(len(in.bo)+1)+1; j++ {
			var s c34rt
			switch k := r.Intn(100); {
			case k < 33:
				s.out = -1
			case k < 63:
				s.out = []int{429, 502, 503, 504}[r.Intn(4)]
			case k < 85 && len(acc) > 0:
				s.out = acc[r.Intn(len(acc))]
			default:
				s.out = c34codes[r.Intn(len(c34codes))]
			}
			s.read = -1
			if in.mode == 0 && r.Chance(30) {
				s.read = []int{0, 1, in.blocks - 1, in.blocks, in.blocks + 1}[r.Intn(5)]
				if s.read < 0 {
					s.read = 0
				}
			}
			in.script = append(in.script, s)
		}
		c34emit(ctx, in, srv, kindName)
	}
}
