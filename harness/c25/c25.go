package main

import (
	"fmt"
	"net/http"
	"net/http/httptest"
	"sort"
	"strings"
	"sync"
	"sync/atomic"
	"time"

	"github.com/uber/kraken/build-index/tagclient"
	"github.com/uber/kraken/core"
	"github.com/uber/kraken/origin/blobclient"
	"github.com/uber/kraken/utils/stringset"
	"verifharness/hlib"
)

// C25: the real stringset.Set.Sample, the real tagclient cluster client (do via ten of its methods,
// doOnce via CheckReadiness) and the real blobclient.Locations, against a pool of local HTTP servers
// that answer by script. Observables: the hosts contacted (server side, in order) and whether the
// call returned nil.
func init() { hlib.Register("C25", c25) }

const c25Pool = 32

// server modes
const (
	mOK     = iota // 200, valid body, Origin-Locations header
	mNet           // connection closed without a response -> httputil.NetworkError
	m500           // status error
	m404           // status error (tagclient.Has maps it to "false, nil")
	m503           // status error
	mNoLocs        // 200 without Origin-Locations header: an error for Locations only
)

var c25ModeName = [...]string{"200", "net", "500", "404", "503", "200-nolocs"}

const c25Digest = "sha256:e3b0c44298fc1c149afbf4c8996fb92427ae41e4649b934ca495991b7852b855"

type c25env struct {
	srv   [c25Pool]*httptest.Server
	addr  [c25Pool]string
	mode  [c25Pool]int32
	id    map[string]int
	mu    sync.Mutex
	log   []int
	hosts *c25list
	tag   tagclient.Client
	prov  blobclient.Provider
	dig   core.Digest
}

// c25list is the (changing) host list handed to both cluster clients.
type c25list struct {
	mu     sync.Mutex
	cur    []string
	failed []string
}

func (l *c25list) Resolve() stringset.Set {
	l.mu.Lock()
	defer l.mu.Unlock()
	return stringset.FromSlice(l.cur) // a fresh set per call, like hostlist's snapshot.Copy()
}

func (l *c25list) Failed(addr string) {
	l.mu.Lock()
	l.failed = append(l.failed, addr)
	l.mu.Unlock()
}

func c25newEnv() *c25env {
	e := &c25env{id: map[string]int{}, hosts: &c25list{}}
	for i := 0; i < c25Pool; i++ {
		i := i
		s := httptest.NewUnstartedServer(http.HandlerFunc(func(w http.ResponseWriter, r *http.Request) {
			e.mu.Lock()
			e.log = append(e.log, i)
			e.mu.Unlock()
			switch atomic.LoadInt32(&e.mode[i]) {
			case mNet:
				if hj, ok := w.(http.Hijacker); ok {
					if c, _, err := hj.Hijack(); err == nil {
						c.Close()
						return
					}
				}
				panic(http.ErrAbortHandler)
			case m500:
				w.WriteHeader(500)
				return
			case m404:
				w.WriteHeader(404)
				return
			case m503:
				w.WriteHeader(503)
				return
			case mOK:
				w.Header().Set("Origin-Locations", "o1:80,o2:80")
			}
			p := r.URL.Path
			switch {
			case strings.HasPrefix(p, "/list/"), strings.HasPrefix(p, "/repositories/"):
				w.Write([]byte(`{"size":1,"result":["t"]}`))
			case strings.HasPrefix(p, "/tags/") && r.Method == "GET":
				w.Write([]byte(c25Digest))
			case p == "/origin":
				w.Write([]byte("origin"))
			}
		}))
		// one connection per request: the transport never retries on a fresh connection, so one
		// attempt of the client is exactly one entry of the contact log
		s.Config.SetKeepAlivesEnabled(false)
		s.Start()
		e.srv[i] = s
		e.addr[i] = strings.TrimPrefix(s.URL, "http://")
		e.id[e.addr[i]] = i
	}
	e.tag = tagclient.NewClusterClient(e.hosts, nil)
	e.prov = blobclient.NewProvider()
	d, err := core.ParseSHA256Digest(c25Digest)
	if err != nil {
		panic(err)
	}
	e.dig = d
	return e
}

func (e *c25env) close() {
	for _, s := range e.srv {
		s.Close()
	}
}

var c25Methods = []string{"Put", "PutAndReplicate", "Get", "Has", "List", "ListWithPagination",
	"ListRepository", "ListRepositoryWithPagination", "Replicate", "Origin"}

// outcome of one request as the cluster-client loop sees it (0 Ok, 1 NetErr, 2 OtherErr)
func c25outcome(kind string, method string, mode int) int {
	switch mode {
	case mOK:
		return 0
	case mNet:
		return 1
	case mNoLocs:
		if kind == "loc" {
			return 2
		}
		return 0
	case m404:
		if kind == "do" && method == "Has" {
			return 0
		}
	}
	return 2
}

var c25OutName = [...]string{"Ok", "NetErr", "OtherErr"}

type c25req struct {
	kind   string // do | once | loc
	method string
	hosts  []int // ascending
	modes  map[int]int
}

// run one cluster request on the real code; returns the contact log and whether it returned nil
func (e *c25env) run(q c25req) ([]int, bool) {
	var cur []string
	for _, h := range q.hosts {
		cur = append(cur, e.addr[h])
	}
	e.hosts.mu.Lock()
	e.hosts.cur = cur
	e.hosts.failed = nil
	e.hosts.mu.Unlock()
	for i := 0; i < c25Pool; i++ {
		m, ok := q.modes[i]
		if !ok {
			m = mOK // a host outside the current list answers, so that contacting it is seen
		}
		atomic.StoreInt32(&e.mode[i], int32(m))
	}
	e.mu.Lock()
	e.log = nil
	e.mu.Unlock()
	var err error
	switch q.kind {
	case "loc":
		_, err = blobclient.Locations(e.prov, e.hosts, e.dig)
	case "once":
		err = e.tag.CheckReadiness()
	default:
		switch q.method {
		case "Put":
			err = e.tag.Put("t", e.dig)
		case "PutAndReplicate":
			err = e.tag.PutAndReplicate("t", e.dig)
		case "Get":
			_, err = e.tag.Get("t")
		case "Has":
			_, err = e.tag.Has("t")
		case "List":
			_, err = e.tag.List("p")
		case "ListWithPagination":
			_, err = e.tag.ListWithPagination("p", tagclient.ListFilter{})
		case "ListRepository":
			_, err = e.tag.ListRepository("r")
		case "ListRepositoryWithPagination":
			_, err = e.tag.ListRepositoryWithPagination("r", tagclient.ListFilter{})
		case "Replicate":
			err = e.tag.Replicate("t")
		case "Origin":
			_, err = e.tag.Origin()
		default:
			panic("method " + q.method)
		}
	}
	e.mu.Lock()
	log := append([]int{}, e.log...)
	e.mu.Unlock()
	return log, err == nil
}

func c25kindCoq(k string) string {
	switch k {
	case "do":
		return "KDo"
	case "once":
		return "KOnce"
	}
	return "KLoc"
}

func (e *c25env) emitReq(ctx *hlib.Ctx, q c25req, stream string) {
	// every request is local and answers at once; a call that took seconds ran into one of the
	// client's send timeouts (5-60 s) on an overloaded machine, which would turn a scripted success
	// into a network error: re-run, and give up on the case (inconclusive) rather than judge it
	var log []int
	var ok bool
	incon := true
	for try := 0; try < 3 && incon; try++ {
		t0 := time.Now()
		log, ok = e.run(q)
		incon = time.Since(t0) > 2*time.Second
	}
	var ocs, ocsS []string
	for _, h := range q.hosts {
		o := c25outcome(q.kind, q.method, q.modes[h])
		ocs = append(ocs, hlib.Pair(hlib.N(h), c25OutName[o]))
		ocsS = append(ocsS, fmt.Sprintf("%d:%s", h, c25ModeName[q.modes[h]]))
	}
	in := fmt.Sprintf("(IReq %s %s %s)", c25kindCoq(q.kind), hlib.Ns(q.hosts), hlib.List(ocs))
	out := fmt.Sprintf("(OReq %s %s)", hlib.Ns(log), hlib.B(ok))
	hist := []string{q.kind}
	if q.kind == "do" {
		hist = append(hist, "do:"+q.method)
	}
	hist = append(hist, fmt.Sprintf("contacted=%d", len(log)))
	ctx.Emit(hlib.Case{Coq: "mkcase " + in + " " + out, NT: len(log) >= 1, Kind: stream, Key: in, Hist: hist, Incon: incon,
		Sample: map[string]interface{}{"call": q.kind + ":" + q.method, "hosts": q.hosts, "server_modes": ocsS,
			"contacted_in_order": log, "returned_nil": ok}})
}

func c25name(i int) string { return fmt.Sprintf("host-%03d:80", i) }

func c25emitSample(ctx *hlib.Ctx, ids []int, n int, stream string) {
	sort.Ints(ids)
	var xs []string
	back := map[string]int{}
	for _, i := range ids {
		xs = append(xs, c25name(i))
		back[c25name(i)] = i
	}
	s := stringset.FromSlice(xs)
	res := s.Sample(n)
	var out []int
	for x := range res {
		if i, ok := back[x]; ok {
			out = append(out, i)
		} else {
			out = append(out, 9999)
		}
	}
	sort.Ints(out)
	in := fmt.Sprintf("(ISample %s %s)", hlib.Ns(ids), hlib.Z(int64(n)))
	ctx.Emit(hlib.Case{Coq: "mkcase " + in + " (OSample " + hlib.Ns(out) + ")", NT: len(ids) >= 1 && n >= 1,
		Kind: stream, Key: in, Hist: []string{"sample", fmt.Sprintf("sampled=%d", len(out))},
		Sample: map[string]interface{}{"call": "Sample", "set": ids, "n": n, "result_sorted": out}})
}

func c25pick(r *hlib.Rng, k, universe int) []int {
	p := make([]int, universe)
	for i := range p {
		p[i] = i
	}
	for i := 0; i < k; i++ {
		j := i + r.Intn(universe-i)
		p[i], p[j] = p[j], p[i]
	}
	out := append([]int{}, p[:k]...)
	sort.Ints(out)
	return out
}

func c25seq(k int) []int {
	out := make([]int, k)
	for i := range out {
		out[i] = i
	}
	return out
}

// concrete server mode for an abstract outcome (0 ok, 1 net, 2 other error)
func c25modeFor(r *hlib.Rng, kind, method string, o int) int {
	switch o {
	case 0:
		if kind != "loc" && r.Chance(15) {
			return mNoLocs
		}
		if kind == "do" && method == "Has" && r.Chance(30) {
			return m404
		}
		return mOK
	case 1:
		return mNet
	}
	c := []int{m500, m503, m404}
	if kind == "do" && method == "Has" {
		c = []int{m500, m503}
	}
	if kind == "loc" {
		c = []int{m500, m503, m404, mNoLocs}
	}
	return c[r.Intn(len(c))]
}

func c25(ctx *hlib.Ctx) {
	r := hlib.NewRng(ctx.Seed)
	e := c25newEnv()
	defer e.close()

	all := func(hosts []int, m int) map[int]int {
		mm := map[int]int{}
		for _, h := range hosts {
			mm[h] = m
		}
		return mm
	}
	// ---- seeds (always run): the refutation witnesses of Properties/C25.v and the boundaries
	c25emitSample(ctx, []int{0, 1, 2, 3}, 3, "seed-sample-witness") // C25_sample_prefix_refuted
	c25emitSample(ctx, nil, 3, "seed-sample-boundary")
	c25emitSample(ctx, []int{7}, 0, "seed-sample-boundary")
	c25emitSample(ctx, []int{7}, 1, "seed-sample-boundary")
	c25emitSample(ctx, []int{1, 2, 3}, 3, "seed-sample-boundary")
	c25emitSample(ctx, []int{1, 2, 3}, 4, "seed-sample-boundary")
	c25emitSample(ctx, []int{1, 2, 3}, 2, "seed-sample-boundary")
	c25emitSample(ctx, c25seq(30), 1, "seed-sample-boundary")
	c25emitSample(ctx, c25seq(30), 3, "seed-sample-boundary")
	e.emitReq(ctx, c25req{"do", "Get", []int{0, 1, 2, 3}, all([]int{0, 1, 2, 3}, mNet)}, "seed-do-witness") // C25_do_prefix_refuted
	e.emitReq(ctx, c25req{"loc", "", []int{0, 1, 2, 3}, all([]int{0, 1, 2, 3}, m500)}, "seed-loc-witness")  // C25_locations_prefix_refuted
	for _, k := range []string{"do", "once", "loc"} {
		e.emitReq(ctx, c25req{k, "Put", nil, nil}, "seed-empty-list")
		e.emitReq(ctx, c25req{k, "Put", []int{5}, all([]int{5}, mOK)}, "seed-boundary")
		e.emitReq(ctx, c25req{k, "Put", []int{5}, all([]int{5}, mNet)}, "seed-boundary")
		e.emitReq(ctx, c25req{k, "Put", []int{3, 4, 5}, all([]int{3, 4, 5}, mNet)}, "seed-boundary")
		e.emitReq(ctx, c25req{k, "Put", []int{3, 4, 5}, all([]int{3, 4, 5}, m500)}, "seed-boundary")
		e.emitReq(ctx, c25req{k, "Put", c25seq(30), all(c25seq(30), mNet)}, "seed-all-down-30")
		e.emitReq(ctx, c25req{k, "Put", c25seq(30), all(c25seq(30), m503)}, "seed-all-5xx-30")
		e.emitReq(ctx, c25req{k, "Put", c25seq(30), all(c25seq(30), mOK)}, "seed-all-up-30")
	}

	// ---- thorough: exhaustive small scope (validates the correspondence; not the proof)
	if ctx.Tier == "thorough" {
		for sz := 0; sz <= 12; sz++ {
			for n := 0; n <= 14; n++ {
				c25emitSample(ctx, c25pick(r, sz, 48), n, "exhaustive-sample")
			}
		}
		for _, k := range []string{"do", "loc", "once"} {
			maxk := 5
			if k == "once" {
				maxk = 4
			}
			for sz := 0; sz <= maxk; sz++ {
				total := 1
				for i := 0; i < sz; i++ {
					total *= 3
				}
				for pat := 0; pat < total; pat++ {
					hosts := c25pick(r, sz, c25Pool)
					method := c25Methods[r.Intn(len(c25Methods))]
					modes := map[int]int{}
					p := pat
					for _, h := range hosts {
						modes[h] = c25modeFor(r, k, method, p%3)
						p /= 3
					}
					e.emitReq(ctx, c25req{k, method, hosts, modes}, "exhaustive-"+k)
				}
			}
		}
	}

	// ---- random stream
	sizes := []int{0, 1, 2, 3, 4, 5, 8, 9}
	for i := 0; i < ctx.N; i++ {
		c := r.Intn(100)
		if c < 25 {
			var sz int
			switch {
			case r.Chance(50):
				sz = sizes[r.Intn(len(sizes))]
			case r.Chance(30):
				sz = []int{16, 17, 30, 40}[r.Intn(4)]
			default:
				sz = r.Range(0, 40)
			}
			var n int
			switch r.Intn(8) {
			case 0:
				n = 0
			case 1:
				n = 1
			case 2:
				n = 3
			case 3:
				n = sz
			case 4:
				n = sz + 1
			case 5:
				n = sz - 1
			default:
				n = r.Range(0, 45)
			}
			if n < 0 {
				n = 0
			}
			c25emitSample(ctx, c25pick(r, sz, 48), n, "random-sample")
			continue
		}
		kind := "do"
		switch {
		case c < 60:
			kind = "do"
		case c < 85:
			kind = "loc"
		default:
			kind = "once"
		}
		method := c25Methods[r.Intn(len(c25Methods))]
		var sz int
		switch {
		case r.Chance(8):
			sz = 0
		case r.Chance(55):
			sz = r.Range(1, 6)
		default:
			sz = r.Range(7, 30)
		}
		hosts := c25pick(r, sz, c25Pool)
		// failure pattern: per-case probabilities of (net, other error); the rest succeed
		var pn, pe int
		stream := ""
		switch d := r.Intn(100); {
		case d < 20:
			pn, pe, stream = 100, 0, "all-down"
		case d < 30:
			pn, pe, stream = 0, 100, "all-erroring"
		case d < 55:
			pn, pe, stream = 85, 5, "mostly-down"
		case d < 70:
			pn, pe, stream = 45, 45, "mostly-failing"
		case d < 85:
			pn, pe, stream = 33, 33, "mixed"
		default:
			pn, pe, stream = 5, 5, "mostly-up"
		}
		modes := map[int]int{}
		for _, h := range hosts {
			o := 0
			if x := r.Intn(100); x < pn {
				o = 1
			} else if x < pn+pe {
				o = 2
			}
			modes[h] = c25modeFor(r, kind, method, o)
		}
		e.emitReq(ctx, c25req{kind, method, hosts, modes}, "random-"+kind+"-"+stream)
	}
}
