// Command c25 drives stringset.Sample, tagclient's cluster client and blobclient.Locations.
package main

import "verifharness/hlib"

func main() { hlib.Main() }
