// Command c04 is the crash-recovery driver of property C04 (agent download / cache directories).
// The same binary is re-executed under strace as the traced child (VERIF_C04_CHILD set).
package main

import (
	"os"

	"verifharness/hlib"
)

func main() {
	if os.Getenv("VERIF_C04_CHILD") != "" {
		c04child()
		return
	}
	hlib.Main()
}
