package main

// C04 crash-recovery driver.  One case = one download history of ONE blob on the real agent storage
// stack (store.CADownloadStore + agentstorage.TorrentArchive/Torrent), executed in a child process under
// strace (hlib/fstrace), plus, for EVERY prefix of the history's mutating file-system calls, the
// observables of the REAL recovery run on a fresh directory into which exactly that prefix was
// replayed ("the disk after a crash at that point"): a new CADownloadStore, (GetTorrent,) CreateTorrent,
// then a restarted download that writes every missing piece.
// The Coq side (K.Run.C04_run) compares (1) the normalised call trace with the model program's trace,
// (2) the per-operation observables of the history and (3) every crash point's recovery observables
// with the model; and evaluates the property oracle C04_check on the implementation's observables.

import (
	"encoding/json"
	"errors"
	"fmt"
	"io"
	"os"
	"os/exec"
	"path/filepath"
	"sort"
	"strconv"
	"strings"
	"sync"

	"github.com/uber-go/tally"
	"go.uber.org/zap"

	"github.com/uber/kraken/core"
	"github.com/uber/kraken/lib/store"
	"github.com/uber/kraken/lib/torrent/storage"
	"github.com/uber/kraken/lib/torrent/storage/agentstorage"
	"github.com/uber/kraken/lib/torrent/storage/piecereader"
	"github.com/uber/kraken/utils/log"

	"verifharness/hlib"
	"verifharness/hlib/fstrace"
)

func init() { hlib.Register("C04", c04driver) }

// ---------------------------------------------------------------- histories

const (
	c04Create  = iota // TorrentArchive.CreateTorrent
	c04Get            // TorrentArchive.GetTorrent
	c04Write          // Torrent.WritePiece
	c04Restart        // clean restart: close the store, open a new one (in-memory state lost)
	c04Probe          // no operation (observation only)
)

var c04names = []string{"CreateTorrent", "GetTorrent", "WritePiece", "Restart", "Probe"}

type c04op struct {
	K    int    `json:"k"`
	Idx  int    `json:"idx,omitempty"`
	Data []byte `json:"data,omitempty"`
}

type c04hist struct {
	Blob []byte  `json:"blob"`
	PL   int     `json:"pl"`  // piece length
	WPS  int     `json:"wps"` // store WritePartSize (0 = unlimited)
	Ops  []c04op `json:"ops"`
	// Orders the file system / Go runtime choose (readdir order of RemoveAll, map order of the sidecar
	// copies in Move) are explored by permuting the recorded calls before replaying:
	// 0 canonical (sorted), 1 random, 2 reversed.
	Perm int    `json:"perm"`
	Seed uint64 `json:"seed"`
	// recovery script: GetTorrent before CreateTorrent?  order of the restarted writes (0 asc, 1 desc, 2 random)
	RecGet   bool `json:"recget"`
	RecOrder int  `json:"recorder"`
}

// out kinds
const (
	c04OK = iota
	c04Err
	c04PieceComplete
	c04NoTorrent
)

var c04outs = []string{"OOk", "OErr", "OPieceComplete", "ONoTorrent"}

type c04obs struct {
	Out      int      `json:"out"`
	Complete bool     `json:"complete"`
	Pieces   [][]byte `json:"pieces"` // per piece of the metainfo: bytes served by GetPieceReader, nil = piece not complete
	Has      []bool   `json:"has"`
	Cache    []byte   `json:"cache"`
	HasCache bool     `json:"hascache"`
}

type c04childOut struct {
	Obs []c04obs `json:"obs"`
	MI  []byte   `json:"mi"`
}

const c04ns = "verif-ns"

type c04mic struct{ mi *core.MetaInfo }

func (m c04mic) Download(namespace string, d core.Digest) (*core.MetaInfo, error) {
	if d != m.mi.Digest() {
		return nil, errors.New("unexpected digest")
	}
	return m.mi, nil
}

// c04sess is one agent process (or one recovery) working on the directories under dir.
type c04sess struct {
	dir  string
	h    *c04hist
	d    core.Digest
	mi   *core.MetaInfo
	cads *store.CADownloadStore
	arch *agentstorage.TorrentArchive
	tor  storage.Torrent
}

func c04metainfo(h *c04hist) (core.Digest, *core.MetaInfo, error) {
	d, err := core.NewDigester().FromBytes(h.Blob)
	if err != nil {
		return core.Digest{}, nil, err
	}
	mi, err := core.NewMetaInfoFromBytes(d, h.Blob, int64(h.PL))
	return d, mi, err
}

func c04newSess(dir string, h *c04hist) (*c04sess, error) {
	d, mi, err := c04metainfo(h)
	if err != nil {
		return nil, err
	}
	s := &c04sess{dir: dir, h: h, d: d, mi: mi}
	return s, s.open()
}

func (s *c04sess) open() error {
	if s.cads != nil {
		s.cads.Close()
	}
	s.tor = nil
	cads, err := store.NewCADownloadStore(store.CADownloadStoreConfig{
		DownloadDir:     filepath.Join(s.dir, "download"),
		CacheDir:        filepath.Join(s.dir, "cache"),
		DownloadCleanup: store.CleanupConfig{Disabled: true},
		CacheCleanup:    store.CleanupConfig{Disabled: true},
		WritePartSize:   s.h.WPS,
	}, tally.NoopScope)
	if err != nil {
		return err
	}
	s.cads = cads
	s.arch = agentstorage.NewTorrentArchive(tally.NoopScope, cads, c04mic{s.mi})
	return nil
}

func (s *c04sess) close() {
	if s.cads != nil {
		s.cads.Close()
	}
}

func (s *c04sess) apply(o c04op) int {
	switch o.K {
	case c04Create, c04Get:
		var t storage.Torrent
		var err error
		if o.K == c04Create {
			t, err = s.arch.CreateTorrent(c04ns, s.d)
		} else {
			t, err = s.arch.GetTorrent(c04ns, s.d)
		}
		if err != nil {
			// the agent keeps the torrent it had
			return c04Err
		}
		s.tor = t
		return c04OK
	case c04Write:
		if s.tor == nil {
			return c04NoTorrent
		}
		err := s.tor.WritePiece(piecereader.NewBuffer(o.Data), o.Idx)
		switch {
		case err == nil:
			return c04OK
		case err == storage.ErrPieceComplete:
			return c04PieceComplete
		}
		return c04Err
	case c04Restart:
		if err := s.open(); err != nil {
			return c04Err
		}
		return c04OK
	case c04Probe:
		return c04OK
	}
	panic("bad op")
}

func (s *c04sess) cachePath() string {
	hex := s.d.Hex()
	return filepath.Join(s.dir, "cache", hex[0:2], hex[2:4], hex, "data")
}

// observe projects what the property speaks about: what the torrent reports (complete, which
// pieces it would serve and their bytes) and the bytes of the cache file.
func (s *c04sess) observe(out int) c04obs {
	ob := c04obs{Out: out}
	n := s.mi.NumPieces()
	ob.Pieces = make([][]byte, n)
	ob.Has = make([]bool, n)
	if s.tor != nil {
		ob.Complete = s.tor.Complete()
		for i := 0; i < n; i++ {
			if !s.tor.HasPiece(i) {
				continue
			}
			ob.Has[i] = true
			r, err := s.tor.GetPieceReader(i)
			if err != nil {
				ob.Pieces[i] = []byte("GETPIECEREADER-ERROR")
				continue
			}
			b, err := io.ReadAll(r)
			r.Close()
			if err != nil {
				b = []byte("PIECE-READ-ERROR")
			}
			ob.Pieces[i] = b
		}
	}
	if b, err := os.ReadFile(s.cachePath()); err == nil {
		ob.Cache, ob.HasCache = b, true
	}
	return ob
}

// served reads the blob the way the agent serves it (store API); must agree with the cache file.
func (s *c04sess) served() ([]byte, bool) {
	r, err := s.cads.Cache().GetFileReader(s.d.Hex())
	if err != nil {
		return nil, false
	}
	defer r.Close()
	b, err := io.ReadAll(r)
	if err != nil {
		return []byte("CACHE-READ-ERROR"), true
	}
	return b, true
}

func c04piece(h *c04hist, i int) []byte {
	lo := i * h.PL
	hi := lo + h.PL
	if lo > len(h.Blob) {
		lo = len(h.Blob)
	}
	if hi > len(h.Blob) {
		hi = len(h.Blob)
	}
	return h.Blob[lo:hi]
}

// ---------------------------------------------------------------- the traced child

func c04child() {
	log.SetGlobalLogger(zap.NewNop().Sugar())
	var h c04hist
	b, err := os.ReadFile(os.Getenv("VERIF_C04_HIST"))
	if err != nil {
		panic(err)
	}
	if err := json.Unmarshal(b, &h); err != nil {
		panic(err)
	}
	base := os.Getenv("VERIF_C04_BASE")
	s, err := c04newSess(filepath.Join(base, "store"), &h)
	if err != nil {
		panic(err)
	}
	var out c04childOut
	out.MI, _ = s.mi.Serialize()
	for i, o := range h.Ops {
		r := s.apply(o)
		out.Obs = append(out.Obs, s.observe(r))
		// operation boundary marker (a traced call outside the store directory)
		if err := os.Mkdir(filepath.Join(base, "marks", strconv.Itoa(i)), 0o755); err != nil {
			panic(err)
		}
	}
	s.close()
	ob, _ := json.Marshal(out)
	if err := os.WriteFile(os.Getenv("VERIF_C04_OUT"), ob, 0o644); err != nil {
		panic(err)
	}
}

// ---------------------------------------------------------------- trace normalisation

type c04loc struct {
	area  string // ADl / ACa
	depth int    // 1,2 shard dirs, 3 blob dir, 4 file
	fname string
	ok    bool
}

var c04fnames = map[string]string{"data": "FData", "_last_access_time": "FLat", "_torrentmeta": "FMeta", "_status": "FStatus"}

func c04locate(root, p, hex string) c04loc {
	rel := fstrace.Rel(root, p)
	if rel == "" || rel == "." {
		return c04loc{}
	}
	parts := strings.Split(rel, "/")
	var l c04loc
	switch parts[0] {
	case "download":
		l.area = "ADl"
	case "cache":
		l.area = "ACa"
	default:
		return c04loc{}
	}
	l.depth = len(parts) - 1
	want := []string{hex[0:2], hex[2:4], hex}
	if l.depth < 1 || l.depth > 4 {
		return c04loc{}
	}
	for i := 1; i <= l.depth && i <= 3; i++ {
		if parts[i] != want[i-1] {
			return c04loc{}
		}
	}
	if l.depth == 4 {
		fn, ok := c04fnames[parts[4]]
		if !ok {
			return c04loc{}
		}
		l.fname = fn
	}
	l.ok = true
	return l
}

type c04ncall struct {
	coq   string
	kind  string // Mkdir Open Write Trunc Rename Unlink Rmdir Bad
	area  string
	fname string
}

// c04normalise maps the mutating calls to terms of the model's `call` type. Sequential writes carry
// the offset the descriptor had (tracked from the open / lseek).
func c04normalise(calls []fstrace.Call, root, hex string) []c04ncall {
	var out []c04ncall
	fdOff := map[int]int64{}
	bad := func(c fstrace.Call) c04ncall {
		return c04ncall{coq: fmt.Sprintf("CBad %d", c.Seq), kind: "Bad"}
	}
	for _, c := range calls {
		switch c.Name {
		case "open", "openat", "creat":
			fdOff[c.Fd] = 0
		case "lseek":
			if c.Whence == 0 {
				fdOff[c.Fd] = c.Off
			} else {
				fdOff[c.Fd] = -1 << 40
			}
		case "read":
			fdOff[c.Fd] += c.Ret
		}
		if !c.Mutating {
			continue
		}
		var n c04ncall
		switch c.Name {
		case "mkdir", "mkdirat":
			l := c04locate(root, c.Path, hex)
			if !l.ok || l.depth > 3 {
				n = bad(c)
				break
			}
			n = c04ncall{coq: fmt.Sprintf("CMkdir %s %d", l.area, l.depth), kind: "Mkdir", area: l.area}
		case "open", "openat", "creat":
			l := c04locate(root, c.Path, hex)
			// every creating open of the anchored code is O_CREAT|O_TRUNC without O_EXCL
			if !l.ok || l.depth != 4 || strings.Contains(c.Flags, "O_EXCL") || !strings.Contains(c.Flags, "O_CREAT") || !strings.Contains(c.Flags, "O_TRUNC") {
				n = bad(c)
				break
			}
			n = c04ncall{coq: fmt.Sprintf("COpen %s %s", l.area, l.fname), kind: "Open", area: l.area, fname: l.fname}
		case "write", "pwrite64":
			l := c04locate(root, c.FdPath, hex)
			off := c.Off
			if c.Name == "write" {
				off = fdOff[c.Fd]
				fdOff[c.Fd] += c.Ret
			}
			if !l.ok || l.depth != 4 || off < 0 {
				n = bad(c)
				break
			}
			n = c04ncall{coq: fmt.Sprintf("CWrite %s %s %d %s", l.area, l.fname, off, hlib.Bytes(c.Data)), kind: "Write", area: l.area, fname: l.fname}
		case "ftruncate":
			l := c04locate(root, c.FdPath, hex)
			if !l.ok || l.depth != 4 || c.Off < 0 {
				n = bad(c)
				break
			}
			n = c04ncall{coq: fmt.Sprintf("CTrunc %s %s %d", l.area, l.fname, c.Off), kind: "Trunc", area: l.area, fname: l.fname}
		case "rename", "renameat", "renameat2":
			a, b := c04locate(root, c.Path, hex), c04locate(root, c.Path2, hex)
			if !a.ok || !b.ok || a.depth != 4 || b.depth != 4 || a.fname != "FData" || b.fname != "FData" || a.area != "ADl" || b.area != "ACa" {
				n = bad(c)
				break
			}
			n = c04ncall{coq: "CRename", kind: "Rename", area: "ACa", fname: "FData"}
		case "unlink", "unlinkat", "rmdir":
			l := c04locate(root, c.Path, hex)
			isDir := c.Name == "rmdir" || strings.Contains(c.Flags, "AT_REMOVEDIR")
			switch {
			case !l.ok:
				n = bad(c)
			case isDir && l.depth == 3:
				n = c04ncall{coq: fmt.Sprintf("CRmdir %s", l.area), kind: "Rmdir", area: l.area}
			case !isDir && l.depth == 4:
				n = c04ncall{coq: fmt.Sprintf("CUnlink %s %s", l.area, l.fname), kind: "Unlink", area: l.area, fname: l.fname}
			default:
				n = bad(c)
			}
		default:
			n = bad(c)
		}
		out = append(out, n)
	}
	return out
}

// ---------------------------------------------------------------- order exploration

func c04perm(n, mode int, r *hlib.Rng) []int {
	p := make([]int, n)
	for i := range p {
		p[i] = i
	}
	switch mode {
	case 1:
		for j := n - 1; j > 0; j-- {
			k := r.Intn(j + 1)
			p[j], p[k] = p[k], p[j]
		}
	case 2:
		for i, j := 0, n-1; i < j; i, j = i+1, j-1 {
			p[i], p[j] = p[j], p[i]
		}
	}
	return p
}

// c04permute reorders, inside one operation's calls, (a) the per-sidecar copy groups of Move
// (file_entry.go:389-405 ranges over a Go map) and (b) the file unlinks of RemoveAll (readdir order).
// Groups are first sorted by file name (so that the result depends on the seed only), then permuted.
// A copy group starts at the read-only open of a download sidecar (os.ReadFile) and contains an open
// of the same sidecar in the cache directory; the groups immediately precede the rename.
func c04permute(group []fstrace.Call, root, hex string, mode int, r *hlib.Rng) []fstrace.Call {
	ren := -1
	for i, c := range group {
		if strings.HasPrefix(c.Name, "rename") {
			ren = i
			break
		}
	}
	if ren < 0 {
		return group
	}
	var starts []int
	for i := 0; i < ren; i++ {
		c := group[i]
		if (c.Name == "openat" || c.Name == "open") && !c.Mutating && !strings.Contains(c.Flags, "O_RDWR") && !strings.Contains(c.Flags, "O_WRONLY") {
			if l := c04locate(root, c.Path, hex); l.ok && l.area == "ADl" && l.depth == 4 && l.fname != "FData" {
				starts = append(starts, i)
			}
		}
	}
	type seg struct {
		name  string
		calls []fstrace.Call
	}
	var segs []seg
	first := ren
	for j := len(starts) - 1; j >= 0; j-- {
		lo, hi := starts[j], first
		name := c04locate(root, group[lo].Path, hex).fname
		valid := false
		for _, c := range group[lo:hi] {
			if c.Name == "openat" || c.Name == "open" {
				if l := c04locate(root, c.Path, hex); l.ok && l.area == "ACa" && l.fname == name {
					valid = true
				}
			}
		}
		if !valid {
			break
		}
		segs = append(segs, seg{name, append([]fstrace.Call{}, group[lo:hi]...)})
		first = lo
	}
	sort.SliceStable(segs, func(i, j int) bool { return segs[i].name < segs[j].name })
	out := append([]fstrace.Call{}, group[:first]...)
	for _, i := range c04perm(len(segs), mode, r) {
		out = append(out, segs[i].calls...)
	}
	post := append([]fstrace.Call{}, group[ren:]...)
	var idx []int
	for i, c := range post {
		if c.Mutating && (c.Name == "unlink" || c.Name == "unlinkat") && !strings.Contains(c.Flags, "AT_REMOVEDIR") {
			idx = append(idx, i)
		}
	}
	vals := make([]fstrace.Call, len(idx))
	for j, i := range idx {
		vals[j] = post[i]
	}
	sort.SliceStable(vals, func(i, j int) bool { return filepath.Base(vals[i].Path) < filepath.Base(vals[j].Path) })
	p := c04perm(len(vals), mode, r)
	for j, i := range idx {
		post[i] = vals[p[j]]
	}
	out = append(out, post...)
	for i := range out {
		out[i].Seq = group[i].Seq
	}
	return out
}

// ---------------------------------------------------------------- Coq printing

func c04optBytes(ok bool, b []byte) string {
	if !ok {
		return "None"
	}
	return hlib.Some(hlib.Bytes(b))
}

func c04obsCoq(o c04obs) string {
	var ps []string
	for i := range o.Pieces {
		ps = append(ps, c04optBytes(o.Has[i], o.Pieces[i]))
	}
	return fmt.Sprintf("mkobs %s %s %s %s", c04outs[o.Out], hlib.B(o.Complete), hlib.List(ps), c04optBytes(o.HasCache, o.Cache))
}

func c04fnList(fs []string) string { return hlib.List(fs) }

func c04opCoq(o c04op, mv, rm []string) string {
	switch o.K {
	case c04Create:
		return fmt.Sprintf("OCreate %s %s", c04fnList(mv), c04fnList(rm))
	case c04Get:
		return fmt.Sprintf("OGet %s %s", c04fnList(mv), c04fnList(rm))
	case c04Write:
		return fmt.Sprintf("OWrite %d %s %s %s", o.Idx, hlib.Bytes(o.Data), c04fnList(mv), c04fnList(rm))
	case c04Restart:
		return "ORestart"
	}
	return "OProbe"
}

// ---------------------------------------------------------------- recovery on a crashed directory

// c04recover runs the real recovery on dir: a new store, then the script Probe, (GetTorrent,)
// CreateTorrent, WritePiece of every piece the recovered torrent reports missing (right data).
// Returns the Coq list of (op, obs) pairs and summary flags.
func c04recover(dir string, h *c04hist, r *hlib.Rng) (coq string, complete bool, safe bool) {
	s, err := c04newSess(dir, h)
	if err != nil {
		return "[(OProbe, mkobs OErr false [] None)]", false, true
	}
	defer s.close()
	var items []string
	safe = true
	step := func(o c04op) c04obs {
		ob := s.observe(s.apply(o))
		items = append(items, "("+c04opCoq(o, nil, nil)+", "+c04obsCoq(ob)+")")
		if ob.HasCache && string(ob.Cache) != string(h.Blob) {
			safe = false
		}
		return ob
	}
	step(c04op{K: c04Probe})
	if h.RecGet {
		step(c04op{K: c04Get})
	}
	ob := step(c04op{K: c04Create})
	if ob.Complete {
		complete = true
	}
	if s.tor != nil {
		missing := s.tor.MissingPieces()
		switch h.RecOrder {
		case 1:
			for i, j := 0, len(missing)-1; i < j; i, j = i+1, j-1 {
				missing[i], missing[j] = missing[j], missing[i]
			}
		case 2:
			for j := len(missing) - 1; j > 0; j-- {
				k := r.Intn(j + 1)
				missing[j], missing[k] = missing[k], missing[j]
			}
		}
		for _, i := range missing {
			step(c04op{K: c04Write, Idx: i, Data: c04piece(h, i)})
		}
		// what the agent would serve must be the cache file
		ob := s.observe(c04OK)
		sb, sok := s.served()
		if sok != ob.HasCache || (sok && string(sb) != string(ob.Cache)) {
			items = append(items, "(OProbe, mkobs OErr false [] None)") // disagreement made visible
		}
	}
	return hlib.List(items), complete, safe
}

// ---------------------------------------------------------------- one case

type c04result struct {
	cs  hlib.Case
	err error
}

const c04emptyCase = "mkcase (mkc [] 1 0 [] []) [] [] [] []"

func c04run(tmp string, idx int, h c04hist, kind string) c04result {
	fail := func(err error) c04result {
		return c04result{cs: hlib.Case{Coq: c04emptyCase, Kind: kind, Incon: true, Sample: map[string]string{"error": err.Error()}}, err: err}
	}
	base := filepath.Join(tmp, fmt.Sprintf("h%d", idx))
	root := filepath.Join(base, "store")
	histPath, outPath, logPath := base+".hist.json", base+".out.json", base+".strace"
	defer os.RemoveAll(base)
	defer os.Remove(histPath)
	defer os.Remove(outPath)
	defer os.Remove(logPath)
	hb, _ := json.Marshal(h)
	if err := os.MkdirAll(tmp, 0o755); err != nil {
		return fail(err)
	}
	if err := os.WriteFile(histPath, hb, 0o644); err != nil {
		return fail(err)
	}
	self, err := os.Executable()
	if err != nil {
		return fail(err)
	}
	mkdirs := func(r string) error {
		for _, d := range []string{"download", "cache"} {
			if err := os.MkdirAll(filepath.Join(r, d), 0o755); err != nil {
				return err
			}
		}
		return nil
	}
	var all []fstrace.Call
	var ob []byte
	for try := 0; ; try++ {
		os.RemoveAll(base)
		if err := mkdirs(root); err != nil {
			return fail(err)
		}
		os.MkdirAll(filepath.Join(base, "marks"), 0o755)
		os.Remove(outPath)
		cmd := exec.Command(self)
		cmd.Env = append(os.Environ(), "VERIF_C04_CHILD=1", "VERIF_C04_HIST="+histPath, "VERIF_C04_OUT="+outPath, "VERIF_C04_BASE="+base)
		cmd.Dir = tmp
		var cerr error
		all, cerr = fstrace.Record(cmd, base, logPath)
		if cerr == nil {
			ob, cerr = os.ReadFile(outPath)
		}
		if cerr == nil {
			break
		}
		if try >= 2 {
			// the real stack died on this history (panic): reported as a disagreement, not skipped
			return c04result{cs: hlib.Case{Coq: "mkcase (mkc [] 1 0 [] [1]) [OProbe] [] [CBad 0] []", Kind: kind + "-child-died",
				Tags: []string{"child-died"}, Sample: map[string]string{"error": cerr.Error(), "history": string(hb)}}, err: cerr}
		}
	}
	var co c04childOut
	if err := json.Unmarshal(ob, &co); err != nil {
		return fail(err)
	}
	d, _, err := c04metainfo(&h)
	if err != nil {
		return fail(err)
	}
	hex := d.Hex()
	// split at the markers
	var perOp [][]fstrace.Call
	var cur []fstrace.Call
	marksDir := filepath.Join(base, "marks")
	for _, c := range all {
		p := c.Path
		if p == "" {
			p = strings.TrimSuffix(c.FdPath, " (deleted)")
		}
		if p == marksDir || strings.HasPrefix(p, marksDir+"/") {
			if c.Mutating {
				perOp = append(perOp, cur)
				cur = nil
			}
			continue
		}
		if fstrace.Rel(root, p) == "" && !(c.Path2 != "" && fstrace.Rel(root, c.Path2) != "") {
			continue
		}
		cur = append(cur, c)
	}
	for _, c := range cur {
		if c.Mutating {
			return fail(fmt.Errorf("mutating call after the last marker: %s %s", c.Name, c.Path))
		}
	}
	if len(perOp) != len(h.Ops) || len(co.Obs) != len(h.Ops) {
		return fail(fmt.Errorf("marker split: %d groups, %d observations for %d ops", len(perOp), len(co.Obs), len(h.Ops)))
	}
	pr := hlib.NewRng(h.Seed ^ 0x5ca1ab1e)
	var storeCalls []fstrace.Call
	for i := range perOp {
		perOp[i] = c04permute(perOp[i], root, hex, h.Perm, pr)
		storeCalls = append(storeCalls, perOp[i]...)
	}
	storeCalls = append(storeCalls, cur...)
	scratch := filepath.Join(base, "selfcheck")
	if err := mkdirs(scratch); err != nil {
		return fail(err)
	}
	if err := fstrace.SelfCheck(storeCalls, root, scratch); err != nil {
		return fail(fmt.Errorf("fstrace self-check: %v", err))
	}
	os.RemoveAll(scratch)
	// ops with their oracles (the orders the implementation chose), the normalised trace
	var sops, sobs, strace, hist []string
	committed := false
	for i, o := range h.Ops {
		nc := c04normalise(perOp[i], root, hex)
		var mv, rm []string
		seen := map[string]bool{}
		for _, c := range nc {
			strace = append(strace, c.coq)
			if c.area == "ACa" && c.fname != "" && c.fname != "FData" && !seen[c.fname] {
				seen[c.fname] = true
				mv = append(mv, c.fname)
			}
			if c.area == "ADl" && c.kind == "Unlink" {
				rm = append(rm, c.fname)
			}
		}
		sops = append(sops, c04opCoq(o, mv, rm))
		sobs = append(sobs, c04obsCoq(co.Obs[i]))
		hist = append(hist, c04names[o.K])
		if co.Obs[i].Complete {
			committed = true
		}
	}
	nm := fstrace.NumMutating(storeCalls)
	if nm != len(strace) {
		return fail(fmt.Errorf("mutating calls %d != normalised %d", nm, len(strace)))
	}
	// every crash point: replay the prefix, run the real recovery, observe
	var recs []string
	var tags []string
	unsafe, recComplete := 0, 0
	rr := hlib.NewRng(h.Seed ^ 0xc0ffee)
	for k := 0; k <= nm; k++ {
		rdir := filepath.Join(base, fmt.Sprintf("r%d", k))
		if err := mkdirs(rdir); err != nil {
			return fail(err)
		}
		done, err := fstrace.Replay(storeCalls, k, root, rdir)
		if err != nil || done != k {
			return fail(fmt.Errorf("replay of prefix %d: done=%d err=%v", k, done, err))
		}
		rc, complete, safe := c04recover(rdir, &h, rr)
		if !safe {
			unsafe++
		}
		if complete {
			recComplete++
		}
		recs = append(recs, rc)
		os.RemoveAll(rdir)
	}
	if unsafe > 0 {
		tags = append(tags, "wrong-cached-blob")
	}
	// LAT bytes = payload of the first write to a `_last_access_time` file
	var lat []byte
	for _, c := range storeCalls {
		if c.Mutating && (c.Name == "write" || c.Name == "pwrite64") && strings.HasSuffix(strings.TrimSuffix(c.FdPath, " (deleted)"), "/_last_access_time") {
			lat = c.Data
			break
		}
	}
	cfgq := fmt.Sprintf("(mkc %s %d %d %s %s)", hlib.Bytes(h.Blob), h.PL, h.WPS, hlib.Bytes(co.MI), hlib.Bytes(lat))
	var rle []string
	for i := 0; i < len(recs); {
		j := i
		for j < len(recs) && recs[j] == recs[i] {
			j++
		}
		rle = append(rle, fmt.Sprintf("(%d%%nat, %s)", j-i, recs[i]))
		i = j
	}
	// the serialised metainfo and the blob occur many times: bind them once
	body := fmt.Sprintf("mkcase %s %s %s %s %s", cfgq, hlib.List(sops), hlib.List(sobs), hlib.List(strace), hlib.List(rle))
	if len(co.MI) > 0 {
		body = strings.ReplaceAll(body, hlib.Bytes(co.MI), "mi")
	}
	if len(h.Blob) > 2 {
		body = strings.ReplaceAll(body, hlib.Bytes(h.Blob), "bl")
	}
	coq := fmt.Sprintf("let mi : bytes := %s in let bl : bytes := %s in %s", hlib.Bytes(co.MI), hlib.Bytes(h.Blob), body)
	sample := map[string]interface{}{"blob": h.Blob, "piece_length": h.PL, "write_part_size": h.WPS, "ops": sops, "trace": strace,
		"crash_points": nm + 1, "recoveries_reporting_complete": recComplete, "recovered_at_last_point": recs[len(recs)-1]}
	return c04result{cs: hlib.Case{Coq: coq, NT: committed && nm >= 10, Kind: kind, Hist: hist, Tags: tags, Sample: sample,
		Key: cfgq + hlib.List(sops)}}
}

// ---------------------------------------------------------------- driver

func c04driver(ctx *hlib.Ctx) {
	log.SetGlobalLogger(zap.NewNop().Sugar())
	r := hlib.NewRng(ctx.Seed)
	type job struct {
		h    c04hist
		kind string
	}
	var jobs []job
	cr := c04op{K: c04Create}
	get := c04op{K: c04Get}
	rs := c04op{K: c04Restart}
	wr := func(h *c04hist, i int) c04op { return c04op{K: c04Write, Idx: i, Data: append([]byte{}, c04piece(h, i)...)} }
	bad := func(h *c04hist, i int) c04op {
		d := append([]byte{}, c04piece(h, i)...)
		if len(d) > 0 {
			d[len(d)-1] ^= 0x5a
		}
		return c04op{K: c04Write, Idx: i, Data: d}
	}
	add := func(kind string, blob string, pl, wps, perm int, recget bool, recorder int, f func(h *c04hist) []c04op) {
		h := c04hist{Blob: []byte(blob), PL: pl, WPS: wps, Perm: perm, Seed: r.U64(), RecGet: recget, RecOrder: recorder}
		h.Ops = f(&h)
		jobs = append(jobs, job{h, kind})
	}

	// ---- seeds: the refutation witnesses and the boundaries reasoned about
	// C04_empty_status_refuted / C04_empty_metainfo_refuted: the crash points between the creation and
	// the first write of `_status` / `_torrentmeta` lie inside CreateTorrent
	add("seed-create-only", "abcdefg", 3, 0, 0, false, 0, func(h *c04hist) []c04op { return []c04op{cr} })
	add("seed-create-only-get", "abcdefg", 3, 0, 0, true, 1, func(h *c04hist) []c04op { return []c04op{cr} })
	// typical download, in order
	add("seed-typical", "0123456789", 4, 0, 0, false, 0, func(h *c04hist) []c04op { return []c04op{cr, wr(h, 0), wr(h, 1), wr(h, 2)} })
	// out of order, chunked piece writes, reversed orders, GetTorrent in the recovery
	add("seed-out-of-order-chunked", "0123456789ab", 4, 3, 2, true, 1, func(h *c04hist) []c04op { return []c04op{cr, wr(h, 2), wr(h, 0), wr(h, 1)} })
	// corrupted payload first (data written, status not), duplicates, index out of range, short payload
	add("seed-bad-pieces", "kraken-blob", 4, 0, 1, false, 2, func(h *c04hist) []c04op {
		return []c04op{cr, bad(h, 1), wr(h, 1), wr(h, 1), c04op{K: c04Write, Idx: 3, Data: []byte("x")}, c04op{K: c04Write, Idx: 0, Data: []byte("abc")}, bad(h, 2), wr(h, 0), wr(h, 2)}
	})
	// clean restarts in the middle, second CreateTorrent in the same process, GetTorrent
	add("seed-restarts", "ABCDEFGHI", 3, 2, 1, true, 0, func(h *c04hist) []c04op {
		return []c04op{get, cr, wr(h, 1), rs, wr(h, 0), get, wr(h, 0), cr, cr, wr(h, 2), rs, cr, wr(h, 0), wr(h, 0), rs, get, cr}
	})
	// empty blob: zero pieces, an empty status vector is legitimate and the torrent commits at once
	add("seed-empty-blob", "", 4, 0, 0, false, 0, func(h *c04hist) []c04op { return []c04op{cr, rs, cr} })
	// one piece; blob shorter than / equal to / one more than the piece length
	add("seed-one-piece", "xy", 4, 0, 2, true, 0, func(h *c04hist) []c04op { return []c04op{cr, wr(h, 0)} })
	add("seed-exact-multiple", "12345678", 4, 4, 1, false, 1, func(h *c04hist) []c04op { return []c04op{cr, wr(h, 1), wr(h, 0)} })
	add("seed-one-more", "123456789", 4, 1, 0, false, 2, func(h *c04hist) []c04op { return []c04op{cr, wr(h, 2), wr(h, 1), wr(h, 0)} })
	// all-zero blob: the zero-filled download file already equals the blob
	add("seed-zero-blob", "\x00\x00\x00\x00\x00", 2, 0, 0, false, 0, func(h *c04hist) []c04op { return []c04op{cr, wr(h, 0), wr(h, 1), wr(h, 2)} })
	// download completed, then the agent goes on (restart, reopen, writes rejected)
	add("seed-after-commit", "commit!", 7, 0, 1, true, 0, func(h *c04hist) []c04op { return []c04op{cr, wr(h, 0), wr(h, 0), cr, rs, get, wr(h, 0), rs, cr} })

	for i := 0; i < ctx.N; i++ {
		n := r.Range(1, 5) // pieces
		pl := r.Range(1, 4)
		if r.Chance(15) {
			pl = r.Range(5, 9)
		}
		ln := (n-1)*pl + r.Range(1, pl)
		if r.Chance(4) {
			ln = 0
		}
		blob := r.Bytes(ln)
		for j := range blob {
			if blob[j] == 0 {
				blob[j] = 1
			}
		}
		if r.Chance(5) {
			for j := range blob {
				blob[j] = 0
			}
		}
		h := c04hist{Blob: blob, PL: pl, WPS: []int{0, 0, 1, 2, 3}[r.Intn(5)], Perm: r.Intn(3), Seed: r.U64(), RecGet: r.Chance(35), RecOrder: r.Intn(3)}
		np := 0
		if ln > 0 {
			np = (ln + pl - 1) / pl
		}
		kind := "random"
		malformed := i%6 == 5
		if malformed {
			kind = "random-malformed"
		}
		// a download: CreateTorrent, then the pieces in a random order; sprinkled with corrupted payloads,
		// duplicates, clean restarts (after which the torrent is re-created) and, in the malformed stream,
		// out-of-range indices, wrong lengths, writes without a torrent
		ops := []c04op{cr}
		if r.Chance(10) {
			ops = []c04op{get, cr}
		}
		order := c04perm(np, 1, r)
		if r.Chance(25) {
			order = c04perm(np, 0, r)
		}
		stop := np
		if r.Chance(20) && np > 0 {
			stop = r.Intn(np) // an unfinished download
		}
		for j, pi := range order {
			if j >= stop {
				break
			}
			if r.Chance(15) {
				ops = append(ops, bad(&h, pi))
			}
			if malformed && r.Chance(30) {
				switch r.Intn(3) {
				case 0:
					ops = append(ops, c04op{K: c04Write, Idx: np + r.Intn(2), Data: c04piece(&h, 0)})
				case 1:
					ops = append(ops, c04op{K: c04Write, Idx: pi, Data: append(append([]byte{}, c04piece(&h, pi)...), 7)})
				default:
					ops = append(ops, rs, wr(&h, pi), cr)
				}
			}
			ops = append(ops, wr(&h, pi))
			if r.Chance(12) {
				ops = append(ops, wr(&h, order[r.Intn(j+1)])) // duplicate
			}
			if r.Chance(12) {
				ops = append(ops, rs, []c04op{cr, get}[r.Intn(2)])
				if r.Chance(30) {
					ops = append(ops, cr)
				}
			}
		}
		if r.Chance(25) {
			ops = append(ops, rs, cr)
		}
		h.Ops = ops
		jobs = append(jobs, job{h, kind})
	}

	res := make([]c04result, len(jobs))
	var wg sync.WaitGroup
	sem := make(chan struct{}, 8)
	for i := range jobs {
		wg.Add(1)
		sem <- struct{}{}
		go func(i int) {
			defer wg.Done()
			defer func() { <-sem }()
			res[i] = c04run(ctx.Tmp, i, jobs[i].h, jobs[i].kind)
		}(i)
	}
	wg.Wait()
	var errs []string
	for i := range res {
		if res[i].err != nil {
			errs = append(errs, fmt.Sprintf("case %d (%s): %v", i, jobs[i].kind, res[i].err))
		}
		ctx.Emit(res[i].cs)
	}
	sort.Strings(errs)
	if len(errs) > 0 {
		fmt.Fprintln(os.Stderr, "C04 driver: inconclusive cases:\n"+strings.Join(errs, "\n"))
	}
}
