// Command genconsts regenerates coq/Gen/Cnn_consts.v from the current source of the repository.
//
//	genconsts <repo> <spec.json> <out.v>
//
// `func` is "name" or "Recv.name" (method of Recv or *Recv).
// spec.json: {"items":[{"name":"coq_name","file":"rel/path.go","kind":"const","ident":"goIdent"}, ...]}
// kinds:
//
//	const    value of a package-level const/var `ident` whose initialiser is an integer constant
//	         expression (literals, + - * / << >>, parentheses, iota, other constants of the same file,
//	         time.Nanosecond..time.Hour); emitted as Z
//	callarg  the `arg`-th argument of the `nth` call (in source order) to a function or method named
//	         `ident` inside function `func` (optional); integer constant expression; emitted as Z
//	string   value of a package-level const/var `ident` that is a string literal (or a call whose first
//	         argument is one, e.g. regexp.MustCompile("...")); with `func` set: the string literal that is
//	         argument `arg` of the `nth` call to `ident` inside function `func`; emitted as list N (bytes)
//	strlit   the `nth` string literal (source order) inside function `func`; emitted as list N
//	field    value of field `ident` in the composite literal returned by / assigned in function `func`
//	         (first match in source order); integer constant expression; emitted as Z
//	cmp      operand `arg` (0 = left, 1 = right) of the `nth` comparison (> >= < <= == !=, source order)
//	         inside function `func`; integer constant expression; emitted as Z
package main

import (
	"encoding/json"
	"fmt"
	"go/ast"
	"go/parser"
	"go/token"
	"math/big"
	"os"
	"path/filepath"
	"strconv"
	"strings"
)

type item struct {
	Name  string `json:"name"`
	File  string `json:"file"`
	Kind  string `json:"kind"`
	Ident string `json:"ident"`
	Func  string `json:"func"`
	Arg   int    `json:"arg"`
	Nth   int    `json:"nth"`
}

var timeUnits = map[string]int64{"Nanosecond": 1, "Microsecond": 1e3, "Millisecond": 1e6, "Second": 1e9, "Minute": 60e9, "Hour": 3600e9}

type env struct {
	file   *ast.File
	consts map[string]struct {
		e    ast.Expr
		iota int
	}
}

func newEnv(f *ast.File) *env {
	e := &env{file: f, consts: map[string]struct {
		e    ast.Expr
		iota int
	}{}}
	for _, d := range f.Decls {
		gd, ok := d.(*ast.GenDecl)
		if !ok || (gd.Tok != token.CONST && gd.Tok != token.VAR) {
			continue
		}
		var last []ast.Expr
		for i, s := range gd.Specs {
			vs := s.(*ast.ValueSpec)
			vals := vs.Values
			if len(vals) == 0 && gd.Tok == token.CONST {
				vals = last
			} else {
				last = vals
			}
			for j, n := range vs.Names {
				if j < len(vals) {
					e.consts[n.Name] = struct {
						e    ast.Expr
						iota int
					}{vals[j], i}
				}
			}
		}
	}
	return e
}

func (e *env) eval(x ast.Expr, iota int, depth int) (*big.Int, error) {
	if depth > 50 {
		return nil, fmt.Errorf("too deep")
	}
	switch v := x.(type) {
	case *ast.BasicLit:
		if v.Kind == token.INT {
			n, ok := new(big.Int).SetString(strings.ReplaceAll(v.Value, "_", ""), 0)
			if !ok {
				return nil, fmt.Errorf("bad int %s", v.Value)
			}
			return n, nil
		}
		if v.Kind == token.FLOAT {
			f, err := strconv.ParseFloat(v.Value, 64)
			if err == nil && f == float64(int64(f)) {
				return big.NewInt(int64(f)), nil
			}
		}
		return nil, fmt.Errorf("unsupported literal %s", v.Value)
	case *ast.ParenExpr:
		return e.eval(v.X, iota, depth+1)
	case *ast.UnaryExpr:
		a, err := e.eval(v.X, iota, depth+1)
		if err != nil {
			return nil, err
		}
		if v.Op == token.SUB {
			return new(big.Int).Neg(a), nil
		}
		if v.Op == token.ADD {
			return a, nil
		}
		return nil, fmt.Errorf("unsupported unary %s", v.Op)
	case *ast.BinaryExpr:
		a, err := e.eval(v.X, iota, depth+1)
		if err != nil {
			return nil, err
		}
		b, err := e.eval(v.Y, iota, depth+1)
		if err != nil {
			return nil, err
		}
		switch v.Op {
		case token.ADD:
			return new(big.Int).Add(a, b), nil
		case token.SUB:
			return new(big.Int).Sub(a, b), nil
		case token.MUL:
			return new(big.Int).Mul(a, b), nil
		case token.QUO:
			if b.Sign() == 0 {
				return nil, fmt.Errorf("division by zero")
			}
			return new(big.Int).Quo(a, b), nil
		case token.SHL:
			return new(big.Int).Lsh(a, uint(b.Int64())), nil
		case token.SHR:
			return new(big.Int).Rsh(a, uint(b.Int64())), nil
		}
		return nil, fmt.Errorf("unsupported op %s", v.Op)
	case *ast.Ident:
		if v.Name == "iota" {
			return big.NewInt(int64(iota)), nil
		}
		if c, ok := e.consts[v.Name]; ok {
			return e.eval(c.e, c.iota, depth+1)
		}
		return nil, fmt.Errorf("unknown identifier %s", v.Name)
	case *ast.SelectorExpr:
		if p, ok := v.X.(*ast.Ident); ok && p.Name == "time" {
			if u, ok := timeUnits[v.Sel.Name]; ok {
				return big.NewInt(u), nil
			}
		}
		if p, ok := v.X.(*ast.Ident); ok && p.Name == "memsize" {
			m := map[string]int64{"B": 1, "KB": 1 << 10, "MB": 1 << 20, "GB": 1 << 30, "TB": 1 << 40, "bit": 1, "Kbit": 1 << 10, "Mbit": 1 << 20, "Gbit": 1 << 30}
			if u, ok := m[v.Sel.Name]; ok {
				return big.NewInt(u), nil
			}
		}
		return nil, fmt.Errorf("unsupported selector")
	case *ast.CallExpr: // conversions like int64(5), time.Duration(3)
		if len(v.Args) == 1 {
			return e.eval(v.Args[0], iota, depth+1)
		}
	}
	return nil, fmt.Errorf("unsupported expression %T", x)
}

func strLit(x ast.Expr) (string, bool) {
	switch v := x.(type) {
	case *ast.BasicLit:
		if v.Kind == token.STRING {
			s, err := strconv.Unquote(v.Value)
			return s, err == nil
		}
	case *ast.CallExpr:
		if len(v.Args) >= 1 {
			return strLit(v.Args[0])
		}
	case *ast.BinaryExpr:
		if v.Op == token.ADD {
			a, ok1 := strLit(v.X)
			b, ok2 := strLit(v.Y)
			return a + b, ok1 && ok2
		}
	case *ast.ParenExpr:
		return strLit(v.X)
	}
	return "", false
}

func calleeName(c *ast.CallExpr) string {
	switch f := c.Fun.(type) {
	case *ast.Ident:
		return f.Name
	case *ast.SelectorExpr:
		return f.Sel.Name
	}
	return ""
}

// scope finds function `fn` in the file: "name" (first declaration of that name) or
// "Recv.name" (method of receiver type Recv or *Recv). "" = the whole file.
func scope(f *ast.File, fn string) ast.Node {
	if fn == "" {
		return f
	}
	for _, d := range f.Decls {
		fd, ok := d.(*ast.FuncDecl)
		if !ok {
			continue
		}
		name := fd.Name.Name
		if fd.Recv != nil && len(fd.Recv.List) == 1 {
			t := fd.Recv.List[0].Type
			if st, ok := t.(*ast.StarExpr); ok {
				t = st.X
			}
			if id, ok := t.(*ast.Ident); ok && fn == id.Name+"."+name {
				return fd
			}
		}
		if name == fn {
			return fd
		}
	}
	return nil
}

func zlit(n *big.Int) string {
	if n.Sign() < 0 {
		return "(" + n.String() + ")%Z"
	}
	return n.String() + "%Z"
}

func main() {
	if len(os.Args) != 4 {
		fmt.Fprintln(os.Stderr, "usage: genconsts <repo> <spec.json> <out.v>")
		os.Exit(2)
	}
	repo, specPath, out := os.Args[1], os.Args[2], os.Args[3]
	raw, err := os.ReadFile(specPath)
	if err != nil {
		panic(err)
	}
	var spec struct {
		Items []item `json:"items"`
	}
	if err := json.Unmarshal(raw, &spec); err != nil {
		panic(err)
	}
	var b strings.Builder
	b.WriteString("(* GENERATED on every run by harness/tools/genconsts from the repository's current source. Do not edit. *)\n")
	b.WriteString("From Coq Require Import List NArith ZArith.\nImport ListNotations.\n\n")
	fset := token.NewFileSet()
	files := map[string]*ast.File{}
	fail := false
	for _, it := range spec.Items {
		f, ok := files[it.File]
		if !ok {
			f, err = parser.ParseFile(fset, filepath.Join(repo, it.File), nil, 0)
			if err != nil {
				fmt.Fprintf(os.Stderr, "genconsts: %s: %v\n", it.Name, err)
				fail = true
				continue
			}
			files[it.File] = f
		}
		e := newEnv(f)
		emitErr := func(err error) {
			fmt.Fprintf(os.Stderr, "genconsts: %s (%s %s in %s): %v\n", it.Name, it.Kind, it.Ident, it.File, err)
			fail = true
		}
		switch it.Kind {
		case "const":
			c, ok := e.consts[it.Ident]
			if !ok {
				emitErr(fmt.Errorf("identifier not found"))
				continue
			}
			n, err := e.eval(c.e, c.iota, 0)
			if err != nil {
				emitErr(err)
				continue
			}
			fmt.Fprintf(&b, "(* %s: %s *)\nDefinition %s : Z := %s.\n", it.File, it.Ident, it.Name, zlit(n))
		case "string":
			if it.Func != "" {
				// string literal argument of the nth call to `ident` inside function `func`
				sc := scope(f, it.Func)
				if sc == nil {
					emitErr(fmt.Errorf("function %s not found", it.Func))
					continue
				}
				k, done := 0, false
				ast.Inspect(sc, func(n ast.Node) bool {
					if done {
						return false
					}
					if c, ok := n.(*ast.CallExpr); ok && calleeName(c) == it.Ident {
						if k == it.Nth {
							done = true
							if it.Arg >= len(c.Args) {
								emitErr(fmt.Errorf("call has %d args", len(c.Args)))
								return false
							}
							s, ok := strLit(c.Args[it.Arg])
							if !ok {
								emitErr(fmt.Errorf("argument is not a string literal"))
								return false
							}
							parts := make([]string, len(s))
							for i := 0; i < len(s); i++ {
								parts[i] = strconv.Itoa(int(s[i]))
							}
							fmt.Fprintf(&b, "(* %s: %s, call #%d of %s, argument %d = %q *)\nDefinition %s : list N := [%s]%%N.\n", it.File, it.Func, it.Nth, it.Ident, it.Arg, s, it.Name, strings.Join(parts, "; "))
							return false
						}
						k++
					}
					return true
				})
				if !done {
					emitErr(fmt.Errorf("call #%d of %s not found in %s", it.Nth, it.Ident, it.Func))
				}
				continue
			}
			c, ok := e.consts[it.Ident]
			if !ok {
				emitErr(fmt.Errorf("identifier not found"))
				continue
			}
			s, ok := strLit(c.e)
			if !ok {
				emitErr(fmt.Errorf("not a string literal"))
				continue
			}
			parts := make([]string, len(s))
			for i := 0; i < len(s); i++ {
				parts[i] = strconv.Itoa(int(s[i]))
			}
			fmt.Fprintf(&b, "(* %s: %s = %q *)\nDefinition %s : list N := [%s]%%N.\n", it.File, it.Ident, s, it.Name, strings.Join(parts, "; "))
		case "callarg":
			sc := scope(f, it.Func)
			if sc == nil {
				emitErr(fmt.Errorf("function %s not found", it.Func))
				continue
			}
			k, done := 0, false
			ast.Inspect(sc, func(n ast.Node) bool {
				if done {
					return false
				}
				if c, ok := n.(*ast.CallExpr); ok && calleeName(c) == it.Ident {
					if k == it.Nth {
						done = true
						if it.Arg >= len(c.Args) {
							emitErr(fmt.Errorf("call has %d args", len(c.Args)))
							return false
						}
						v, err := e.eval(c.Args[it.Arg], 0, 0)
						if err != nil {
							emitErr(err)
							return false
						}
						fmt.Fprintf(&b, "(* %s: call #%d of %s, argument %d *)\nDefinition %s : Z := %s.\n", it.File, it.Nth, it.Ident, it.Arg, it.Name, zlit(v))
						return false
					}
					k++
				}
				return true
			})
			if !done {
				emitErr(fmt.Errorf("call #%d not found", it.Nth))
			}
		case "cmp":
			sc := scope(f, it.Func)
			if sc == nil {
				emitErr(fmt.Errorf("function %s not found", it.Func))
				continue
			}
			k, done := 0, false
			ast.Inspect(sc, func(n ast.Node) bool {
				if done {
					return false
				}
				be, ok := n.(*ast.BinaryExpr)
				if !ok {
					return true
				}
				switch be.Op {
				case token.GTR, token.GEQ, token.LSS, token.LEQ, token.EQL, token.NEQ:
				default:
					return true
				}
				if k == it.Nth {
					done = true
					x := be.X
					if it.Arg == 1 {
						x = be.Y
					}
					v, err := e.eval(x, 0, 0)
					if err != nil {
						emitErr(err)
						return false
					}
					fmt.Fprintf(&b, "(* %s: %s, comparison #%d (%s), operand %d *)\nDefinition %s : Z := %s.\n", it.File, it.Func, it.Nth, be.Op, it.Arg, it.Name, zlit(v))
					return false
				}
				k++
				return true
			})
			if !done {
				emitErr(fmt.Errorf("comparison #%d not found in %s", it.Nth, it.Func))
			}
		case "field":
			sc := scope(f, it.Func)
			if sc == nil {
				emitErr(fmt.Errorf("function %s not found", it.Func))
				continue
			}
			done := false
			ast.Inspect(sc, func(n ast.Node) bool {
				if done {
					return false
				}
				switch kv := n.(type) {
				case *ast.KeyValueExpr:
					if id, ok := kv.Key.(*ast.Ident); ok && id.Name == it.Ident {
						if v, err := e.eval(kv.Value, 0, 0); err == nil {
							done = true
							fmt.Fprintf(&b, "(* %s: field %s in %s *)\nDefinition %s : Z := %s.\n", it.File, it.Ident, it.Func, it.Name, zlit(v))
						}
					}
				case *ast.AssignStmt:
					if len(kv.Lhs) == 1 && len(kv.Rhs) == 1 {
						if se, ok := kv.Lhs[0].(*ast.SelectorExpr); ok && se.Sel.Name == it.Ident {
							if v, err := e.eval(kv.Rhs[0], 0, 0); err == nil {
								done = true
								fmt.Fprintf(&b, "(* %s: assignment to .%s in %s *)\nDefinition %s : Z := %s.\n", it.File, it.Ident, it.Func, it.Name, zlit(v))
							}
						}
					}
				}
				return true
			})
			if !done {
				emitErr(fmt.Errorf("field not found"))
			}
		case "strlit":
			// the nth string literal (source order) inside function `func`
			sc := scope(f, it.Func)
			if sc == nil {
				emitErr(fmt.Errorf("function %s not found", it.Func))
				continue
			}
			k, done := 0, false
			ast.Inspect(sc, func(n ast.Node) bool {
				if done {
					return false
				}
				if bl, ok := n.(*ast.BasicLit); ok && bl.Kind == token.STRING {
					if k == it.Nth {
						done = true
						s, err := strconv.Unquote(bl.Value)
						if err != nil {
							emitErr(err)
							return false
						}
						parts := make([]string, len(s))
						for i := 0; i < len(s); i++ {
							parts[i] = strconv.Itoa(int(s[i]))
						}
						fmt.Fprintf(&b, "(* %s: %s, string literal #%d = %q *)\nDefinition %s : list N := [%s]%%N.\n", it.File, it.Func, it.Nth, s, it.Name, strings.Join(parts, "; "))
						return false
					}
					k++
				}
				return true
			})
			if !done {
				emitErr(fmt.Errorf("string literal #%d not found in %s", it.Nth, it.Func))
			}
		default:
			emitErr(fmt.Errorf("unknown kind"))
		}
	}
	if fail {
		os.Exit(1)
	}
	old, _ := os.ReadFile(out)
	if string(old) != b.String() {
		if err := os.WriteFile(out, []byte(b.String()), 0o644); err != nil {
			panic(err)
		}
	}
}
