// Command c02 hosts the driver of property C02 (torrent metainfo exactly describes its blob).
package main

import "verifharness/hlib"

func main() { hlib.Main() }
