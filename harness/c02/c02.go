package main

import (
	"bytes"
	"crypto/sha256"
	"encoding/hex"
	"errors"
	"fmt"
	"io"
	"math"
	"os"
	"path/filepath"
	"strconv"
	"strings"

	"github.com/c2h5oh/datasize"
	"github.com/uber-go/tally"
	"github.com/uber/kraken/core"
	"github.com/uber/kraken/lib/metainfogen"
	"github.com/uber/kraken/lib/store"
	"github.com/uber/kraken/lib/store/metadata"
	"verifharness/hlib"
)

// C02: core.NewMetaInfo / NewMetaInfoFromBytes / Serialize / DeserializeMetaInfo,
// metainfogen piece-length table and Generator.Generate on a real CAStore.
func init() { hlib.Register("C02", c02) }

// ---- Coq printers -------------------------------------------------------------------------

// c02hex prints a byte string as (xb len [i1; i2; ...]%uint63): big-endian groups of 7 bytes,
// each one primitive-integer literal (a cases file of string or N literals is an order of
// magnitude slower to parse and type-check).
func c02hex(b []byte) string {
	if len(b) == 0 {
		return "(xb 0 [])"
	}
	parts := make([]string, 0, len(b)/7+1)
	for off := 0; off < len(b); off += 7 {
		end := off + 7
		if end > len(b) {
			end = len(b)
		}
		var v uint64
		for _, c := range b[off:end] {
			v = v<<8 | uint64(c)
		}
		parts = append(parts, strconv.FormatUint(v, 10))
	}
	return "(xb " + strconv.Itoa(len(b)) + " [" + strings.Join(parts, "; ") + "]%uint63)"
}

func c02str(t string) string { return c02hex([]byte(t)) }

// c02rel prints an answer relative to a reference answer: SErr, SSame or SDiff.
func c02rel(o, ref string) string {
	switch {
	case o == "None":
		return "SErr"
	case o == ref:
		return "SSame"
	default:
		return "(SDiff " + strings.TrimSuffix(strings.TrimPrefix(o, "(Some "), ")") + ")"
	}
}

func c02z(i int64) string { return "(" + strconv.FormatInt(i, 10) + ")%Z" }

func c02zs(xs []int64) string {
	s := make([]string, len(xs))
	for i, v := range xs {
		s[i] = c02z(v)
	}
	return hlib.List(s)
}

func c02us(xs []uint32) string {
	if len(xs) == 0 {
		return "[]"
	}
	s := make([]string, len(xs))
	for i, v := range xs {
		s[i] = strconv.FormatUint(uint64(v), 10)
	}
	return "(ns " + hlib.List(s) + "%uint63)"
}

// c02obs projects a MetaInfo onto the observables the model computes.
func c02obs(mi *core.MetaInfo, err error) string {
	if err != nil || mi == nil {
		return "None"
	}
	n := mi.NumPieces()
	sums := make([]uint32, n)
	for i := 0; i < n; i++ {
		sums[i] = mi.GetPieceSum(i)
	}
	var gpl []int64
	for i := -1; i <= n+1; i++ {
		gpl = append(gpl, mi.GetPieceLength(i))
	}
	ser, serr := mi.Serialize()
	if serr != nil {
		return "None"
	}
	return fmt.Sprintf("(Some (mkmobs %s %s %s %s %s %s %s))", c02z(mi.Length()), c02z(mi.PieceLength()),
		c02us(sums), c02str(mi.Digest().Hex()), c02hex(mi.InfoHash().Bytes()), c02zs(gpl), c02str(string(ser)))
}

// c02guard runs the code under test for one case and turns a panic into the distinct
// observation OPanic, which the model never produces (so the case is both a mismatch and an
// oracle violation) instead of killing the whole driver.
func c02guard(f func() string) (ob string, panicked bool) {
	defer func() {
		if r := recover(); r != nil {
			ob, panicked = "OPanic", true
		}
	}()
	return f(), false
}

// ---- scripted reader ----------------------------------------------------------------------

// scriptReader answers Read calls chunk by chunk: a chunk longer than the caller's buffer is
// delivered over several calls, an empty chunk is a (0, nil) read; afterwards io.EOF, or a
// non-EOF error when fail is set. With eager set the terminal condition accompanies the last
// bytes (Read returns n > 0 together with the error), which io.Reader permits.
type scriptReader struct {
	chunks [][]byte
	fail   bool
	eager  bool
}

var errScripted = errors.New("scripted read failure")

func (r *scriptReader) term() error {
	if r.fail {
		return errScripted
	}
	return io.EOF
}

func (r *scriptReader) Read(p []byte) (int, error) {
	if len(r.chunks) == 0 {
		return 0, r.term()
	}
	c := r.chunks[0]
	n := copy(p, c)
	if n < len(c) {
		r.chunks[0] = c[n:]
	} else {
		r.chunks = r.chunks[1:]
	}
	if r.eager && len(r.chunks) == 0 && n > 0 {
		return n, r.term()
	}
	return n, nil
}

// ---- case kinds ---------------------------------------------------------------------------

type c02gen struct {
	data   []byte
	cuts   []int // chunk lengths (sum = len(data)); zeros are empty reads
	pl     int64
	fail   bool
	eager  bool
	digest core.Digest // zero value: digest of data
	zeroD  bool        // use core.Digest{} (empty name)
	upper  bool        // upper-case hex name
}

func c02digest(g *c02gen) core.Digest {
	if g.zeroD {
		return core.Digest{}
	}
	h := sha256.Sum256(g.data)
	hx := hex.EncodeToString(h[:])
	if g.upper {
		hx = strings.ToUpper(hx)
	}
	d, err := core.NewSHA256DigestFromHex(hx)
	if err != nil {
		panic(err)
	}
	return d
}

func c02chunks(g *c02gen) [][]byte {
	var out [][]byte
	off := 0
	for _, c := range g.cuts {
		out = append(out, g.data[off:off+c])
		off += c
	}
	if off != len(g.data) {
		out = append(out, g.data[off:])
	}
	return out
}

func c02sizeClass(n int, pl int64) string {
	switch {
	case pl <= 0:
		return "pl<=0"
	case n == 0:
		return "empty"
	case int64(n) < pl:
		return "short"
	case int64(n)%pl == 0:
		return "multiple"
	default:
		return "ragged"
	}
}

func c02emitGen(ctx *hlib.Ctx, g *c02gen, kind string) {
	d := c02digest(g)
	chunks := c02chunks(g)
	cs := make([]string, len(chunks))
	for i, c := range chunks {
		cs[i] = c02hex(c)
	}
	in := fmt.Sprintf("(CGen %s %s %s %s)", c02str(d.Hex()), c02z(g.pl), hlib.List(cs), hlib.B(g.fail))
	var errS, errB error
	np := 0
	ob, panicked := c02guard(func() string {
		cc := make([][]byte, len(chunks))
		copy(cc, chunks)
		var ms, mb *core.MetaInfo
		ms, errS = core.NewMetaInfo(d, &scriptReader{chunks: cc, fail: g.fail, eager: g.eager}, g.pl)
		mb, errB = core.NewMetaInfoFromBytes(d, g.data, g.pl)
		rt := "None"
		if errB == nil {
			np = mb.NumPieces()
			ser, err := mb.Serialize()
			if err == nil {
				// through the metadata type the stores use (torrentmeta.go)
				tm := &metadata.TorrentMeta{}
				if err := tm.Deserialize(ser); err == nil {
					rt = c02obs(tm.MetaInfo, nil)
				}
			}
		}
		ref := c02obs(mb, errB)
		return fmt.Sprintf("(OGen %s %s %s)", c02rel(c02obs(ms, errS), ref), ref, c02rel(rt, ref))
	})
	var tags []string
	if panicked {
		tags = []string{"panic"}
	}
	nt := !panicked && errB == nil && len(g.data) > 0 && !g.fail
	ctx.Emit(hlib.Case{Coq: "mkcase " + in + " " + ob, NT: nt, Kind: kind, Tags: tags,
		Hist: []string{"gen:" + c02sizeClass(len(g.data), g.pl)},
		Sample: map[string]interface{}{"len": len(g.data), "piece_length": g.pl, "chunks": len(chunks),
			"reader_fails": g.fail, "num_pieces": np, "stream_err": errS != nil, "bytes_err": errB != nil, "panic": panicked}})
}

func c02emitParse(ctx *hlib.Ctx, raw []byte, kind string) {
	in := fmt.Sprintf("(CParse %s)", c02str(string(raw)))
	var err error
	ob, panicked := c02guard(func() string {
		var mi *core.MetaInfo
		mi, err = core.DeserializeMetaInfo(raw)
		return fmt.Sprintf("(OParse %s)", c02obs(mi, err))
	})
	var tags []string
	if panicked {
		tags = []string{"panic"}
	}
	ok := err == nil && !panicked
	ctx.Emit(hlib.Case{Coq: "mkcase " + in + " " + ob, NT: ok, Kind: kind, Tags: tags,
		Hist:   []string{"parse:" + map[bool]string{true: "ok", false: "error"}[ok]},
		Sample: map[string]interface{}{"raw": string(raw), "error": err != nil, "panic": panicked}})
}

type c02row struct{ size, pl uint64 }

func c02tbl(rows []c02row) (map[datasize.ByteSize]datasize.ByteSize, string) {
	m := map[datasize.ByteSize]datasize.ByteSize{}
	var s []string
	for _, r := range rows {
		if _, dup := m[datasize.ByteSize(r.size)]; dup {
			continue
		}
		m[datasize.ByteSize(r.size)] = datasize.ByteSize(r.pl)
		s = append(s, hlib.Pair(hlib.U(r.size), hlib.U(r.pl)))
	}
	return m, hlib.List(s)
}

func c02emitTable(ctx *hlib.Ctx, rows []c02row, sizes []int64, kind string) {
	m, ts := c02tbl(rows)
	in := fmt.Sprintf("(CTable %s %s)", ts, c02zs(sizes))
	var err error
	ob, panicked := c02guard(func() string {
		var g *metainfogen.Generator
		g, err = metainfogen.New(metainfogen.Config{PieceLengths: m}, nil)
		if err != nil {
			return "(OTable None)"
		}
		out := make([]int64, len(sizes))
		for i, sz := range sizes {
			out[i] = g.GetPieceLength(sz)
		}
		return "(OTable (Some " + c02zs(out) + "))"
	})
	var tags []string
	if panicked {
		tags = []string{"panic"}
	}
	ctx.Emit(hlib.Case{Coq: "mkcase " + in + " " + ob, NT: !panicked && err == nil && len(m) >= 2 && len(sizes) > 0, Kind: kind, Tags: tags,
		Hist:   []string{fmt.Sprintf("table:%d-rows", len(m))},
		Sample: map[string]interface{}{"table": ts, "sizes": sizes, "new_error": err != nil, "panic": panicked}})
}

// c02emitGenerate stores data in a real CAStore, runs Generator.Generate and reads the torrent
// metadata back through the store (Serialize on write, Deserialize on read).
func c02emitGenerate(ctx *hlib.Ctx, cas *store.CAStore, rows []c02row, data []byte, kind string) {
	m, ts := c02tbl(rows)
	h := sha256.Sum256(data)
	d, err := core.NewSHA256DigestFromHex(hex.EncodeToString(h[:]))
	if err != nil {
		panic(err)
	}
	in := fmt.Sprintf("(CGenerate %s %s %s)", ts, c02str(d.Hex()), c02hex(data))
	ok, incon := false, false
	ob, panicked := c02guard(func() string {
		g, err := metainfogen.New(metainfogen.Config{PieceLengths: m}, cas)
		if err != nil {
			return "(OGenerate None)"
		}
		if err := cas.CreateCacheFile(d.Hex(), bytes.NewReader(data)); err != nil && !os.IsExist(err) {
			incon = true // the store, not the code under test, refused: not evaluated
			return "OBad"
		}
		// drop metadata left by an earlier case on the same content
		cas.DeleteCacheFileMetadata(d.Hex(), &metadata.TorrentMeta{})
		if err := g.Generate(d); err == nil {
			var tm metadata.TorrentMeta
			if err := cas.GetCacheFileMetadata(d.Hex(), &tm); err == nil {
				ok = true
				return "(OGenerate " + c02obs(tm.MetaInfo, nil) + ")"
			}
		}
		return "(OGenerate None)"
	})
	var tags []string
	if panicked {
		tags = []string{"panic"}
		ok = false
	}
	ctx.Emit(hlib.Case{Coq: "mkcase " + in + " " + ob, NT: ok && len(data) > 0, Kind: kind, Tags: tags, Incon: incon,
		Hist:   []string{"generate:" + map[bool]string{true: "ok", false: "error"}[ok]},
		Sample: map[string]interface{}{"table": ts, "len": len(data), "ok": ok, "panic": panicked}})
}

// ---- generators ---------------------------------------------------------------------------

func c02cuts(r *hlib.Rng, n int) []int {
	var cuts []int
	switch r.Intn(6) {
	case 0: // one chunk
		return []int{n}
	case 1: // byte at a time (bounded)
		if n <= 300 {
			for i := 0; i < n; i++ {
				cuts = append(cuts, 1)
			}
			return cuts
		}
	}
	left := n
	for left > 0 {
		var c int
		switch r.Intn(5) {
		case 0:
			c = 0 // (0, nil) read
		case 1:
			c = 1
		default:
			c = r.Range(1, left)
			if r.Chance(60) && c > 17 {
				c = r.Range(1, 17)
			}
		}
		if c > left {
			c = left
		}
		cuts = append(cuts, c)
		left -= c
	}
	if r.Chance(15) {
		cuts = append(cuts, 0)
	}
	return cuts
}

func c02boundarySize(r *hlib.Rng, pl int64) int {
	if pl <= 0 || pl > 5000 {
		return r.Intn(200)
	}
	p := int(pl)
	k := r.Intn(5)
	cands := []int{0, 1, p - 1, p, p + 1, 2*p - 1, 2 * p, 2*p + 1, k * p, k*p + 1, k*p + p - 1, k*p + r.Intn(p)}
	n := cands[r.Intn(len(cands))]
	if n < 0 {
		n = 0
	}
	if n > 6000 {
		n = 6000
	}
	return n
}

func c02randPL(r *hlib.Rng) int64 {
	switch k := r.Intn(20); {
	case k < 13:
		return int64(r.Range(1, 64))
	case k < 15:
		return int64(r.Range(65, 1500))
	case k < 16:
		// (nothing between 2^31 and 2^62: a mutant that allocates a piece-sized buffer would die with a
		// fatal out-of-memory error there, which cannot be recovered per case; 2^62 and up panic recoverably)
		return []int64{1 << 15, 1<<15 + 1, 1 << 20, 1 << 31, 1<<62 - 1, 1 << 62, math.MaxInt64}[r.Intn(7)]
	case k < 17:
		return 1
	default: // malformed
		return []int64{0, -1, -64, math.MinInt64}[r.Intn(4)]
	}
}

func c02randTable(r *hlib.Rng) []c02row {
	n := r.Range(1, 6)
	if r.Chance(4) {
		n = 0
	}
	var rows []c02row
	base := uint64(r.Intn(4)) * uint64(r.Intn(50))
	for i := 0; i < n; i++ {
		var size uint64
		switch r.Intn(8) {
		case 0:
			size = 0
		case 1:
			size = uint64(r.Intn(10))
		case 2:
			size = []uint64{1 << 20, 2 << 30, 4 << 30, 1<<63 - 1, 1 << 63, math.MaxUint64}[r.Intn(6)]
		default:
			size = base + uint64(r.Intn(300))
		}
		var pl uint64
		switch r.Intn(10) {
		case 0:
			pl = 0
		case 1:
			pl = []uint64{1 << 20, 4 << 20, 1 << 63, math.MaxUint64}[r.Intn(4)]
		default:
			pl = uint64(r.Range(1, 64))
		}
		rows = append(rows, c02row{size, pl})
	}
	return rows
}

func c02tableSizes(r *hlib.Rng, rows []c02row) []int64 {
	sizes := []int64{0}
	for _, row := range rows {
		s := int64(row.size)
		sizes = append(sizes, s)
		if s > math.MinInt64 {
			sizes = append(sizes, s-1)
		}
		if s < math.MaxInt64 {
			sizes = append(sizes, s+1)
		}
	}
	for i := 0; i < 3; i++ {
		sizes = append(sizes, int64(r.Intn(400)))
	}
	sizes = append(sizes, []int64{-1, math.MaxInt64, math.MinInt64, 1 << 40}[r.Intn(4)])
	return sizes
}

const c02name = "e3b0c44298fc1c149afbf4c8996fb92427ae41e4649b934ca495991b7852b855"

func c02json(pl, sums, name, length string) []byte {
	return []byte(`{"Info":{"PieceLength":` + pl + `,"PieceSums":` + sums + `,"Name":"` + name + `","Length":` + length + `}}`)
}

// c02randParse builds serialized metainfo by hand: canonical documents with boundary numbers,
// and malformed ones from classes on which encoding/json and the model's strict parser are
// both defined (truncation, trailing bytes, bad numbers, bad names).
func c02randParse(r *hlib.Rng) ([]byte, string) {
	nsums := r.Intn(5)
	var ss []string
	for i := 0; i < nsums; i++ {
		ss = append(ss, strconv.FormatUint(uint64(uint32(r.U64())), 10))
	}
	sums := "[" + strings.Join(ss, ",") + "]"
	if nsums == 0 && r.Bool() {
		sums = "null"
	}
	pl := strconv.Itoa(r.Range(1, 64))
	length := strconv.Itoa(r.Intn(300))
	name := hex.EncodeToString(r.Bytes(32))
	if r.Chance(20) {
		name = strings.ToUpper(name)
	}
	kind := "parse-canonical"
	switch r.Intn(14) {
	case 0:
		pl = []string{"0", "-1", "-0", "9223372036854775807", "-9223372036854775808"}[r.Intn(5)]
		kind = "parse-boundary-number"
	case 1:
		pl = []string{"9223372036854775808", "-9223372036854775809", "01", "", "-", "1x"}[r.Intn(6)]
		kind = "parse-bad-number"
	case 2:
		length = []string{"9223372036854775808", "007", "", "--1"}[r.Intn(4)]
		kind = "parse-bad-number"
	case 3:
		sums = []string{"[4294967296]", "[1,4294967296]", "[-1]", "[1,]", "[,1]", "[01]", "[1", "nul", "[4294967295]", "[0]"}[r.Intn(10)]
		if strings.HasSuffix(sums, "5]") || sums == "[0]" {
			kind = "parse-boundary-number"
		} else {
			kind = "parse-bad-sums"
		}
	case 4:
		name = []string{"", name[:63], name + "0", "g" + name[1:], name[:10] + "-" + name[11:], name[:32]}[r.Intn(6)]
		kind = "parse-bad-name"
	case 5:
		raw := c02json(pl, sums, name, length)
		return raw[:r.Intn(len(raw))], "parse-truncated"
	case 6:
		raw := c02json(pl, sums, name, length)
		return append(raw, []byte{'}', 'x', '0', ','}[r.Intn(4)]), "parse-trailing"
	}
	return c02json(pl, sums, name, length), kind
}

func c02data(r *hlib.Rng, n int) []byte {
	switch r.Intn(4) {
	case 0:
		return make([]byte, n) // zeros
	case 1:
		b := make([]byte, n)
		for i := range b {
			b[i] = byte(i)
		}
		return b
	default:
		return r.Bytes(n)
	}
}

func c02(ctx *hlib.Ctx) {
	r := hlib.NewRng(ctx.Seed)

	// a real CAStore under the run's scratch directory (nothing under /tmp)
	cfg := store.CAStoreConfig{
		UploadDir: filepath.Join(ctx.Tmp, "upload"),
		CacheDir:  filepath.Join(ctx.Tmp, "cache"),
	}
	cas, err := store.NewCAStore(cfg, tally.NoopScope)
	if err != nil {
		panic(err)
	}
	defer cas.Close()

	// ---- hand-written seeds (always run) ----
	seq := func(n int) []byte {
		b := make([]byte, n)
		for i := range b {
			b[i] = byte(i*7 + 1)
		}
		return b
	}
	c02emitGen(ctx, &c02gen{data: nil, cuts: nil, pl: 4}, "seed-empty")
	c02emitGen(ctx, &c02gen{data: nil, cuts: []int{0, 0}, pl: 1}, "seed-empty-zero-reads")
	c02emitGen(ctx, &c02gen{data: seq(1), cuts: []int{1}, pl: 1}, "seed-one-byte")
	c02emitGen(ctx, &c02gen{data: seq(8), cuts: []int{8}, pl: 4}, "seed-exact-multiple")
	c02emitGen(ctx, &c02gen{data: seq(8), cuts: []int{3, 0, 1, 4}, pl: 4, eager: true}, "seed-exact-multiple-eager-eof")
	c02emitGen(ctx, &c02gen{data: seq(9), cuts: []int{2, 2, 2, 2, 1}, pl: 4}, "seed-last-one-byte")
	c02emitGen(ctx, &c02gen{data: seq(7), cuts: []int{7}, pl: 4}, "seed-last-short")
	c02emitGen(ctx, &c02gen{data: seq(3), cuts: []int{1, 1, 1}, pl: 4}, "seed-shorter-than-piece")
	c02emitGen(ctx, &c02gen{data: seq(5), cuts: []int{5}, pl: math.MaxInt64}, "seed-huge-piece-length")
	c02emitGen(ctx, &c02gen{data: seq(5), cuts: []int{5}, pl: 0}, "seed-pl-zero")
	c02emitGen(ctx, &c02gen{data: seq(5), cuts: []int{5}, pl: -3}, "seed-pl-negative")
	c02emitGen(ctx, &c02gen{data: nil, pl: math.MinInt64}, "seed-pl-minint")
	c02emitGen(ctx, &c02gen{data: seq(10), cuts: []int{4, 4, 2}, pl: 4, fail: true}, "seed-reader-fails-at-end")
	c02emitGen(ctx, &c02gen{data: seq(8), cuts: []int{4, 4}, pl: 4, fail: true, eager: true}, "seed-reader-fails-with-data")
	c02emitGen(ctx, &c02gen{data: seq(6), cuts: []int{6}, pl: 4, zeroD: true}, "seed-zero-digest")
	c02emitGen(ctx, &c02gen{data: seq(6), cuts: []int{6}, pl: 4, upper: true}, "seed-uppercase-digest")
	// crosses io.Copy's 32 KiB scratch buffer: piece length and chunks above 32768
	c02emitGen(ctx, &c02gen{data: seq(40001), cuts: []int{34000, 6001}, pl: 33000}, "seed-above-copy-buffer")
	c02emitGen(ctx, &c02gen{data: seq(32769), cuts: []int{32769}, pl: 32768}, "seed-copy-buffer-exact")

	c02emitParse(ctx, c02json("4", "[1,2]", c02name, "7"), "seed-parse-canonical")
	c02emitParse(ctx, c02json("4", "null", c02name, "0"), "seed-parse-null-sums")
	c02emitParse(ctx, c02json("4", "[]", c02name, "0"), "seed-parse-empty-array")
	c02emitParse(ctx, c02json("4", "[1]", "", "1"), "seed-parse-empty-name")
	c02emitParse(ctx, []byte(""), "seed-parse-empty-input")
	c02emitParse(ctx, []byte("{}x"), "seed-parse-garbage")
	c02emitParse(ctx, c02json("-4", "[1,2,3]", c02name, "-7"), "seed-parse-negative")

	// the example of config.go's comment, and the probe below the smallest threshold
	c02emitTable(ctx, []c02row{{0, 1 << 20}, {2 << 30, 4 << 20}, {4 << 30, 8 << 20}},
		[]int64{0, 1, 2<<30 - 1, 2 << 30, 2<<30 + 1, 4<<30 - 1, 4 << 30, 1 << 40}, "seed-table-doc-example")
	c02emitTable(ctx, []c02row{{10, 3}, {20, 5}}, []int64{0, 9, 10, 11, 19, 20, 21}, "seed-table-below-smallest")
	c02emitTable(ctx, []c02row{{20, 5}, {10, 3}, {30, 0}}, []int64{-1, 10, 29, 30, 31}, "seed-table-unsorted")
	c02emitTable(ctx, nil, []int64{0}, "seed-table-empty")
	c02emitTable(ctx, []c02row{{1 << 63, 9}, {5, 2}}, []int64{math.MinInt64, -1, 0, 5, 6}, "seed-table-wrapping-threshold")

	c02emitGenerate(ctx, cas, []c02row{{0, 4}, {10, 8}}, seq(9), "seed-generate-below")
	c02emitGenerate(ctx, cas, []c02row{{0, 4}, {10, 8}}, seq(10), "seed-generate-at-threshold")
	c02emitGenerate(ctx, cas, []c02row{{0, 4}, {10, 8}}, nil, "seed-generate-empty")
	c02emitGenerate(ctx, cas, []c02row{{0, 0}}, seq(3), "seed-generate-zero-pl")
	c02emitGenerate(ctx, cas, nil, seq(3), "seed-generate-no-table")

	if ctx.Tier == "thorough" {
		// exhaustive small scope (validates the correspondence; never presented as the proof)
		for pl := int64(1); pl <= 20; pl++ {
			for n := 0; n <= 200; n++ {
				g := &c02gen{data: c02data(r, n), pl: pl}
				g.cuts = c02cuts(r, n)
				c02emitGen(ctx, g, "exhaustive-size-x-pl")
			}
		}
	}

	for i := 0; i < ctx.N; i++ {
		switch k := r.Intn(100); {
		case k < 55:
			pl := c02randPL(r)
			n := c02boundarySize(r, pl)
			g := &c02gen{data: c02data(r, n), pl: pl}
			g.cuts = c02cuts(r, n)
			kind := "gen"
			if pl <= 0 {
				kind = "gen-bad-piece-length"
			}
			if r.Chance(10) {
				g.fail = true
				kind = "gen-failing-reader"
			}
			g.eager = r.Chance(25)
			g.upper = r.Chance(5)
			if r.Chance(2) {
				g.zeroD = true
				kind = "gen-zero-digest"
			}
			c02emitGen(ctx, g, kind)
		case k < 67:
			raw, kind := c02randParse(r)
			c02emitParse(ctx, raw, kind)
		case k < 85:
			rows := c02randTable(r)
			c02emitTable(ctx, rows, c02tableSizes(r, rows), "table")
		default:
			rows := c02randTable(r)
			var n int
			if len(rows) > 0 && r.Chance(70) {
				// sizes around a threshold
				t := int64(rows[r.Intn(len(rows))].size)
				if t >= 0 && t < 3000 {
					n = int(t) + r.Range(-1, 1)
				}
				if n < 0 {
					n = 0
				}
			} else {
				n = r.Intn(400)
			}
			// keep the number of pieces moderate
			c02emitGenerate(ctx, cas, rows, c02data(r, n), "generate")
		}
	}
}
