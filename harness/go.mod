module verifharness

go 1.24.0
