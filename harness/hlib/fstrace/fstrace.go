// Package fstrace records the file-system calls a child process makes (with strace) and replays
// any prefix of the mutating calls into a fresh directory. It is the crash-point machinery of the
// crash properties (C04, C05, C06): "crash after the k-th completed mutating call" = replay of the
// first k recorded mutating calls, on which the real recovery code is then run.
//
// Crash model (DESIGN §3): completed system calls persist, nothing after the crash point happens,
// a single write is not torn.
package fstrace

import (
	"bufio"
	"bytes"
	"fmt"
	"os"
	"os/exec"
	"path/filepath"
	"regexp"
	"sort"
	"strconv"
	"strings"
	"syscall"
)

// Call is one completed system call of interest.
type Call struct {
	Seq      int    // position in the log
	Name     string // strace name: mkdirat, openat, write, pwrite64, ftruncate, renameat, unlinkat, linkat, close, lseek, read, ...
	Path     string // absolute path (first path argument, resolved against its dirfd)
	Path2    string // second path (rename, link)
	Fd       int    // fd argument (write, close, ...) or returned fd (openat)
	FdPath   string // path strace printed for the fd argument
	Flags    string // open flags / unlinkat flags as printed
	Mode     uint32
	Data     []byte // write payload
	Off      int64  // pwrite offset, ftruncate length, lseek offset
	Whence   int
	Ret      int64
	Mutating bool // changes the tree (a crash point lies after each of these)
}

const traceSet = "mkdir,mkdirat,open,openat,creat,write,pwrite64,ftruncate,truncate,rename,renameat,renameat2," +
	"unlink,unlinkat,rmdir,link,linkat,symlink,symlinkat,close,dup,dup2,dup3,lseek,read,pread64,fsync,fdatasync"

// Record runs cmd under strace and returns the calls that touch paths under root, in completion order.
func Record(cmd *exec.Cmd, root, logPath string) ([]Call, error) {
	args := append([]string{"-f", "-y", "-s", "1048576", "-xx", "-e", "trace=" + traceSet, "-o", logPath, cmd.Path}, cmd.Args[1:]...)
	sc := exec.Command("strace", args...)
	sc.Env, sc.Dir, sc.Stdout, sc.Stderr, sc.Stdin = cmd.Env, cmd.Dir, cmd.Stdout, cmd.Stderr, cmd.Stdin
	if err := sc.Run(); err != nil {
		return nil, fmt.Errorf("strace run: %v", err)
	}
	return ParseLog(logPath, root)
}

var (
	lineRe   = regexp.MustCompile(`^(\d+)\s+(.*)$`)
	resumeRe = regexp.MustCompile(`^<\.\.\. (\w+) resumed>(.*)$`)
	callRe   = regexp.MustCompile(`^(\w+)\((.*)\)\s+=\s+(-?\d+|\?)(.*)$`)
)

func unhex(s string) string {
	var b bytes.Buffer
	for i := 0; i < len(s); {
		if s[i] == '\\' && i+3 < len(s) && s[i+1] == 'x' {
			v, _ := strconv.ParseUint(s[i+2:i+4], 16, 8)
			b.WriteByte(byte(v))
			i += 4
		} else {
			b.WriteByte(s[i])
			i++
		}
	}
	return b.String()
}

// splitArgs splits a strace argument list at top-level commas (strings are hex-escaped, so quotes
// never contain commas or quotes).
func splitArgs(s string) []string {
	var out []string
	depth, inq, start := 0, false, 0
	for i := 0; i < len(s); i++ {
		switch c := s[i]; {
		case c == '"':
			inq = !inq
		case inq:
		case c == '<' || c == '{' || c == '[' || c == '(':
			depth++
		case c == '>' || c == '}' || c == ']' || c == ')':
			depth--
		case c == ',' && depth == 0:
			out = append(out, strings.TrimSpace(s[start:i]))
			start = i + 1
		}
	}
	if start < len(s) {
		out = append(out, strings.TrimSpace(s[start:]))
	}
	return out
}

// fdArg parses `5<\x2f...>` or `AT_FDCWD<...>`.
func fdArg(a string) (int, string) {
	i := strings.IndexByte(a, '<')
	if i < 0 {
		n, _ := strconv.Atoi(a)
		return n, ""
	}
	p := unhex(strings.TrimSuffix(a[i+1:], ">"))
	if a[:i] == "AT_FDCWD" {
		return -100, p
	}
	n, _ := strconv.Atoi(a[:i])
	return n, p
}

func strArg(a string) string {
	a = strings.TrimSuffix(a, "...")
	return unhex(strings.Trim(a, `"`))
}

func resolve(dir, p string) string {
	if filepath.IsAbs(p) {
		return filepath.Clean(p)
	}
	return filepath.Clean(filepath.Join(dir, p))
}

// ParseLog parses a strace -f -y -xx log.
func ParseLog(logPath, root string) ([]Call, error) {
	f, err := os.Open(logPath)
	if err != nil {
		return nil, err
	}
	defer f.Close()
	root = filepath.Clean(root)
	under := func(p string) bool { return p == root || strings.HasPrefix(p, root+"/") }
	pending := map[string]string{}
	var calls []Call
	sc := bufio.NewScanner(f)
	sc.Buffer(make([]byte, 1<<20), 1<<28)
	seq := 0
	for sc.Scan() {
		m := lineRe.FindStringSubmatch(sc.Text())
		if m == nil {
			continue
		}
		pid, rest := m[1], m[2]
		if strings.HasSuffix(rest, "<unfinished ...>") {
			pending[pid] = strings.TrimSuffix(rest, "<unfinished ...>")
			continue
		}
		if r := resumeRe.FindStringSubmatch(rest); r != nil {
			rest = pending[pid] + r[2]
			delete(pending, pid)
		}
		cm := callRe.FindStringSubmatch(rest)
		if cm == nil || cm[3] == "?" {
			continue
		}
		ret, _ := strconv.ParseInt(cm[3], 10, 64)
		if ret < 0 {
			continue
		}
		a := splitArgs(cm[2])
		c := Call{Name: cm[1], Ret: ret, Fd: -1}
		switch c.Name {
		case "mkdir", "rmdir", "unlink", "truncate", "creat", "open":
			c.Path = resolve("/", strArg(a[0]))
			if c.Name == "open" && len(a) > 1 {
				c.Flags = a[1]
			}
			if c.Name == "creat" {
				c.Flags = "O_WRONLY|O_CREAT|O_TRUNC"
			}
			if c.Name == "truncate" {
				c.Off, _ = strconv.ParseInt(a[1], 10, 64)
			}
			if c.Name == "open" || c.Name == "creat" {
				c.Fd = int(ret)
			}
		case "mkdirat":
			_, d := fdArg(a[0])
			c.Path = resolve(d, strArg(a[1]))
		case "openat":
			_, d := fdArg(a[0])
			c.Path = resolve(d, strArg(a[1]))
			c.Flags = a[2]
			c.Fd = int(ret)
		case "unlinkat":
			_, d := fdArg(a[0])
			c.Path = resolve(d, strArg(a[1]))
			c.Flags = a[2]
		case "rename", "link", "symlink":
			c.Path, c.Path2 = resolve("/", strArg(a[0])), resolve("/", strArg(a[1]))
		case "renameat", "renameat2", "linkat":
			_, d1 := fdArg(a[0])
			_, d2 := fdArg(a[2])
			c.Path, c.Path2 = resolve(d1, strArg(a[1])), resolve(d2, strArg(a[3]))
		case "symlinkat":
			_, d := fdArg(a[1])
			c.Path, c.Path2 = strArg(a[0]), resolve(d, strArg(a[2]))
		case "write", "pwrite64":
			c.Fd, c.FdPath = fdArg(a[0])
			c.Data = []byte(strArg(a[1]))
			if int64(len(c.Data)) > ret {
				c.Data = c.Data[:ret]
			}
			if int64(len(c.Data)) < ret {
				return nil, fmt.Errorf("write payload truncated by strace (%d < %d)", len(c.Data), ret)
			}
			c.Off = -1
			if c.Name == "pwrite64" {
				c.Off, _ = strconv.ParseInt(a[3], 10, 64)
			}
		case "read":
			c.Fd, c.FdPath = fdArg(a[0])
		case "ftruncate":
			c.Fd, c.FdPath = fdArg(a[0])
			c.Off, _ = strconv.ParseInt(a[1], 10, 64)
		case "lseek":
			c.Fd, c.FdPath = fdArg(a[0])
			c.Off, _ = strconv.ParseInt(a[1], 10, 64)
			switch a[2] {
			case "SEEK_SET":
				c.Whence = 0
			case "SEEK_CUR":
				c.Whence = 1
			case "SEEK_END":
				c.Whence = 2
			}
		case "close", "fsync", "fdatasync":
			c.Fd, c.FdPath = fdArg(a[0])
		case "dup", "dup2", "dup3":
			c.Fd, c.FdPath = fdArg(a[0])
		default:
			continue
		}
		rel := c.Path
		if rel == "" {
			rel = strings.TrimSuffix(c.FdPath, " (deleted)")
		}
		if !under(rel) && !(c.Path2 != "" && under(c.Path2)) {
			continue
		}
		switch c.Name {
		case "mkdir", "mkdirat", "rmdir", "unlink", "unlinkat", "rename", "renameat", "renameat2", "link", "linkat",
			"symlink", "symlinkat", "truncate", "ftruncate":
			c.Mutating = true
		case "write", "pwrite64":
			c.Mutating = ret > 0
		case "open", "openat", "creat":
			c.Mutating = strings.Contains(c.Flags, "O_CREAT") || strings.Contains(c.Flags, "O_TRUNC")
		}
		c.Seq = seq
		seq++
		calls = append(calls, c)
	}
	return calls, sc.Err()
}

// NumMutating counts the crash points minus one (crash points are 0..NumMutating).
func NumMutating(calls []Call) int {
	n := 0
	for _, c := range calls {
		if c.Mutating {
			n++
		}
	}
	return n
}

func openFlags(s string) int {
	fl := 0
	for _, p := range strings.Split(s, "|") {
		switch p {
		case "O_WRONLY":
			fl |= os.O_WRONLY
		case "O_RDWR":
			fl |= os.O_RDWR
		case "O_CREAT":
			fl |= os.O_CREATE
		case "O_EXCL":
			fl |= os.O_EXCL
		case "O_TRUNC":
			fl |= os.O_TRUNC
		case "O_APPEND":
			fl |= os.O_APPEND
		case "O_DIRECTORY":
			fl |= syscall.O_DIRECTORY
		}
	}
	return fl
}

// Replay executes the calls up to and including the k-th mutating call (k = 0: nothing) with every
// path under oldRoot mapped under newRoot (which must exist). It returns the number of mutating
// calls executed. Calls on descriptors are replayed on descriptors of the replayed files, so
// sequential offsets are the kernel's.
func Replay(calls []Call, k int, oldRoot, newRoot string) (int, error) {
	oldRoot, newRoot = filepath.Clean(oldRoot), filepath.Clean(newRoot)
	mp := func(p string) string {
		p = strings.TrimSuffix(p, " (deleted)")
		if p == oldRoot {
			return newRoot
		}
		if strings.HasPrefix(p, oldRoot+"/") {
			return newRoot + p[len(oldRoot):]
		}
		return ""
	}
	fds := map[int]*os.File{}
	defer func() {
		for _, f := range fds {
			f.Close()
		}
	}()
	done := 0
	for _, c := range calls {
		if c.Mutating && done >= k {
			break
		}
		var err error
		switch c.Name {
		case "mkdir", "mkdirat":
			err = os.Mkdir(mp(c.Path), 0o755)
		case "open", "openat", "creat":
			p := mp(c.Path)
			if p == "" {
				break
			}
			var f *os.File
			f, err = os.OpenFile(p, openFlags(c.Flags), 0o644)
			if err == nil {
				if old, ok := fds[c.Fd]; ok {
					old.Close()
				}
				fds[c.Fd] = f
			}
		case "close":
			if f, ok := fds[c.Fd]; ok {
				f.Close()
				delete(fds, c.Fd)
			}
		case "write":
			if f, ok := fds[c.Fd]; ok {
				_, err = f.Write(c.Data)
			}
		case "pwrite64":
			if f, ok := fds[c.Fd]; ok {
				_, err = f.WriteAt(c.Data, c.Off)
			}
		case "read":
			if f, ok := fds[c.Fd]; ok && c.Ret > 0 {
				_, err = f.Seek(c.Ret, 1)
			}
		case "lseek":
			if f, ok := fds[c.Fd]; ok {
				_, err = f.Seek(c.Off, c.Whence)
			}
		case "ftruncate":
			if f, ok := fds[c.Fd]; ok {
				err = f.Truncate(c.Off)
			}
		case "truncate":
			err = os.Truncate(mp(c.Path), c.Off)
		case "rename", "renameat", "renameat2":
			err = os.Rename(mp(c.Path), mp(c.Path2))
		case "link", "linkat":
			err = os.Link(mp(c.Path), mp(c.Path2))
		case "symlink", "symlinkat":
			err = os.Symlink(c.Path, mp(c.Path2))
		case "unlink":
			err = syscall.Unlink(mp(c.Path))
		case "rmdir":
			err = syscall.Rmdir(mp(c.Path))
		case "unlinkat":
			if strings.Contains(c.Flags, "AT_REMOVEDIR") {
				err = syscall.Rmdir(mp(c.Path))
			} else {
				err = syscall.Unlink(mp(c.Path))
			}
		case "dup", "dup2", "dup3":
			if f, ok := fds[c.Fd]; ok {
				nf, e := syscall.Dup(int(f.Fd()))
				if e == nil {
					fds[int(c.Ret)] = os.NewFile(uintptr(nf), f.Name())
				}
			}
		}
		if err != nil {
			return done, fmt.Errorf("replay of call %d (%s %s): %v", c.Seq, c.Name, c.Path, err)
		}
		if c.Mutating {
			done++
		}
	}
	return done, nil
}

// Snapshot returns a canonical listing of the tree under root: one line per entry,
// "d path" or "f path size sha-less-content-hex(≤64 bytes)…len".
func Snapshot(root string) ([]string, error) {
	var out []string
	err := filepath.Walk(root, func(p string, info os.FileInfo, err error) error {
		if err != nil {
			return err
		}
		rel, _ := filepath.Rel(root, p)
		if info.IsDir() {
			out = append(out, "d "+rel)
			return nil
		}
		b, err := os.ReadFile(p)
		if err != nil {
			return err
		}
		out = append(out, fmt.Sprintf("f %s %d %x", rel, len(b), b))
		return nil
	})
	sort.Strings(out)
	return out, err
}

// SelfCheck replays the whole log into scratch and compares with the real final tree.
func SelfCheck(calls []Call, oldRoot, scratch string) error {
	if err := os.MkdirAll(scratch, 0o755); err != nil {
		return err
	}
	if _, err := Replay(calls, 1<<30, oldRoot, scratch); err != nil {
		return err
	}
	a, err := Snapshot(oldRoot)
	if err != nil {
		return err
	}
	b, err := Snapshot(scratch)
	if err != nil {
		return err
	}
	if strings.Join(a, "\n") != strings.Join(b, "\n") {
		return fmt.Errorf("replayed tree differs from the real one:\nreal:\n%s\nreplayed:\n%s", strings.Join(a, "\n"), strings.Join(b, "\n"))
	}
	return nil
}

// Rel gives the path of a call relative to root ("" if outside).
func Rel(root, p string) string {
	root = filepath.Clean(root)
	p = strings.TrimSuffix(p, " (deleted)")
	if p == root {
		return "."
	}
	if strings.HasPrefix(p, root+"/") {
		return p[len(root)+1:]
	}
	return ""
}
