// Package hlib holds what every harness driver shares: the PRNG, the case writer and
// helpers that print Coq terms.
package hlib

import (
	"bufio"
	"encoding/json"
	"fmt"
	"os"
	"strconv"
	"strings"
)

// Rng is splitmix64; every random choice of a run derives from one state.
type Rng struct{ s uint64 }

func NewRng(seed uint64) *Rng { return &Rng{s: seed*0x9E3779B97F4A7C15 + 0x1234567} }

func (r *Rng) U64() uint64 {
	r.s += 0x9E3779B97F4A7C15
	z := r.s
	z = (z ^ (z >> 30)) * 0xBF58476D1CE4E5B9
	z = (z ^ (z >> 27)) * 0x94D049BB133111EB
	return z ^ (z >> 31)
}

// Intn returns a value in [0,n).
func (r *Rng) Intn(n int) int {
	if n <= 0 {
		return 0
	}
	return int(r.U64() % uint64(n))
}

// Range returns a value in [lo,hi].
func (r *Rng) Range(lo, hi int) int { return lo + r.Intn(hi-lo+1) }

func (r *Rng) Bool() bool { return r.U64()&1 == 1 }

// Chance is true with probability pct/100.
func (r *Rng) Chance(pct int) bool { return r.Intn(100) < pct }

func (r *Rng) Bytes(n int) []byte {
	b := make([]byte, n)
	for i := range b {
		b[i] = byte(r.U64())
	}
	return b
}

// Fork derives an independent generator (for per-case determinism).
func (r *Rng) Fork() *Rng { return NewRng(r.U64()) }

// Case is one line of the observation file.
type Case struct {
	Coq    string      `json:"coq"`           // Coq term of the property's `case` type
	NT     bool        `json:"nt"`            // non-trivial by the property's rule
	Kind   string      `json:"kind"`          // generator stream / boundary class
	Key    string      `json:"key,omitempty"` // canonical form for distinctness (default: Coq)
	Hist   []string    `json:"hist,omitempty"` // op kinds (histogram)
	Sample interface{} `json:"sample,omitempty"`
	Tags   []string    `json:"tags,omitempty"` // features used by known-finding signatures
	Incon  bool        `json:"inconclusive,omitempty"`
}

// Ctx is what a driver receives.
type Ctx struct {
	Prop   string
	Seed   uint64
	N      int
	Tier   string
	Corpus string // directory with corpus cases for this property ("" if none)
	Tmp    string // scratch directory (removed by the runner)
	Replay string // replay file to re-execute ("" normally)
	w      *bufio.Writer
	f      *os.File
	count  int
}

func (c *Ctx) Emit(cs Case) {
	b, err := json.Marshal(cs)
	if err != nil {
		panic(err)
	}
	c.w.Write(b)
	c.w.WriteByte('\n')
	c.count++
}

var drivers = map[string]func(*Ctx){}

func Register(prop string, f func(*Ctx)) { drivers[prop] = f }

// Main: <prop> <seed> <n> <tier> <outfile> <tmpdir> [replay]
func Main() {
	if len(os.Args) < 7 {
		fmt.Fprintln(os.Stderr, "usage: <prop> <seed> <n> <tier> <out> <tmp> [replay]")
		os.Exit(2)
	}
	seed, _ := strconv.ParseUint(os.Args[2], 10, 64)
	n, _ := strconv.Atoi(os.Args[3])
	f, err := os.Create(os.Args[5])
	if err != nil {
		panic(err)
	}
	ctx := &Ctx{Prop: os.Args[1], Seed: seed, N: n, Tier: os.Args[4], Tmp: os.Args[6], f: f, w: bufio.NewWriterSize(f, 1<<20)}
	if len(os.Args) > 7 {
		ctx.Replay = os.Args[7]
	}
	d, ok := drivers[ctx.Prop]
	if !ok {
		fmt.Fprintln(os.Stderr, "no driver for", ctx.Prop)
		os.Exit(2)
	}
	d(ctx)
	ctx.w.Flush()
	f.Close()
}

// MainEnv is Main for in-package test drivers: arguments come from VERIF_* variables.
func MainEnv(prop string, d func(*Ctx)) {
	seed, _ := strconv.ParseUint(os.Getenv("VERIF_SEED"), 10, 64)
	n, _ := strconv.Atoi(os.Getenv("VERIF_N"))
	f, err := os.Create(os.Getenv("VERIF_OUT"))
	if err != nil {
		panic(err)
	}
	ctx := &Ctx{Prop: prop, Seed: seed, N: n, Tier: os.Getenv("VERIF_TIER"), Tmp: os.Getenv("VERIF_TMP"),
		Replay: os.Getenv("VERIF_REPLAY"), f: f, w: bufio.NewWriterSize(f, 1<<20)}
	d(ctx)
	ctx.w.Flush()
	f.Close()
}

// ---- Coq term printers ----

func N(i int) string {
	if i < 0 {
		panic("negative N")
	}
	return strconv.Itoa(i)
}

func U(i uint64) string { return strconv.FormatUint(i, 10) }

// Z prints an integer as a Coq Z term (parenthesised when negative).
func Z(i int64) string {
	if i < 0 {
		return "(" + strconv.FormatInt(i, 10) + ")"
	}
	return strconv.FormatInt(i, 10)
}

func B(b bool) string {
	if b {
		return "true"
	}
	return "false"
}

func List(xs []string) string { return "[" + strings.Join(xs, "; ") + "]" }

func Ns(xs []int) string {
	s := make([]string, len(xs))
	for i, x := range xs {
		s[i] = N(x)
	}
	return List(s)
}

// Bytes prints a byte string as a list of N.
func Bytes(b []byte) string {
	s := make([]string, len(b))
	for i, x := range b {
		s[i] = strconv.Itoa(int(x))
	}
	return List(s)
}

func Str(s string) string { return Bytes([]byte(s)) }

func OptN(ok bool, v int) string {
	if !ok {
		return "None"
	}
	return "(Some " + N(v) + ")"
}

func Some(s string) string { return "(Some " + s + ")" }

func Pair(a, b string) string { return "(" + a + ", " + b + ")" }
