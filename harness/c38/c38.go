package main

import (
	"fmt"
	"sort"
	"strings"

	"github.com/uber/kraken/lib/dockerregistry"
	"verifharness/hlib"
)

// C38: the eight exported path functions of lib/dockerregistry/paths.go on paths built from
// generated components (the builder mirrors docker/distribution's path layout and the Coq
// `build`), on mutations of those paths, and on keyword soups.
func init() { hlib.Register("C38", c38) }

const c38Root = "/docker/registry/v2"

type c38pk struct {
	kind                       string // Coq constructor
	data                       bool   // KLayer only
	repo, tag, hex, uuid, algo string
	off                        string
}

func (k c38pk) path() string {
	rd := c38Root + "/repositories/" + k.repo
	switch k.kind {
	case "KRevisions":
		return rd + "/_manifests/revisions"
	case "KRevision":
		return rd + "/_manifests/revisions/sha256/" + k.hex + "/link"
	case "KTags":
		return rd + "/_manifests/tags"
	case "KTagCurrent":
		return rd + "/_manifests/tags/" + k.tag + "/current/link"
	case "KTagIndex":
		return rd + "/_manifests/tags/" + k.tag + "/index/sha256/" + k.hex + "/link"
	case "KLayer":
		if k.data {
			return rd + "/_layers/sha256/" + k.hex + "/data"
		}
		return rd + "/_layers/sha256/" + k.hex + "/link"
	case "KBlob":
		h2 := k.hex
		if len(h2) > 2 {
			h2 = h2[:2]
		}
		return c38Root + "/blobs/sha256/" + h2 + "/" + k.hex + "/data"
	case "KUploadData":
		return rd + "/_uploads/" + k.uuid + "/data"
	case "KUploadStartedAt":
		return rd + "/_uploads/" + k.uuid + "/startedat"
	case "KUploadHashStates":
		return rd + "/_uploads/" + k.uuid + "/hashstates/" + k.algo
	case "KUploadHashState":
		return rd + "/_uploads/" + k.uuid + "/hashstates/" + k.algo + "/" + k.off
	}
	panic("kind")
}

var c38tokens = map[string]string{"": "kE", "docker": "kDocker", "registry": "kRegistry", "v2": "kV2", "repositories": "kRepos",
	"_manifests": "kM", "_layers": "kLy", "_uploads": "kU", "blobs": "kB", "sha256": "kS", "tags": "kT", "revisions": "kRv",
	"data": "kDa", "link": "kL", "current": "kC", "index": "kI", "startedat": "kSt", "hashstates": "kHs"}

// pool of digests with names in coq/Run/C38_run.v (dg0..dg7)
var c38digests = []string{
	"ff3a5c916c92643ff77519ffa742d3ec61b7f591b6b7504599d95a4a41134e28",
	strings.Repeat("a", 64), strings.Repeat("0", 64), strings.Repeat("f", 64),
	strings.Repeat("0123456789abcdef", 4), strings.Repeat("abcdef0123456789", 4),
	strings.Repeat("9e", 32), strings.Repeat("c0ff", 16)}

// pathTerm prints a path as the join of its segments, naming the frequent ones.
func pathTerm(p string) string {
	segs := strings.Split(p, "/")
	out := make([]string, len(segs))
	for i, s := range segs {
		if t, ok := c38tokens[s]; ok {
			out[i] = t
			continue
		}
		out[i] = hlib.Str(s)
		for j, d := range c38digests {
			if s == d {
				out[i] = fmt.Sprintf("dg%d", j)
			}
		}
	}
	return "(J " + hlib.List(out) + ")"
}

// osub prints a string as an offset into the path when it occurs there (compact case files).
func osub(path, s string) string {
	if i := strings.Index(path, s); i >= 0 {
		return fmt.Sprintf("(Sub %d %d)", i, len(s))
	}
	return "(Str " + hlib.Str(s) + ")"
}

func (k c38pk) coq(path string) string {
	var args []string
	idx := -1
	for i, n := range c38kinds {
		if n == k.kind {
			idx = i
		}
	}
	// components are located from the left in the order the layout places them
	pos := 0
	add := func(s string) {
		i := strings.Index(path[pos:], s)
		if i < 0 {
			args = append(args, "(Str "+hlib.Str(s)+")")
			return
		}
		args = append(args, fmt.Sprintf("(Sub %d %d)", pos+i, len(s)))
		pos += i + len(s)
	}
	switch k.kind {
	case "KRevisions", "KTags":
		add(k.repo)
	case "KRevision", "KLayer":
		add(k.repo)
		add(k.hex)
	case "KTagCurrent":
		add(k.repo)
		add(k.tag)
	case "KTagIndex":
		add(k.repo)
		add(k.tag)
		add(k.hex)
	case "KBlob":
		pos = len(c38Root + "/blobs/sha256/") + 2
		add(k.hex)
	case "KUploadData", "KUploadStartedAt":
		add(k.repo)
		add(k.uuid)
	case "KUploadHashStates":
		add(k.repo)
		add(k.uuid)
		add(k.algo)
	case "KUploadHashState":
		add(k.repo)
		add(k.uuid)
		add(k.algo)
		add(k.off)
	}
	return fmt.Sprintf("(RK %d %s %s)", idx, hlib.B(k.data), hlib.List(args))
}

var c38kinds = []string{"KRevisions", "KRevision", "KTags", "KTagCurrent", "KTagIndex", "KLayer", "KBlob",
	"KUploadData", "KUploadStartedAt", "KUploadHashStates", "KUploadHashState"}

func optStr(p, s string, err error) string {
	if err != nil {
		return "None"
	}
	return hlib.Some(osub(p, s))
}

// c38observe runs the real functions; only (ok?, values) are projected, never error text.
func c38observe(p string) (coq string, accepted []string, sample map[string]string) {
	sample = map[string]string{"path": fmt.Sprintf("%q", p)}
	var f []string
	pt, st, err := dockerregistry.ParsePath(p)
	if err != nil {
		f = append(f, "None")
	} else {
		f = append(f, hlib.Some(hlib.Pair(osub(p, pt.String()), osub(p, string(st)))))
		accepted = append(accepted, "ParsePath")
		sample["parse"] = pt.String() + "/" + string(st)
	}
	repo, err := dockerregistry.GetRepo(p)
	f = append(f, optStr(p, repo, err))
	if err == nil {
		accepted = append(accepted, "GetRepo")
		sample["repo"] = repo
	}
	tag, cur, err := dockerregistry.GetManifestTag(p)
	if err != nil {
		f = append(f, "None")
	} else {
		f = append(f, hlib.Some(hlib.Pair(osub(p, tag), hlib.B(cur))))
		accepted = append(accepted, "GetManifestTag")
		sample["tag"] = fmt.Sprintf("%q current=%v", tag, cur)
	}
	bd, err := dockerregistry.GetBlobDigest(p)
	f = append(f, optStr(p, bd.Hex(), err))
	if err == nil {
		accepted = append(accepted, "GetBlobDigest")
	}
	ld, err := dockerregistry.GetLayerDigest(p)
	f = append(f, optStr(p, ld.Hex(), err))
	if err == nil {
		accepted = append(accepted, "GetLayerDigest")
	}
	md, err := dockerregistry.GetManifestDigest(p)
	f = append(f, optStr(p, md.Hex(), err))
	if err == nil {
		accepted = append(accepted, "GetManifestDigest")
	}
	uu, err := dockerregistry.GetUploadUUID(p)
	f = append(f, optStr(p, uu, err))
	if err == nil {
		accepted = append(accepted, "GetUploadUUID")
		sample["uuid"] = uu
	}
	al, of, err := dockerregistry.GetUploadAlgoAndOffset(p)
	if err != nil {
		f = append(f, "None")
	} else {
		f = append(f, hlib.Some(hlib.Pair(osub(p, al), osub(p, of))))
		accepted = append(accepted, "GetUploadAlgoAndOffset")
	}
	return "(mkrobs " + strings.Join(f, " ") + ")", accepted, sample
}

// ---- component generators (docker/distribution reference grammar) ----

var c38words = []string{"repositories", "blobs", "sha256", "tags", "revisions", "data", "link", "current", "index",
	"hashstates", "startedat", "docker", "registry", "v2", "library", "kraken", "a", "0", "uploads", "manifests", "layers"}

func c38alnum(r *hlib.Rng, n int, alpha string) string {
	b := make([]byte, n)
	for i := range b {
		b[i] = alpha[r.Intn(len(alpha))]
	}
	return string(b)
}

const lowerAlnum = "abcdefghijklmnopqrstuvwxyz0123456789"
const allAlnum = "abcdefghijklmnopqrstuvwxyzABCDEFGHIJKLMNOPQRSTUVWXYZ0123456789"

func c38component(r *hlib.Rng) string {
	if r.Chance(35) {
		return c38words[r.Intn(len(c38words))]
	}
	s := c38alnum(r, r.Range(1, 6), lowerAlnum)
	for r.Chance(30) {
		s += []string{".", "_", "__", "-", "--"}[r.Intn(5)] + c38alnum(r, r.Range(1, 4), lowerAlnum)
	}
	return s
}

func c38repo(r *hlib.Rng) string {
	n := []int{1, 1, 2, 2, 3, 4, 6}[r.Intn(7)]
	cs := make([]string, n)
	for i := range cs {
		cs[i] = c38component(r)
	}
	return strings.Join(cs, "/")
}

var c38tagsSpecial = []string{"_manifests", "_layers", "_uploads", "latest", "current", "index", "link", "tags", "revisions",
	"sha256", "data", "_", "v1.0-rc_1", "repositories", "hashstates"}

func c38tag(r *hlib.Rng) string {
	if r.Chance(35) {
		return c38tagsSpecial[r.Intn(len(c38tagsSpecial))]
	}
	s := c38alnum(r, 1, allAlnum+"_")
	n := []int{0, 0, 1, 3, 7, 20, 127}[r.Intn(7)]
	return s + c38alnum(r, n, allAlnum+"_.-")
}

func c38hex(r *hlib.Rng) string {
	if r.Chance(85) {
		return c38digests[r.Intn(len(c38digests))]
	}
	return c38alnum(r, 64, "0123456789abcdef")
}

func c38uuid(r *hlib.Rng) string {
	if r.Chance(15) {
		return []string{"hashstates", "data", "startedat", "uuid", "0", "sha256"}[r.Intn(6)]
	}
	h := func(n int) string { return c38alnum(r, n, "0123456789abcdef") }
	return h(8) + "-" + h(4) + "-" + h(4) + "-" + h(4) + "-" + h(12)
}

func c38algo(r *hlib.Rng) string {
	return []string{"sha256", "sha256", "sha512", "data", "startedat", "hashstates", "123", "SHA1", "x"}[r.Intn(9)]
}

func c38off(r *hlib.Rng) string {
	if r.Chance(30) {
		return []string{"0", "1", "00", "18446744073709551616"}[r.Intn(4)]
	}
	return c38alnum(r, r.Range(1, 12), "0123456789")
}

func c38gen(r *hlib.Rng) c38pk {
	k := c38pk{kind: c38kinds[r.Intn(len(c38kinds))], data: r.Bool(), repo: c38repo(r), tag: c38tag(r), hex: c38hex(r),
		uuid: c38uuid(r), algo: c38algo(r), off: c38off(r)}
	return k
}

// ---- mutation operators on a built path ----

var c38inserts = []string{"/", "\n", "_", "a", "Z", "0", "\xff", "\xc3\xa9", ".", "-", " ", "$"}
var c38keywords = []string{"_manifests", "_layers", "_uploads", "blobs", "repositories", "tags", "revisions", "data", "link",
	"current", "index", "sha256", "hashstates", "startedat"}

var c38mutNames = []string{"del-char", "ins-char", "repl-char", "drop-seg", "dup-seg", "swap-seg", "swap-keyword",
	"truncate", "append", "digest-case", "digest-len", "digest-nonhex", "strip-root", "other-root", "empty-seg"}

func c38mutate(r *hlib.Rng, p string, op int) string {
	segs := strings.Split(p, "/")
	pick := func() int { return r.Intn(len(segs)) }
	switch c38mutNames[op] {
	case "del-char":
		if len(p) == 0 {
			return p
		}
		i := r.Intn(len(p))
		return p[:i] + p[i+1:]
	case "ins-char":
		i := r.Intn(len(p) + 1)
		return p[:i] + c38inserts[r.Intn(len(c38inserts))] + p[i:]
	case "repl-char":
		if len(p) == 0 {
			return p
		}
		i := r.Intn(len(p))
		return p[:i] + c38inserts[r.Intn(len(c38inserts))] + p[i+1:]
	case "drop-seg":
		i := pick()
		return strings.Join(append(append([]string{}, segs[:i]...), segs[i+1:]...), "/")
	case "dup-seg":
		i := pick()
		out := append(append([]string{}, segs[:i+1]...), segs[i:]...)
		return strings.Join(out, "/")
	case "swap-seg":
		i, j := pick(), pick()
		segs[i], segs[j] = segs[j], segs[i]
		return strings.Join(segs, "/")
	case "swap-keyword":
		// replace one segment (preferably a keyword) by another keyword
		var idx []int
		for i, s := range segs {
			for _, k := range c38keywords {
				if s == k {
					idx = append(idx, i)
				}
			}
		}
		i := pick()
		if len(idx) > 0 && r.Chance(85) {
			i = idx[r.Intn(len(idx))]
		}
		segs[i] = c38keywords[r.Intn(len(c38keywords))]
		return strings.Join(segs, "/")
	case "truncate":
		if r.Bool() {
			return strings.Join(segs[:r.Intn(len(segs))+1], "/")
		}
		return p[:r.Intn(len(p)+1)]
	case "append":
		return p + []string{"/", "/extra", "x", "\n", "/link", "/data", "/0", "/sha256/1"}[r.Intn(8)]
	case "digest-case", "digest-len", "digest-nonhex":
		for i, s := range segs {
			if len(s) == 64 {
				switch c38mutNames[op] {
				case "digest-case":
					segs[i] = strings.ToUpper(s[:1+r.Intn(63)]) + s[1+r.Intn(63):]
					if r.Bool() {
						segs[i] = strings.Replace(s, "a", "A", 1)
					}
				case "digest-len":
					segs[i] = []string{s[:63], s + "0", s[:1], s[:2], "", s + s}[r.Intn(6)]
				case "digest-nonhex":
					j := r.Intn(64)
					segs[i] = s[:j] + []string{"g", "z", "_", "-", "G"}[r.Intn(5)] + s[j+1:]
				}
			}
		}
		return strings.Join(segs, "/")
	case "strip-root":
		// remove leading segments: the ^.+ prefix becomes short or empty
		n := r.Range(1, 5)
		if n > len(segs)-1 {
			n = len(segs) - 1
		}
		q := strings.Join(segs[n:], "/")
		if r.Bool() {
			q = "/" + q
		}
		return q
	case "other-root":
		rest := strings.TrimPrefix(p, c38Root)
		return []string{"/v2", "v2", "", "/", "/data/repositories/x/v2", "/a\nb", "x", "/docker/registry/v2/repositories/r/_uploads"}[r.Intn(8)] + rest
	case "empty-seg":
		i := pick()
		segs[i] = ""
		return strings.Join(segs, "/")
	}
	return p
}

// keyword soup: segments drawn from a small pool, exercising the ambiguities of the patterns
func c38soup(r *hlib.Rng) string {
	pool := []string{"_manifests", "_layers", "_uploads", "blobs", "repositories", "tags", "revisions", "data", "link",
		"current", "index", "sha256", "hashstates", "startedat", "u", "0", "ab", "abc", "", "x_y", "A1", "12"}
	n := r.Range(1, 9)
	segs := make([]string, n)
	for i := range segs {
		segs[i] = pool[r.Intn(len(pool))]
	}
	p := strings.Join(segs, "/")
	if r.Chance(60) {
		p = "/" + p
	}
	return p
}

func c38(ctx *hlib.Ctx) {
	r := hlib.NewRng(ctx.Seed)
	emit := func(p string, built *c38pk, kind string, tags []string) {
		obs, acc, sample := c38observe(p)
		b := "None"
		hist := []string{}
		if built != nil {
			b = hlib.Some(built.coq(p))
			hist = append(hist, "built:"+built.kind)
			sample["built"] = built.kind
		} else {
			hist = append(hist, "not-built")
		}
		if len(acc) == 0 {
			hist = append(hist, "all-rejected")
		}
		for _, a := range acc {
			hist = append(hist, "accepted:"+a)
		}
		sort.Strings(tags)
		ctx.Emit(hlib.Case{Coq: "mkcase " + pathTerm(p) + " " + b + " " + obs, NT: len(acc) > 0, Kind: kind, Key: p,
			Hist: hist, Sample: sample, Tags: tags})
	}
	built := func(k c38pk, kind string) {
		var tags []string
		for _, c := range strings.Split(k.repo, "/") {
			if c == "repositories" {
				tags = append(tags, "repo-has-repositories-component")
			}
		}
		if k.kind == "KTagCurrent" || k.kind == "KTagIndex" {
			if k.tag == "_manifests" || k.tag == "_layers" || k.tag == "_uploads" {
				tags = append(tags, "tag-is-keyword")
			}
		}
		emit(k.path(), &k, kind, tags)
	}
	hx := "ff3a5c916c92643ff77519ffa742d3ec61b7f591b6b7504599d95a4a41134e28"
	// ---- seeds: the refutation witnesses of Proof/C38.v, boundaries reasoned about, paths_test.go literals
	built(c38pk{kind: "KTagCurrent", repo: "foo/repositories/bar", tag: "v1"}, "seed-refuted-repositories-component")
	built(c38pk{kind: "KTagCurrent", repo: "foo", tag: "_layers"}, "seed-refuted-keyword-tag")
	built(c38pk{kind: "KTagIndex", repo: "foo", tag: "_uploads", hex: hx}, "seed-refuted-keyword-tag")
	built(c38pk{kind: "KTagIndex", repo: "a/b", tag: "_manifests", hex: hx}, "seed-refuted-keyword-tag")
	built(c38pk{kind: "KUploadData", repo: "repositories", uuid: "hashstates"}, "seed-boundary")
	built(c38pk{kind: "KUploadHashStates", repo: "r", uuid: "hashstates", algo: "data"}, "seed-boundary")
	built(c38pk{kind: "KUploadHashStates", repo: "r", uuid: "u", algo: "startedat"}, "seed-boundary")
	built(c38pk{kind: "KUploadHashState", repo: "r", uuid: "hashstates", algo: "hashstates", off: "0"}, "seed-boundary")
	built(c38pk{kind: "KTagCurrent", repo: "r", tag: "sha256"}, "seed-boundary")
	built(c38pk{kind: "KTagCurrent", repo: "blobs/sha256/ab/abcd", tag: "data"}, "seed-boundary")
	built(c38pk{kind: "KTagIndex", repo: "r", tag: "index", hex: hx}, "seed-boundary")
	built(c38pk{kind: "KTagCurrent", repo: "r", tag: "tags"}, "seed-boundary")
	built(c38pk{kind: "KRevision", repo: "tags/x/index", hex: hx}, "seed-boundary")
	built(c38pk{kind: "KLayer", data: true, repo: "blobs/sha256/ab", hex: hx}, "seed-boundary")
	built(c38pk{kind: "KBlob", hex: hx}, "seed-boundary")
	for _, p := range []string{"", "/", "/_manifests/tags", "x/_manifests/tags", "_manifests/tags", "x/_manifests/tags/",
		"x/_manifests/tags//link", "x/_manifests/tags/a/link", "x/_manifests/tags/link",
		"/v2/repositories/kraken/_manifests", "/v2/repositories/_manifests", "/repositories/kraken/_manifests",
		"/v2/repositories/kraken/_manifestsx", "/v2/repositories//_layers",
		"/docker/registry/v2/repositories/foo/_uploads/_uploads/hashstates/data",
		"kraken/_uploads/uuid/hashstates/sha256/a", "kraken/_uploads/uuid/hashstates/sha256/0/1", "kraken/_uploads/uuid/hashstates",
		"kraken/_uploads/uuid/hashstates/", "kraken/_uploads/uuid/hashstatesx", "kraken/_uploads/uuid/datax", "kraken/_uploads//data",
		"kraken/_uploads/a\nb/data", "kra\nken/_uploads/u/data", "kraken/_uploads/u/data\n",
		"/v2/blobs/sha256/1234/" + hx + "/data", "/v2/blobs/sha256/ff/" + hx + "/data", "/v2/blobs/sha256/zz/" + hx + "/data",
		"/v2/blobs/sha256/ff/" + strings.ToUpper(hx) + "/data", "/v2/blobs/sha256/ff/" + hx[:63] + "g/data",
		"/v2/blobs/sha256/ff/" + hx[:63] + "/data", "blobs/sha256/ff/" + hx + "/data", "/blobs/sha256/ff/" + hx + "/data",
		"x/_layers/sha256/" + hx + "/link", "x/_layers/sha256/" + hx + "/links", "x/_layers/sha512/" + hx + "/link",
		"x/_manifests/revisions/sha256/" + hx + "/link", "x/_manifests/tags/t/index/sha256/" + hx + "/link",
		"x/_manifests/tags/a/b/index/sha256/" + hx + "/link", "x/_manifests/tags/t/current/link",
		"x/_manifests/tags/t/t/current/link", "x/_manifests/tags/t/index/sha256/current/link",
		"x/_manifests/tags/_manifests/tags/sha256/current/link", "x/_manifests/revisions/_manifests/tags",
	} {
		emit(strings.ReplaceAll(p, "\\n", "\n"), nil, "seed-literal", nil)
	}
	// ---- thorough: exhaustive small scope (validates the matcher model; not the proof)
	if ctx.Tier == "thorough" {
		var rec func(pool []string, prefix []string, depth int, lead string)
		rec = func(pool []string, prefix []string, depth int, lead string) {
			if len(prefix) > 0 {
				emit(lead+strings.Join(prefix, "/"), nil, "exhaustive", nil)
			}
			if depth == 0 {
				return
			}
			for _, a := range pool {
				rec(pool, append(append([]string{}, prefix...), a), depth-1, lead)
			}
		}
		rec([]string{"_uploads", "u", "data", "startedat", "hashstates", "0"}, nil, 5, "r/")
		rec([]string{"_manifests", "tags", "revisions", "t", "link", ""}, nil, 5, "r/")
		rec([]string{"_manifests", "tags", "index", "sha256", "current", "link", "ab"}, nil, 4, "r/_manifests/tags/")
		rec([]string{"_layers", "blobs", "sha256", "ab", "abc", "data", "link"}, nil, 5, "r/")
		rec([]string{"repositories", "r", "_manifests", "_layers", "_uploadsx", ""}, nil, 5, "")
	}
	// ---- generated
	for i := 0; i < ctx.N; i++ {
		c := r.Intn(100)
		switch {
		case c < 45: // a path built from valid components
			built(c38gen(r), "built")
		case c < 85: // 1-3 mutations of a built path
			k := c38gen(r)
			p := k.path()
			n := []int{1, 1, 1, 2, 3}[r.Intn(5)]
			name := ""
			for j := 0; j < n; j++ {
				op := r.Intn(len(c38mutNames))
				p = c38mutate(r, p, op)
				if j == 0 {
					name = c38mutNames[op]
				}
			}
			emit(p, nil, "mutated-"+name, nil)
		default:
			emit(c38soup(r), nil, "keyword-soup", nil)
		}
	}
}
