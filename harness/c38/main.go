// Command c38 hosts the driver of property C38 (registry path parsing).
package main

import "verifharness/hlib"

func main() { hlib.Main() }
