(* C04 — an agent crash at any point never yields a wrong cached blob.
   Statements only; every proof is `exact <lemma of the C04 proof files>`.
   Model: K.Model.C04 (fixed code: fixes/C04_status_length.patch + fixes/C04_undecodable_metainfo.patch;
   `unfixed c` = the pinned code).  DIb = the disk invariant (cache file = blob; download file no longer
   than the blob; the status vector is empty or one entry per piece and every marked piece holds the
   blob's bytes).  all_DI c s tr = DIb at EVERY crash point (prefix) of the call trace tr.
   PARTIAL: the induction "every operation of every history keeps DIb at each of its calls" is not
   proved; it is evaluated on every generated history by Run/C04_run.v (`all_DI` inside `agrees`). *)
From Coq Require Import List NArith Bool Arith.
From K.Model Require Import C04.
From K.Proof Require C04_base C04_inv C04_ops C04.
Import ListNotations.

(* crash at any point k of a trace whose crash points satisfy the invariant: the cache file, if there
   is one (= what the agent serves), is the blob *)
Theorem C04_crash_safe_partial : forall c tr k d,
  wf_cfg c = true -> all_DI c fs0 tr = true ->
  d_data (ca (crash_at fs0 tr k)) = Some d -> d = c_blob c.
Proof. exact C04.crash_safe_partial. Qed.
Print Assumptions C04_crash_safe_partial.

(* ... and the file a restarted NewTorrent (torrent.go:68, with the length check of the fix) decides
   to commit — every entry of the restored status vector complete — is the blob *)
Theorem C04_commit_after_crash_partial : forall c tr k d b,
  wf_cfg c = true -> all_DI c fs0 tr = true ->
  let s := crash_at fs0 tr k in
  d_data (dl s) = Some d -> d_status (dl s) = Some b -> length b = npieces c ->
  count_true (deser_status b) = length (deser_status b) -> d = c_blob c.
Proof. exact C04.commit_after_crash_partial. Qed.
Print Assumptions C04_commit_after_crash_partial.

(* every crash point = every prefix of the mutating calls *)
Theorem C04_every_crash_point : forall c tr s k,
  all_DI c s tr = true -> DIb c (crash_at s tr k) = true.
Proof. exact C04_inv.all_DI_prefix. Qed.
Print Assumptions C04_every_crash_point.

(* a piece a recovered torrent would serve to peers (marked complete on disk) holds the blob's bytes *)
Theorem C04_served_piece_is_blob : forall c s d b i,
  DIb c s = true -> d_data (dl s) = Some d -> d_status (dl s) = Some b ->
  i < npieces c -> nth i (deser_status b) false = true ->
  region c d i = region c (c_blob c) i.
Proof. exact C04_ops.marked_piece_is_blob. Qed.
Print Assumptions C04_served_piece_is_blob.

(* mechanism "status byte written only after the piece data": a data write inside a piece the status
   vector does not mark keeps the invariant, whatever is written and wherever the process stops ... *)
Theorem C04_data_write_keeps_invariant : forall c, wf_cfg c = true -> forall s d b off x i,
  DIb c s = true -> d_data (dl s) = Some d -> d_status (dl s) = Some b ->
  i < npieces c -> nth i b 0%N <> 1%N ->
  poff c i <= off -> off + length x <= poff c i + plen c i ->
  DIb c (apply_call s (CWrite ADl FData off x)) = true.
Proof. exact C04_ops.data_write_keeps_DI. Qed.
Print Assumptions C04_data_write_keeps_invariant.

(* ... and the status byte may be written once the piece's bytes are the blob's *)
Theorem C04_mark_keeps_invariant : forall c s d b i,
  DIb c s = true -> d_data (dl s) = Some d -> d_status (dl s) = Some b ->
  length b = npieces c -> i < npieces c -> region c d i = region c (c_blob c) i ->
  DIb c (apply_call s (CWrite ADl FStatus i [1%N])) = true.
Proof. exact C04_ops.mark_keeps_DI. Qed.
Print Assumptions C04_mark_keeps_invariant.

(* the commit point: renaming a download file that is the blob keeps the invariant *)
Theorem C04_rename_keeps_invariant : forall c s,
  DIb c s = true -> d_data (dl s) = Some (c_blob c) -> DIb c (apply_call s CRename) = true.
Proof. exact C04_ops.rename_keeps_DI. Qed.
Print Assumptions C04_rename_keeps_invariant.

(* directory creation, last-access-time and metainfo sidecars, every cache-side sidecar copy and
   removal: any sequence of such calls, stopped anywhere, keeps the invariant *)
Theorem C04_sidecar_calls_keep_invariant : forall c cs s,
  forallb C04_inv.benign cs = true -> DIb c s = true -> all_DI c s cs = true.
Proof. exact C04_inv.benign_calls_DI. Qed.
Print Assumptions C04_sidecar_calls_keep_invariant.

(* a file no longer than the blob whose every piece is the blob's piece is the blob (why a fully
   marked, truthful status vector justifies the commit) *)
Theorem C04_all_pieces_blob : forall c, 0 < c_pl c -> forall f, length f <= blen c ->
  (forall i, i < npieces c -> region c f i = region c (c_blob c) i) -> f = c_blob c.
Proof. exact C04_base.all_pieces_blob. Qed.
Print Assumptions C04_all_pieces_blob.

(* the pinned code violates the property: crash between the creation and the first write of `_status` *)
Theorem C04_empty_status_refuted : exists c ops k, wf_cfg c = true /\
  let o := recover (unfixed c) (crash_at fs0 (download_trace (unfixed c) ops) k) in
  o_out o = OOk /\ o_complete o = true /\ o_cache o <> Some (c_blob c).
Proof. exact C04.empty_status_refuted. Qed.
Print Assumptions C04_empty_status_refuted.

(* ... and between the creation and the write of `_torrentmeta`: CreateTorrent fails, again and again *)
Theorem C04_empty_metainfo_refuted : exists c ops k, wf_cfg c = true /\
  let s := crash_at fs0 (download_trace (unfixed c) ops) k in
  o_out (recover (unfixed c) s) = OErr /\ o_out (recover (unfixed c) (recovered_fs (unfixed c) s)) = OErr.
Proof. exact C04.empty_metainfo_refuted. Qed.
Print Assumptions C04_empty_metainfo_refuted.

(* the fixed code at the same two crash points: CreateTorrent succeeds, nothing is reported complete *)
Theorem C04_fixed_at_witnesses :
  let tr := download_trace C04.wc [OCreate [] []] in
  (let o := recover C04.wc (crash_at fs0 tr 10) in o_out o = OOk /\ o_complete o = false /\ o_cache o = None) /\
  (let o := recover C04.wc (crash_at fs0 tr 8) in o_out o = OOk /\ o_complete o = false /\ o_cache o = None).
Proof. exact C04.fixed_at_witnesses. Qed.
Print Assumptions C04_fixed_at_witnesses.

(* non-vacuity: a complete download (CreateTorrent, pieces 2 0 1, chunked writes) on the fixed model:
   its 33-call trace satisfies the hypothesis of the partial theorems, and at EVERY one of its crash
   points the recovery is safe and the restarted download completes with the blob cached *)
Example C04_nonvacuous_download :
  let c := mkcfg [97; 98; 99; 100; 101; 102; 103]%N 3 2 [123; 125]%N [1]%N true true in
  let ops := [OCreate [] []; OWrite 2 [103]%N [] []; OWrite 0 [97; 98; 99]%N [] []; OWrite 1 [100; 101; 102]%N [FStatus] [FMeta]] in
  let tr := download_trace c ops in
  wf_cfg c = true /\ length tr = 33 /\ all_DI c fs0 tr = true /\
  d_data (ca (crash_at fs0 tr 33)) = Some (c_blob c) /\
  sweep_ok c tr [2; 1; 0] = true.
Proof. vm_compute. repeat split; reflexivity. Qed.
