From Coq Require Import List NArith Bool Arith.
From K.Model Require Import C04.
From K.Proof Require C04.
Import ListNotations.

Theorem C04_placeholder : apply_calls fs0 [] = fs0.
Proof. exact Proof.C04.placeholder. Qed.
Print Assumptions C04_placeholder.
