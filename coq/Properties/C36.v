From Coq Require Import List NArith.
From K.Model Require Import C36.
From K.Proof Require C36.
Import ListNotations.
Example C36_nonvacuous_placeholder : valid_root [47]%N = true.
Proof. vm_compute. reflexivity. Qed.
