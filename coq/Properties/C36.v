(* C36 — backend name/path mapping round-trips for every name.
   Statements only; every proof is `exact <lemma from Proof/C36.v or Proof/PathLib.v>`.
   The model is pather.go with fixes/C36_quote_root.patch and fixes/C36_identity_clean_root.patch
   applied; the `_refuted` theorems are about the code at the pinned commit. *)
From Coq Require Import List NArith.
From K.Model Require Import PathLib C36.
From K.Gen Require Import C36_consts.
From K.Proof Require PathLib C36.
Import ListNotations.

(* ---- the property, one theorem per scheme: for EVERY valid root (absolute, any depth, any number
   of trailing / doubled slashes, "." and ".." elements, regexp metacharacters, "/" itself) and every
   valid name, BlobPath succeeds and NameFromBlobPath of its result is the name *)

Theorem C36_roundtrip_tag : forall root name,
  valid_root root = true -> valid_tag_name name = true ->
  exists bp, blob_path STag root name = Ok bp /\ name_from_path STag root bp = Ok name.
Proof. exact Proof.C36.roundtrip_tag. Qed.
Print Assumptions C36_roundtrip_tag.

Theorem C36_roundtrip_blob : forall root name,
  valid_root root = true -> valid_blob_name name = true ->
  exists bp, blob_path SBlob root name = Ok bp /\ name_from_path SBlob root bp = Ok name.
Proof. exact Proof.C36.roundtrip_blob. Qed.
Print Assumptions C36_roundtrip_blob.

Theorem C36_roundtrip_identity : forall root name,
  valid_root root = true -> valid_ident_name name = true ->
  exists bp, blob_path SIdent root name = Ok bp /\ name_from_path SIdent root bp = Ok name.
Proof. exact Proof.C36.roundtrip_identity. Qed.
Print Assumptions C36_roundtrip_identity.

(* stronger forms: the two Docker schemes round-trip for ANY root string (relative, empty, ...),
   the identity scheme for any absolute root of arbitrary bytes *)
Theorem C36_roundtrip_tag_any_root : forall root name,
  valid_tag_name name = true -> exists bp, roundtrip STag root name = (Ok bp, Ok name).
Proof. exact Proof.C36.roundtrip_tag_any_root. Qed.
Print Assumptions C36_roundtrip_tag_any_root.

Theorem C36_roundtrip_blob_any_root : forall root name,
  valid_blob_name name = true -> exists bp, roundtrip SBlob root name = (Ok bp, Ok name).
Proof. exact Proof.C36.roundtrip_blob_any_root. Qed.
Print Assumptions C36_roundtrip_blob_any_root.

Theorem C36_roundtrip_identity_abs_root : forall root name,
  is_rooted root = true -> valid_ident_name name = true ->
  exists bp, roundtrip SIdent root name = (Ok bp, Ok name).
Proof. exact Proof.C36.roundtrip_ident_abs_root. Qed.
Print Assumptions C36_roundtrip_identity_abs_root.

(* identity: every root (relative ones too) that does not clean to "." *)
Theorem C36_roundtrip_identity_any_root : forall root name,
  negb (str_eqb (clean root) [dot]) = true -> valid_ident_name name = true ->
  exists bp, roundtrip SIdent root name = (Ok bp, Ok name).
Proof. exact Proof.C36.roundtrip_ident_any_root. Qed.
Print Assumptions C36_roundtrip_identity_any_root.

(* identity: whatever NameFromBlobPath returns is what followed the cleaned root *)
Theorem C36_identity_extract_sound : forall root bp n,
  name_from_path_ident root bp = Ok n -> bp = trim_slash (clean root) ++ slash :: n.
Proof. exact Proof.C36.ident_extract_sound. Qed.
Print Assumptions C36_identity_extract_sound.

(* the fixed code never panics, whatever the root, name or path *)
Theorem C36_no_panic : forall sch root name bp,
  blob_path sch root name <> Panic /\ name_from_path sch root bp <> Panic.
Proof. exact Proof.C36.no_panic. Qed.
Print Assumptions C36_no_panic.

(* "listings report the names that were uploaded": distinct valid names never share a path *)
Theorem C36_blob_path_injective : forall sch root n1 n2 bp,
  valid_root root = true -> valid_name sch n1 = true -> valid_name sch n2 = true ->
  blob_path sch root n1 = Ok bp -> blob_path sch root n2 = Ok bp -> n1 = n2.
Proof. exact Proof.C36.blob_path_injective. Qed.
Print Assumptions C36_blob_path_injective.

(* the names Kraken stores under sharded_docker_blob (lower-case hex digests) are valid names *)
Theorem C36_hex_digests_valid : forall n,
  is_hex n = true -> (2 < length n)%nat -> valid_blob_name n = true.
Proof. exact Proof.C36.hex_valid. Qed.
Print Assumptions C36_hex_digests_valid.

(* ---- the literals of pather.go (Gen/C36_consts.v, regenerated from the source on every run):
   the two patterns compile to the shapes the proofs are about, built from the same element
   literals BlobPath joins *)
Theorem C36_tag_pattern :
  compile tag_re_lit = Some (tag_shape tag_mid_lit tag_end_lit).
Proof. exact Proof.C36.tag_re_compiles. Qed.
Print Assumptions C36_tag_pattern.

Theorem C36_blob_pattern :
  compile blob_re_lit = Some (blob_shape blob_alg_lit blob_end_lit).
Proof. exact Proof.C36.blob_re_compiles. Qed.
Print Assumptions C36_blob_pattern.

(* ---- executable form used on observed round trips *)
Theorem C36_check_sound : forall sch root name,
  C36_check sch root name (roundtrip sch root name) = true.
Proof. exact Proof.C36.check_sound. Qed.
Print Assumptions C36_check_sound.

(* ---- shared path library *)
Theorem C36_clean_idempotent : forall s, clean (clean s) = clean s.
Proof. exact Proof.PathLib.clean_idem. Qed.
Print Assumptions C36_clean_idempotent.

Theorem C36_clean_join_assoc : forall x y, x <> [] ->
  clean (clean x ++ slash :: y) = clean (x ++ slash :: y).
Proof. exact Proof.PathLib.clean_clean_app. Qed.
Print Assumptions C36_clean_join_assoc.

(* ---- the code at the pinned commit violates the property (witnesses are harness seed cases) *)

(* root "/a/", name "bc": NameFromBlobPath returns "c" *)
Theorem C36_identity_trailing_slash_refuted :
  exists root name, valid_root root = true /\ valid_ident_name name = true /\
    roundtrip_pre SIdent root name = (Ok (root ++ name), Ok (tl name)) /\ tl name <> name.
Proof. exact Proof.C36.identity_trailing_slash_refuted. Qed.
Print Assumptions C36_identity_trailing_slash_refuted.

(* root "/" *)
Theorem C36_identity_fs_root_refuted :
  exists name, valid_ident_name name = true /\
    snd (roundtrip_pre SIdent [slash] name) = Ok (tl name) /\ tl name <> name.
Proof. exact Proof.C36.identity_fs_root_refuted. Qed.
Print Assumptions C36_identity_fs_root_refuted.

(* root "/a//b": the path BlobPath produced is rejected *)
Theorem C36_identity_unclean_root_refuted :
  exists root name, valid_root root = true /\ valid_ident_name name = true /\
    snd (roundtrip_pre SIdent root name) = Err.
Proof. exact Proof.C36.identity_unclean_root_refuted. Qed.
Print Assumptions C36_identity_unclean_root_refuted.

(* root "/a+b": the root is spliced into the pattern unquoted, the produced path is rejected *)
Theorem C36_unquoted_root_refuted :
  exists root tname bname, valid_root root = true /\ valid_tag_name tname = true /\ valid_blob_name bname = true /\
    snd (roundtrip_pre STag root tname) = Err /\ snd (roundtrip_pre SBlob root bname) = Err.
Proof. exact Proof.C36.unquoted_root_refuted. Qed.
Print Assumptions C36_unquoted_root_refuted.

(* root "/c++": regexp.MustCompile panics *)
Theorem C36_unquoted_root_panic_refuted :
  exists root tname, valid_root root = true /\ valid_tag_name tname = true /\
    snd (roundtrip_pre STag root tname) = Panic.
Proof. exact Proof.C36.unquoted_root_panic_refuted. Qed.
Print Assumptions C36_unquoted_root_panic_refuted.

(* ---- non-vacuity: concrete valid roots and names, and what the model computes for them *)

(* root "/infra/dockerRegistry/" (hdfs default), name "repo-bar:latest" *)
Example C36_nonvacuous_tag :
  let root := [47;105;110;102;114;97;47;100;111;99;107;101;114;82;101;103;105;115;116;114;121;47]%N in
  let name := [114;101;112;111;45;98;97;114;58;108;97;116;101;115;116]%N in
  valid_root root = true /\ valid_tag_name name = true /\
  snd (roundtrip STag root name) = Ok name.
Proof. vm_compute. repeat split. Qed.

(* root "/", name "library/ubuntu:18.04" *)
Example C36_nonvacuous_tag_fs_root :
  let name := [108;105;98;114;97;114;121;47;117;98;117;110;116;117;58;49;56;46;48;52]%N in
  valid_root [47]%N = true /\ valid_tag_name name = true /\
  roundtrip STag [47]%N name =
    (Ok ([47] ++ tag_base_lit ++ [47;108;105;98;114;97;114;121;47;117;98;117;110;116;117;47] ++ tag_mid_lit
         ++ [47;49;56;46;48;52;47] ++ tag_end_lit)%N, Ok name).
Proof. vm_compute. repeat split. Qed.

(* root "/c++/x//", digest "ff85ceb9" *)
Example C36_nonvacuous_blob :
  let root := [47;99;43;43;47;120;47;47]%N in
  let name := [102;102;56;53;99;101;98;57]%N in
  valid_root root = true /\ is_hex name = true /\ valid_blob_name name = true /\
  snd (roundtrip SBlob root name) = Ok name.
Proof. vm_compute. repeat split. Qed.

(* root "/a/../b/", name "foo/bar" *)
Example C36_nonvacuous_identity :
  let root := [47;97;47;46;46;47;98;47]%N in
  let name := [102;111;111;47;98;97;114]%N in
  valid_root root = true /\ valid_ident_name name = true /\
  roundtrip SIdent root name = (Ok [47;98;47;102;111;111;47;98;97;114]%N, Ok name).
Proof. vm_compute. repeat split. Qed.

(* the validity predicates do reject: "a:b:c", "ab", "..x", "a//b", relative root *)
Example C36_nonvacuous_rejects :
  valid_tag_name [97;58;98;58;99]%N = false /\ valid_blob_name [97;98]%N = false /\
  valid_blob_name [46;46;120]%N = false /\ valid_ident_name [97;47;47;98]%N = false /\
  valid_root [97;47]%N = false.
Proof. vm_compute. repeat split. Qed.
