(* C35 — a successful cluster blob download delivers the blob exactly once.
   Statements only; every proof is `exact <lemma from Proof/C35.v>`.

   `download os` is clusterClient.DownloadBlob (with fixes/C35_partial_then_next_origin.patch)
   run against the resolved origins `os`; each origin carries the script of responses it
   gives (no response / any status / 200 with any body, complete or cut after any number of
   bytes) and its 202 back-off budget.  All theorems quantify over every such environment. *)
From Coq Require Import List NArith Bool.
From K.Model Require Import C35.
From K.Proof Require C35 C35_b.
Import ListNotations.
Local Open Scope N_scope.

(* Clause 1 (success => exactly the blob, once).  Whatever the origins did before - failed,
   answered 202 / 5xx, dropped the connection after any number of body bytes - a successful
   download leaves in the destination exactly the body of ONE complete 200 response ... *)
Theorem C35_success_exactly_one_body : forall os dst,
  download os = (Ok, dst) ->
  exists o pre post, In o os /\ script o = pre ++ RResp 200 dst true :: post.
Proof. exact Proof.C35.success_exactly_one_body. Qed.
Print Assumptions C35_success_exactly_one_body.

(* ... which is the blob when complete responses carry the blob (the client does not verify
   the digest; HTTP framing is what makes a cut detectable). *)
Theorem C35_success_exact : forall blob os dst,
  honest blob os = true -> download os = (Ok, dst) -> dst = blob.
Proof. exact Proof.C35.success_exact. Qed.
Print Assumptions C35_success_exact.

(* "once", for every result: at most one response ever contributes bytes to the destination *)
Theorem C35_at_most_one_writer : forall os r dst,
  download os = (r, dst) ->
  dst = [] \/ exists o pre body clean post,
                In o os /\ script o = pre ++ RResp 200 body clean :: post /\ dst = body.
Proof. exact Proof.C35.at_most_one_writer. Qed.
Print Assumptions C35_at_most_one_writer.

(* Clause 2 (no origin delivers the whole blob => the call fails). *)
Theorem C35_all_fail_error : forall os, any_complete os = false -> fst (download os) <> Ok.
Proof. exact Proof.C35.all_fail_error. Qed.
Print Assumptions C35_all_fail_error.

Theorem C35_none_delivers_error : forall blob os,
  honest blob os = true ->
  (forall o r, In o os -> In r (script o) -> delivers blob r = false) ->
  fst (download os) <> Ok.
Proof. exact Proof.C35.none_delivers_error. Qed.
Print Assumptions C35_none_delivers_error.

(* Exact characterisation of success ("even if some origins fail ..."): the download succeeds
   with dst iff some origin, after at most `budget` 202 answers, gives a complete 200 with
   body dst, and every origin before it failed without a byte reaching the destination. *)
Theorem C35_success_iff : forall os dst,
  download os = (Ok, dst) <->
  exists fails o rest pre post,
    os = fails ++ o :: rest /\
    forallb (fun f => silent_fail (script f) (budget f)) fails = true /\
    script o = pre ++ RResp 200 dst true :: post /\
    forallb is202 pre = true /\ N.of_nat (length pre) <= budget o.
Proof. exact Proof.C35.success_iff. Qed.
Print Assumptions C35_success_iff.

(* failing origins do not prevent a later origin from delivering (the fix does not turn the
   client into one that gives up at the first failure) *)
Theorem C35_failover_succeeds : forall fails o rest pre blob post,
  forallb (fun f => silent_fail (script f) (budget f)) fails = true ->
  script o = pre ++ RResp 200 blob true :: post ->
  forallb is202 pre = true -> N.of_nat (length pre) <= budget o ->
  download (fails ++ o :: rest) = (Ok, blob).
Proof. exact Proof.C35.failover_succeeds. Qed.
Print Assumptions C35_failover_succeeds.

(* `silent_fail` is exactly "Poll moves on to the next origin with nothing written" *)
Theorem C35_silent_fail_iff : forall sc fixed bud cnt,
  (exists c, poll_origin fixed sc bud [] cnt = (PNext, [], c)) <-> silent_fail sc bud = true.
Proof. exact Proof.C35.poll_origin_next_iff. Qed.
Print Assumptions C35_silent_fail_iff.

(* executable form used on observed runs *)
Theorem C35_check_sound : forall i, C35_check i (run i) = true.
Proof. exact Proof.C35.check_sound. Qed.
Print Assumptions C35_check_sound.

(* The pinned code (every failed attempt falls through to the next origin) violates clause 1:
   origin 1 drops the connection after 2 of 4 bytes, origin 2 delivers; the call succeeds and
   the destination holds prefix ++ blob.  Reproduced on the real code (seed-partial-then-full). *)
Theorem C35_partial_then_full_refuted :
  exists blob os dst,
    honest blob os = true /\ download_prefix os = (Ok, dst) /\ dst <> blob /\ dst = [1; 2] ++ blob.
Proof. exact Proof.C35.partial_then_full_refuted. Qed.
Print Assumptions C35_partial_then_full_refuted.

(* The fix is conservative: in an environment where no origin drops the connection after at
   least one body byte, the patched and the pinned code return the same result and bytes. *)
Theorem C35_fix_conservative : forall os, no_partial os = true -> download_prefix os = download os.
Proof. exact Proof.C35_b.fix_conservative. Qed.
Print Assumptions C35_fix_conservative.

(* What the pinned code does guarantee: on success the blob is in the destination, but only
   as a suffix - preceded by whatever the failed attempts wrote. *)
Theorem C35_pinned_blob_is_suffix_partial : forall blob os dst,
  honest blob os = true -> download_prefix os = (Ok, dst) -> exists junk, dst = junk ++ blob.
Proof. exact Proof.C35_b.prefix_blob_is_suffix. Qed.
Print Assumptions C35_pinned_blob_is_suffix_partial.

(* non-vacuity: an honest environment in which origins fail in every silent way before one
   delivers after a 202; the hypotheses of C35_success_exact / C35_failover_succeeds hold *)
Example C35_nonvacuous_success :
  let blob := [7; 8; 9] in
  let os := [mkorigin [RResp 503 [1] true] 5; mkorigin [RNet] 5; mkorigin [RResp 200 [] false] 5;
             mkorigin [RResp 202 [] true; RResp 202 [] true] 1; mkorigin [] 5;
             mkorigin [RResp 202 [] true; RResp 200 blob true] 1; mkorigin [RResp 200 blob true] 5] in
  honest blob os = true /\ download os = (Ok, blob).
Proof. vm_compute. split; reflexivity. Qed.

(* non-vacuity of clause 2 and of the fix: a cut after 2 bytes ends the call with an error and
   the destination holds those 2 bytes only, although the next origin would have delivered *)
Example C35_nonvacuous_cut_ends_download :
  let blob := [1; 2; 3; 4] in
  let os := [mkorigin [RResp 200 [1; 2] false] 5; mkorigin [RResp 200 blob true] 5] in
  honest blob os = true /\ download os = (Failed, [1; 2]) /\
  any_complete [mkorigin [RResp 200 [1; 2] false] 5; mkorigin [RResp 404 [] true] 5] = false /\
  download [mkorigin [RResp 503 [] true] 5; mkorigin [RResp 404 [] true] 5] = (NotFound, []).
Proof. vm_compute. repeat split; reflexivity. Qed.

(* non-vacuity of C35_fix_conservative: failures of every other kind, no mid-body cut *)
Example C35_nonvacuous_conservative :
  let os := [mkorigin [RResp 503 [1] false] 5; mkorigin [RResp 202 [] true; RResp 200 [] false] 5;
             mkorigin [RNet] 5; mkorigin [RResp 200 [4; 5] true] 5] in
  no_partial os = true /\ download_prefix os = (Ok, [4; 5]) /\ download os = (Ok, [4; 5]).
Proof. vm_compute. repeat split; reflexivity. Qed.
