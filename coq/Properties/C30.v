(* C30 — retried tasks run until they succeed, across failures and restarts.
   Statements only; every proof is `exact <lemma>`.  Model: K.Model.Retry (task store of
   writeback/store.go | tagreplication/store.go + the manager of lib/persistedretry/manager.go);
   one atomic step = one store call / one channel operation; `reachable` = the states of all
   finite histories of additions, executor verdicts, queue overflows, clock ticks, crashes,
   graceful closes and restarts, in every interleaving of Add calls, workers and the poller. *)
From Coq Require Import List NArith.
From K.Model Require Import C30.
From K.Proof Require Retry C30 C30_live.
Import ListNotations.
Local Open Scope N_scope.

(* "it leaves the persistent store only after a successful execution": the only step that makes a
   stored task disappear is the worker's Remove, and then the latest executor event about the
   task is a successful return *)
Theorem C30_removed_only_after_success : forall s o t,
  Retry.reachable s -> storedb t (s_store s) = true -> storedb t (s_store (fst (step s o))) = false ->
  o = OpExecFin t /\ last_ev t (s_log s) = Some (ERet t true).
Proof. exact Proof.C30.removed_only_after_success. Qed.
Print Assumptions C30_removed_only_after_success.

(* "across executor failures, full queues and process restarts": every other step keeps it *)
Theorem C30_stays_stored : forall s o t,
  Retry.reachable s -> storedb t (s_store s) = true -> o <> OpExecFin t ->
  storedb t (s_store (fst (step s o))) = true.
Proof. exact Proof.C30.stays_stored. Qed.
Print Assumptions C30_stays_stored.

(* "adding a task that is already stored has no further effect": the whole Add call returns the
   state unchanged ... *)
Theorem C30_add_existing_noop : forall s m a t d,
  s_mgr s = Some m -> m_closed m = false -> existsb (fun p => fst p =? a) (m_add m) = false ->
  storedb t (s_store s) = true ->
  run s [OpAddCheck a t d; OpAddStore a] = (s, [ODone; OExists]).
Proof. exact Retry.add_existing_noop. Qed.
Print Assumptions C30_add_existing_noop.

(* ... and so does its store call after any interleaving with other threads *)
Theorem C30_add_existing_noop_interleaved : forall s m a b af t d,
  s_mgr s = Some m -> pick (fun p => fst p =? a) (m_add m) = Some (b, (a, AStore t d), af) ->
  storedb t (s_store s) = true ->
  step s (OpAddStore a) = (with_mgr s (Some (set_add (b ++ af) m)), OExists).
Proof. exact Retry.add_store_existing. Qed.
Print Assumptions C30_add_existing_noop_interleaved.

(* no stored pending task is ever outside the queues / the executor / an enqueue in flight, and it
   is there exactly once *)
Theorem C30_no_lost_task : forall s m t,
  Retry.reachable s -> s_mgr s = Some m -> pendingb t (s_store s) = true ->
  count_occ N.eq_dec (held m) t = 1%nat /\
  (In t (m_in m) \/ In t (m_re m) \/ In t (executing m) \/ In t (add_held (m_add m)) \/ In t (p_held (m_poll m))).
Proof. exact Proof.C30.no_lost_task_r. Qed.
Print Assumptions C30_no_lost_task.

(* conversely whatever is queued, executing or in flight is a stored pending task, held once *)
Theorem C30_held_is_pending : forall s m t,
  Retry.reachable s -> s_mgr s = Some m -> In t (held m) ->
  pendingb t (s_store s) = true /\ count_occ N.eq_dec (held m) t = 1%nat.
Proof. exact Proof.C30.held_is_pending_r. Qed.
Print Assumptions C30_held_is_pending.

(* hence a task is never in the executor twice at the same time *)
Theorem C30_no_double_execution : forall s m t,
  Retry.reachable s -> s_mgr s = Some m -> (count_occ N.eq_dec (executing m) t <= 1)%nat.
Proof. exact Proof.C30.no_double_execution. Qed.
Print Assumptions C30_no_double_execution.

(* "every task accepted": an Add whose store call answers (nil or ErrTaskExists) leaves the task stored *)
Theorem C30_accepted_is_stored : forall s m a b af t d,
  s_mgr s = Some m -> pick (fun p => fst p =? a) (m_add m) = Some (b, (a, AStore t d), af) ->
  storedb t (s_store (fst (step s (OpAddStore a)))) = true /\ snd (step s (OpAddStore a)) <> OIllegal.
Proof. exact Proof.C30.accepted_is_stored. Qed.
Print Assumptions C30_accepted_is_stored.

(* a restart at any point (crash, also in the middle of an execution or of an Add) recovers every
   unfinished task: nothing is dropped, every task is Failed, hence looked at by the next poll *)
Theorem C30_restart_recovers : forall s order,
  order_ok order (pending_ids (s_store s)) = true ->
  let r := run s [OpCrash; OpStart order] in
  snd r = [ODone; ODone] /\
  ids (s_store (fst r)) = ids (s_store s) /\
  (forall x, In x (s_store (fst r)) -> r_st x = Failed) /\
  s_mgr (fst r) = Some (fresh_mgr (s_cfg s)) /\ s_log (fst r) = s_log s /\ s_now (fst r) = s_now s /\
  s_cfg (fst r) = s_cfg s.
Proof. exact Retry.restart_recovers. Qed.
Print Assumptions C30_restart_recovers.

(* the hypothesis of C30_restart_recovers can always be met *)
Theorem C30_restart_order_exists : forall s,
  Retry.reachable s -> order_ok (pending_ids (s_store s)) (pending_ids (s_store s)) = true.
Proof. exact Proof.C30.start_order_exists_r. Qed.
Print Assumptions C30_restart_order_exists.

(* a start that dies after k of its MarkFailed calls drops nothing either *)
Theorem C30_start_crash_keeps : forall s order k,
  ids (s_store (fst (step s (OpStartCrash order k)))) = ids (s_store s).
Proof. exact Retry.start_crash_keeps. Qed.
Print Assumptions C30_start_crash_keeps.

(* from every reachable state every stored task has a legal continuation to one more execution *)
Theorem C30_progress_possible : forall s t,
  Retry.reachable s -> cfg_ok (s_cfg s) = true -> storedb t (s_store s) = true ->
  exists ops s' outs l, run s ops = (s', outs) /\ Retry.legal outs /\ s_log s' = l ++ s_log s /\ In (EStart t) l.
Proof. exact Proof.C30.progress_possible_r. Qed.
Print Assumptions C30_progress_possible.

(* ... and with a live manager no restart is needed for that: the threads that are running can
   finish what they have in hand (poller pass, Add calls, executions, queued tasks) by enabled
   steps, after which one poller pass executes the task — unless it has already succeeded and the
   worker's pending Remove takes it out.  (no_restart: no OpCrash, OpStart, OpStartCrash, OpClose) *)
Theorem C30_progress_without_restart : forall s m t,
  Retry.reachable s -> cfg_ok (s_cfg s) = true -> s_mgr s = Some m -> storedb t (s_store s) = true ->
  exists ops s' outs l, run s ops = (s', outs) /\ Retry.legal outs /\
    forallb Proof.C30_live.no_restart ops = true /\
    s_log s' = l ++ s_log s /\ (In (EStart t) l \/ storedb t (s_store s') = false).
Proof. exact Proof.C30_live.progress_live_r. Qed.
Print Assumptions C30_progress_without_restart.

(* "executed until an execution succeeds" — PARTIAL.  Proved: however often the executor fails
   (n times), the continuation in which the task is retried each time exists from every reachable
   state; in it the task is executed n+1 times, stays stored through the failures and leaves the
   store after the success.  MISSING (liveness needs a fairness assumption that is not
   formalised): that the real scheduler takes such a continuation, i.e. FAIR := the poller and a
   retry worker take steps again and again AND the task finds room in the retry queue when the
   poller reaches it.  Thread fairness alone is not enough: C30_liveness_under_thread_fairness_refuted. *)
Theorem C30_until_success_partial : forall s t n,
  Retry.reachable s -> cfg_ok (s_cfg s) = true -> storedb t (s_store s) = true ->
  exists ops s' outs l, run s ops = (s', outs) /\ Retry.legal outs /\ s_log s' = l ++ s_log s /\
    Retry.about t l = ERet t true :: EStart t :: Retry.fails t n /\ storedb t (s_store s') = false.
Proof. exact Proof.C30.until_success_r. Qed.
Print Assumptions C30_until_success_partial.

(* for every n there is a history in which the poller completes n+1 passes and the retry worker
   executes 2(n+1) tasks, every operation is enabled, and the stored task 2 never reaches the
   executor: whenever the poller reaches it the retry queue (capacity 1) is full *)
Theorem C30_liveness_under_thread_fairness_refuted : forall n,
  exists s outs,
    run (init Proof.C30.starve_cfg) (Proof.C30.starve_setup ++ Proof.C30.rep (S n) Proof.C30.starve_round) = (s, outs) /\
    Retry.legal outs /\ storedb 2 (s_store s) = true /\ ~ In (EStart 2) (s_log s) /\
    s_log s = Proof.C30.rep (S n) Proof.C30.starve_evs.
Proof. exact Proof.C30.thread_fairness_insufficient. Qed.
Print Assumptions C30_liveness_under_thread_fairness_refuted.

(* executable form used on observed traces: the oracle accepts every trace of the model *)
Theorem C30_check_sound : forall c ops, C30_check ops (snd (run (init c) ops)) = true.
Proof. exact Proof.C30.check_sound. Qed.
Print Assumptions C30_check_sound.

(* ---- non-vacuity *)

(* a reachable state with a task in the executor, one waiting in the queue, one failed by
   overflow and an Add in flight; the hypotheses of the theorems above are met by it *)
(* Proof.C30.ex_state: the state after Start, Add 0 (dequeued, in the executor), Add 1 (queued),
   Add 2 (queue full: marked failed), Add 3 stopped between AddPending and the enqueue *)
Example C30_nonvacuous_state :
  cfg_ok (s_cfg Proof.C30.ex_state) = true /\
  map (fun r => (r_id r, r_st r, r_fail r)) (s_store Proof.C30.ex_state) =
    [(0, Pending, 0); (1, Pending, 0); (2, Failed, 1); (3, Pending, 0)] /\
  option_map (fun m => (m_in m, executing m, add_held (m_add m))) (s_mgr Proof.C30.ex_state) = Some ([1], [0], [3]) /\
  forallb (fun o => negb (out_eqb o OIllegal)) (snd (run (init (mkcfg 1 1 1 1 1)) Proof.C30.ex_ops)) = true.
Proof. vm_compute. repeat split; reflexivity. Qed.

(* the removal step really occurs: task 0 succeeds and is removed by OpExecFin 0 *)
Example C30_nonvacuous_removal :
  let s := fst (run Proof.C30.ex_state [OpExecRet 0 true]) in
  storedb 0 (s_store s) = true /\ storedb 0 (s_store (fst (step s (OpExecFin 0)))) = false /\
  last_ev 0 (s_log s) = Some (ERet 0 true).
Proof. vm_compute. repeat split; reflexivity. Qed.

(* adding the stored task 1 again (thread 9): hypotheses hold, nothing changes *)
Example C30_nonvacuous_add_existing :
  option_map (fun m => (m_closed m, existsb (fun p => fst p =? 9) (m_add m))) (s_mgr Proof.C30.ex_state) = Some (false, false) /\
  storedb 1 (s_store Proof.C30.ex_state) = true /\
  run Proof.C30.ex_state [OpAddCheck 9 1 0; OpAddStore 9] = (Proof.C30.ex_state, [ODone; OExists]).
Proof. vm_compute. repeat split; reflexivity. Qed.

(* crash in the middle of the execution of task 0 and restart: all four tasks are kept, all Failed *)
Example C30_nonvacuous_restart :
  order_ok [0; 1; 3] (pending_ids (s_store Proof.C30.ex_state)) = true /\
  map (fun r => (r_id r, r_st r, r_fail r)) (s_store (fst (run Proof.C30.ex_state [OpCrash; OpStart [0; 1; 3]]))) =
    [(0, Failed, 1); (1, Failed, 1); (2, Failed, 1); (3, Failed, 1)].
Proof. vm_compute. split; reflexivity. Qed.

(* the oracle is not trivially true: it rejects a trace in which a task vanishes without a success,
   one in which a pending task is held by nobody, and one in which a start leaves a task pending *)
Example C30_check_rejects :
  C30_check [OpObserve; OpObserve]
            [OObs (mkobs [mkorow 1 Failed 1 None] true 0 0 []); OObs (mkobs [] true 0 0 [])] = false /\
  C30_check [OpObserve] [OObs (mkobs [mkorow 1 Pending 0 None] true 0 0 [])] = false /\
  C30_check [OpStart [1]; OpObserve] [ODone; OObs (mkobs [mkorow 1 Pending 0 None] true 0 0 [])] = false /\
  C30_check [OpObserve; OpAddCheck 0 1 0; OpAddStore 0; OpObserve]
            [OObs (mkobs [mkorow 1 Failed 1 None] true 0 0 []); ODone; OExists;
             OObs (mkobs [mkorow 1 Failed 2 (Some 0)] true 0 0 [])] = false.
Proof. vm_compute. repeat split; reflexivity. Qed.
