(* C12 — in-memory blob buffers behave like ordinary files.
   Statements only; every proof is `exact <lemma from Proof/C12.v>`.

   brun/mrun/rrun: the models of base.BufferReadWriter, memory.File and store.bufferFileReader
   (flag `true` = with fixes/C12_zero_len_write.patch, `false` = the code before it);
   prun: the operating-system file specification.  An `out` carries the returned count / offset /
   size, the bytes delivered, and the position and size after the call, so equality of output
   lists is equality of bytes, byte counts, sizes and offsets.  `in_extent ops` says every Seek
   of the history lands inside the written extent [0, size]. *)
From Coq Require Import List NArith ZArith Bool.
From K.Model Require Import C12.
From K.Proof Require C12.
Import ListNotations.

(* ---- the statement, one theorem per in-memory buffer ---- *)
Theorem C12_bufrw_eq_file : forall cap ops, in_extent ops = true ->
  snd (brun true (binit cap) ops) = snd (prun (pinit []) ops).
Proof. exact Proof.C12.bufrw_eq_file. Qed.
Print Assumptions C12_bufrw_eq_file.

Theorem C12_memfile_eq_file : forall cap ops, in_extent ops = true ->
  snd (mrun true (minit cap) ops) = snd (prun (pinit []) ops).
Proof. exact Proof.C12.memfile_eq_file. Qed.
Print Assumptions C12_memfile_eq_file.

(* the read-only buffer of utils.go against a file that holds d *)
Theorem C12_bufreader_eq_file : forall d ops, readonly ops = true ->
  snd (rrun (rinit d) ops) = snd (prun (pinit d) ops).
Proof. exact Proof.C12.bufreader_eq_file. Qed.
Print Assumptions C12_bufreader_eq_file.

(* two handles on one blob (Store.Create + Store.Open) against one file opened twice; each op names
   its handle; every Seek lands inside the extent as seen at that moment *)
Theorem C12_memfile_two_handles_eq_file : forall cap ops, in_extent2 ops = true ->
  snd (mrun2 true (minit2 cap) ops) = snd (prun2 pinit2 ops).
Proof. exact Proof.C12.memfile_two_handles_eq_file. Qed.
Print Assumptions C12_memfile_two_handles_eq_file.

(* ---- beyond the statement ---- *)
(* BufferReadWriter agrees with the file for every seek, also past the end (about the model only:
   outside `in_extent` the correspondence with the Go code is not compared) *)
Theorem C12_bufrw_eq_file_any_seek : forall cap ops,
  snd (brun true (binit cap) ops) = snd (prun (pinit []) ops).
Proof. exact Proof.C12.bufrw_eq_file_any_seek. Qed.
Print Assumptions C12_bufrw_eq_file_any_seek.

(* the hidden state agrees too: visible bytes = file content, position = file position, and the
   capacity beyond len is all zero (what makes re-slicing after growth safe) *)
Theorem C12_bufrw_state_eq_file : forall cap ops,
  let b := fst (brun true (binit cap) ops) in let p := fst (prun (pinit []) ops) in
  bytes_of (b_buf b) = f_data p /\ b_off b = f_pos p /\
  exists t, arr (b_buf b) = f_data p ++ zeros t.
Proof. exact Proof.C12.bufrw_state_eq_file. Qed.
Print Assumptions C12_bufrw_state_eq_file.

Theorem C12_memfile_state_eq_file : forall cap ops, in_extent ops = true ->
  let m := fst (mrun true (minit cap) ops) in let p := fst (prun (pinit []) ops) in
  bytes_of (m_buf m) = f_data p /\ m_off m = f_pos p /\
  exists t, arr (m_buf m) = f_data p ++ zeros t.
Proof. exact Proof.C12.memfile_state_eq_file. Qed.
Print Assumptions C12_memfile_state_eq_file.

(* growth beyond the initial capacity is unobservable *)
Theorem C12_bufrw_cap_irrelevant : forall c1 c2 ops,
  snd (brun true (binit c1) ops) = snd (brun true (binit c2) ops).
Proof. exact Proof.C12.bufrw_cap_irrelevant. Qed.
Print Assumptions C12_bufrw_cap_irrelevant.

Theorem C12_memfile_cap_irrelevant : forall c1 c2 ops, in_extent ops = true ->
  snd (mrun true (minit c1) ops) = snd (mrun true (minit c2) ops).
Proof. exact Proof.C12.memfile_cap_irrelevant. Qed.
Print Assumptions C12_memfile_cap_irrelevant.

(* ---- the specification is what one expects of a file (independent of its definition's shape) ---- *)
Theorem C12_spec_zero_len_write : forall d off, pwrite d [] off = d.
Proof. exact Proof.C12.pwrite_nil. Qed.
Print Assumptions C12_spec_zero_len_write.

Theorem C12_spec_pwrite_length : forall d p off, p <> [] ->
  length (pwrite d p off) = Nat.max (length d) (off + length p).
Proof. exact Proof.C12.pwrite_length. Qed.
Print Assumptions C12_spec_pwrite_length.

(* written range = p; other old positions unchanged; the gap reads as zero *)
Theorem C12_spec_pwrite_nth : forall d p off i, p <> [] ->
  nth i (pwrite d p off) 0%N =
  if (off <=? i)%nat && (i <? off + length p)%nat then nth (i - off) p 0%N
  else if (i <? length d)%nat then nth i d 0%N else 0%N.
Proof. exact Proof.C12.pwrite_nth. Qed.
Print Assumptions C12_spec_pwrite_nth.

Theorem C12_spec_read_after_write : forall d p off, pread (pwrite d p off) (length p) off = p.
Proof. exact Proof.C12.pread_pwrite. Qed.
Print Assumptions C12_spec_read_after_write.

Theorem C12_spec_short_read : forall d n off, length (pread d n off) = Nat.min n (length d - off).
Proof. exact Proof.C12.pread_length. Qed.
Print Assumptions C12_spec_short_read.

(* ---- executable form used on observed traces ---- *)
Theorem C12_check_meaning : forall init ops mem osf,
  C12_check init ops mem osf = true <->
  firstn (scope_from (pinit init) ops) mem = firstn (scope_from (pinit init) ops) osf.
Proof. exact Proof.C12.check_meaning. Qed.
Print Assumptions C12_check_meaning.

Theorem C12_scope_is_in_extent : forall ops s, in_extent_from s (firstn (scope_from s ops) ops) = true.
Proof. exact Proof.C12.scope_in_extent. Qed.
Print Assumptions C12_scope_is_in_extent.

Theorem C12_scope_full : forall ops s, in_extent_from s ops = true -> scope_from s ops = length ops.
Proof. exact Proof.C12.scope_full. Qed.
Print Assumptions C12_scope_full.

Theorem C12_check_sound_bufrw : forall cap ops,
  C12_check [] ops (snd (brun true (binit cap) ops)) (snd (prun (pinit []) ops)) = true.
Proof. exact Proof.C12.check_sound_bufrw. Qed.
Print Assumptions C12_check_sound_bufrw.

Theorem C12_check_sound_memfile : forall cap ops,
  C12_check [] ops (snd (mrun true (minit cap) ops)) (snd (prun (pinit []) ops)) = true.
Proof. exact Proof.C12.check_sound_memfile. Qed.
Print Assumptions C12_check_sound_memfile.

Theorem C12_check_sound_bufreader : forall d ops, readonly ops = true ->
  C12_check d ops (snd (rrun (rinit d) ops)) (snd (prun (pinit d) ops)) = true.
Proof. exact Proof.C12.check_sound_bufreader. Qed.
Print Assumptions C12_check_sound_bufreader.

Theorem C12_check_sound_two_handles : forall cap ops,
  C12_check2 ops (snd (mrun2 true (minit2 cap) ops)) (snd (prun2 pinit2 ops)) = true.
Proof. exact Proof.C12.check_sound_two_handles. Qed.
Print Assumptions C12_check_sound_two_handles.

(* ---- the code before the fix: a zero-length positional write past the end grows the buffer ---- *)
Theorem C12_zero_len_write_refuted :
  exists cap ops, in_extent ops = true /\
    snd (brun false (binit cap) ops) <> snd (prun (pinit []) ops) /\
    snd (mrun false (minit cap) ops) <> snd (prun (pinit []) ops).
Proof. exact Proof.C12.zero_len_write_refuted. Qed.
Print Assumptions C12_zero_len_write_refuted.

(* ... and that is its only deviation *)
Theorem C12_prefix_bufrw_eq_file_partial : forall cap ops, nonempty_writes ops = true ->
  snd (brun false (binit cap) ops) = snd (prun (pinit []) ops).
Proof. exact Proof.C12.prefix_bufrw_eq_file_partial. Qed.
Print Assumptions C12_prefix_bufrw_eq_file_partial.

Theorem C12_prefix_memfile_eq_file_partial : forall cap ops,
  nonempty_writes ops = true -> in_extent ops = true ->
  snd (mrun false (minit cap) ops) = snd (prun (pinit []) ops).
Proof. exact Proof.C12.prefix_memfile_eq_file_partial. Qed.
Print Assumptions C12_prefix_memfile_eq_file_partial.

(* the hypothesis on seeks cannot be dropped for memory.File (it refuses positions past the end) *)
Theorem C12_memfile_seek_outside_refuted :
  exists cap ops, in_extent ops = false /\
    snd (mrun true (minit cap) ops) <> snd (prun (pinit []) ops).
Proof. exact Proof.C12.memfile_seek_outside_refuted. Qed.
Print Assumptions C12_memfile_seek_outside_refuted.

(* ---- non-vacuity ---- *)
(* a history inside the extent that grows past the capacity, leaves a gap, seeks and reads across the end *)
Example C12_nonvacuous_in_extent :
  let ops := [Write [1;2;3]; WriteAt [9] 6; Seek (-2) SeekEnd; Read 5; Seek 1 SeekStart; Write [7]; ReadAt 10 0]%N in
  in_extent ops = true /\ nonempty_writes ops = true /\
  snd (mrun true (minit 2) ops) =
    [mko 3 [] 3 3; mko 1 [] 3 7; mko 5 [] 5 7; mko 2 [0;9] 7 7; mko 1 [] 1 7; mko 1 [] 2 7;
     mko 7 [1;7;3;0;0;0;9] 2 7]%N /\
  snd (brun true (binit 2) ops) = snd (mrun true (minit 2) ops).
Proof. vm_compute. repeat split; reflexivity. Qed.

Example C12_nonvacuous_readonly :
  let ops := [Read 2; Seek (-1) SeekEnd; Read 4; ReadAt 3 1; Size]%N in
  readonly ops = true /\
  snd (rrun (rinit [1;2;3;4]%N) ops) =
    [mko 2 [1;2] 2 4; mko 3 [] 3 4; mko 1 [4] 4 4; mko 3 [2;3;4] 4 4; mko 4 [] 4 4]%N.
Proof. vm_compute. split; reflexivity. Qed.

(* handle 1 grows the blob past its capacity; handle 0 sees the new bytes and keeps its position *)
Example C12_nonvacuous_two_handles :
  let ops := [(false, Write [1;2;3]); (true, Read 2); (true, Write [9]); (true, WriteAt [7] 8);
              (false, Read 1); (false, Seek 0 SeekStart); (false, Read 12)]%N in
  in_extent2 ops = true /\
  snd (mrun2 true (minit2 2) ops) =
    [mko 3 [] 3 3; mko 2 [1;2] 2 3; mko 1 [] 3 3; mko 1 [] 3 9; mko 1 [0] 4 9; mko 0 [] 0 9;
     mko 9 [1;2;9;0;0;0;0;0;7] 9 9]%N.
Proof. vm_compute. split; reflexivity. Qed.

(* the refutation witnesses, as the driver replays them *)
Example C12_zero_len_witness_outputs :
  snd (brun false (binit 0) Proof.C12.zero_len_witness) = [mko 0 [] 0 5; mko 5 [] 0 5; mko 5 [0;0;0;0;0]%N 0 5] /\
  snd (brun true (binit 0) Proof.C12.zero_len_witness) = [mko 0 [] 0 0; mko 0 [] 0 0; mko 0 [] 0 0] /\
  snd (prun (pinit []) Proof.C12.zero_len_witness) = [mko 0 [] 0 0; mko 0 [] 0 0; mko 0 [] 0 0].
Proof. vm_compute. repeat split; reflexivity. Qed.
