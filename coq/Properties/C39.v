From Coq Require Import List NArith.
From K.Model Require Import C39.
From K.Proof Require C39.
Theorem C39_placeholder : True.
Proof. exact Proof.C39.placeholder. Qed.
Print Assumptions C39_placeholder.
