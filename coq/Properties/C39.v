(* C39 — identifiers and metadata serialise and parse losslessly.
   "Digests, info hashes, peer ids, piece-status vectors, access times, persist flags, handshake
    bitfields and digest lists parse back to exactly what was printed or serialized, and parsing
    accepts only well-formed input (a digest is 'sha256:' followed by 64 hexadecimal characters)."
   Statements only; every proof is `exact <lemma from Proof/C39*.v>`.
   For each type: X_roundtrip (print then parse = identity, for ALL values of the type),
   X_accepts* (exactly the well-formed texts are accepted / the accepted value is well-formed),
   X_parse_print (printing an accepted value parses to the same value). *)
From Coq Require Import List NArith ZArith Bool.
From K.Model Require Import C39.
From K.Proof Require C39_hex C39_digest C39_meta C39_bits C39_hs C39.
Import ListNotations.
Local Open Scope N_scope.

(* ---------------- hexadecimal text (shared by digests, info hashes, peer ids) ---------------- *)

Theorem C39_hex_roundtrip : forall b, Forall (fun x => x < 256) b -> hex_decode (hex_encode b) = Some b.
Proof. exact Proof.C39_hex.hex_roundtrip. Qed.
Print Assumptions C39_hex_roundtrip.

Theorem C39_hex_accepts_wellformed_only : forall s,
  (exists b, hex_decode s = Some b) <-> (Nat.even (length s) = true /\ forallb is_hex s = true).
Proof. exact Proof.C39_hex.hex_decode_accepts. Qed.
Print Assumptions C39_hex_accepts_wellformed_only.

Theorem C39_hex_parse_print : forall s b, hex_decode s = Some b ->
  length s = (2 * length b)%nat /\ Forall (fun x => x < 256) b /\ forallb is_hex s = true
  /\ hex_encode b = map lower s.
Proof. exact Proof.C39_hex.hex_decode_sound. Qed.
Print Assumptions C39_hex_parse_print.

(* ---------------- digests: ParseSHA256Digest / String ---------------- *)

(* accepted <-> 'sha256:' followed by 64 hexadecimal characters; the digest keeps the text *)
Theorem C39_digest_wellformed : forall raw d,
  digest_parse raw = Ok d <-> (digest_text_wfb raw = true /\ d = mkd sha256_str (skipn 7 raw) raw).
Proof. exact Proof.C39_digest.digest_parse_iff. Qed.
Print Assumptions C39_digest_wellformed.

(* ... where the boolean predicate means literally what the property says *)
Theorem C39_digest_wellformed_meaning : forall raw,
  digest_text_wfb raw = true <->
  exists h, raw = sha256_str ++ colon :: h /\ length h = 64%nat /\ Forall (fun c => is_hex c = true) h.
Proof. exact Proof.C39_digest.digest_text_wfb_spec. Qed.
Print Assumptions C39_digest_wellformed_meaning.

Theorem C39_digest_roundtrip : forall d, dg_wfb d = true -> digest_parse (digest_string d) = Ok d.
Proof. exact Proof.C39_digest.digest_roundtrip. Qed.
Print Assumptions C39_digest_roundtrip.

(* dg_wfb is exactly "built by one of the two constructors" *)
Theorem C39_digest_values_parse : forall raw d, digest_parse raw = Ok d -> dg_wfb d = true /\ digest_string d = raw.
Proof. exact Proof.C39_digest.digest_parse_wf. Qed.
Print Assumptions C39_digest_values_parse.
Theorem C39_digest_values_from_hex : forall h d, digest_from_hex h = Ok d -> dg_wfb d = true /\ d_hex d = h.
Proof. exact Proof.C39_digest.digest_from_hex_wf. Qed.
Print Assumptions C39_digest_values_from_hex.

(* NewSHA256DigestFromHex / Hex *)
Theorem C39_digest_hex_wellformed : forall h d,
  digest_from_hex h = Ok d <-> (id_text_wfb 64 h = true /\ d = mkd sha256_str h (sha256_str ++ colon :: h)).
Proof. exact Proof.C39_digest.digest_from_hex_iff. Qed.
Print Assumptions C39_digest_hex_wellformed.
Theorem C39_digest_hex_roundtrip : forall d, dg_wfb d = true -> digest_from_hex (d_hex d) = Ok d.
Proof. exact Proof.C39_digest.digest_hex_roundtrip. Qed.
Print Assumptions C39_digest_hex_roundtrip.

(* JSON form: Digest.Value / Digest.Scan *)
Theorem C39_digest_json_roundtrip : forall d, dg_wfb d = true -> digest_json_parse (digest_json_print d) = Ok d.
Proof. exact Proof.C39_digest.digest_json_roundtrip. Qed.
Print Assumptions C39_digest_json_roundtrip.
Theorem C39_digest_json_accepts_wellformed_only : forall s d, digest_json_parse s = Ok d -> dg_wfb d = true.
Proof. exact Proof.C39_digest.digest_json_accepts_wf_only. Qed.
Print Assumptions C39_digest_json_accepts_wellformed_only.

(* ---------------- digest lists: DigestList.Value / DigestList.Scan ---------------- *)

Theorem C39_digestlist_roundtrip : forall l,
  match l with Some l' => forallb dg_wfb l' = true | None => True end ->
  dl_parse (dl_print l) = Ok l.
Proof. exact Proof.C39_digest.digestlist_roundtrip. Qed.
Print Assumptions C39_digestlist_roundtrip.
Theorem C39_digestlist_accepts_wellformed_only : forall s l, dl_parse s = Ok l ->
  match l with Some l' => forallb dg_wfb l' = true | None => True end.
Proof. exact Proof.C39_digest.digestlist_accepts_wf_only. Qed.
Print Assumptions C39_digestlist_accepts_wellformed_only.
Theorem C39_digestlist_parse_print : forall s l, dl_parse s = Ok l -> dl_parse (dl_print l) = Ok l.
Proof. exact Proof.C39_digest.digestlist_parse_print. Qed.
Print Assumptions C39_digestlist_parse_print.

(* ---------------- info hashes and peer ids ---------------- *)

Theorem C39_infohash_roundtrip : forall b, id20_wfb b = true -> infohash_parse (infohash_print b) = Ok b.
Proof. exact Proof.C39_hex.infohash_roundtrip. Qed.
Print Assumptions C39_infohash_roundtrip.
Theorem C39_infohash_accepts_wellformed_only : forall s, (exists b, infohash_parse s = Ok b) <-> id_text_wfb 40 s = true.
Proof. exact Proof.C39_hex.infohash_accepts. Qed.
Print Assumptions C39_infohash_accepts_wellformed_only.
Theorem C39_infohash_parse_print : forall s b, infohash_parse s = Ok b ->
  id20_wfb b = true /\ infohash_print b = map lower s.
Proof. exact Proof.C39_hex.infohash_parse_sound. Qed.
Print Assumptions C39_infohash_parse_print.

Theorem C39_peerid_roundtrip : forall b, id20_wfb b = true -> peerid_parse (peerid_print b) = Ok b.
Proof. exact Proof.C39_hex.peerid_roundtrip. Qed.
Print Assumptions C39_peerid_roundtrip.
Theorem C39_peerid_accepts_wellformed_only : forall s, (exists b, peerid_parse s = Ok b) <-> id_text_wfb 40 s = true.
Proof. exact Proof.C39_hex.peerid_accepts. Qed.
Print Assumptions C39_peerid_accepts_wellformed_only.
Theorem C39_peerid_parse_print : forall s b, peerid_parse s = Ok b ->
  id20_wfb b = true /\ peerid_print b = map lower s.
Proof. exact Proof.C39_hex.peerid_parse_sound. Qed.
Print Assumptions C39_peerid_parse_print.

(* ---------------- piece-status vectors ---------------- *)

(* all vectors over the statuses that are ever persisted (empty, complete) *)
Theorem C39_status_roundtrip : forall v, forallb status_persistent v = true -> status_parse (status_print v) = v.
Proof. exact Proof.C39_meta.status_roundtrip. Qed.
Print Assumptions C39_status_roundtrip.
(* Deserialize is total and lenient by design: same length, persisted statuses only ... *)
Theorem C39_status_parse_range : forall b,
  length (status_parse b) = length b /\ forallb status_persistent (status_parse b) = true.
Proof. exact Proof.C39_meta.status_parse_range. Qed.
Print Assumptions C39_status_parse_range.
(* ... well-formed bytes are kept exactly ... *)
Theorem C39_status_wellformed_exact : forall b, forallb status_persistent b = true -> status_parse b = b.
Proof. exact Proof.C39_meta.status_parse_wellformed_exact. Qed.
Print Assumptions C39_status_wellformed_exact.
Theorem C39_status_parse_print : forall b, status_parse (status_print (status_parse b)) = status_parse b.
Proof. exact Proof.C39_meta.status_parse_print. Qed.
Print Assumptions C39_status_parse_print.
(* ... and the transient status `dirty` (in-flight write; never serialized by the code) does NOT
   round-trip: it is read back as empty. Outside the domain of C39_status_roundtrip on purpose. *)
Theorem C39_status_dirty_refuted : exists v, status_parse (status_print v) <> v.
Proof. exact Proof.C39_meta.status_dirty_refuted. Qed.
Print Assumptions C39_status_dirty_refuted.

(* ---------------- last access time (second granularity) ---------------- *)

(* ALL times whose Unix seconds fit int64 (the whole range of time.Time.Unix) — this is the code
   with fixes/C39_lat_varint_buffer.patch (10-byte buffer) *)
Theorem C39_lat_roundtrip : forall z, int64b z = true ->
  exists b, lat_print z = Ok b /\ length b = 10%nat /\ lat_parse b = Ok z.
Proof. exact Proof.C39_meta.lat_roundtrip. Qed.
Print Assumptions C39_lat_roundtrip.
Theorem C39_lat_never_panics : forall z, exists b, lat_print z = Ok b /\ length b = 10%nat.
Proof. exact Proof.C39_meta.lat_print_total. Qed.
Print Assumptions C39_lat_never_panics.
Theorem C39_lat_accepts_wellformed_only : forall b, (exists z, lat_parse b = Ok z) <-> varint_wf_from 0 b = true.
Proof. exact Proof.C39_meta.lat_accepts_wellformed_only. Qed.
Print Assumptions C39_lat_accepts_wellformed_only.
Theorem C39_lat_parse_print : forall b z, lat_parse b = Ok z -> exists p, lat_print z = Ok p /\ lat_parse p = Ok z.
Proof. exact Proof.C39_meta.lat_parse_print. Qed.
Print Assumptions C39_lat_parse_print.
Theorem C39_lat_parse_in_range : forall b z, lat_parse b = Ok z -> int64b z = true.
Proof. exact Proof.C39_meta.lat_parse_range. Qed.
Print Assumptions C39_lat_parse_in_range.
Theorem C39_lat_padding_ignored : forall b t z, lat_parse b = Ok z -> lat_parse (b ++ t) = Ok z.
Proof. exact Proof.C39_meta.lat_parse_trailing. Qed.
Print Assumptions C39_lat_padding_ignored.

(* the code as found (8-byte buffer, kept as the mutant model lat_print_prefix): Serialize works
   exactly for -2^55 <= seconds < 2^55 and panics for every other time *)
Theorem C39_lat_8byte_domain : forall z, (exists b, lat_print_prefix z = Ok b) <-> (- 2 ^ 55 <= z < 2 ^ 55)%Z.
Proof. exact Proof.C39_meta.lat_prefix_domain. Qed.
Print Assumptions C39_lat_8byte_domain.
Theorem C39_lat_8byte_refuted : exists z, int64b z = true /\ lat_print_prefix z = Panic.
Proof. exact Proof.C39_meta.lat_prefix_refuted. Qed.
Print Assumptions C39_lat_8byte_refuted.
(* the fix is compatible in both directions: old files are read, new files = old bytes + 00 00 *)
Theorem C39_lat_fix_compatible : forall z b8, lat_print_prefix z = Ok b8 ->
  lat_parse b8 = Ok z /\ lat_print z = Ok (b8 ++ [0; 0]).
Proof. exact Proof.C39_meta.lat_prefix_compatible. Qed.
Print Assumptions C39_lat_fix_compatible.

(* ---------------- persist flag ---------------- *)

Theorem C39_persist_roundtrip : forall b, persist_parse (persist_print b) = Ok b.
Proof. exact Proof.C39_meta.persist_roundtrip. Qed.
Print Assumptions C39_persist_roundtrip.
Theorem C39_persist_accepts_wellformed_only : forall s b,
  persist_parse s = Ok b <-> In s (if b then true_spellings else false_spellings).
Proof. exact Proof.C39_meta.persist_accepts. Qed.
Print Assumptions C39_persist_accepts_wellformed_only.
Theorem C39_persist_rejects : forall s,
  persist_parse s = Err <-> (~ In s true_spellings /\ ~ In s false_spellings).
Proof. exact Proof.C39_meta.persist_rejects. Qed.
Print Assumptions C39_persist_rejects.

(* ---------------- handshake bitfields (binary form of a bit set) ---------------- *)

Theorem C39_bitfield_roundtrip : forall b, bs_wfb b = true -> bitset_parse (bitset_print b) = Ok b.
Proof. exact Proof.C39_bits.bitset_roundtrip. Qed.
Print Assumptions C39_bitfield_roundtrip.
Theorem C39_bitfield_accepts_wellformed_only : forall d, (exists b, bitset_parse d = Ok b) <-> input_wfb CBits d = true.
Proof. exact Proof.C39_bits.bitset_accepts. Qed.
Print Assumptions C39_bitfield_accepts_wellformed_only.
Theorem C39_bitfield_parse_print : forall d b, forallb is_byte d = true -> bitset_parse d = Ok b ->
  bs_wfb b = true /\ bitset_print b = firstn (8 + 8 * N.to_nat (words_needed (b_len b))) d.
Proof. exact Proof.C39_bits.bitset_parse_sound. Qed.
Print Assumptions C39_bitfield_parse_print.
Theorem C39_bitfield_trailing_ignored : forall b tail, bs_wfb b = true -> bitset_parse (bitset_print b ++ tail) = Ok b.
Proof. exact Proof.C39_bits.bitset_parse_trailing. Qed.
Print Assumptions C39_bitfield_trailing_ignored.

(* ---------------- the whole handshake: peer id, digest, info hash, bitfield, remote bitfields -- *)

Theorem C39_handshake_roundtrip : forall h, hs_wfb h = true -> hs_parse true (Some (hs_print h)) = Ok h.
Proof. exact Proof.C39_hs.hs_roundtrip. Qed.
Print Assumptions C39_handshake_roundtrip.
Theorem C39_handshake_accepts_wellformed_only : forall isb body,
  (exists h, hs_parse isb body = Ok h) <->
  (isb = true /\ exists m, body = Some m /\ hmsg_text_wfb m = true).
Proof. exact Proof.C39_hs.hs_accepts. Qed.
Print Assumptions C39_handshake_accepts_wellformed_only.
Theorem C39_handshake_parse_print : forall isb m h, body_bytes (Some m) = true -> hs_parse isb (Some m) = Ok h ->
  hs_parse true (Some (hs_print h)) = Ok h.
Proof. exact Proof.C39_hs.hs_parse_print. Qed.
Print Assumptions C39_handshake_parse_print.
Theorem C39_handshake_keys_distinct : forall p q, id20_wfb p = true -> id20_wfb q = true ->
  peerid_print p = peerid_print q -> p = q.
Proof. exact Proof.C39_hs.hs_print_keys_distinct. Qed.
Print Assumptions C39_handshake_keys_distinct.

(* ---------------- the two clauses of the property, uniformly over all ten codecs ---------------- *)

(* clause 1: every value of each type prints to a text that parses back to exactly that value *)
Theorem C39_roundtrip_all : forall c v, in_domain c v = true ->
  exists p, print c v = Ok p /\ parse c p = Ok (granular c v).
Proof. exact Proof.C39.print_ok_facts. Qed.
Print Assumptions C39_roundtrip_all.

(* clause 2: only well-formed input is accepted, the accepted value belongs to the type, and printing
   it parses to the same value *)
Theorem C39_accepts_wellformed_only_all : forall c s v, forallb is_byte s = true -> parse c s = Ok v ->
  input_wfb c s = true /\ in_domain c v = true /\ exists p, print c v = Ok p /\ parse c p = Ok v.
Proof. exact Proof.C39.parse_ok_facts. Qed.
Print Assumptions C39_accepts_wellformed_only_all.

(* and conversely the well-formed texts are never rejected *)
Theorem C39_wellformed_accepted_all : forall c s, parse c s = Err -> must_accept c s = false.
Proof. exact Proof.C39.parse_err_facts. Qed.
Print Assumptions C39_wellformed_accepted_all.

(* no parser and no printer panics, on any input *)
Theorem C39_parse_never_panics : forall c s, parse c s <> Panic.
Proof. exact Proof.C39.parse_no_panic. Qed.
Print Assumptions C39_parse_never_panics.
Theorem C39_print_never_panics : forall c v, print c v <> Panic.
Proof. exact Proof.C39.print_no_panic. Qed.
Print Assumptions C39_print_never_panics.

(* ---------------- executable form, used on the implementation's observations ---------------- *)

Theorem C39_check_sound : forall c, case_bytes c = true -> C39_check (model_case c) = true.
Proof. exact Proof.C39.check_sound. Qed.
Print Assumptions C39_check_sound.

(* the literals of the model are the literals of the source (regenerated on every run) *)
Theorem C39_consts_match :
  K.Gen.C39_consts.digest_algo_name = sha256_str /\
  K.Gen.C39_consts.digest_split_sep = [colon] /\
  K.Gen.C39_consts.digest_raw_format = [37; 115; colon; 37; 115] /\
  K.Gen.C39_consts.piece_status_empty = Z.of_N st_empty /\
  K.Gen.C39_consts.piece_status_complete = Z.of_N st_complete /\
  K.Gen.C39_consts.piece_status_dirty = Z.of_N st_dirty.
Proof. exact Proof.C39.consts_match. Qed.
Print Assumptions C39_consts_match.

(* ---------------- non-vacuity ---------------- *)

Example C39_nonvacuous_digest :
  digest_text_wfb (sha256_str ++ colon :: repeat 97 64) = true /\
  digest_parse (sha256_str ++ colon :: repeat 97 64)
    = Ok (mkd sha256_str (repeat 97 64) (sha256_str ++ colon :: repeat 97 64)) /\
  dg_wfb (mkd sha256_str (repeat 70 64) (sha256_str ++ colon :: repeat 70 64)) = true /\
  digest_parse (sha256_str ++ colon :: repeat 97 63) = Err /\
  digest_parse (sha256_str ++ colon :: repeat 103 64) = Err.
Proof. vm_compute. repeat split; reflexivity. Qed.

Example C39_nonvacuous_digestlist :
  dl_parse (dl_print (Some [mkd sha256_str (repeat 97 64) (sha256_str ++ colon :: repeat 97 64);
                            mkd sha256_str (repeat 48 64) (sha256_str ++ colon :: repeat 48 64)]))
  = Ok (Some [mkd sha256_str (repeat 97 64) (sha256_str ++ colon :: repeat 97 64);
              mkd sha256_str (repeat 48 64) (sha256_str ++ colon :: repeat 48 64)]) /\
  dl_parse (dl_print None) = Ok None /\ dl_parse (dl_print (Some [])) = Ok (Some []) /\
  dl_parse [91; 110; 117; 108; 108; 93] = Err.          (* [null] *)
Proof. vm_compute. repeat split; reflexivity. Qed.

Example C39_nonvacuous_ids :
  id20_wfb (repeat 255 20) = true /\ infohash_parse (repeat 70 40) = Ok (repeat 255 20) /\
  peerid_parse (repeat 102 40) = Ok (repeat 255 20) /\ peerid_parse (repeat 102 39) = Err.
Proof. vm_compute. repeat split; reflexivity. Qed.

Example C39_nonvacuous_status :
  forallb status_persistent [0; 1; 1; 0] = true /\ status_parse (status_print [0; 1; 1; 0]) = [0; 1; 1; 0] /\
  status_parse (status_print [st_dirty]) = [st_empty] /\ status_parse [7] = [0].
Proof. vm_compute. repeat split; reflexivity. Qed.

Example C39_nonvacuous_lat :
  int64b (2 ^ 55) = true /\ int64b (- 2 ^ 63) = true /\ int64b (2 ^ 63 - 1) = true /\
  lat_print (2 ^ 55) = Ok [128; 128; 128; 128; 128; 128; 128; 128; 1; 0] /\
  lat_parse [128; 128; 128; 128; 128; 128; 128; 128; 1; 0] = Ok (2 ^ 55)%Z /\
  lat_print_prefix (2 ^ 55) = Panic /\
  lat_print_prefix 1600000000 = Ok [128; 192; 240; 245; 11; 0; 0; 0] /\
  lat_print 1600000000 = Ok [128; 192; 240; 245; 11; 0; 0; 0; 0; 0] /\
  lat_print (- 2 ^ 63) = Ok [255; 255; 255; 255; 255; 255; 255; 255; 255; 1] /\
  lat_parse [255; 255; 255; 255; 255; 255; 255; 255; 255; 2] = Err /\ lat_parse [128; 128] = Err.
Proof. vm_compute. repeat split; reflexivity. Qed.

Example C39_nonvacuous_bitfield :
  bs_wfb (mkbs 65 [9223372036854775809; 1]) = true /\
  bitset_print (mkbs 65 [9223372036854775809; 1])
    = [0; 0; 0; 0; 0; 0; 0; 65; 128; 0; 0; 0; 0; 0; 0; 1; 0; 0; 0; 0; 0; 0; 0; 1] /\
  bitset_parse [0; 0; 0; 0; 0; 0; 0; 65; 128; 0; 0; 0; 0; 0; 0; 1; 0; 0; 0; 0; 0; 0; 0; 1]
    = Ok (mkbs 65 [9223372036854775809; 1]) /\
  bitset_parse [0; 0; 0; 0; 0; 0; 0; 65; 128; 0; 0; 0; 0; 0; 0; 1] = Err /\
  bitset_parse [255; 255; 255; 255; 255; 255; 255; 255; 0; 0; 0; 0; 0; 0; 0; 1] = Err.
Proof. vm_compute. repeat split; reflexivity. Qed.

Example C39_nonvacuous_handshake :
  let d := mkd sha256_str (repeat 97 64) (sha256_str ++ colon :: repeat 97 64) in
  let h := mkhs (repeat 1 20) d (repeat 2 20) (mkbs 3 [5]) [(repeat 3 20, mkbs 64 [7]); (repeat 4 20, mkbs 0 [])] [110; 115] in
  hs_wfb h = true /\ nodup_keys (h_rb h) = true /\ hs_parse true (Some (hs_print h)) = Ok h /\
  body_bytes (Some (hs_print h)) = true /\ hmsg_text_wfb (hs_print h) = true /\
  hs_parse false (Some (hs_print h)) = Err /\ hs_parse true None = Err.
Proof. vm_compute. repeat split; reflexivity. Qed.

Example C39_nonvacuous_check :
  case_bytes (CaseParse CDigest (sha256_str ++ colon :: repeat 97 64) Err Err Err) = true /\
  C39_check (model_case (CaseParse CDigest (sha256_str ++ colon :: repeat 97 64) Err Err Err)) = true /\
  (* the oracle is not trivially true: it rejects a lossy round trip, an accepted malformed text,
     a rejected well-formed text and a panic *)
  C39_check (CasePrint CLat (VT 5 0) (Ok [10]) (Ok (VT 6 0))) = false /\
  C39_check (CaseParse CDigest (sha256_str ++ colon :: repeat 97 63)
               (Ok (VD (mkd sha256_str (repeat 97 63) (sha256_str ++ colon :: repeat 97 63))))
               (Ok (sha256_str ++ colon :: repeat 97 63))
               (Ok (VD (mkd sha256_str (repeat 97 63) (sha256_str ++ colon :: repeat 97 63))))) = false /\
  C39_check (CaseParse CDigest (sha256_str ++ colon :: repeat 97 64) Err Err Err) = false /\
  C39_check (CasePrint CLat (VT (2 ^ 55) 0) Panic Err) = false.
Proof. vm_compute. repeat split; reflexivity. Qed.
