(* C17 — every blob download request returns exactly once.
   Statements only; every proof is `exact <lemma from Proof/C17.v>`.

   `run c kn ops` is the scheduler's download-request life cycle (Model/C17.v) after the op
   sequence `ops`: every interleaving of the event loop receiving one parked event (the Ap ops) with
   the steps other goroutines take (a caller creating its torrent and parking its
   newTorrentEvent, the dispatcher goroutine writing the last piece and parking its completion
   notice, RemoveTorrent, the ticker, Stop, cache eviction, the clock) is such a sequence;
   parked events may be received in any order.  `wf ops`: call identifiers are fresh. *)
From Coq Require Import List NArith.
From K.Model Require Import C17.
From K.Proof Require C17 C17_kinds.
Import ListNotations.
Local Open Scope N_scope.

(* at most once: no call is ever sent two results (so no send to a waiter channel, which has
   room for one result, can block the event loop) *)
Theorem C17_at_most_once : forall c kn ops,
  wf ops = true -> NoDup (map fst (results (run c kn ops))).
Proof. exact Proof.C17.at_most_once. Qed.
Print Assumptions C17_at_most_once.

Theorem C17_at_most_once_count : forall c kn ops w,
  wf ops = true -> (length (results_of w (results (run c kn ops))) <= 1)%nat.
Proof. exact Proof.C17.at_most_once_count. Qed.
Print Assumptions C17_at_most_once_count.

(* the same, in the form the driver observes on the real waiter channels: after the schedule
   no call has a second result sitting in (or blocked on) its one-slot channel *)
Theorem C17_no_surplus_send : forall c kn ops,
  wf ops = true -> no_surplus (model_surplus (run c kn ops) ops) = true.
Proof. exact Proof.C17.no_surplus_send. Qed.
Print Assumptions C17_no_surplus_send.

(* at least once, shutdown: when the event loop has exited every call has its result *)
Theorem C17_answered_when_stopped : forall c kn ops,
  wf ops = true -> stopped (run c kn ops) = true ->
  forall w, In w (callers ops) -> exists r, In (w, r) (results (run c kn ops)).
Proof. exact Proof.C17.answered_when_stopped. Qed.
Print Assumptions C17_answered_when_stopped.

(* ... and from any reachable state Stop + the application of the shutdown event gets there *)
Theorem C17_shutdown_answers_all : forall c kn ops,
  wf ops = true ->
  forall w, In w (callers ops) -> exists r, In (w, r) (results (run c kn (ops ++ [Stop; ApShutdown]))).
Proof. exact Proof.C17.shutdown_answers_all. Qed.
Print Assumptions C17_shutdown_answers_all.

(* at least once, in general: at every point of every schedule a call is answered, or its
   newTorrentEvent is still parked, or it waits on a live control whose torrent is incomplete
   (removal, the leecher timeout and shutdown answer it) or whose completion notice is parked *)
Theorem C17_no_lost_call : forall c kn ops,
  wf ops = true ->
  forall w, In w (callers ops) ->
  let s := run c kn ops in
  In w (map fst (results s)) \/
  (exists t, In (PNew w t) (pending s)) \/
  (exists c0, In c0 (ctrls s) /\ In w (c_errors c0) /\ stopped s = false /\
              (tor_complete s (c_disp c0) = false \/ In (PComplete (c_disp c0)) (pending s))).
Proof. exact Proof.C17.no_lost_call. Qed.
Print Assumptions C17_no_lost_call.

(* each of these covers is discharged by the event that is due (small-step progress at every
   reachable state) *)
Theorem C17_new_registers : forall c kn ops w t,
  wf ops = true -> In (PNew w t) (pending (run c kn ops)) ->
  let s' := step c (run c kn ops) (ApNew w) in
  In w (map fst (results s')) \/ In w (all_waiters (ctrls s')).
Proof. exact Proof.C17.new_registers. Qed.
Print Assumptions C17_new_registers.

Theorem C17_complete_answers : forall c kn ops x w,
  let s := run c kn ops in
  In (PComplete (c_disp x)) (pending s) -> In x (ctrls s) -> In w (c_errors x) ->
  In (w, RNil) (results (step c s (ApComplete (c_disp x)))).
Proof. exact Proof.C17.complete_answers_run. Qed.
Print Assumptions C17_complete_answers.

Theorem C17_timeout_answers : forall c kn ops x w,
  let s := run c kn ops in
  In PTick (pending s) -> In x (ctrls s) ->
  tor_complete s (c_disp x) = false -> leecher_tti c <= now s - c_lastw x -> In w (c_errors x) ->
  In (w, RTimeout) (results (step c s ApTick)).
Proof. exact Proof.C17.tick_answers_run. Qed.
Print Assumptions C17_timeout_answers.

Theorem C17_remove_answers : forall c kn ops x w,
  let s := run c kn ops in
  In (PRemove (c_hash x)) (pending s) -> In x (ctrls s) -> In w (c_errors x) ->
  In (w, RRemoved) (results (step c s (ApRemove (c_hash x)))).
Proof. exact Proof.C17.remove_answers_run. Qed.
Print Assumptions C17_remove_answers.

Theorem C17_shutdown_answers : forall c kn ops w,
  let s := run c kn ops in
  In PShutdown (pending s) ->
  In w (all_waiters (ctrls s)) \/ In w (pending_callers (pending s)) ->
  In (w, RStopped) (results (step c s ApShutdown)) /\ stopped (step c s ApShutdown) = true.
Proof. exact Proof.C17.shutdown_answers_run. Qed.
Print Assumptions C17_shutdown_answers.

(* eventually, without shutdown: when no event is parked, every unanswered call waits on an
   incomplete torrent; if no piece arrives for leecher_tti, the next tick answers all of them *)
Theorem C17_quiescent_timeout_answers_all : forall c kn ops,
  wf ops = true -> stopped (run c kn ops) = false -> pending (run c kn ops) = [] ->
  forall w, In w (callers ops) ->
  exists r, In (w, r) (results (run c kn (ops ++ [Advance (leecher_tti c); TickSend; ApTick]))).
Proof. exact Proof.C17.quiescent_timeout_answers_all. Qed.
Print Assumptions C17_quiescent_timeout_answers_all.

(* success only when the blob has been in the local cache at some point since the call *)
Theorem C17_success_justified : forall c kn ops w,
  In (w, RNil) (results (run c kn ops)) -> In w (seen (run c kn ops)).
Proof. exact Proof.C17.success_seen. Qed.
Print Assumptions C17_success_justified.

(* ... and, unless the cache evicted it asynchronously somewhere in the schedule, the blob was in
   the cache when the request was made or after some event applied since (so: never a success
   for a blob that the scheduler itself has just deleted, or that never arrived) *)
Theorem C17_success_when_cached : forall c kn ops w,
  wf ops = true -> In (w, RNil) (results (run c kn ops)) -> success_justified c kn ops w = true.
Proof. exact Proof.C17.success_when_cached. Qed.
Print Assumptions C17_success_when_cached.

(* otherwise an error: the results sent are success, not found, timed out, removed or stopped *)
Theorem C17_result_kinds : forall c kn ops w r,
  In (w, r) (results (run c kn ops)) ->
  r = RNil \/ r = RNotFound \/ r = RTimeout \/ r = RRemoved \/ r = RStopped.
Proof. exact Proof.C17_kinds.result_kinds. Qed.
Print Assumptions C17_result_kinds.

(* executable form evaluated on observed schedules *)
Theorem C17_check_sound : forall c kn ops,
  C17_check c kn ops (model_obs (run c kn ops) ops) = true.
Proof. exact Proof.C17.check_sound. Qed.
Print Assumptions C17_check_sound.

(* ---- the code before fix 1cc9585 (run_prefix) violates each clause ---- *)
(* completion, removal, then the completion notice: call 1 is never answered, not even by shutdown *)
Theorem C17_lost_wakeup_refuted :
  let ops := [Download 1 0; ApNew 1; Feed 0; Remove 0; ApRemove 0; ApComplete 0; Stop; ApShutdown] in
  wf ops = true /\ stopped (run_prefix (mkCfg 10 60) [0] ops) = true /\
  In 1 (callers ops) /\ results_of 1 (results (run_prefix (mkCfg 10 60) [0] ops)) = [].
Proof. exact Proof.C17.lost_wakeup_refuted. Qed.
Print Assumptions C17_lost_wakeup_refuted.

(* a call whose torrent was created before completion and registered after it: two results *)
Theorem C17_straddle_refuted :
  let ops := [Download 1 0; ApNew 1; Download 2 0; Feed 0; ApNew 2; ApComplete 0; Stop; ApShutdown] in
  wf ops = true /\ ~ NoDup (map fst (results (run_prefix (mkCfg 10 60) [0] ops))).
Proof. exact Proof.C17.straddle_refuted. Qed.
Print Assumptions C17_straddle_refuted.

(* the stale notice of a removed dispatcher: success for a blob that was never in the cache *)
Theorem C17_stale_notice_refuted :
  let ops := [Download 1 0; ApNew 1; Feed 0; Remove 0; ApRemove 0; Download 2 0; ApNew 2;
              ApComplete 0; Stop; ApShutdown] in
  In (2, RNil) (results (run_prefix (mkCfg 10 60) [0] ops)) /\
  ~ In 2 (seen (run_prefix (mkCfg 10 60) [0] ops)).
Proof. exact Proof.C17.stale_notice_refuted. Qed.
Print Assumptions C17_stale_notice_refuted.

(* stale notice, own notice, shutdown: three sends to a channel with room for one *)
Theorem C17_triple_send_refuted :
  let ops := [Download 1 0; ApNew 1; Feed 0; Remove 0; ApRemove 0; Download 2 0; ApNew 2;
              ApComplete 0; Feed 0; ApComplete 1; Stop; ApShutdown] in
  wf ops = true /\ length (results_of 2 (results (run_prefix (mkCfg 10 60) [0] ops))) = 3%nat.
Proof. exact Proof.C17.triple_send_refuted. Qed.
Print Assumptions C17_triple_send_refuted.

(* ---- non-vacuity ---- *)
(* a contract-respecting schedule that ends shut down, with every kind of result *)
Example C17_nonvacuous_typical :
  let ops := [Download 1 0; Download 2 0; Download 3 1; ApNew 1; ApNew 2; Feed 0; ApComplete 0;
              Download 4 0; ApNew 4; Evict 0; Download 5 0; ApNew 5; Download 6 0; ApNew 6;
              Advance 60; TickSend; ApTick; Download 7 0; ApNew 7; Remove 0; ApRemove 0;
              Download 8 0; Stop; ApShutdown; Download 9 0] in
  wf ops = true /\ stopped (run (mkCfg 10 60) [0] ops) = true /\
  model_obs (run (mkCfg 10 60) [0] ops) ops =
    [(1, Some RNil); (2, Some RNil); (3, Some RNotFound); (4, Some RNil); (5, Some RTimeout);
     (6, Some RTimeout); (7, Some RRemoved); (8, Some RStopped); (9, Some RStopped)].
Proof. vm_compute. repeat split. Qed.

(* the fixed code on the four refutation schedules *)
Example C17_nonvacuous_fixed_on_witnesses :
  model_obs (run (mkCfg 10 60) [0] Proof.C17.lost_wakeup_ops) Proof.C17.lost_wakeup_ops = [(1, Some RRemoved)] /\
  results (run (mkCfg 10 60) [0] Proof.C17.straddle_ops) = [(1, RRemoved); (2, RStopped)] /\
  results (run (mkCfg 10 60) [0] Proof.C17.stale_notice_ops) = [(1, RRemoved); (2, RStopped)] /\
  results (run (mkCfg 10 60) [0] Proof.C17.triple_send_ops) = [(1, RRemoved); (2, RNil)].
Proof. vm_compute. repeat split. Qed.

(* the third cover of C17_no_lost_call: call 1 waits on a complete dispatcher whose notice is parked *)
Example C17_nonvacuous_parked_notice :
  let s := run (mkCfg 10 60) [0] [Download 1 0; ApNew 1; Feed 0] in
  results s = [] /\ pending s = [PComplete 0] /\ map c_errors (ctrls s) = [[1]] /\ tor_complete s 0 = true.
Proof. vm_compute. repeat split. Qed.

(* the hypotheses of C17_timeout_answers are met by a reachable state *)
Example C17_nonvacuous_timeout :
  let s := run (mkCfg 10 60) [0] [Download 1 0; ApNew 1; Advance 60; TickSend] in
  pending s = [PTick] /\ map c_errors (ctrls s) = [[1]] /\ tor_complete s 0 = false /\
  map c_lastw (ctrls s) = [0] /\ now s = 60 /\ results (step (mkCfg 10 60) s ApTick) = [(1, RTimeout)].
Proof. vm_compute. repeat split. Qed.

(* the hypotheses of C17_quiescent_timeout_answers_all are met *)
Example C17_nonvacuous_quiescent :
  let ops := [Download 1 0; Download 2 0; ApNew 2; ApNew 1] in
  wf ops = true /\ stopped (run (mkCfg 10 60) [0] ops) = false /\ pending (run (mkCfg 10 60) [0] ops) = [] /\
  results (run (mkCfg 10 60) [0] (ops ++ [Advance 60; TickSend; ApTick])) = [(2, RTimeout); (1, RTimeout)].
Proof. vm_compute. repeat split. Qed.

(* the schedule that refuted a first, too strong form of the success clause (justified only after
   an applied event): call 2 is made while the blob is cached, an overlapping RemoveTorrent is
   applied next, then call 2 is told success; it is justified by its own request step *)
Example C17_nonvacuous_overlapping_removal :
  let ops := [Download 1 0; ApNew 1; Feed 0; ApComplete 0; Remove 0; Download 2 0; ApRemove 0; ApNew 2;
              Stop; ApShutdown] in
  results (run (mkCfg 10 60) [0] ops) = [(1, RNil); (2, RNil)] /\
  success_justified (mkCfg 10 60) [0] ops 2 = true /\ evicted_in 0 ops = false /\
  cache (run (mkCfg 10 60) [0] ops) = [].
Proof. vm_compute. repeat split. Qed.
