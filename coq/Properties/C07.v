(* C07 — the disk blob store behaves like its capacity-bounded LRU model.
   Statements only; every proof is `exact <lemma from Proof/>`.
   Vocabulary (Model/LruStore.v, Model/C07.v): `cstep Disk true` / `crun` = the concrete model of
   lib/store/disk/store.go (size counter + evictQueue, fixed admission test), `sstep`/`srun` = the
   reference specification (reserved = sum of sizes, victim = least `last_of` among complete and
   not banned), `reach_c cap ops` / `reach_s cap ops` = the states after history `ops` from the
   empty store of capacity `cap`; the abstraction function is `c_core`.  cap < two64: the capacity
   is a uint64.  Sizes, keys, scopes, payloads and histories are unrestricted. *)
From Coq Require Import List NArith ZArith Bool Sorting.Sorted.
From K.Model Require Import C07.
From K.Proof Require LruStore LruStore_cells C07.
Import ListNotations.
Local Open Scope N_scope.

(* ---- refinement: every operation returns what the specification returns (results and the
   recorded internal snapshots), and the abstraction function commutes *)
Theorem C07_refines_spec : forall cap ops, cap < two64 ->
  C07_impl cap ops = C07_spec cap ops /\ c_core (reach_c cap ops) = s_core (reach_s cap ops).
Proof. exact Proof.C07.refines_spec. Qed.
Print Assumptions C07_refines_spec.

Theorem C07_step_commutes : forall cap ops o, cap < two64 ->
  snd (cstep Disk true (reach_c cap ops) o) = snd (sstep Disk (reach_s cap ops) o) /\
  c_core (fst (cstep Disk true (reach_c cap ops) o)) = s_core (fst (sstep Disk (reach_s cap ops) o)).
Proof. exact Proof.C07.step_commutes. Qed.
Print Assumptions C07_step_commutes.

(* ---- reserved space is the sum of live blob sizes *)
Theorem C07_size_is_sum : forall cap ops, cap < two64 ->
  c_size (reach_c cap ops) = sum_sizes (k_blobs (c_core (reach_c cap ops))).
Proof. exact Proof.C07.size_is_sum. Qed.
Print Assumptions C07_size_is_sum.

(* ---- admission never exceeds capacity: for every history, with sizes of any magnitude
   (fixed code; no "no wrap" guard is needed any more) *)
Theorem C07_admission_le_capacity : forall cap ops, cap < two64 ->
  sum_sizes (k_blobs (c_core (reach_c cap ops))) <= cap /\ c_size (reach_c cap ops) <= cap.
Proof. exact Proof.C07.admission_le_capacity. Qed.
Print Assumptions C07_admission_le_capacity.

(* the code before fixes/C07_admission_overflow.patch (`size+space` in uint64): 10 + (2^64-5)
   wraps to 5 <= 100, the blob is admitted, live sizes exceed the capacity and the counter is
   no longer their sum (reproduced on the real code; seed case `seed-size-wrap`) *)
Theorem C07_wrap_refuted : exists cap ops, cap < two64 /\
  let c := fst (crun Disk false (cinit cap) ops) in
  cap < sum_sizes (k_blobs (c_core c)) /\ c_size c <> sum_sizes (k_blobs (c_core c)).
Proof. exact Proof.C07.wrap_refuted. Qed.
Print Assumptions C07_wrap_refuted.

(* ---- only complete blobs not banned from eviction are evicted, always least recently used
   first: a blob that leaves the store during Create was complete and not banned, and its last
   use is older than that of every complete, not banned blob that stays *)
Theorem C07_evicts_only_complete_unbanned_lru : forall cap ops k sz data, cap < two64 ->
  let c := reach_c cap ops in let s := reach_s cap ops in
  let c' := fst (cstep Disk true c (CreateW k sz data)) in
  forall k' b, assoc k' (k_blobs (c_core c)) = Some b -> assoc k' (k_blobs (c_core c')) = None ->
    b_complete b = true /\ b_banned b = false /\
    forall k'' b'', assoc k'' (k_blobs (c_core c')) = Some b'' -> b_complete b'' = true -> b_banned b'' = false ->
      last_of s k' < last_of s k''.
Proof. exact Proof.C07.evicts_only_complete_unbanned_lru. Qed.
Print Assumptions C07_evicts_only_complete_unbanned_lru.

(* the code's evictQueue is exactly the complete, not banned keys in ascending order of last use *)
Theorem C07_evict_queue_is_lru_order : forall cap ops, cap < two64 ->
  let s := reach_s cap ops in
  c_queue (reach_c cap ops) = evict_order s /\
  StronglySorted (fun a b => last_of s a < last_of s b) (evict_order s) /\
  forall k, In k (evict_order s) <-> evictableb (s_core s) k = true.
Proof. exact Proof.C07.evict_order_is_lru. Qed.
Print Assumptions C07_evict_queue_is_lru_order.

(* ---- scoped views hide exactly the out-of-scope blobs (any state, any operation that takes a
   scope): out of scope => ErrOutOfScope and nothing changes; in scope => the unscoped operation *)
Theorem C07_scope_hides_exactly : forall fx c o k sc b,
  op_scope o = Some (k, sc) -> assoc k (k_blobs (c_core c)) = Some b ->
  match o with Has _ _ => True | _ =>
    if out_of_scope b sc then cstep Disk fx c o = (c, if (match Disk, o with
                                                      | Disk, Open _ _ => true
                                                      | Memory, WriteAtMd _ _ _ _ _ => true
                                                      | _, _ => false end) then OUnsupported else OErr EOutOfScope)
    else cstep Disk fx c o = cstep Disk fx c (unscoped o)
  end.
Proof. exact (Proof.LruStore.scope_hides Disk). Qed.
Print Assumptions C07_scope_hides_exactly.

Theorem C07_scope_has : forall fx c k sc,
  snd (cstep Disk fx c (Has k sc)) =
  match assoc k (k_blobs (c_core c)) with
  | None => OHas false false
  | Some b => OHas true (negb (out_of_scope b sc))
  end.
Proof. exact (Proof.LruStore.scope_has Disk). Qed.
Print Assumptions C07_scope_has.

Theorem C07_scope_list : forall fx c sc,
  snd (cstep Disk fx c (ListK sc)) = OKeys (scoped_keys (c_core c) sc) /\
  forall k, In k (scoped_keys (c_core c) sc) <->
            exists b, In (k, b) (k_blobs (c_core c)) /\ out_of_scope b sc = false.
Proof. exact Proof.C07.scope_list. Qed.
Print Assumptions C07_scope_list.

(* ---- metadata reads return the last value set: a read returns the stored value `md_of`; a
   successful write stores its value (and is read back through the same view); and a step that is
   not a metadata write to (k, s) — nor the completion of k when s is not movable — leaves the
   stored value of a blob that stays in the store unchanged *)
Theorem C07_metadata_read : forall fx c k sc s,
  snd (cstep Disk fx c (GetMd k sc s)) =
  match lookup (c_core c) k sc with
  | inr e => OErr e
  | inl _ => match md_of (c_core c) k s with Some v => OBytes v | None => ONone end
  end.
Proof. exact (Proof.LruStore.md_get Disk). Qed.
Print Assumptions C07_metadata_read.

Theorem C07_metadata_write : forall fx c k sc s v,
  snd (cstep Disk fx c (SetMd k sc s v)) = OOk ->
  let c' := fst (cstep Disk fx c (SetMd k sc s v)) in
  md_of (c_core c') k s = Some v /\ snd (cstep Disk fx c' (GetMd k sc s)) = OBytes v.
Proof. exact (Proof.LruStore.md_set Disk). Qed.
Print Assumptions C07_metadata_write.

Theorem C07_metadata_last_write : forall fx c o k s b,
  md_writes o k s = false -> assoc k (k_blobs (c_core c)) = Some b ->
  let c' := fst (cstep Disk fx c o) in
  assoc k (k_blobs (c_core c')) = None \/
  exists b', assoc k (k_blobs (c_core c')) = Some b' /\ b_cell b' = b_cell b /\
             assoc s (b_mds b') = assoc s (b_mds b).
Proof. exact (Proof.LruStore.md_frame Disk). Qed.
Print Assumptions C07_metadata_last_write.

(* the same over histories: after a successful SetMetadata of (k, s) := v, whatever happens next
   (evictions, bans, re-opens, other keys, other suffixes ...), as long as no operation writes (k, s)
   a read returns v for as long as that incarnation of k is in the store *)
Theorem C07_metadata_last_write_history : forall fx cap ops1 k sc s v ops2,
  let c0 := fst (crun Disk fx (cinit cap) ops1) in
  snd (cstep Disk fx c0 (SetMd k sc s v)) = OOk ->
  forallb (fun o => negb (md_writes o k s)) ops2 = true ->
  let c1 := fst (cstep Disk fx c0 (SetMd k sc s v)) in
  let c2 := fst (crun Disk fx c1 ops2) in
  incarnation (c_core c2) k = incarnation (c_core c1) k ->
  snd (cstep Disk fx c2 (GetMd k SAny s)) = OBytes v.
Proof. exact (Proof.LruStore_cells.md_last_write_history Disk). Qed.
Print Assumptions C07_metadata_last_write_history.

(* ---- non-movable metadata disappears on completion (movable metadata stays) *)
Theorem C07_immovable_gone_on_complete : forall fx c k b s,
  assoc k (k_blobs (c_core c)) = Some b -> b_complete b = false ->
  let c' := fst (cstep Disk fx c (MarkComplete k)) in
  snd (cstep Disk fx c (MarkComplete k)) = OOk /\
  md_of (c_core c') k s = if sfx_movable s then md_of (c_core c) k s else None.
Proof. exact (Proof.LruStore.md_complete Disk). Qed.
Print Assumptions C07_immovable_gone_on_complete.

(* ---- Clean (any legal map-iteration order): complete, not banned blobs go first (in LRU order, as
   for Create); any other blob is deleted only once no evictable blob is left; a banned blob only
   if respectEvictionBan is false and every blob that is not banned has been deleted *)
Theorem C07_clean_order : forall cap ops pct respect order, cap < two64 ->
  ((pct <? 0) || (100 <=? pct))%Z = false ->
  let c := reach_c cap ops in
  snd (cstep Disk true c (Clean pct respect order)) <> OBadOracle ->
  let c' := fst (cstep Disk true c (Clean pct respect order)) in
  forall k b, assoc k (k_blobs (c_core c)) = Some b -> assoc k (k_blobs (c_core c')) = None ->
    b_complete b && negb (b_banned b) = true \/
    ((forall k2, evictableb (c_core c') k2 = false) /\
     (b_banned b = false \/
      (respect = false /\ forall k2 b2, assoc k2 (k_blobs (c_core c')) = Some b2 -> b_banned b2 = true))).
Proof. exact Proof.C07.clean_order. Qed.
Print Assumptions C07_clean_order.

Example C07_nonvacuous_clean :
  let c := reach_c 100 [CreateW 0 20 []; CreateW 1 20 []; CreateW 2 20 []; CreateW 3 20 []; MarkComplete 0; MarkComplete 1; Ban 1 SAny; Ban 3 SAny] in
  map (fun ro => (snd ro, map fst (k_blobs (c_core (fst (cstep Disk true c (Clean 30 (fst ro) [2; 3; 1; 0])))))))
      [(true, OClean 40 None); (false, OClean 20 None)] =
  [(OClean 40 None, [1; 3]); (OClean 20 None, [1])] /\
  snd (cstep Disk true c (Clean 30 true [2; 3; 1; 0])) = OClean 40 None /\
  snd (cstep Disk true c (Clean 30 false [2; 3; 1; 0])) = OClean 20 None.
Proof. vm_compute. repeat split; reflexivity. Qed.

Example C07_nonvacuous_metadata_history :
  let ops1 := [CreateW 0 40 []; CreateW 1 40 []] in
  let ops2 := [MarkComplete 0; SetMd 0 SAny 3 [5]; Ban 0 SAny; OpenRead 1 SAny; MarkComplete 1; CreateW 2 40 []; Unban 0 SAny] in
  let c1 := fst (cstep Disk true (reach_c 100 ops1) (SetMd 0 SIncomplete 1 [9; 9])) in
  let c2 := fst (crun Disk true c1 ops2) in
  snd (cstep Disk true (reach_c 100 ops1) (SetMd 0 SIncomplete 1 [9; 9])) = OOk /\
  forallb (fun o => negb (md_writes o 0 1)) ops2 = true /\
  incarnation (c_core c2) 0 = incarnation (c_core c1) 0 /\ incarnation (c_core c2) 1 = None /\
  snd (cstep Disk true c2 (GetMd 0 SAny 1)) = OBytes [9; 9].
Proof. vm_compute. repeat split; reflexivity. Qed.

(* ---- executable form used on observed traces *)
Theorem C07_check_sound : forall cap ops, cap < two64 -> C07_check cap ops (C07_impl cap ops) = true.
Proof. exact Proof.C07.check_sound. Qed.
Print Assumptions C07_check_sound.

(* ---- non-vacuity: a history with evictions in LRU order after a re-open, a ban and an unban,
   a refused creation, scopes and metadata; its final state *)
Example C07_nonvacuous_history :
  let ops := [CreateW 0 30 [1]; CreateW 1 30 [2]; CreateW 2 30 [3]; MarkComplete 1; MarkComplete 0; MarkComplete 2;
              OpenRead 1 SComplete; Ban 0 SAny; Unban 0 SComplete; SetMd 2 SAny 1 [7]; SetMd 2 SAny 2 [8];
              CreateW 3 30 [4]; CreateW 4 30 [5]; CreateW 5 101 []] in
  (100 < two64) /\
  map fst (C07_impl 100 ops) =
    [OOk; OOk; OOk; OOk; OOk; OOk; OBytes [2]; OOk; OOk; OOk; OOk; OOk; OOk; OErr ENoSpace] /\
  csnap (reach_c 100 ops) = mksnap 60 [] [(3, (30, false, false, false)); (4, (30, false, false, false))].
Proof. vm_compute. repeat split; reflexivity. Qed.

(* the hypotheses of C07_evicts_only_complete_unbanned_lru are met by a real eviction:
   key 2 (least recently used) leaves, keys 1 and 0 (used later) stay *)
Example C07_nonvacuous_eviction :
  let ops := [CreateW 0 30 [1]; CreateW 1 30 [2]; CreateW 2 30 [3]; MarkComplete 1; MarkComplete 0; MarkComplete 2;
              OpenRead 1 SComplete; Ban 0 SAny; Unban 0 SComplete] in
  let c := reach_c 100 ops in let c' := fst (cstep Disk true c (CreateW 3 30 [])) in
  option_map b_size (assoc 2 (k_blobs (c_core c))) = Some 30 /\ assoc 2 (k_blobs (c_core c')) = None /\
  c_queue c = [2; 1; 0] /\ c_queue c' = [1; 0] /\
  map (last_of (reach_s 100 ops)) [2; 1; 0] = [5; 6; 8].
Proof. vm_compute. repeat split; reflexivity. Qed.

Example C07_nonvacuous_scope_metadata :
  let c := reach_c 100 [CreateW 0 10 []; CreateW 1 10 []; MarkComplete 1; SetMd 0 SIncomplete 1 [9]; SetMd 0 SAny 2 [8]] in
  snd (cstep Disk true c (OpenRead 0 SComplete)) = OErr EOutOfScope /\
  snd (cstep Disk true c (OpenRead 1 SComplete)) = OBytes [] /\
  snd (cstep Disk true c (ListK SIncomplete)) = OKeys [0] /\
  md_of (c_core c) 0 1 = Some [9] /\ md_of (c_core c) 0 2 = Some [8] /\
  md_of (c_core (fst (cstep Disk true c (MarkComplete 0)))) 0 1 = Some [9] /\
  md_of (c_core (fst (cstep Disk true c (MarkComplete 0)))) 0 2 = None.
Proof. vm_compute. repeat split; reflexivity. Qed.
