(* C10 — files awaiting write-back are never deleted; cleanup removes exactly idle files.
   Statements only; every proof is `exact <lemma from Proof/C10*.v>`.

   Vocabulary (Model/C10.v): a store state s has the files on disk `dk s` (name -> mtime, size,
   LAT sidecar, persist sidecar), the bounded LRU file map `fm s`, the clock `now s` and the map
   capacity `cap s`. A file is "awaiting write-back" when its persist sidecar says true
   (`is_persisted`). `stays n f s'` = file n is still on disk in s', still protected, with the
   mtime and size of f. Histories are lists of operations (`run`), including cleanup passes whose
   listing of names `scan` is arbitrary — a pass interleaved with other clients is the history
   that splits it into passes over sub-listings. *)
From Coq Require Import List NArith ZArith Bool.
From K.Gen Require Import C10_consts.
From K.Model Require Import C10.
From K.Proof Require C10_base C10_pass C10_policy C10_press C10 C10_more.
Import ListNotations.
Local Open Scope Z_scope.

(* ---- clause 1: a protected file is never removed.
   Over ALL histories of creates, reads, stats, sidecar changes, deletes, re-opens, LRU
   evictions (inside every operation that loads an entry), TTL/TTI passes, aggressive passes,
   policy passes, forced deletes — with any clock, capacity, configuration, disk usage, listing
   and walk order — as long as no operation of the history ends n's protection on purpose
   (SetPersist n false, ClearPersist n, or a forced delete of n in which a pending write-back task
   executed, or none was pending: `unprotects`). *)
Theorem C10_persisted_never_removed : forall ops s n f,
  aget n (dk s) = Some f -> is_persisted f = true ->
  (forall o, In o ops -> unprotects o n = false) ->
  stays n f (fst (run s ops)).
Proof. exact Proof.C10.persisted_never_removed_stmt. Qed.
Print Assumptions C10_persisted_never_removed.

(* ... by a delete request: refused with ErrFilePersisted *)
Theorem C10_delete_request_refused : forall s n f,
  aget n (dk s) = Some f -> is_persisted f = true ->
  snd (step s (Delete n)) = ORes RPersisted /\ stays n f (fst (step s (Delete n))).
Proof. exact Proof.C10.delete_refused_stmt. Qed.
Print Assumptions C10_delete_request_refused.

(* ... by LRU eviction of the file map *)
Theorem C10_eviction_keeps_protected : forall s n f,
  aget n (dk s) = Some f -> is_persisted f = true -> stays n f (evict s).
Proof. exact Proof.C10.eviction_stmt. Qed.
Print Assumptions C10_eviction_keeps_protected.

(* ... by periodic or aggressive cleanup (cleanupManager.cleanup in any of its three modes) *)
Theorem C10_cleanup_keeps_protected : forall s n f c pol u scan order,
  aget n (dk s) = Some f -> is_persisted f = true ->
  stays n f (fst (cleanup c pol u scan order s)).
Proof. exact Proof.C10.cleanup_stmt. Qed.
Print Assumptions C10_cleanup_keeps_protected.

Theorem C10_ttl_pass_keeps_protected : forall s n f tti ttl thr u scan,
  aget n (dk s) = Some f -> is_persisted f = true ->
  stays n f (ttl_pass tti ttl thr u scan s).
Proof. exact Proof.C10.ttl_pass_stmt. Qed.
Print Assumptions C10_ttl_pass_keeps_protected.

Theorem C10_policy_pass_keeps_protected : forall s n f thr total scan order,
  aget n (dk s) = Some f -> is_persisted f = true ->
  stays n f (fst (policy_pass thr total scan order s)).
Proof. exact Proof.C10.policy_pass_stmt. Qed.
Print Assumptions C10_policy_pass_keeps_protected.

(* ... by forced cleanup (maybeDelete) when the first pending write-back task fails: nothing is
   deleted and the flag stays (a task that succeeds removes the flag itself, executor.go:93) *)
Theorem C10_forced_cleanup_needs_writeback : forall s n f ttl owns t,
  aget n (dk s) = Some f -> is_persisted f = true ->
  stays n f (fst (force_delete n ttl owns (false :: t) s))
  /\ snd (force_delete n ttl owns (false :: t) s) <> ODel true false.
Proof. exact Proof.C10.force_delete_stmt. Qed.
Print Assumptions C10_forced_cleanup_needs_writeback.

(* ---- clause 2: a normal pass removes exactly the unprotected idle-or-expired files.
   For the state s reached by any history, when no LRU eviction can interfere (`roomy`: the map is
   unbounded or has room for every file on disk — production capacity is 2^20 entries), for a
   complete duplicate-free listing, and an idle limit of at least the clock's sub-second part
   (LAT sidecars hold whole seconds): file m disappears iff it is not protected and
   (ttl > 0 and now - mtime > ttl) or (it has a recorded last access l and now - l > tti). *)
Theorem C10_cleanup_exact : forall c0 t0 ops c pol u scan order m f,
  let s := fst (run (init c0 t0) ops) in
  roomy (cap s) (dk s) = true -> NoDup scan -> should_aggro c u = false ->
  (forall k, In k (keys (dk s)) -> In k scan) ->
  now s mod NS <= c_tti c ->
  aget m (dk s) = Some f ->
  (aget m (dk (fst (cleanup c pol u scan order s))) = None <->
   is_persisted f = false /\ ready (c_tti c) (c_ttl c) (now s) f = true).
Proof. exact Proof.C10.cleanup_exact_stmt. Qed.
Print Assumptions C10_cleanup_exact.

(* the same for any listing and any clock, pointwise and including what happens to the files that
   stay (`ttl_after`: a listed file without LAT sidecar that was not in the map gets one holding
   the current time, nothing else changes) *)
Theorem C10_cleanup_exact_pointwise : forall c0 t0 ops c pol u scan order m,
  let s := fst (run (init c0 t0) ops) in
  roomy (cap s) (dk s) = true -> NoDup scan -> should_aggro c u = false ->
  aget m (dk (fst (cleanup c pol u scan order s))) = ttl_after (c_tti c) (c_ttl c) scan s m.
Proof. exact Proof.C10.cleanup_exact_pointwise_stmt. Qed.
Print Assumptions C10_cleanup_exact_pointwise.

(* the `roomy` guard is needed: with more files on disk than map entries the scan itself evicts,
   and a fresh, unprotected file is deleted by a pass that finds nothing idle *)
Theorem C10_cleanup_exact_under_pressure_refuted :
  exists ops tti ttl scan m f,
    let s := fst (run (init 2 1000) ops) in
    NoDup scan /\ (forall k, In k (keys (dk s)) -> In k scan) /\
    aget m (dk s) = Some f /\ ttl_due tti ttl (now s) (amem m (fm s)) f = false /\
    aget m (dk (ttl_pass tti ttl 0 None scan s)) = None.
Proof. exact Proof.C10.exact_under_pressure_refuted. Qed.
Print Assumptions C10_cleanup_exact_under_pressure_refuted.

(* ... but one direction survives any pressure: whatever the capacity, every listed, unprotected
   file that is expired or idle (as the scan sees it) is gone after a normal pass *)
Theorem C10_cleanup_due_removed : forall c0 t0 ops c pol u scan order m f,
  let s := fst (run (init c0 t0) ops) in
  should_aggro c u = false -> In m scan -> aget m (dk s) = Some f ->
  is_persisted f = false ->
  ready (c_tti c) (c_ttl c) (now s) (seen (amem m (fm s)) (now s) f) = true ->
  aget m (dk (fst (cleanup c pol u scan order s))) = None.
Proof. exact Proof.C10.cleanup_due_removed_stmt. Qed.
Print Assumptions C10_cleanup_due_removed.

(* the aggressive variants of the pass (aggressive TTL, lower disk-usage threshold, injected or
   missing usage) remove a subset: whatever disappears was listed, unprotected, and expired by
   the TTL in force or idle by tti *)
Theorem C10_cleanup_removes_only_due : forall c0 t0 ops c u scan order m f,
  let s := fst (run (init c0 t0) ops) in
  roomy (cap s) (dk s) = true -> NoDup scan ->
  aget m (dk s) = Some f ->
  aget m (dk (fst (cleanup c false u scan order s))) = None ->
  let ttl := if should_aggro c u then c_attl c else c_ttl c in
  memb m scan = true /\ is_persisted f = false
  /\ ready (c_tti c) ttl (now s) (seen (amem m (fm s)) (now s) f) = true.
Proof. exact Proof.C10_more.cleanup_removes_only_due. Qed.
Print Assumptions C10_cleanup_removes_only_due.

(* the periodic job itself (addJob + ticker): one period after it was added it runs the pass with
   the defaulted configuration (idle limit 6 h when none is configured); a disabled job, or a job
   stopped before its first period, removes nothing *)
Theorem C10_periodic_job_exact : forall c0 t0 ops c dt u scan order m,
  let s := fst (run (init c0 t0) ops) in
  let d := apply_defaults c in
  let s1 := mkst (dk s) (fm s) (now s + dt) (cap s) in
  roomy (cap s) (dk s) = true -> NoDup scan -> c_interval d <= dt -> should_aggro d u = false ->
  aget m (dk (fst (step s (Job c false dt u scan order)))) = ttl_after (c_tti d) (c_ttl d) scan s1 m.
Proof. exact Proof.C10_more.job_exact. Qed.
Print Assumptions C10_periodic_job_exact.

Theorem C10_periodic_job_not_started : forall s c dis dt u scan order,
  dis = true \/ dt < c_interval (apply_defaults c) ->
  dk (fst (step s (Job c dis dt u scan order))) = dk s.
Proof. exact Proof.C10_more.job_not_started. Qed.
Print Assumptions C10_periodic_job_not_started.

(* the defaults the periodic job applies (cleanup.go:48): idle limit 6 h, interval 30 min,
   aggressive TTL 1 h — always positive *)
Theorem C10_defaults : forall c,
  0 <= c_tti c -> 0 <= c_interval c -> 0 <= c_attl c ->
  let d := apply_defaults c in
  0 < c_tti d /\ 0 < c_interval d /\ (c_athr d <> 0 -> 0 < c_attl d)
  /\ (c_tti c = 0 -> c_tti d = 21600000000000)
  /\ (c_interval c = 0 -> c_interval d = 1800000000000)
  /\ (c_athr c <> 0 -> c_attl c = 0 -> c_attl d = 3600000000000).
Proof. exact Proof.C10.defaults_positive. Qed.
Print Assumptions C10_defaults.

(* ---- clause 3: the usage-driven policy.
   cachedInAgentPolicy is a total preorder (what slices.SortFunc needs) ... *)
Theorem C10_policy_is_total_preorder :
  (forall a b, policy_cmp a b <= 0 \/ policy_cmp b a <= 0) /\
  (forall a b c, policy_cmp a b <= 0 -> policy_cmp b c <= 0 -> policy_cmp a c <= 0) /\
  (forall a b, Z.sgn (policy_cmp a b) = - Z.sgn (policy_cmp b a)).
Proof. exact Proof.C10.policy_total_preorder. Qed.
Print Assumptions C10_policy_is_total_preorder.

(* ... that deletes files served to consumers (|mtime - access| > 1 s; those with > 45 min first)
   before the others, and within a class the least recently accessed first. The literals are the
   ones written in cleanup.go (Gen/C10_consts.v). *)
Theorem C10_policy_order : forall a b,
  policy_cmp a b < 0 <->
  (let ca := class_of (fi_download a) (fi_access a) in
   let cb := class_of (fi_download b) (fi_access b) in
   ca < cb \/ (ca = cb /\ fi_access a < fi_access b)).
Proof. exact Proof.C10_policy.policy_cmp_lt. Qed.
Print Assumptions C10_policy_order.

(* a policy pass in the state reached by any history, whose walk the model accepts as a legal
   result of sorting (duplicate-free, sorted, complete up to the budget): the walk is in rank
   order, no candidate left out ranks strictly before a walked one and then the byte budget
   (total - total*threshold/100) was met, the walk never continued with the budget met, and only
   walked files disappeared (`chk_policy`, evaluated on the states before and after) *)
Theorem C10_policy_pass_order_and_budget : forall c0 t0 ops thr tot scan order s',
  let s := fst (run (init c0 t0) ops) in
  NoDup scan ->
  policy_pass thr (Some tot) scan order s = (s', OPass true false) ->
  chk_policy (cap s) thr tot (now s) scan order (dk s) (keys (fm s)) (dk s') = true.
Proof. exact Proof.C10.policy_pass_stmt2. Qed.
Print Assumptions C10_policy_pass_order_and_budget.

(* ---- the three clauses in executable form: the oracle evaluated by the harness on the
   implementation's observed traces holds on every trace of the model *)
Theorem C10_check_sound : forall c t0 ops,
  forallb op_ok ops = true -> C10_check c t0 ops (snd (run (init c t0) ops)) = true.
Proof. exact Proof.C10.check_sound. Qed.
Print Assumptions C10_check_sound.

(* ---- non-vacuity *)

(* a protected file goes through eviction, restart, an aggressive pass, a policy pass, a refused
   delete and a forced delete without write-back, and is still there; its unprotected neighbours
   are gone *)
Example C10_nonvacuous_protected :
  let ops := [Create 0 10 1000; SetPersist 0 true; Create 1 10 1000; Create 2 10 1000;
              Tick 7200000000000; Reopen; Stat 0;
              TtlPass 3600000000000 3600000000000 50 (Some (mku 95 1000 900)) [0; 1; 2]%N;
              Create 3 10 7200000001000; SetLat 3 7000;
              PolicyPass 0 (Some 1000) [0; 3]%N [3; 0]%N;
              Delete 0; ForceDelete 0 0 true [false; true]] in
  let s := fst (run (init 2 1000) ops) in
  (forallb (fun o => negb (unprotects o 0%N)) ops, keys (dk s), persisted 0%N (dk s))
  = (true, [0%N], true).
Proof. vm_compute. reflexivity. Qed.

(* a normal pass with room in the map: the expired and the idle file go, the protected expired
   one and the fresh one stay; all hypotheses of C10_cleanup_exact hold *)
Example C10_nonvacuous_exact :
  let ops := [Create 0 10 1000; Create 1 10 1000; SetPersist 1 true; Tick 90000000000;
              Create 2 10 90000001000; Create 3 10 90000001000; SetLat 3 5] in
  let s := fst (run (init 8 1000) ops) in
  let c := mkcfg 0 60000000000 80000000000 0 0 0 in
  let s' := fst (cleanup c false None [0; 1; 2; 3]%N [] s) in
  (roomy (cap s) (dk s), should_aggro c None, now s mod NS <=? c_tti c,
   map (fun m => amem m (dk s')) [0; 1; 2; 3]%N)
  = (true, false, true, [false; true; true; false]).
Proof. vm_compute. reflexivity. Qed.

(* the periodic job with an empty configuration: 6 h idle limit, 30 min period; the protected
   idle file stays, the unprotected one goes; one ns before the period nothing happens *)
Example C10_nonvacuous_job :
  let ops := [Create 0 10 1000; Create 1 10 1000; SetPersist 1 true; Tick 19800000000000] in
  let s := fst (run (init 0 1000) ops) in
  let c := mkcfg 0 0 0 0 0 0 in
  let early := fst (step s (Job c false 1799999999999 None [0; 1]%N [])) in
  let fired := fst (step s (Job c false 1800000000000 None [0; 1]%N [])) in
  (roomy (cap s) (dk s), should_aggro (apply_defaults c) None,
   map (fun m => amem m (dk early)) [0; 1]%N, map (fun m => amem m (dk fired)) [0; 1]%N)
  = (true, false, [true; true], [false; true]).
Proof. vm_compute. reflexivity. Qed.

(* a policy pass: four candidates, budget 20 bytes: the surely-in-agent file goes first, then the
   served one; the least recently accessed unserved one is not reached *)
Example C10_nonvacuous_policy :
  let ops := [Create 0 10 1000000000000; Create 1 10 1000000000000; Create 2 10 1000000000000;
              Create 3 10 1000000000000; SetLat 1 1010; SetLat 2 4000; SetLat 3 1000;
              Tick 3600000000000] in
  let s := fst (run (init 0 1000000000000) ops) in
  let r := policy_pass 98 (Some 1000) [0; 1; 2; 3]%N [2; 1]%N s in
  (snd r, map (fun m => amem m (dk (fst r))) [0; 1; 2; 3]%N,
   chk_policy (cap s) 98 1000 (now s) [0; 1; 2; 3]%N [2; 1]%N (dk s) (keys (fm s)) (dk (fst r)))
  = (OPass true false, [true; false; false; true], true).
Proof. vm_compute. reflexivity. Qed.

(* the comparator separates the three classes *)
Example C10_nonvacuous_order :
  (policy_cmp (mkfi 0 5000000000000 1000000000000 1) (mkfi 1 1000000000000 1000000000000 1) <? 0,
   policy_cmp (mkfi 0 5000000000000 1000000000000 1) (mkfi 1 1002000000000 1000000000000 1) <? 0,
   policy_cmp (mkfi 0 1002000000000 1000000000000 1) (mkfi 1 1000000000000 1000000000000 1) <? 0,
   policy_cmp (mkfi 0 1000000000000 1000000000000 1) (mkfi 1 1001000000000 1000000000000 1) <? 0)
  = (true, true, true, true).
Proof. vm_compute. reflexivity. Qed.

(* the literals of cleanup.go this development was proved against (the LAT resolution of
   file_map.go and the default capacity of config.go are also extracted, but the model simply
   follows them: no statement depends on their values) *)
Example C10_constants :
  (cleanup_consumer_gap_ns, cleanup_agent_gap_ns, cleanup_default_interval_ns, cleanup_default_tti_ns,
   cleanup_default_aggressive_ttl_ns, cleanup_ttl_guard)
  = (1000000000, 2700000000000, 1800000000000, 21600000000000, 3600000000000, 0).
Proof. vm_compute. reflexivity. Qed.
