(* C10 — placeholder while the correspondence is being established *)
From Coq Require Import List NArith ZArith.
From K.Model Require Import C10.
Example C10_placeholder : is_persisted (mkf 0 0 None (Some true)) = true.
Proof. vm_compute. reflexivity. Qed.
