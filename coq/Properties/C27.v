(* C27 — the in-memory peer store returns fresh, distinct announcements.
   Statements only; every proof is `exact <lemma from Proof/C27*.v>`.

   The store is the transition system of Model/C27.v: one atomic step per lock region of
   tracker/peerstore/local.go, any number of announcers, readers and cleanup passes, the clock
   advancing by any amount between two regions.  "reachable t s" = some finite schedule of
   enabled steps leads from the empty store with TTL t to s, so every theorem below is about
   ALL interleavings at that granularity. *)
From Coq Require Import List NArith ZArith Bool.
From K.Model Require Import C27.
From K.Proof Require C27_group C27_inv C27 C27_seq C27_wit.
Import ListNotations.
Local Open Scope N_scope.

Notation reachable := Proof.C27.reachable.
Notation suffix := Proof.C27_inv.suffix.
Notation inv := Proof.C27_inv.inv.
Notation nv_prefix := Proof.C27_wit.nv_prefix.
Notation nv_ops := Proof.C27_wit.nv_ops.
Notation wa := Proof.C27_wit.wa.
Notation wa2 := Proof.C27_wit.wa2.
Notation wb := Proof.C27_wit.wb.
Notation cg_recheck_sched := Proof.C27_wit.cg_recheck_sched.
Notation retry_sched := Proof.C27_wit.retry_sched.

(* mechanism: peerList and peerMap index the same entries, each PeerID once *)
Theorem C27_list_map_agree : forall t s g, reachable t s -> (g < length (heap s))%nat ->
  let G := group_at s g in
  NoDup (g_list G) /\ NoDup (map fst (g_map G)) /\
  (forall i p, In (i, p) (g_map G) <-> In p (g_list G) /\ p_id (e_peer (entry_at G p)) = i) /\
  NoDup (map (fun p => p_id (e_peer (entry_at G p))) (g_list G)) /\
  length (g_map G) = length (g_list G).
Proof. exact Proof.C27.list_map_agree. Qed.
Print Assumptions C27_list_map_agree.

(* "asking for n peers returns at most n distinct peers": for the read region of any reader
   in any reachable state, whatever indexes rand.Perm chose *)
Theorem C27_at_most_n_distinct : forall t s tid orc h n g log0 s',
  reachable t s -> nth_error (threads s) tid = Some (PRdRead h n g log0) ->
  cstep s (LRun tid orc) = Some s' ->
  exists res, nth_error (threads s') tid = Some (PDone res) /\
    (Z.of_nat (length res) <= Z.max n 0)%Z /\ NoDup (map p_id res).
Proof. exact Proof.C27.at_most_n_distinct. Qed.
Print Assumptions C27_at_most_n_distinct.

(* "each reflecting that peer's most recent announcement": linearisability of the read.
   log0 is the announcement log at the reader's lookup, log s the log when it returns; there
   is a log [mid] in between in which every returned peer is the most recent announcement
   of its PeerID for the torrent, and mid is the log at return unless the group was deleted
   between the reader's two regions. *)
Theorem C27_reflects_latest : forall t s tid orc h n g log0 s',
  reachable t s -> nth_error (threads s) tid = Some (PRdRead h n g log0) ->
  cstep s (LRun tid orc) = Some s' ->
  exists res mid, nth_error (threads s') tid = Some (PDone res) /\
    suffix log0 mid /\ suffix mid (log s) /\
    (g_deleted (group_at s g) = false -> mid = log s) /\
    forall r, In r res -> exists a, last_ann mid h (p_id r) = Some a /\ a_peer a = r.
Proof. exact Proof.C27.reflects_latest. Qed.
Print Assumptions C27_reflects_latest.

(* log0 really is the log at the lookup region *)
Theorem C27_lookup_captures_log : forall s tid orc h n s',
  nth_error (threads s) tid = Some (PRdLookup h n) -> cstep s (LRun tid orc) = Some s' ->
  nth_error (threads s') tid = Some (PDone []) \/
  exists g, assoc h (gmap s) = Some g /\ nth_error (threads s') tid = Some (PRdRead h n g (log s)).
Proof. exact Proof.C27.lookup_captures_log. Qed.
Print Assumptions C27_lookup_captures_log.

(* "never [forgotten] while it is fresh": in every reachable state the most recent
   announcement of a peer for a torrent, while less than TTL old, is listed in the torrent's
   linked group with the announced data -- whatever the cleanup passes did or are doing *)
Theorem C27_never_forget_fresh : forall t s h i a, reachable t s ->
  last_ann (log s) h i = Some a -> now s < a_time a + ttl s ->
  exists g p, assoc h (gmap s) = Some g /\ In p (g_list (group_at s g)) /\
              e_peer (entry_at (group_at s g) p) = a_peer a.
Proof. exact Proof.C27.never_forget_fresh. Qed.
Print Assumptions C27_never_forget_fresh.

(* ... and a reader asking for at least as many peers as are listed returns it, if it was
   announced before the reader's lookup *)
Theorem C27_read_returns_all_fresh : forall t s tid orc h n g log0 s' i a,
  reachable t s -> nth_error (threads s) tid = Some (PRdRead h n g log0) ->
  cstep s (LRun tid orc) = Some s' ->
  last_ann (log s) h i = Some a -> In a log0 -> now s < a_time a + ttl s ->
  (Z.of_nat (length (g_list (group_at s g))) <= n)%Z ->
  exists res, nth_error (threads s') tid = Some (PDone res) /\ In (a_peer a) res.
Proof. exact Proof.C27.read_returns_all_fresh. Qed.
Print Assumptions C27_read_returns_all_fresh.

(* "forgotten only after its TTL passed without renewal, even when cleanup runs concurrently
   with announcements": no step of any thread -- in particular the remove region of an entry
   cleanup whose scan ran before a renewal, and the delete region of the group cleanup --
   removes a listed entry whose expiry lies ahead, or retires its group; a renewal only moves
   the expiry forward *)
Theorem C27_fresh_survives_step : forall t s l s', reachable t s -> cstep s l = Some s' ->
  forall g p, (g < length (heap s))%nat -> In p (g_list (group_at s g)) ->
    now s' < e_exp (entry_at (group_at s g) p) ->
    In p (g_list (group_at s' g)) /\
    g_deleted (group_at s' g) = g_deleted (group_at s g) /\
    e_exp (entry_at (group_at s g) p) <= e_exp (entry_at (group_at s' g) p).
Proof. exact Proof.C27.fresh_survives_step. Qed.
Print Assumptions C27_fresh_survives_step.

(* the invariant all of the above rest on holds in every reachable state *)
Theorem C27_invariant : forall t ls s, exec (init t) ls = Some s -> inv s.
Proof. exact Proof.C27_inv.inv_reachable. Qed.
Print Assumptions C27_invariant.

(* the sequential layer used by the correspondence check produces schedules of the same
   transition system, so the theorems apply to every accepted history ... *)
Theorem C27_run_is_schedule : forall t ops x, run t ops = Some x ->
  exec (init t) (rev (snd x)) = Some (fst x).
Proof. exact Proof.C27_seq.run_is_schedule. Qed.
Print Assumptions C27_run_is_schedule.

(* ... and the executable form of the property holds on every history the model accepts *)
Theorem C27_check_sound : forall t ops x, run t ops = Some x -> C27_check t ops = true.
Proof. exact Proof.C27_seq.check_sound. Qed.
Print Assumptions C27_check_sound.

(* boundary: the remove region's re-check is Now().Before(expiresAt), so an entry renewed
   after the scan is dropped at the very instant now = expiresAt (the scan alone would keep
   it until now > expiresAt).  "Fresh" above therefore means strictly less than TTL old. *)
Theorem C27_strict_boundary_refuted :
  exists t ls s l s' g p,
    exec (init t) ls = Some s /\ cstep s l = Some s' /\
    In p (g_list (group_at s g)) /\ ~ In p (g_list (group_at s' g)) /\
    now s' = e_exp (entry_at (group_at s g) p).
Proof. exact Proof.C27_wit.strict_boundary_refuted. Qed.
Print Assumptions C27_strict_boundary_refuted.

(* why C27_reflects_latest speaks of a moment inside the read: a read that overlaps the
   deletion of its group and a re-announcement returns the peer's previous announcement
   (model-level schedule; the code offers no seam to force it) *)
Theorem C27_note_stale_read_under_overlap :
  exists t ls s tid orc s' res r a,
    exec (init t) ls = Some s /\ cstep s (LRun tid orc) = Some s' /\
    nth_error (threads s') tid = Some (PDone res) /\ In r res /\
    last_ann (log s) 0 (p_id r) = Some a /\ a_peer a <> r.
Proof. exact Proof.C27_wit.stale_read_under_overlap. Qed.
Print Assumptions C27_note_stale_read_under_overlap.

(* non-vacuity: a reachable state with a reader between its regions and an entry cleanup
   between scan and remove; the read returns both listed peers, one of them fresh *)
Example C27_nonvacuous_read :
  match exec (init 10) nv_prefix with
  | Some s =>
      nth_error (threads s) 3 = Some (PRdRead 0 5 0 (log s)) /\
      nth_error (threads s) 2 = Some (PCeRemove 0 [0%nat] []) /\
      match cstep s (LRun 3 [1%nat; 0%nat]) with
      | Some s' => nth_error (threads s') 3 = Some (PDone [wb; wa])
      | None => False
      end /\
      last_ann (log s) 0 1 = Some (mkann 0 wb 4) /\ (now s <? 4 + ttl s) = true
  | None => False
  end.
Proof. vm_compute. repeat split; reflexivity. Qed.

(* non-vacuity of the correspondence: a history with a renewal between scan and remove is
   accepted; dropping the renewed peer from the observation is rejected by the model and by
   the property, returning its stale data is rejected by the property *)
Example C27_nonvacuous_run :
  (match run 10 (nv_ops [wa2]) with Some _ => true | None => false end) = true /\
  C27_check 10 (nv_ops [wa2]) = true /\
  (match run 10 (nv_ops []) with Some _ => true | None => false end) = false /\
  C27_check 10 (nv_ops []) = false /\
  C27_check 10 (nv_ops [wa]) = false.
Proof. vm_compute. repeat split; reflexivity. Qed.

(* non-vacuity of the interleavings that cannot be forced on the real code: an update between
   the check and the delete region of the group cleanup keeps the group (re-check, local.go:262) *)
Example C27_nonvacuous_group_recheck :
  match exec (init 5) (firstn 8 cg_recheck_sched), exec (init 5) cg_recheck_sched with
  | Some s1, Some s =>
      smu s1 = Some (CgDelete 0 0 []) /\
      smu s = None /\ gmap s = [(0, 0%nat)] /\ g_deleted (group_at s 0) = false /\
      read_peers (group_at s 0) [0%nat] = [wa2] /\ g_last (group_at s 0) = 11
  | _, _ => False
  end.
Proof. vm_compute. repeat split; reflexivity. Qed.

(* ... and an announcer that finds its group deleted reloads and lands in a new group
   (deleted-retry, local.go:169-172) *)
Example C27_nonvacuous_deleted_retry :
  match exec (init 5) (firstn 11 retry_sched), exec (init 5) retry_sched with
  | Some s1, Some s =>
      nth_error (threads s1) 1 = Some (PAnnLookup 0 wa2) /\
      g_deleted (group_at s 0) = true /\ gmap s = [(0, 1%nat)] /\
      read_peers (group_at s 1) [0%nat] = [wa2] /\ nth_error (threads s) 1 = Some (PDone [])
  | _, _ => False
  end.
Proof. vm_compute. repeat split; reflexivity. Qed.
