(* C34 - HTTP retries resend the complete original request (utils/httputil/httputil.go, Send).
   Statements only; every proof is `exact <lemma from Proof/C34.v>`.

   [send c q kd body bo script] is the model of httputil.Send after the proposed fix
   (fixes/C34_retry_replays_body.patch): c = options, q = method/URL/headers, kd/body = kind and
   content of opts.body, bo = the answers of the caller's BackOff (true = go, false = Stop, then
   Stop), script = what the transport/server does with each round trip (how much of the body it
   reads, transport error or status code).  It returns the round trips made, the result and the
   number of NextBackOff calls.  All theorems quantify over every options record, request, body
   kind and content, backoff answer sequence and round-trip script. *)
From Coq Require Import List NArith Bool.
From K.Model Require Import C34.
From K.Proof Require C34.
Import ListNotations.

(* clause 1: every round trip carries the same method, URL and headers and the complete
   original body; the scheme is the caller's, or http for the https->http fallback *)
Theorem C34_same_request_each_attempt : forall c q kd body bo script ts res nb,
  send c q kd body bo script = (ts, res, nb) ->
  forall t, In t ts ->
    t_method t = q_method q /\ t_url t = q_url q /\ t_hdrs t = q_hdrs q /\
    t_offered t = body0 kd body /\ (t_https t = c_https c \/ t_https t = false).
Proof. exact Proof.C34.same_request_each_attempt. Qed.
Print Assumptions C34_same_request_each_attempt.

(* the i-th round trip is the i-th script entry applied to the body it carried: what the
   transport read is the prefix it asked for (this ties t_offered to the observable t_read) *)
Theorem C34_read_is_prefix_of_offered : forall c q kd body bo script ts res nb,
  send c q kd body bo script = (ts, res, nb) ->
  forall i t, nth_error ts i = Some t ->
    t_read t = take_opt (r_read (nth i script default_rt)) (t_offered t) /\
    t_out t = r_out (nth i script default_rt).
Proof. exact Proof.C34.read_is_prefix_of_offered. Qed.
Print Assumptions C34_read_is_prefix_of_offered.

(* clause 2: success is only ever reported for the last round trip, which carried the complete
   original body and was answered with an accepted code *)
Theorem C34_success_only_with_full_body : forall c q kd body bo script ts nb code,
  send c q kd body bo script = (ts, ROk code, nb) ->
  exists pre t, ts = pre ++ [t] /\ t_out t = Some code /\ t_offered t = body0 kd body /\
                memN code (c_accepted c) = true.
Proof. exact Proof.C34.success_only_with_full_body. Qed.
Print Assumptions C34_success_only_with_full_body.

(* ... and every result is the classification of the last round trip's outcome *)
Theorem C34_result_is_last_outcome : forall c q kd body bo script ts res nb,
  q_valid q = true ->
  send c q kd body bo script = (ts, res, nb) ->
  exists pre t, ts = pre ++ [t] /\ res = final c (t_out t).
Proof. exact Proof.C34.result_is_last_outcome. Qed.
Print Assumptions C34_result_is_last_outcome.

(* clause 3: a round trip answered with an accepted code is never followed by another one *)
Theorem C34_accepted_never_retried : forall c q kd body bo script pre t post res nb code,
  send c q kd body bo script = (pre ++ t :: post, res, nb) ->
  t_out t = Some code -> memN code (c_accepted c) = true ->
  post = [] /\ res = ROk code.
Proof. exact Proof.C34.accepted_never_retried. Qed.
Print Assumptions C34_accepted_never_retried.

(* clause 4: at most one attempt per `go` answer of the backoff plus the first; nothing is sent
   after NextBackOff returned Stop (go_prefix = number of answers before the first Stop) *)
Theorem C34_stops_when_backoff_exhausted : forall c q kd body bo script ts res nb,
  send c q kd body bo script = (ts, res, nb) ->
  (length (filter (fun t => primary c (t_https t)) ts) <= S (go_prefix bo))%nat /\
  (length ts <= 2 * S (go_prefix bo))%nat /\
  (N.to_nat nb <= S (go_prefix bo))%nat.
Proof. exact Proof.C34.stops_when_backoff_exhausted. Qed.
Print Assumptions C34_stops_when_backoff_exhausted.

Theorem C34_attempts_match_backoff_calls : forall c q kd body bo script ts res nb,
  q_valid q = true ->
  send c q kd body bo script = (ts, res, nb) ->
  (N.to_nat nb <= length (filter (fun t => primary c (t_https t)) ts) <= S (N.to_nat nb))%nat.
Proof. exact Proof.C34.attempts_match_backoff_calls. Qed.
Print Assumptions C34_attempts_match_backoff_calls.

(* how clause 1 is achieved for a body that cannot be replayed: it is sent once *)
Theorem C34_stream_body_sent_once : forall c q body bo script ts res nb,
  send c q BStream body bo script = (ts, res, nb) -> (length ts <= 1)%nat.
Proof. exact Proof.C34.stream_body_sent_once. Qed.
Print Assumptions C34_stream_body_sent_once.

(* the loop is not vacuous: with a replayable body the retries do happen *)
Theorem C34_retries_while_backoff_allows : forall c q kd body bo script ts res nb m,
  q_valid q = true -> kd <> BStream -> c_https c && c_fallback c = false ->
  send c q kd body bo script = (ts, res, nb) ->
  (m <= go_prefix bo)%nat ->
  (forall i, (i < m)%nat -> retry_outcome fixed c (r_out (nth i script default_rt)) = true) ->
  (m < length ts)%nat.
Proof. exact Proof.C34.retries_while_backoff_allows. Qed.
Print Assumptions C34_retries_while_backoff_allows.

(* executable form used on observed traces *)
Theorem C34_check_sound : forall c q kd body bo script,
  let '(ts, res, nb) := send c q kd body bo script in
  C34_check c q kd body bo script (map observe_trip ts) res nb = true.
Proof. exact Proof.C34.check_sound. Qed.
Print Assumptions C34_check_sound.

(* ... and the oracle means what the clauses say: a trace it accepts has, in every observed
   round trip, the caller's method/URL/headers and the requested prefix of the complete original
   body; an accepted answer only in the last round trip; success only as the accepted answer
   to the last round trip; and no more attempts / NextBackOff calls than the backoff allowed *)
Theorem C34_check_complete : forall c q kd body bo script os res nb,
  q_valid q = true ->
  C34_check c q kd body bo script os res nb = true ->
  (forall i o, nth_error os i = Some o ->
     o_method o = q_method q /\ o_url o = q_url q /\ o_hdrs o = q_hdrs q /\ o_extra_same o = true /\
     o_read o = take_opt (r_read (nth i script default_rt)) (body0 kd body) /\
     (forall code, r_out (nth i script default_rt) = Some code -> memN code (c_accepted c) = true ->
                   length os = S i)) /\
  (forall code, res = ROk code ->
     exists n, length os = S n /\ r_out (nth n script default_rt) = Some code /\
               memN code (c_accepted c) = true) /\
  (count_primary c os <= S (go_prefix bo))%nat /\ (N.to_nat nb <= S (go_prefix bo))%nat.
Proof. exact Proof.C34.check_complete. Qed.
Print Assumptions C34_check_complete.

(* ---- the pinned code (send_old): each clause is violated; witnesses are harness seed cases *)
Theorem C34_stream_body_refuted_old :
  exists c q body bo script ts t nb,
    send_old c q BStream body bo script = (ts ++ [t], ROk 200%N, nb) /\
    body <> [] /\ t_offered t = [] /\ t_read t = [].
Proof. exact Proof.C34.stream_body_refuted_old. Qed.
Print Assumptions C34_stream_body_refuted_old.

Theorem C34_replay_body_refuted_old :
  exists c q body bo script ts t nb,
    send_old c q BReplay body bo script = (ts ++ [t], ROk 200%N, nb) /\
    body <> [] /\ t_offered t = [].
Proof. exact Proof.C34.replay_body_refuted_old. Qed.

Theorem C34_partial_body_refuted_old :
  exists c q body bo script ts t nb,
    send_old c q BStream body bo script = (ts ++ [t], ROk 200%N, nb) /\
    t_offered t <> body /\ t_offered t <> [].
Proof. exact Proof.C34.partial_body_refuted_old. Qed.

Theorem C34_fallback_body_refuted_old :
  exists c q body bo script ts t nb,
    send_old c q BReplay body bo script = (ts ++ [t], ROk 200%N, nb) /\
    body <> [] /\ t_https t = false /\ t_offered t = [].
Proof. exact Proof.C34.fallback_body_refuted_old. Qed.

Theorem C34_accepted_retried_refuted_old :
  exists c q kd body bo script t post res nb code,
    send_old c q kd body bo script = (t :: post, res, nb) /\
    t_out t = Some code /\ memN code (c_accepted c) = true /\ post <> [].
Proof. exact Proof.C34.accepted_retried_refuted_old. Qed.

(* ---- non-vacuity *)
Local Open Scope N_scope.
(* a replayable body, 503 / transport error / 200: three round trips, each with the full body *)
Example C34_nonvacuous_retry :
  send (mkcfg false false [200] [] [429; 502; 503; 504]) (mkreq true 2 1 [(0, 1)]) BReplay [7; 8; 9] [true; true; true]
       [mkrt None (Some 503); mkrt (Some 1) None; mkrt None (Some 200)]%N
  = ([mktrip false 2 1 [(0, 1)] [7; 8; 9] [7; 8; 9] (Some 503);
      mktrip false 2 1 [(0, 1)] [7; 8; 9] [7] None;
      mktrip false 2 1 [(0, 1)] [7; 8; 9] [7; 8; 9] (Some 200)], ROk 200, 2)%N.
Proof. vm_compute. reflexivity. Qed.

(* https with fallback: https round trip fails, http fallback carries the full body again *)
Example C34_nonvacuous_fallback :
  send (mkcfg true true [200] [] [429; 502; 503; 504]) (mkreq true 3 4 []) BReplay [5; 6] [true]
       [mkrt None None; mkrt None (Some 503); mkrt None None; mkrt None (Some 200)]%N
  = ([mktrip true 3 4 [] [5; 6] [5; 6] None; mktrip false 3 4 [] [5; 6] [5; 6] (Some 503);
      mktrip true 3 4 [] [5; 6] [5; 6] None; mktrip false 3 4 [] [5; 6] [5; 6] (Some 200)], ROk 200, 1)%N.
Proof. vm_compute. reflexivity. Qed.

(* a stream body is not re-sent: the 503 is reported *)
Example C34_nonvacuous_stream :
  send (mkcfg false false [200] [] [429; 502; 503; 504]) (mkreq true 2 1 []) BStream [1; 2; 3] [true]
       [mkrt None (Some 503); mkrt None (Some 200)]%N
  = ([mktrip false 2 1 [] [1; 2; 3] [1; 2; 3] (Some 503)], RStatus 503, 1)%N.
Proof. vm_compute. reflexivity. Qed.

(* the hypotheses of C34_retries_while_backoff_allows are met by the first example (m = 2) *)
Example C34_nonvacuous_retries_hyp :
  let c := mkcfg false false [200] [] [429; 502; 503; 504]%N in
  (c_https c && c_fallback c = false) /\ go_prefix [true; true; true] = 3%nat /\
  retry_outcome fixed c (Some 503%N) = true /\ retry_outcome fixed c None = true /\
  retry_outcome fixed c (Some 200%N) = false.
Proof. vm_compute. repeat split; reflexivity. Qed.

(* the oracle rejects what the pinned code does on the first refutation witness *)
Example C34_check_rejects_old :
  (let '(ts, res, nb) := send_old Proof.C34.cfg0 Proof.C34.req0 BStream [1;2;3]%N [true] [mkrt None (Some 503%N); mkrt None (Some 200%N)] in
   C34_check Proof.C34.cfg0 Proof.C34.req0 BStream [1;2;3]%N [true] [mkrt None (Some 503%N); mkrt None (Some 200%N)]
             (map observe_trip ts) res nb) = false.
Proof. vm_compute. reflexivity. Qed.
