From Coq Require Import List NArith.
From K.Model Require Import C29.
From K.Proof Require C29.
