(* C29 — request deduplication runs at most one execution per key.
   Statements only; every proof is `exact <lemma from Proof/C29*.v>`.

   The models (Model/C29.v) are transition systems whose steps are the lock regions of
   utils/dedup: a schedule is ANY list of labels (a label that is not enabled is a no-op), so
   "forall ls" below is: every interleaving of any number of callers, completions, failures,
   clock advances and garbage collections.  `lrun true` is the Limiter with
   fixes/C29_gc_deleted_flag.patch, `lrun false` the Limiter as found. *)
From Coq Require Import List NArith Bool.
From K.Model Require Import C29.
From K.Proof Require C29 C29_rc C29_chk C29_cnt.
Import ListNotations.
Local Open Scope N_scope.

(* ---------------- Limiter: at most one execution per key in flight ---------------- *)

Theorem C29_limiter_single_flight : forall iv ls c1 c2 k t1 t2,
  let s := lrun true iv linit ls in
  l_thr s c1 = LRunning k t1 -> l_thr s c2 = LRunning k t2 -> c1 = c2.
Proof. exact Proof.C29.limiter_single_flight. Qed.
Print Assumptions C29_limiter_single_flight.

(* while an execution of k is in flight, a caller reaching its task lock does not run k again:
   it waits on the running task or (its task was collected) starts over; nothing else moves *)
Theorem C29_limiter_pending_waits : forall iv ls c c' k tid t',
  let s := lrun true iv linit ls in
  l_thr s c' = LRunning k t' -> l_thr s c = LHeld k tid ->
  let s' := lstep true iv s (LDecide c) in
  (l_thr s' c = LWait k t' \/ l_thr s' c = LStart k) /\
  (forall x, x <> c -> l_thr s' x = l_thr s x) /\
  (forall t, t_run (l_heap s' t) = t_run (l_heap s t)).
Proof. exact Proof.C29.limiter_pending_waits. Qed.
Print Assumptions C29_limiter_pending_waits.

(* the collector never removes the task of an execution in flight *)
Theorem C29_limiter_running_stays_mapped : forall iv ls c k tid,
  let s := lrun true iv linit ls in
  l_thr s c = LRunning k tid -> l_map s k = Some tid.
Proof. exact Proof.C29.limiter_running_stays_mapped. Qed.
Print Assumptions C29_limiter_running_stays_mapped.

(* the code as found: two executions of one key in flight (the collector deletes a task that a
   caller has looked up and not yet locked); witness = seed case `seed-gc-race` of the driver *)
Theorem C29_limiter_gc_race_refuted :
  exists iv ls c1 c2 k t1 t2,
    let s := lrun false iv linit ls in
    l_thr s c1 = LRunning k t1 /\ l_thr s c2 = LRunning k t2 /\ c1 <> c2.
Proof. exact Proof.C29.limiter_gc_race_refuted. Qed.
Print Assumptions C29_limiter_gc_race_refuted.

(* the code as found is single-flight on every schedule in which no collection deletes a task
   that some caller holds between its lookup and its task lock (missing: the schedules that do) *)
Theorem C29_limiter_single_flight_partial : forall iv ls c1 c2 k t1 t2,
  gc_safe false iv linit ls = true ->
  let s := lrun false iv linit ls in
  l_thr s c1 = LRunning k t1 -> l_thr s c2 = LRunning k t2 -> c1 = c2.
Proof. exact Proof.C29.limiter_single_flight_partial. Qed.
Print Assumptions C29_limiter_single_flight_partial.

(* ---------------- RequestCache ---------------- *)

(* at most one thread has a key reserved or executing; in particular one execution per key *)
Theorem C29_rc_single_flight : forall cf ls c1 c2 k,
  let s := rrun cf rinit ls in
  r_thr s c1 = RRunning k -> r_thr s c2 = RRunning k -> c1 = c2.
Proof. exact Proof.C29_rc.rc_single_flight. Qed.
Print Assumptions C29_rc_single_flight.

Theorem C29_rc_single_holder : forall cf ls c1 c2 k,
  let s := rrun cf rinit ls in
  holdsb (r_thr s c1) k = true -> holdsb (r_thr s c2) k = true -> c1 = c2.
Proof. exact Proof.C29_rc.rc_single_holder. Qed.
Print Assumptions C29_rc_single_holder.

(* while k is pending a Start of k reports ErrRequestPending and starts nothing ... *)
Theorem C29_rc_pending_reports : forall cf ls c c' k,
  let s := rrun cf rinit ls in
  holdsb (r_thr s c') k = true -> startable (r_thr s c) = true ->
  let s' := rstep cf s (RStart c k) in
  r_thr s' c = RRet RPending /\ (forall x, x <> c -> r_thr s' x = r_thr s x) /\
  (forall k', r_pend s' k' = r_pend s k') /\ r_used s' = r_used s.
Proof. exact Proof.C29_rc.rc_pending_reports. Qed.
Print Assumptions C29_rc_pending_reports.

(* ... and ErrRequestPending is reported only while some thread really has k *)
Theorem C29_rc_pending_only_if_held : forall cf ls c k,
  let s := rrun cf rinit ls in
  startable (r_thr s c) = true ->
  r_thr (rstep cf s (RStart c k)) c = RRet RPending ->
  exists c', holdsb (r_thr s c') k = true.
Proof. exact Proof.C29_rc.rc_pending_only_if_held. Qed.
Print Assumptions C29_rc_pending_only_if_held.

(* after a request for k failed with e at t0: along every continuation, while the clock has not
   passed t0 + ttl (NotFoundTTL or ErrorTTL), the error is cached, k is neither reserved nor
   executing, and a Start of k returns e *)
Theorem C29_rc_cached_error_until_expiry : forall cf ls1 ls2 c c' k e (nf : bool),
  let s1 := rrun cf rinit ls1 in
  r_thr s1 c = RRunning k ->
  let ttl := if nf then c_nf cf else c_err cf in
  let s3 := rrun cf (rstep cf s1 (RFinish c (Some (e, nf)))) ls2 in
  r_now s3 <= r_now s1 + ttl ->
  r_errs s3 k = Some (e, r_now s1 + ttl) /\
  (forall x, holdsb (r_thr s3 x) k = false) /\
  (startable (r_thr s3 c') = true -> r_thr (rstep cf s3 (RStart c' k)) c' = RRet (RErr e)).
Proof. exact Proof.C29_rc.rc_cached_error_until_expiry. Qed.
Print Assumptions C29_rc_cached_error_until_expiry.

(* in any reachable state an unexpired cached error is what Start returns; nothing is reserved *)
Theorem C29_rc_cached_error_reported : forall cf ls c k e exp,
  let s := rrun cf rinit ls in
  r_errs s k = Some (e, exp) -> r_now s <= exp -> startable (r_thr s c) = true ->
  let s' := rstep cf s (RStart c k) in
  r_thr s' c = RRet (RErr e) /\ (forall x, x <> c -> r_thr s' x = r_thr s x) /\
  (forall k', r_pend s' k' = r_pend s k') /\ r_used s' = r_used s /\ r_pend s k = false.
Proof. exact Proof.C29_rc.rc_cached_error_reported. Qed.
Print Assumptions C29_rc_cached_error_reported.

(* a Start that found no free worker and timed out returns ErrWorkersBusy and leaves k neither
   pending nor held: the next Start of k is not told "pending" *)
Theorem C29_rc_busy_leaves_nothing : forall cf ls c c2 k d,
  let s := rrun cf rinit ls in
  r_thr s c = RArmed k d -> d <= r_now s ->
  let s' := rstep cf s (RTimeout c) in
  r_thr s' c = RRet RBusy /\ r_pend s' k = false /\ (forall x, holdsb (r_thr s' x) k = false) /\
  r_used s' = r_used s /\
  (startable (r_thr s' c2) = true -> r_thr (rstep cf s' (RStart c2 k)) c2 <> RRet RPending).
Proof. exact Proof.C29_rc.rc_busy_leaves_nothing. Qed.
Print Assumptions C29_rc_busy_leaves_nothing.

Theorem C29_rc_workers_bounded : forall cf ls, r_used (rrun cf rinit ls) <= c_workers cf.
Proof. exact Proof.C29_rc.rc_workers_bounded. Qed.
Print Assumptions C29_rc_workers_bounded.

(* the requests holding a worker (executing, or finished and about to release it) are exactly as
   many as workers taken, hence never more than NumWorkers *)
Theorem C29_rc_inflight_bounded : forall cf ls,
  let s := rrun cf rinit ls in
  inflight s = r_used s /\ inflight s <= c_workers cf.
Proof. exact Proof.C29_cnt.rc_inflight_bounded. Qed.
Print Assumptions C29_rc_inflight_bounded.

(* ---------------- IntervalTrap ---------------- *)

(* start times of the task (latest first): consecutive runs are more than one interval apart *)
Theorem C29_trap_once_per_interval : forall iv t0 ls,
  gaps iv (tr_runs (trun iv (tinit t0) ls)) = true.
Proof. exact Proof.C29.trap_once_per_interval. Qed.
Print Assumptions C29_trap_once_per_interval.

Theorem C29_trap_runs_apart : forall iv t0 ls i j,
  let runs := tr_runs (trun iv (tinit t0) ls) in
  (i < j)%nat -> (j < length runs)%nat ->
  nth j runs 0 + iv < nth i runs 0 /\ t0 + iv < nth j runs 0.
Proof. exact Proof.C29.trap_runs_apart. Qed.
Print Assumptions C29_trap_runs_apart.

(* ---------------- executable form used on observed traces ---------------- *)
Theorem C29_lim_check_sound : forall iv n ms, lim_check (lmrun true iv n linit ms) = true.
Proof. exact Proof.C29.lim_check_sound. Qed.
Print Assumptions C29_lim_check_sound.

Theorem C29_rc_check_sound : forall cf n ms, wf_rops n ms = true ->
  rc_check cf n ms (rmrun cf n rinit ms) = true.
Proof. exact Proof.C29_chk.rc_check_sound. Qed.
Print Assumptions C29_rc_check_sound.

Theorem C29_trap_check_sound : forall iv ms, trap_check iv ms (tmrun iv (tinit 0) ms) = true.
Proof. exact Proof.C29_chk.trap_check_sound. Qed.
Print Assumptions C29_trap_check_sound.

(* ---------------- non-vacuity ---------------- *)

(* Limiter, patched: thread 0 executes key 1, thread 1 waits on the same task *)
Example C29_nonvacuous_limiter :
  let s := lrun true 60 linit (concat (map (lexpand 2) [MBegin 0 1; MBegin 1 1; MEnter 0; MEnter 1])) in
  l_thr s 0 = LRunning 1 0 /\ l_thr s 1 = LWait 1 0.
Proof. vm_compute. split; reflexivity. Qed.

(* Limiter as found, a collection-safe schedule in which a collection really deletes a task
   (thread 0's finished one) and an execution is in flight afterwards *)
Example C29_nonvacuous_partial :
  let ls := concat (map (lexpand 2) [MBegin 0 1; MEnter 0; MFinish 0 7 5; MTick 61; MBegin 1 1; MEnter 1]) in
  gc_safe false 60 linit ls = true /\
  let s := lrun false 60 linit ls in
  l_thr s 1 = LRunning 1 1 /\ t_del (l_heap s 0) = true /\ l_map s 1 = Some 1.
Proof. vm_compute. repeat split; reflexivity. Qed.

(* the refuting schedule is exactly one that gc_safe rejects, and the patched code survives it *)
Example C29_race_schedule_is_unsafe :
  gc_safe false Proof.C29.race_iv linit Proof.C29.race_sched = false /\
  let s := lrun true Proof.C29.race_iv linit Proof.C29.race_sched in
  l_thr s 0 = LHeld 1 1 /\ l_thr s 1 = LRunning 1 1.
Proof. vm_compute. repeat split; reflexivity. Qed.

(* RequestCache: one worker; thread 0 executes key 1, thread 1 is told "pending", thread 2 waits
   for a worker with key 2, times out at BusyTimeout and leaves nothing *)
Example C29_nonvacuous_rc :
  let cf := mkRC 20 10 4 1 7 in
  let s := rrun cf rinit (concat (map (rexpand 3) [QStart 0 1; QStart 1 1; QStart 2 2; QTick 7])) in
  r_thr s 0 = RRunning 1 /\ r_thr s 1 = RRet RPending /\ r_thr s 2 = RRet RBusy /\
  r_pend s 2 = false /\ r_pend s 1 = true.
Proof. vm_compute. repeat split; reflexivity. Qed.

(* RequestCache: a failure is reported until ttl has passed and retried one tick later *)
Example C29_nonvacuous_rc_error :
  let cf := mkRC 20 10 4 1 7 in
  let ops := [QStart 0 1; QFinish 0 (Some (2, false)) None; QTick 10; QStart 1 1; QTick 1; QStart 2 1] in
  rmrun cf 3 rinit ops =
  [[QRun 1; QIdle; QIdle]; [QIdle; QIdle; QIdle]; [QIdle; QIdle; QIdle];
   [QIdle; QRet (RErr 2); QIdle]; [QIdle; QRet (RErr 2); QIdle]; [QIdle; QRet (RErr 2); QRun 1]].
Proof. vm_compute. reflexivity. Qed.

(* IntervalTrap: interval 10, runs at 11 and 22 (not at 21) *)
Example C29_nonvacuous_trap :
  tr_runs (trun 10 (tinit 0) (concat (map texpand
    [TmTick 10; TmTrap 0 0; TmTick 1; TmTrap 0 0; TmTick 10; TmTrap 1 0; TmTick 1; TmTrap 1 0]))) = [22; 11].
Proof. vm_compute. reflexivity. Qed.
