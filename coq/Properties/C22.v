(* C22 — rendezvous ordering is insertion-independent and minimally disruptive.
   Statements only; every proof is `exact <lemma from Proof/C22.v>`.

   The score function (rendezvous.go:143) is a parameter: any function from (node, key) into a
   type whose `<` is a strict total order (float64 without NaN, -0 identified with +0).
   `tie_free score k ns` — distinct nodes of ns score differently on k — is the stated
   hypothesis wherever uniqueness of the order is claimed; the driver evaluates it on every
   explored (node set, key) and reports the count. *)
From Coq Require Import List NArith ZArith Bool Permutation Sorted.
From K.Model Require Import C22.
From K.Proof Require C22.
Import ListNotations.

(* "the ordered node list is the set of nodes sorted by descending score": unconditionally a
   permutation of the node slice in which no node scores below a later one ... *)
Theorem C22_sorted_desc : forall (key T : Type) (ltb : T -> T -> bool) (score : node -> key -> T),
  strict_total ltb -> forall ns k,
  Permutation (ordered ltb score ns k) ns /\ StronglySorted (ge ltb score k) (ordered ltb score ns k).
Proof. exact Proof.C22.sorted_desc. Qed.
Print Assumptions C22_sorted_desc.

(* ... strictly descending when the scores are distinct (doc of GetOrderedNodes: score(N1) > score(N2) > ...) *)
Theorem C22_sorted_desc_strict : forall (key T : Type) (ltb : T -> T -> bool) (score : node -> key -> T),
  strict_total ltb -> forall ns k,
  NoDup ns -> tie_free score k ns -> StronglySorted (gt ltb score k) (ordered ltb score ns k).
Proof. exact Proof.C22.sorted_desc_strict. Qed.
Print Assumptions C22_sorted_desc_strict.

(* sort.Sort is only specified as "a permutation sorted w.r.t. Less": ANY such result is the
   model's list, so the theorems below speak about the implementation's sort, not only about
   the model's insertion sort *)
Theorem C22_any_correct_sort : forall (key T : Type) (ltb : T -> T -> bool) (score : node -> key -> T),
  strict_total ltb -> forall ns k l,
  NoDup ns -> tie_free score k ns ->
  Permutation l ns -> StronglySorted (ge ltb score k) l -> l = ordered ltb score ns k.
Proof. exact Proof.C22.any_correct_sort. Qed.
Print Assumptions C22_any_correct_sort.

(* "does not depend on the order nodes were added" *)
Theorem C22_insertion_independent : forall (key T : Type) (ltb : T -> T -> bool) (score : node -> key -> T),
  strict_total ltb -> forall ns ns' k,
  NoDup ns -> tie_free score k ns -> Permutation ns ns' ->
  ordered ltb score ns k = ordered ltb score ns' k.
Proof. exact Proof.C22.insertion_independent. Qed.
Print Assumptions C22_insertion_independent.

(* the same for whole AddNode/RemoveNode histories that end with the same node set *)
Theorem C22_history_independent : forall (key T : Type) (ltb : T -> T -> bool) (score : node -> key -> T),
  strict_total ltb -> forall ops1 ops2 k,
  NoDup (rh_run ops1) -> tie_free score k (rh_run ops1) -> Permutation (rh_run ops1) (rh_run ops2) ->
  ordered ltb score (rh_run ops1) k = ordered ltb score (rh_run ops2) k.
Proof. exact Proof.C22.history_independent. Qed.
Print Assumptions C22_history_independent.

(* "removing a node only removes it from each key's list": the new list is the old one with
   that node filtered out, every other node in its old relative order *)
Theorem C22_remove_only_removes : forall (key T : Type) (ltb : T -> T -> bool) (score : node -> key -> T),
  strict_total ltb -> forall ns k l,
  NoDup (map label ns) -> tie_free score k ns ->
  ordered ltb score (remove_node l ns) k = remove_node l (ordered ltb score ns k) /\
  remove_node l (ordered ltb score ns k) = filter (fun x => negb (N.eqb (label x) l)) (ordered ltb score ns k).
Proof. exact Proof.C22.remove_only_removes. Qed.
Print Assumptions C22_remove_only_removes.

(* "adding one only inserts it": the old list is split in two and the new node put between *)
Theorem C22_add_only_inserts : forall (key T : Type) (ltb : T -> T -> bool) (score : node -> key -> T),
  strict_total ltb -> forall ns k n,
  ~ In (label n) (map label ns) -> NoDup (map label ns) -> tie_free score k (add_node n ns) ->
  exists l1 l2, ordered ltb score ns k = l1 ++ l2 /\ ordered ltb score (add_node n ns) k = l1 ++ n :: l2.
Proof. exact Proof.C22.add_only_inserts. Qed.
Print Assumptions C22_add_only_inserts.

Theorem C22_add_then_remove : forall (key T : Type) (ltb : T -> T -> bool) (score : node -> key -> T),
  strict_total ltb -> forall ns k n,
  ~ In (label n) (map label ns) -> NoDup (map label ns) -> tie_free score k (add_node n ns) ->
  remove_node (label n) (ordered ltb score (add_node n ns) k) = ordered ltb score ns k.
Proof. exact Proof.C22.add_then_remove. Qed.
Print Assumptions C22_add_then_remove.

(* minimal disruption as ca_store.go:567 and ring.go use it (top owner / top-n window of a key):
   on AddNode a key's top owner changes only by moving TO the new node ... *)
Theorem C22_add_moves_only_to_new : forall (key T : Type) (ltb : T -> T -> bool) (score : node -> key -> T),
  strict_total ltb -> forall ns k n,
  ~ In (label n) (map label ns) -> NoDup (map label ns) -> tie_free score k (add_node n ns) ->
  hd_error (ordered ltb score (add_node n ns) k) = Some n \/
  hd_error (ordered ltb score (add_node n ns) k) = hd_error (ordered ltb score ns k).
Proof. exact Proof.C22.add_top1. Qed.
Print Assumptions C22_add_moves_only_to_new.

(* ... on RemoveNode only by moving AWAY from the removed node ... *)
Theorem C22_remove_moves_only_from_removed : forall (key T : Type) (ltb : T -> T -> bool) (score : node -> key -> T),
  strict_total ltb -> forall ns k l x,
  NoDup (map label ns) -> tie_free score k ns ->
  hd_error (ordered ltb score ns k) = Some x -> label x <> l ->
  hd_error (ordered ltb score (remove_node l ns) k) = Some x.
Proof. exact Proof.C22.remove_top1. Qed.
Print Assumptions C22_remove_moves_only_from_removed.

(* ... and every member of a new top-m window is the added node or was in the old window *)
Theorem C22_add_topn_window : forall (key T : Type) (ltb : T -> T -> bool) (score : node -> key -> T),
  strict_total ltb -> forall ns k n m y,
  ~ In (label n) (map label ns) -> NoDup (map label ns) -> tie_free score k (add_node n ns) ->
  In y (get_ordered_nodes ltb score (add_node n ns) k m) ->
  y = n \/ In y (get_ordered_nodes ltb score ns k m).
Proof. exact Proof.C22.add_topn. Qed.
Print Assumptions C22_add_topn_window.

(* GetOrderedNodes(key, n) is the n-prefix; "number of returned nodes = min(n, len(nodes))" *)
Theorem C22_top_n : forall (key T : Type) (ltb : T -> T -> bool) (score : node -> key -> T) ns k n,
  get_ordered_nodes ltb score ns k n = firstn n (ordered ltb score ns k) /\
  length (get_ordered_nodes ltb score ns k n) = Nat.min n (length ns).
Proof. exact Proof.C22.top_n. Qed.
Print Assumptions C22_top_n.

(* the drivers' boolean tie test is exactly the hypothesis above *)
Theorem C22_tie_test_is_hypothesis : forall (key T : Type) (ltb : T -> T -> bool) (score : node -> key -> T),
  strict_total ltb -> forall k ns,
  tie_freeb ltb score k ns = true <-> NoDup ns /\ tie_free score k ns.
Proof. exact Proof.C22.tie_freeb_iff. Qed.
Print Assumptions C22_tie_test_is_hypothesis.

(* ---- executable form, on the instance run against the implementation (scores in N) ---- *)
Theorem C22_order_instance : strict_total N.ltb.
Proof. exact Proof.C22.N_strict_total. Qed.
Print Assumptions C22_order_instance.

(* the model's observation satisfies the oracle ... *)
Theorem C22_check_sound : forall hexkey U U' topn xs r,
  dom U U' xs = true -> (hexkey = true -> C22_tie_free U r = true) ->
  C22_check hexkey U U' topn xs r (observe U U' topn xs r) = true.
Proof. exact Proof.C22.check_sound. Qed.
Print Assumptions C22_check_sound.

(* ... and with distinct scores nothing else does: an implementation observation accepted by the
   oracle is the model's, entry for entry *)
Theorem C22_check_complete : forall U U' topn xs r,
  dom U U' xs = true -> C22_tie_free U r = true ->
  forall o, C22_check true U U' topn xs r o = true -> o = observe U U' topn xs r.
Proof. exact Proof.C22.check_complete. Qed.
Print Assumptions C22_check_complete.

(* outside its domain (duplicate labels, x not a member) the oracle says nothing *)
Theorem C22_check_outside_domain : forall hexkey U U' topn xs r o,
  dom U U' xs = false -> C22_check hexkey U U' topn xs r o = true.
Proof. exact Proof.C22.check_outside_dom. Qed.
Print Assumptions C22_check_outside_domain.

(* ---- where the statement fails ---- *)

(* With tied scores the order DOES depend on the insertion order: two nodes of weight 0 score
   (+0) on every key.  Witness = harness seed "seed-zero-weight-tie" (known finding
   C22-zero-weight-tie). *)
Theorem C22_ties_refuted :
  exists ns ns' r, NoDup (map label ns) /\ Permutation ns ns' /\ ord ns r <> ord ns' r.
Proof. exact Proof.C22.ties_refuted. Qed.
Print Assumptions C22_ties_refuted.

(* what hrw.RendezvousHash returned on that seed (nodes a,b of weight 0, key "00"): [a;b] when
   inserted a,b and [b;a] when inserted b,a — the oracle rejects it *)
Example C22_zero_weight_observed_violates :
  C22_check true [Proof.C22.w0a; Proof.C22.w0b] [Proof.C22.w0b; Proof.C22.w0a] 1 [0; 1]%N Proof.C22.tie_row
    (mkobs [0; 1]%N [1; 0]%N [0]%N [(0, [1], [1; 0]); (1, [0], [0; 1])]%N) = false.
Proof. vm_compute. reflexivity. Qed.

(* keys that are not even-length hex make every Score NaN: `<` is constantly false and the
   result is the insertion order itself; such keys are outside the property's domain *)
Theorem C22_nan_key_note : forall (key T : Type) (score : node -> key -> T) ns k,
  ordered (fun _ _ => false) score ns k = ns.
Proof. exact Proof.C22.nan_keys_keep_insertion_order. Qed.
Print Assumptions C22_nan_key_note.

(* ---- the proposed repair (fixes/C22_tiebreak.patch): compare (score, label) ---- *)
Theorem C22_tiebreak_order : forall (T : Type) (ltb : T -> T -> bool),
  strict_total ltb -> strict_total (lex_ltb ltb).
Proof. exact Proof.C22.lex_strict_total. Qed.
Print Assumptions C22_tiebreak_order.

(* no hypothesis on the scores is left: distinct labels suffice *)
Theorem C22_tiebreak_insertion_independent : forall (key T : Type) (ltb : T -> T -> bool) (score : node -> key -> T),
  strict_total ltb -> forall ns ns' k,
  NoDup (map label ns) -> Permutation ns ns' ->
  ordered (lex_ltb ltb) (lex_score score) ns k = ordered (lex_ltb ltb) (lex_score score) ns' k.
Proof. exact Proof.C22.tiebreak_insertion_independent. Qed.
Print Assumptions C22_tiebreak_insertion_independent.

(* and nothing changes where the scores were distinct already *)
Theorem C22_tiebreak_conservative : forall (key T : Type) (ltb : T -> T -> bool) (score : node -> key -> T),
  strict_total ltb -> forall ns k,
  NoDup ns -> tie_free score k ns ->
  ordered (lex_ltb ltb) (lex_score score) ns k = ordered ltb score ns k.
Proof. exact Proof.C22.tiebreak_refines. Qed.
Print Assumptions C22_tiebreak_conservative.

(* ---- non-vacuity ---- *)
(* three nodes with distinct scores: the hypotheses hold, the list is a genuine reordering, a
   removal and a re-addition behave as stated, and the oracle accepts exactly this *)
Example C22_nonvacuous :
  let U := [mknode 0 100; mknode 1 100; mknode 2 7] in
  let U' := [mknode 2 7; mknode 0 100; mknode 1 100] in
  let r := [5; 9; 7]%N in
  dom U U' [0; 1; 2]%N = true /\ C22_tie_free U r = true /\
  lab (ord U r) = [1; 2; 0]%N /\ lab (ord U' r) = [1; 2; 0]%N /\
  lab (ord (remove_node 2 U) r) = [1; 0]%N /\
  lab (ord (add_node (mknode 2 7) (remove_node 2 U)) r) = [1; 2; 0]%N /\
  C22_check true U U' 2 [0; 1; 2]%N r (observe U U' 2 [0; 1; 2]%N r) = true.
Proof. vm_compute. repeat split; reflexivity. Qed.

(* the history form: two different AddNode/RemoveNode histories ending in the same node set *)
Example C22_nonvacuous_history :
  let a := mknode 0 100 in let b := mknode 1 100 in let c := mknode 2 7 in
  rh_run [RAdd a; RAdd b; RAdd c] = [a; b; c] /\
  rh_run [RAdd c; RAdd a; RRemove 2; RAdd b; RAdd c] = [a; b; c] /\
  rh_run [RAdd c; RAdd b; RAdd a] = [c; b; a].
Proof. vm_compute. repeat split; reflexivity. Qed.
