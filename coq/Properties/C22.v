(* C22 statements (in progress) *)
From Coq Require Import List NArith ZArith Bool Permutation Sorted.
From K.Model Require Import C22.
From K.Proof Require Rendezvous C22.
Import ListNotations.

Theorem C22_placeholder_sorted : forall (key T : Type) (ltb : T -> T -> bool) (score : node -> key -> T) ns k,
  Permutation (ordered ltb score ns k) ns.
Proof. exact Proof.Rendezvous.ordered_perm. Qed.
