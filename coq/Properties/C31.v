(* C31 — an acknowledged origin upload reaches the backend before local deletion.
   Statements only; every proof is `exact <lemma>`.  Model: K.Model.C31 (uploads incl. the conflict
   path, write-back executions, forced cleanup (maybeDelete), deletion attempts of the periodic
   cleanup / LRU eviction / DELETE, crash+restart; one atomic step = one store / metadata /
   backend / task-table call; `run fx init ops` ranges over every finite interleaving).
   fx = false is the code at HEAD; fx = true is the same code with the map look-up of
   lib/store/base/file_op.go lockHelper repaired (see notes/C31.md). *)
From Coq Require Import List NArith Bool.
From K.Model Require Import C31.
From K.Proof Require Import C31_wit C31.
Import ListNotations.
Local Open Scope N_scope.

(* SAFETY, PARTIAL.  For every history that respects the three conditions of Model.C31.guard
   ((1) one namespace per digest, (2) forced cleanup of d isolated from uploads of d between its
   Find and its deletion of the persist flag, (3) at HEAD only: no deletion attempt on d between an
   executor's map look-up and its entry lock), in the reached state every acknowledged upload is in
   its backend, or its local copy is present and its write-back row is stored.  No bound on the
   history; all deletion paths (cleanup pass, LRU eviction, DELETE, forced cleanup, conflict
   handling), backend outages and restarts are steps of the history.
   MISSING for the full statement: exactly the three conditions; each is necessary (below). *)
Theorem C31_safety_partial : forall (nsof : N -> N) (fx : bool) (ops : list op),
  nice nsof fx init ops = true -> safe_state (fst (run fx init ops)) = true.
Proof. exact safety_partial. Qed.
Print Assumptions C31_safety_partial.

(* the same, spelled out per key; additionally the persist flag is still set *)
Theorem C31_local_copy_kept_partial : forall (nsof : N -> N) (fx : bool) (ops : list op) k,
  nice nsof fx init ops = true ->
  let s := fst (run fx init ops) in
  kmem k (s_acked s) = true -> kmem k (s_back s) = false ->
  present (snd k) (s_files s) = true /\ persisted (snd k) (s_files s) = true /\ kmem k (s_tasks s) = true.
Proof. exact safety_partial_explicit. Qed.
Print Assumptions C31_local_copy_kept_partial.

(* EVENTUAL, PARTIAL.  Under the same conditions, from the state reached by any history, every
   acknowledged upload is already in its backend, or there is an enabled continuation (restart,
   the stored row handed to the executor once, backend up) that respects the conditions and puts
   it there: the local copy and the row are still available whatever outages, failed executions,
   deletion attempts and restarts happened before.  MISSING: that the real scheduler takes such a
   continuation - the retry manager's liveness (C30_until_success_partial; fairness of poller and
   workers is not formalised) and a backend that is eventually up. *)
Theorem C31_eventual_partial : forall (nsof : N -> N) (fx : bool) (ops : list op) k,
  nice nsof fx init ops = true ->
  kmem k (s_acked (fst (run fx init ops))) = true ->
  kmem k (s_back (fst (run fx init ops))) = true \/
  exists more, nice nsof fx (fst (run fx init ops)) more = true /\
               legal (snd (run fx (fst (run fx init ops)) more)) = true /\
               kmem k (s_back (fst (run fx (fst (run fx init ops)) more))) = true.
Proof. exact eventual_partial. Qed.
Print Assumptions C31_eventual_partial.

(* REFUTED as stated (open finding C31-persist-flag-shared): two namespaces upload the same digest;
   the first write-back clears the single persist flag, a cleanup pass deletes the blob, the second
   namespace's write-back finds no file and is dropped.  Every step is enabled; in the end (1,0) is
   acknowledged, not in its backend, not in the cache, has no row, and nothing is running. *)
Theorem C31_multi_namespace_refuted : forall fx, lost fx multi_ns_ops (1, 0) = true.
Proof. exact multi_ns_lost. Qed.
Print Assumptions C31_multi_namespace_refuted.

(* REFUTED (open finding C31-forced-cleanup-add-race): ONE namespace; crash between set-persist
   and Add; maybeDelete's Find sees no row; the client's retry is acknowledged through the
   conflict path; maybeDelete deletes the persist flag and the blob; the row is dropped. *)
Theorem C31_forced_cleanup_race_refuted : forall fx, lost fx fc_race_ops (0, 0) = true.
Proof. exact fc_race_lost. Qed.
Print Assumptions C31_forced_cleanup_race_refuted.

(* REFUTED at HEAD (open finding C31-stale-entry-lookup): one namespace, no crash, no forced
   cleanup: a refused deletion attempt on the persisted blob between the executor's map look-up
   and its entry lock makes the executor drop the task; with the look-up repaired (fx = true) the
   same history delivers the blob before the local copy goes. *)
Theorem C31_stale_lookup_refuted : lost false stale_ops (0, 0) = true.
Proof. exact stale_lost. Qed.
Print Assumptions C31_stale_lookup_refuted.

(* the three witnesses violate exactly the conditions of the partial theorem *)
Theorem C31_conditions_needed :
  nice nsof0 false init multi_ns_ops = false /\ nice nsof0 false init fc_race_ops = false /\
  nice nsof0 false init stale_ops = false /\ nice nsof0 true init stale_ops = true.
Proof. exact witnesses_not_nice. Qed.
Print Assumptions C31_conditions_needed.

(* ---- non-vacuity and the executable oracle *)

(* a history that meets the conditions: outage, failed execution, refused deletions by every path,
   crash in the middle of an execution, delivery after the restart, forced cleanup that executes
   the pending write-back itself before deleting *)
Example C31_nonvacuous_nice :
  nice nsof0 false init nice_ops = true /\ legal (snd (run false init nice_ops)) = true /\
  s_back (fst (run false init nice_ops)) = [(0, 0); (0, 1)] /\ s_files (fst (run false init nice_ops)) = [].
Proof. vm_compute. repeat split; reflexivity. Qed.

(* the trace oracle used on the implementation's observations accepts the benign history ... *)
Example C31_check_accepts :
  C31_check benign_ops (snd (run false init benign_ops)) = true.
Proof. vm_compute. reflexivity. Qed.

(* ... and rejects the three witnesses *)
Example C31_check_rejects :
  C31_check (multi_ns_ops ++ [OObs]) (snd (run false init (multi_ns_ops ++ [OObs]))) = false /\
  C31_check (fc_race_ops ++ [OObs]) (snd (run false init (fc_race_ops ++ [OObs]))) = false /\
  C31_check (stale_ops ++ [OObs]) (snd (run false init (stale_ops ++ [OObs]))) = false.
Proof. vm_compute. repeat split; reflexivity. Qed.
