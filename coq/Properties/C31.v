(* C31 — an acknowledged origin upload reaches the backend before local deletion.
   Statements only; every proof is `exact <lemma>`.  Model: K.Model.C31. *)
From Coq Require Import List NArith Bool.
From K.Model Require Import C31.
From K.Proof Require Import C31_wit.
Import ListNotations.
Local Open Scope N_scope.

(* REFUTED as stated (open finding C31-persist-flag-shared): two namespaces upload the same digest;
   the first write-back clears the single persist flag, a cleanup pass deletes the blob, the
   second namespace's write-back finds no file and is dropped.  Every step is enabled; in the end
   (1,0) is acknowledged, not in its backend, not in the cache, has no row, nothing is running. *)
Theorem C31_multi_namespace_refuted : forall fx, lost fx multi_ns_ops (1, 0) = true.
Proof. exact multi_ns_lost. Qed.
Print Assumptions C31_multi_namespace_refuted.
