(* C03 — placeholder while the proofs are being written *)
From Coq Require Import List NArith.
From K.Model Require Import C03.
Example C03_placeholder : True.
Proof. exact I. Qed.
