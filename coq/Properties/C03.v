(* C03 — an agent commits a blob only after every piece is verified.
   Statements only; every proof is `exact <lemma from Proof/C03.v or Proof/AgentTorrent.v>`.

   Setting.  [c] is a metainfo (piece length, blob length, piece sums), [ws] any list of
   WritePiece calls (index, declared length, the chunks the reader delivers, the streamed
   checksum), [R c ws sched] the state after ANY interleaving [sched] (a list of caller ids, one
   atomic step each: lock region / atomic op / file-store call of torrent.go:203-250) started
   on a fresh download.  No bound on the number of callers, pieces, sizes or steps.
   Hypotheses: [wf_cfg] = the metainfo has ceil(L/pl) sums and pl > 0 (core.NewMetaInfo);
   [all_honest] = the PieceReader contract: no reader streams more than Length() bytes. *)
From Coq Require Import List NArith ZArith.
From K.Model Require Import C03.
From K.Proof Require Import AgentTorrent.
From K.Proof Require C03.
Import ListNotations.
Import K.Proof.C03.

(* -- a piece is marked complete (in memory or on disk) only when bytes streamed with a checksum
      equal to the metainfo's sit in its region of the file -- *)
Theorem C03_complete_verified : forall c ws sched i,
  wf_cfg c = true -> all_honest ws ->
  let s := s_st (R c ws sched) in
  i < npieces c -> st_at s i = Complete \/ nth i (sidecar s) 0%N = 1%N ->
  verified c ws s i.
Proof. exact Proof.C03.complete_verified_all. Qed.
Print Assumptions C03_complete_verified.

(* the checksum as a function, readers with exact Length() (piecereader.Buffer): the file
   region of a complete piece sums to the metainfo's checksum *)
Theorem C03_complete_sum : forall (sum : list N -> N) c ws sched i,
  wf_cfg c = true ->
  (forall w, In w ws -> Z.of_nat (length (payload w)) = w_decl w) ->
  (forall w, In w ws -> w_hsum w = sum (payload w)) ->
  let s := s_st (R c ws sched) in
  i < npieces c -> st_at s i = Complete ->
  sum (region c (file s) i) = psum c i.
Proof. exact Proof.C03.complete_sum. Qed.
Print Assumptions C03_complete_sum.

(* -- moved to the cache / reported complete only once every piece is complete and verified -- *)
Theorem C03_commit_all : forall c ws sched,
  wf_cfg c = true -> all_honest ws ->
  let s := s_st (R c ws sched) in
  incache s = true \/ committed s = true ->
  forall i, i < npieces c -> st_at s i = Complete /\ verified c ws s i.
Proof. exact Proof.C03.commit_all. Qed.
Print Assumptions C03_commit_all.

(* -- the committed file is then byte-identical to the blob, under collision-freedom of the
      piece checksum on the payloads that occur -- *)
Theorem C03_commit_is_blob : forall (sum : list N -> N) c blob ws sched,
  wf_cfg c = true -> c_len c = length blob -> all_honest ws ->
  (forall i, i < npieces c -> psum c i = sum (region c blob i)) ->
  (forall w, In w ws -> w_hsum w = sum (payload w)) ->
  (forall w i, In w ws -> i < npieces c -> w_idx w = Z.of_nat i ->
     sum (payload w) = sum (region c blob i) -> payload w = region c blob i) ->
  let s := s_st (R c ws sched) in
  incache s = true \/ committed s = true ->
  file s = blob /\ (incache s = true -> cache_bytes s = Some blob).
Proof. exact Proof.C03.commit_is_blob. Qed.
Print Assumptions C03_commit_is_blob.

(* -- a complete piece is never written again: whatever happens later, it stays complete and
      its bytes do not change; once in the cache the whole file is frozen -- *)
Theorem C03_no_write_after_complete : forall c ws sched more i,
  wf_cfg c = true -> all_honest ws ->
  let S := R c ws sched in
  i < npieces c -> st_at (s_st S) i = Complete ->
  st_at (s_st (run c S more)) i = Complete /\
  region c (file (s_st (run c S more))) i = region c (file (s_st S)) i.
Proof. exact Proof.C03.no_write_after_complete. Qed.
Print Assumptions C03_no_write_after_complete.

Theorem C03_cache_frozen : forall c ws sched more,
  wf_cfg c = true -> all_honest ws ->
  let S := R c ws sched in
  incache (s_st S) = true ->
  incache (s_st (run c S more)) = true /\ file (s_st (run c S more)) = file (s_st S).
Proof. exact Proof.C03.cache_frozen. Qed.
Print Assumptions C03_cache_frozen.

(* -- rejections: a call that ends (or is still on its way to ending) in index / length /
      complete / conflict never changed the shared state with any of its steps ... -- *)
Theorem C03_reject_no_effect : forall c S a k b,
  may_reject (pc_of (run c S (a ++ k :: b)) k) = true ->
  s_st (sys_step c (run c S a) k) = s_st (run c S a).
Proof. exact Proof.C03.reject_no_effect. Qed.
Print Assumptions C03_reject_no_effect.

(* ... a call with an index outside [0,n) or a length different from the piece's can only return
   the index / length error ... *)
Theorem C03_invalid_rejected : forall c ws sched w r,
  wf_cfg c = true -> all_honest ws ->
  In (mkth w (PDone r)) (s_ths (R c ws sched)) ->
  (w_idx w < 0 \/ Z.of_nat (npieces c) <= w_idx w \/ w_decl w <> Z.of_nat (plen c (Z.to_nat (w_idx w))))%Z ->
  r = RBadIndex \/ r = RBadLength.
Proof. exact Proof.C03.invalid_rejected. Qed.
Print Assumptions C03_invalid_rejected.

(* ... success means the streamed checksum matched and the piece is complete; a write error means
   the checksum did not match (a good payload is never refused that way); the move never fails *)
Theorem C03_result_meaning : forall c ws sched w r,
  wf_cfg c = true -> all_honest ws ->
  In (mkth w (PDone r)) (s_ths (R c ws sched)) ->
  match r with
  | ROk => exists i, i < npieces c /\ w_idx w = Z.of_nat i /\ w_hsum w = psum c i /\
                     st_at (s_st (R c ws sched)) i = Complete
  | RWriteErr => exists i, i < npieces c /\ w_idx w = Z.of_nat i /\ w_hsum w <> psum c i
  | RMoveErr => False
  | _ => True
  end.
Proof. exact Proof.C03.result_meaning. Qed.
Print Assumptions C03_result_meaning.

Theorem C03_accepted_payload_is_blob : forall c blob ws sched w,
  wf_cfg c = true -> c_len c = length blob -> all_honest ws -> coll_free c blob ws ->
  In (mkth w (PDone ROk)) (s_ths (R c ws sched)) ->
  exists i, i < npieces c /\ w_idx w = Z.of_nat i /\ payload w = region c blob i.
Proof. exact Proof.C03.accepted_payload_is_blob. Qed.
Print Assumptions C03_accepted_payload_is_blob.

(* ... and a well-formed call for a piece that is already complete when it starts can only return
   ErrPieceComplete, whatever the other callers do meanwhile *)
Theorem C03_duplicate_gets_complete : forall c ws sched more k w i,
  wf_cfg c = true -> all_honest ws ->
  let S := R c ws sched in
  nth_error (s_ths S) k = Some (mkth w PStart) ->
  i < npieces c -> w_idx w = Z.of_nat i -> w_decl w = Z.of_nat (plen c i) ->
  st_at (s_st S) i = Complete ->
  forall r, pc_of (run c S more) k = PDone r -> r = RComplete.
Proof. exact Proof.C03.duplicate_gets_complete. Qed.
Print Assumptions C03_duplicate_gets_complete.

(* -- what a peer is served (GetPieceReader) is the blob's piece -- *)
Theorem C03_served_piece_is_blob : forall c blob ws sched i d,
  wf_cfg c = true -> c_len c = length blob -> all_honest ws -> coll_free c blob ws ->
  get_piece c (s_st (R c ws sched)) i = Some d -> d = region c blob i.
Proof. exact Proof.C03.served_piece_is_blob. Qed.
Print Assumptions C03_served_piece_is_blob.

(* -- bitfield and progress match the verified pieces: numComplete never exceeds the number of
      complete pieces, lags by at most the callers in flight, is exact when nobody is inside
      WritePiece; Bitfield() counts exactly the complete pieces; BytesDownloaded() is
      min(numComplete * pieceLength, length) -- *)
Theorem C03_progress_accounting : forall c ws sched,
  wf_cfg c = true -> all_honest ws ->
  let S := R c ws sched in
  let done := count_st Complete (status (s_st S)) in
  ncomp (s_st S) <= done /\ done <= ncomp (s_st S) + length ws /\
  (idle S = true -> ncomp (s_st S) = done) /\
  popcount (bitfield (s_st S)) = done /\
  bytes_downloaded c (s_st S) = Nat.min (ncomp (s_st S) * c_pl c) (c_len c).
Proof. exact Proof.C03.progress. Qed.
Print Assumptions C03_progress_accounting.

(* -- no commit is lost: when every caller has returned and every piece is complete, the file is
      in the cache and the torrent reports complete (two callers finishing the last two pieces
      concurrently cannot both miss numComplete == n) -- *)
Theorem C03_commit_not_lost : forall c ws sched,
  wf_cfg c = true -> all_honest ws ->
  let S := R c ws sched in
  idle S = true -> (forall i, i < npieces c -> st_at (s_st S) i = Complete) ->
  committed (s_st S) = true /\ incache (s_st S) = true.
Proof. exact Proof.C03.commit_not_lost_all. Qed.
Print Assumptions C03_commit_not_lost.

(* -- NewTorrent on the same store while nobody is writing restores exactly the same state
      (used by the driver's reopen steps; shared with C04) -- *)
Theorem C03_reopen_is_identity : forall c ws sched,
  wf_cfg c = true -> all_honest ws ->
  let S := R c ws sched in
  idle S = true ->
  new_torrent c (file (s_st S)) (Some (sidecar (s_st S))) (incache (s_st S)) = s_st S.
Proof. exact Proof.C03.reopen_is_identity. Qed.
Print Assumptions C03_reopen_is_identity.

(* -- executable form: the oracle evaluated on the implementation's traces holds on every
      macro-step history of the model -- *)
Theorem C03_check_sound : forall c blob ws hs,
  let S0 := start (init_fresh c) ws in
  hist_ok c S0 hs = true ->
  idle (fst (hrun c S0 hs)) = true ->
  C03_check c blob ws (snd (hrun c S0 hs)) (observe_state c (fst (hrun c S0 hs)))
            (fin_of c (fst (hrun c S0 hs))) = true.
Proof. exact Proof.C03.check_sound. Qed.
Print Assumptions C03_check_sound.

(* -- the reader contract is necessary: a reader whose Length() understates its stream gets a
      file different from the blob committed (seed case `seed-lying-reader` replays this on the
      real code) -- *)
Theorem C03_lying_reader_refuted :
  let s := s_st (R lie_cfg lie_ws lie_sched) in
  wf_cfg lie_cfg = true /\ coll_free lie_cfg lie_blob lie_ws /\
  committed s = true /\ incache s = true /\ file s <> lie_blob /\
  ~ all_honest lie_ws.
Proof. exact Proof.C03.lying_reader_refuted. Qed.
Print Assumptions C03_lying_reader_refuted.

(* -- non-vacuity: the hypotheses hold of a concrete history with a conflict, a corrupt payload,
      a retry, an invalid index, a wrong length and two callers reaching the commit -- *)
Theorem C03_nonvacuous :
  wf_cfg lie_cfg = true /\ c_len lie_cfg = length lie_blob /\ all_honest nv_ws /\
  coll_free lie_cfg lie_blob nv_ws /\
  (let S := R lie_cfg nv_ws nv_sched in
   idle S = true /\ committed (s_st S) = true /\ cache_bytes (s_st S) = Some lie_blob /\
   map t_pc (s_ths S) = [PDone ROk; PDone RConflict; PDone RWriteErr; PDone ROk; PDone RBadIndex; PDone RBadLength]) /\
  (let S := R lie_cfg nv_ws (removelast nv_sched) in
   idle S = false /\ incache (s_st S) = true /\ committed (s_st S) = false).
Proof. exact Proof.C03.nonvacuous. Qed.
Print Assumptions C03_nonvacuous.

Example C03_nonvacuous_check :
  let c := lie_cfg in
  let hs := [HAdv 0; HAdv 0; HAdv 0; HAdv 0; HAdv 0; HAdv 0; HAdv 1; HAdv 2; HAdv 2; HAdv 2; HAdv 2; HAdv 2; HReopen;
             HAdv 3; HAdv 3; HAdv 3; HAdv 4; HAdv 3; HAdv 3; HAdv 5; HAdv 3] in
  let S0 := start (init_fresh c) nv_ws in
  geometry_ok c lie_blob = true /\ guards c lie_blob nv_ws = true /\
  hist_ok c S0 hs = true /\ idle (fst (hrun c S0 hs)) = true /\
  committed (s_st (fst (hrun c S0 hs))) = true.
Proof. vm_compute. repeat split; reflexivity. Qed.
