From Coq Require Import List NArith ZArith.
From K.Model Require Import C16.
From K.Proof Require C16.
Theorem C16_stub : True.
Proof. exact Proof.C16.stub. Qed.
