(* C16 — connection limits and connection states are never violated.
   Statements only; every proof is `exact <lemma from Proof/C16.v>`.
   The model (Model/C16.v) transcribes connstate/state.go, connstate/config.go and the handlers of
   scheduler/events.go that drive the State.  [run c init ops] is the state after the history [ops]
   (any sequence of AddPending / DeletePending / MoveToActive / DeleteActive / Blacklist /
   ClearBlacklist / clock ticks / announce results / incoming handshakes / connection-closed,
   failed-handshake and torrent-complete events / queries, over any torrents, peers and connections); [c] is the
   configuration after applyDefaults. *)
From Coq Require Import List NArith ZArith Bool.
From K.Model Require Import C16.
From K.Proof Require C16.
Import ListNotations.
Local Open Scope Z_scope.

(* ---- clause 1: for every torrent, pending + active never exceed the configured maximum.
   Guard: the configured maximum is not negative (0 means "default", config.go:38). *)
Theorem C16_capacity : forall raw ops h,
  0 <= c_max raw ->
  let c := apply_defaults raw in
  let s := fst (run c init ops) in
  n_pending h (conns s) + n_active h (conns s) <= c_max c.
Proof. exact Proof.C16.capacity. Qed.
Print Assumptions C16_capacity.

(* the guard is necessary: state.go:182 tests `len == Max`, which a negative Max never meets, so any
   number of distinct peers is admitted (configuration outside the documented domain) *)
Theorem C16_negative_max_unbounded : forall raw, c_max raw < 0 ->
  forall ps : list N, NoDup ps ->
  let c := apply_defaults raw in
  0 <= c_mutual c ->
  count 0%N (conns (fst (run c init (map (fun p => AddPending p 0%N []) ps)))) = Z.of_nat (length ps).
Proof. exact Proof.C16.negative_max_unbounded. Qed.
Print Assumptions C16_negative_max_unbounded.

(* ---- clause 2: a peer is never both pending and active for the same torrent (nor held twice) *)
Theorem C16_exclusive_state : forall c ops h p st1 st2,
  let s := fst (run c init ops) in
  In ((h, p), st1) (conns s) -> In ((h, p), st2) (conns s) -> st1 = st2.
Proof. exact Proof.C16.exclusive_state. Qed.
Print Assumptions C16_exclusive_state.

Theorem C16_never_pending_and_active : forall c ops h p cn,
  let s := fst (run c init ops) in
  ~ (In ((h, p), Pending) (conns s) /\ In ((h, p), Active cn) (conns s)).
Proof. exact Proof.C16.never_pending_and_active. Qed.
Print Assumptions C16_never_pending_and_active.

(* a peer already pending or active is refused and nothing changes; promotion only from pending *)
Theorem C16_no_double_add : forall c s p h nbrs,
  connected s h p = true ->
  snd (add_pending c s p h nbrs) <> AddOk /\ fst (add_pending c s p h nbrs) = s.
Proof. exact Proof.C16.no_double_add. Qed.
Print Assumptions C16_no_double_add.

Theorem C16_active_only_from_pending : forall s cn p h closed,
  snd (move_to_active s cn p h closed) = MoveOk ->
  lookup (h, p) (conns s) = Some Pending /\ closed = false /\
  lookup (h, p) (conns (fst (move_to_active s cn p h closed))) = Some (Active cn).
Proof. exact Proof.C16.active_only_from_pending. Qed.
Print Assumptions C16_active_only_from_pending.

(* ---- clause 3: refused when too many of the peer's neighbours are already connected.
   [num_mutual s h nbrs] = number of listed neighbours that are pending or active for h. *)
Theorem C16_mutual_limit : forall c s p h nbrs,
  snd (add_pending c s p h nbrs) = AddOk -> num_mutual s h nbrs <= c_mutual c.
Proof. exact Proof.C16.mutual_limit_accept. Qed.
Print Assumptions C16_mutual_limit.

Theorem C16_mutual_limit_refuse : forall c s p h nbrs,
  c_mutual c < num_mutual s h nbrs ->
  snd (add_pending c s p h nbrs) <> AddOk /\ fst (add_pending c s p h nbrs) = s.
Proof. exact Proof.C16.mutual_limit_refuse. Qed.
Print Assumptions C16_mutual_limit_refuse.

(* no spurious refusal: AddPending is accepted exactly when there is room, the peer is neither
   pending nor active, and the mutual limit holds *)
Theorem C16_add_pending_accept_iff : forall c s p h nbrs,
  snd (add_pending c s p h nbrs) = AddOk <->
  count h (conns s) <> c_max c /\ connected s h p = false /\ num_mutual s h nbrs <= c_mutual c.
Proof. exact Proof.C16.add_pending_accept_iff. Qed.
Print Assumptions C16_add_pending_accept_iff.

(* ---- clause 4: a replaced connection is never removed on behalf of an older one *)
Theorem C16_replaced_conn_safe : forall s cn cn' p h,
  lookup (h, p) (conns s) = Some (Active cn') -> cn <> cn' ->
  delete_active s cn p h = s.
Proof. exact Proof.C16.replaced_conn_safe. Qed.
Print Assumptions C16_replaced_conn_safe.

(* over histories: once cn' is active for (p,h), whatever happens next — including removals and
   close events of any other connection of the same peer and torrent — cn' stays active until a
   removal of cn' itself *)
Theorem C16_replaced_conn_history : forall c ops1 ops2 cn' p h,
  let s1 := fst (run c init ops1) in
  snd (step c s1 (MoveToActive cn' p h false)) = OMove MoveOk ->
  forallb (fun o => negb (closes_conn o cn' p h)) ops2 = true ->
  lookup (h, p) (conns (fst (run c init (ops1 ++ MoveToActive cn' p h false :: ops2)))) = Some (Active cn').
Proof. exact Proof.C16.replaced_conn_history. Qed.
Print Assumptions C16_replaced_conn_history.

Theorem C16_active_until_own_close : forall c s ops h p cn,
  lookup (h, p) (conns s) = Some (Active cn) ->
  forallb (fun o => negb (closes_conn o cn p h)) ops = true ->
  lookup (h, p) (conns (fst (run c s ops))) = Some (Active cn).
Proof. exact Proof.C16.active_until_own_close. Qed.
Print Assumptions C16_active_until_own_close.

(* ---- clause 5: blacklisted peers are not dialled until their blacklist expires.
   (a) the dial decision of announceResultEvent: whoever is dialled is not blacklisted now, is not
       the local peer and is not already connected; it holds a pending slot afterwards *)
Theorem C16_blacklist_no_dial : forall c s h known complete self peers q,
  match snd (step c s (Announce h known complete self peers)) with
  | ODial d => In q d -> blacklisted s (h, q) = false /\ q <> self /\ connected s h q = false
  | _ => False
  end.
Proof. exact Proof.C16.blacklist_no_dial. Qed.
Print Assumptions C16_blacklist_no_dial.

Theorem C16_dialled_are_pending : forall c s h self peers q,
  In q (snd (announce_loop c s h self peers)) ->
  lookup (h, q) (conns (fst (announce_loop c s h self peers))) = Some Pending.
Proof. exact Proof.C16.dialled_are_pending. Qed.
Print Assumptions C16_dialled_are_pending.

(* (b) an accepted blacklisting at time t0 keeps the peer blacklisted at every later time
       t < t0 + BlacklistDuration, whatever else happens, unless the torrent's blacklist is cleared *)
Theorem C16_blacklist_until_expiry : forall c ops1 o ops2 p h,
  let s1 := fst (run c init ops1) in
  let s3 := fst (run c init (ops1 ++ o :: ops2)) in
  c_nobl c = false ->
  blacklists_key o p h = true -> blacklisted s1 (h, p) = false ->
  forallb (fun o => negb (clears_hash o h)) ops2 = true ->
  now s3 < now s1 + c_dur c ->
  blacklisted s3 (h, p) = true.
Proof. exact Proof.C16.blacklist_until_expiry. Qed.
Print Assumptions C16_blacklist_until_expiry.

(* (a)+(b): no announce result in that window dials the peer *)
Theorem C16_blacklisted_not_dialled : forall c ops1 o ops2 p h known complete self peers,
  let s1 := fst (run c init ops1) in
  let s3 := fst (run c init (ops1 ++ o :: ops2)) in
  c_nobl c = false ->
  blacklists_key o p h = true -> blacklisted s1 (h, p) = false ->
  forallb (fun o => negb (clears_hash o h)) ops2 = true ->
  now s3 < now s1 + c_dur c ->
  match snd (step c s3 (Announce h known complete self peers)) with
  | ODial d => ~ In p d
  | _ => False
  end.
Proof. exact Proof.C16.blacklisted_not_dialled. Qed.
Print Assumptions C16_blacklisted_not_dialled.

(* (c) the entry lasts exactly BlacklistDuration: with no further blacklisting of (p,h) and no
       clearing, the peer is blacklisted at time t iff t < t0 + BlacklistDuration *)
Theorem C16_blacklist_duration : forall c ops1 o ops2 p h,
  let s1 := fst (run c init ops1) in
  let s3 := fst (run c init (ops1 ++ o :: ops2)) in
  c_nobl c = false ->
  blacklists_key o p h = true -> blacklisted s1 (h, p) = false ->
  forallb (fun o => negb (clears_hash o h) && negb (blacklists_key o p h)) ops2 = true ->
  blacklisted s3 (h, p) = (now s3 <? now s1 + c_dur c).
Proof. exact Proof.C16.blacklist_duration. Qed.
Print Assumptions C16_blacklist_duration.

(* (d) conversely, whoever is blacklisted at the end of a history owes it to an accepted blacklisting
       that is still within its duration and was not cleared since: with (b), a peer is withheld
       from dialling exactly while such a blacklisting exists *)
Theorem C16_blacklisted_has_cause : forall c ops h p,
  let s3 := fst (run c init ops) in
  blacklisted s3 (h, p) = true ->
  exists ops1 o ops2,
    ops = ops1 ++ o :: ops2 /\ blacklists_key o p h = true /\ c_nobl c = false /\
    blacklisted (fst (run c init ops1)) (h, p) = false /\
    forallb (fun o => negb (clears_hash o h)) ops2 = true /\
    now s3 < now (fst (run c init ops1)) + c_dur c.
Proof. exact Proof.C16.blacklisted_has_cause. Qed.
Print Assumptions C16_blacklisted_has_cause.

Theorem C16_not_blacklisted_without_cause : forall c ops p h,
  forallb (fun o => negb (blacklists_key o p h)) ops = true ->
  blacklisted (fst (run c init ops)) (h, p) = false.
Proof. exact Proof.C16.not_blacklisted_without_cause. Qed.
Print Assumptions C16_not_blacklisted_without_cause.

Theorem C16_clear_unblacklists : forall c s o h p,
  clears_hash o h = true -> blacklisted (fst (step c s o)) (h, p) = false.
Proof. exact Proof.C16.clear_unblacklists. Qed.
Print Assumptions C16_clear_unblacklists.

Theorem C16_disabled_never_blacklisted : forall c ops k,
  c_nobl c = true -> blacklisted (fst (run c init ops)) k = false.
Proof. exact Proof.C16.disabled_never_blacklisted. Qed.
Print Assumptions C16_disabled_never_blacklisted.

(* ---- executable form used on observed traces *)
Theorem C16_check_sound : forall raw ops,
  C16_check raw ops (snd (run (apply_defaults raw) init ops)) = true.
Proof. exact Proof.C16.check_sound. Qed.
Print Assumptions C16_check_sound.

(* ---- non-vacuity (each is also a seed case of the harness) *)
Definition ex_cfg := mkcfg 2 1 false 10.

(* capacity is reached (2 = Max) and the third peer is refused *)
Example C16_nonvacuous_capacity :
  let r := run (apply_defaults ex_cfg) init
               [AddPending 0 0 []; AddPending 1 0 []; MoveToActive 0 0 0 false; AddPending 2 0 []]%N in
  n_pending 0%N (conns (fst r)) + n_active 0%N (conns (fst r)) = 2 /\
  snd r = [OAdd AddOk; OAdd AddOk; OMove MoveOk; OAdd AtCapacity].
Proof. vm_compute. split; reflexivity. Qed.

(* a negative maximum admits more than the default maximum *)
Example C16_nonvacuous_negative_max :
  count 0%N (conns (fst (run (apply_defaults (mkcfg (-1) 3 false 0)) init
     (map (fun p => AddPending p 0%N []) [0; 1; 2; 3; 4; 5; 6; 7; 8; 9; 10; 11]%N)))) = 12.
Proof. vm_compute. reflexivity. Qed.

(* exclusive state: double add, add while active, double promotion are refused *)
Example C16_nonvacuous_exclusive :
  snd (run (apply_defaults ex_cfg) init
        [AddPending 0 0 []; AddPending 0 0 []; MoveToActive 0 0 0 false; AddPending 0 0 []; MoveToActive 1 0 0 false]%N)
  = [OAdd AddOk; OAdd AlreadyPending; OMove MoveOk; OAdd AlreadyActive; OMove MoveInvalid].
Proof. vm_compute. reflexivity. Qed.

(* mutual limit 1: one connected neighbour is accepted, two are refused *)
Example C16_nonvacuous_mutual :
  snd (run (apply_defaults (mkcfg 5 1 false 10)) init
        [AddPending 0 0 []; AddPending 1 0 []; AddPending 2 0 [0]; DeletePending 2 0; AddPending 2 0 [0; 1]]%N)
  = [OAdd AddOk; OAdd AddOk; OAdd AddOk; OUnit; OAdd TooManyMutual].
Proof. vm_compute. reflexivity. Qed.

(* the same limit applied to an incoming handshake that lists its neighbours (events.go:145) *)
Example C16_nonvacuous_incoming :
  snd (run (apply_defaults (mkcfg 5 1 false 10)) init
        [AddPending 0 0 []; AddPending 1 0 []; EvIncoming 2 0 [0]; DeletePending 2 0; EvIncoming 2 0 [0; 1]]%N)
  = [OAdd AddOk; OAdd AddOk; OAdd AddOk; OUnit; OAdd TooManyMutual].
Proof. vm_compute. reflexivity. Qed.

(* replaced connection: conn 0 of (p0,h0) is removed, the peer comes back with conn 1, a late
   removal of conn 0 (API call and close event) leaves conn 1 in place; its own removal takes it out *)
Example C16_nonvacuous_replaced :
  let ops1 := [AddPending 0 0 []; MoveToActive 0 0 0 false; DeleteActive 0 0 0; AddPending 0 0 []]%N in
  let ops2 := [DeleteActive 0 0 0; EvConnClosed 0 0 0; QActive]%N in
  let c := apply_defaults ex_cfg in
  snd (step c (fst (run c init ops1)) (MoveToActive 1 0 0 false)) = OMove MoveOk /\
  forallb (fun o => negb (closes_conn o 1 0 0)) ops2 = true /\
  snd (run c init (ops1 ++ MoveToActive 1 0 0 false :: ops2 ++ [DeleteActive 1 0 0; QActive]))
  = [OAdd AddOk; OMove MoveOk; OUnit; OAdd AddOk; OMove MoveOk; OUnit; OUnit; OActive [1%N]; OUnit; OActive []].
Proof. vm_compute. repeat split; reflexivity. Qed.

(* blacklist: accepted at t=0 for 10 ns; blacklisted at t=9, not at t=10; not dialled at 9, dialled at 10 *)
Example C16_nonvacuous_blacklist :
  let c := apply_defaults ex_cfg in
  snd (run c init [Blacklist 1 0; Blacklist 1 0; Tick 9; QBlacklisted 1 0; Announce 0 true false 99 [1; 2];
                   Tick 1; QBlacklisted 1 0; Announce 0 true false 99 [1; 2]]%N)
  = [OBl true; OBl false; OUnit; OBool true; ODial [2%N]; OUnit; OBool false; ODial [1%N]].
Proof. vm_compute. reflexivity. Qed.

Example C16_nonvacuous_blacklist_hyps :
  let c := apply_defaults ex_cfg in
  let ops1 := [AddPending 3 0 []]%N in
  let ops2 := [Tick 9; EvFailedOut 1 0; ClearBlacklist 1; AddPending 2 1 []]%N in
  c_nobl c = false /\ blacklists_key (EvFailedOut 1 0) 1 0 = true /\
  blacklisted (fst (run c init ops1)) (0, 1)%N = false /\
  forallb (fun o => negb (clears_hash o 0)) ops2 = true /\
  now (fst (run c init (ops1 ++ EvFailedOut 1 0 :: ops2))) < now (fst (run c init ops1)) + c_dur c.
Proof. vm_compute. repeat split; reflexivity. Qed.

(* defaults (config.go:37-49): Max 0 -> 10, MaxMutual 0 -> Max, BlacklistDuration 0 -> 30 s *)
Example C16_defaults : apply_defaults (mkcfg 0 0 false 0) = mkcfg 10 10 false 30000000000.
Proof. vm_compute. reflexivity. Qed.

(* the oracle rejects traces that break a clause (it is not constantly true) *)
Example C16_check_rejects :
  (* a third connection admitted at Max = 2 *)
  C16_check ex_cfg [AddPending 0 0 []; AddPending 1 0 []; AddPending 2 0 []]%N [OAdd AddOk; OAdd AddOk; OAdd AddOk] = false /\
  (* an old connection's removal took out its replacement *)
  C16_check ex_cfg [AddPending 0 0 []; MoveToActive 1 0 0 false; DeleteActive 0 0 0; QActive]%N
                   [OAdd AddOk; OMove MoveOk; OUnit; OActive []] = false /\
  (* a blacklisted peer dialled *)
  C16_check ex_cfg [Blacklist 1 0; Tick 9; Announce 0 true false 99 [1]]%N [OBl true; OUnit; ODial [1%N]] = false /\
  (* too many mutual connections admitted *)
  C16_check ex_cfg [AddPending 0 0 []; AddPending 1 0 []; DeletePending 1 0; AddPending 2 0 [0; 0]]%N
                   [OAdd AddOk; OAdd AddOk; OUnit; OAdd AddOk] = false /\
  (* pending and active at once *)
  C16_check ex_cfg [AddPending 0 0 []; MoveToActive 0 0 0 false; AddPending 0 0 []]%N [OAdd AddOk; OMove MoveOk; OAdd AddOk] = false.
Proof. vm_compute. repeat split; reflexivity. Qed.
