(* C23 — active health checks follow the documented hysteresis.
   Statements only; every proof is `exact <lemma from Proof/C23*.v>`.
   Model: Model/C23.v (state.go, filter.go, monitor.go with fixes/C23_rejoin.patch applied).
   Outcome lists `os` below are chronological (oldest first); `status c (rev os)` is the streak
   specification "healthy after the checks os" of a host that was healthy before them. *)
From Coq Require Import List NArith ZArith Bool Permutation.
From K.Model Require Import C23.
From K.Proof Require C23_a C23.
Import ListNotations.
Local Open Scope Z_scope.

(* ---- what Filter.Run returns, for every history of calls: a listed host is returned exactly
   when the streak specification, applied to its check outcomes since it (re)joined the list,
   says healthy; a single-host list is returned as it is *)
Theorem C23_run_returns : forall c pre r x,
  valid c = true ->
  mem x (snd (frun c (fst (run c init pre)) r)) =
  if single r then mem x (addrs_of r) else mem x (addrs_of r) && healthy_spec c x (pre ++ [r]).
Proof. exact Proof.C23.run_returns. Qed.
Print Assumptions C23_run_returns.

Theorem C23_refines_spec : forall c h,
  valid c = true ->
  Forall2 (fun o so => forall x, mem x o = mem x so) (outs c h) (spec_outs c h).
Proof. exact Proof.C23.refines_spec. Qed.
Print Assumptions C23_refines_spec.

(* ---- unhealthy exactly when its last Fails checks failed after it was healthy ... *)
Theorem C23_becomes_unhealthy_iff : forall c os o,
  valid c = true -> status c (rev os) = true ->
  (status c (rev (os ++ [o])) = false <->
   exists pre, os ++ [o] = pre ++ repeat false (Z.to_nat (fails c))).
Proof. exact Proof.C23_a.becomes_unhealthy_chrono. Qed.
Print Assumptions C23_becomes_unhealthy_iff.

(* ... and healthy again exactly after Passes consecutive successful checks *)
Theorem C23_becomes_healthy_iff : forall c os o,
  valid c = true -> status c (rev os) = false ->
  (status c (rev (os ++ [o])) = true <->
   exists pre, os ++ [o] = pre ++ repeat true (Z.to_nat (passes c))).
Proof. exact Proof.C23_a.becomes_healthy_chrono. Qed.
Print Assumptions C23_becomes_healthy_iff.

(* the same without reference to the previous status: unhealthy iff some Fails consecutive
   failures are not followed by Passes consecutive passes *)
Theorem C23_unhealthy_iff : forall c os,
  valid c = true ->
  (status c (rev os) = false <->
   exists pre post, os = pre ++ repeat false (Z.to_nat (fails c)) ++ post /\
                    ~ (exists u v, post = u ++ repeat true (Z.to_nat (passes c)) ++ v)).
Proof. exact Proof.C23_a.unhealthy_iff. Qed.
Print Assumptions C23_unhealthy_iff.

(* healthy iff Fails consecutive failures never happened, or Passes consecutive passes happened
   with no Fails consecutive failures after them *)
Theorem C23_healthy_iff : forall c os,
  valid c = true ->
  (status c (rev os) = true <->
   ~ (exists u v, os = u ++ repeat false (Z.to_nat (fails c)) ++ v) \/
   exists pre post, os = pre ++ repeat true (Z.to_nat (passes c)) ++ post /\
                    ~ (exists u v, post = u ++ repeat false (Z.to_nat (fails c)) ++ v)).
Proof. exact Proof.C23_a.healthy_iff. Qed.
Print Assumptions C23_healthy_iff.

(* ---- hosts appearing for the first time, and hosts that left and later rejoined, start healthy.
   `tenure x pre = None` says exactly that x is not in the latest list: *)
Theorem C23_tenure_none_iff : forall x h,
  tenure x h = None <-> h = [] \/ mem x (addrs_of (last h [])) = false.
Proof. exact Proof.C23.tenure_none_iff. Qed.
Print Assumptions C23_tenure_none_iff.

(* its history starts afresh, whatever happened before *)
Theorem C23_rejoin_fresh : forall x pre r,
  tenure x pre = None -> mem x (addrs_of r) = true ->
  tenure x (pre ++ [r]) = Some (if single r then [] else rev (outcomes_of x r)).
Proof. exact Proof.C23.rejoin_fresh. Qed.
Print Assumptions C23_rejoin_fresh.

(* and the call in which it (re)joins returns it, unless Fails = 1 and that very check failed *)
Theorem C23_new_and_rejoined_start_healthy : forall c pre r x o,
  valid c = true -> tenure x pre = None -> single r = false ->
  NoDup (addrs_of r) -> In (x, o) r ->
  mem x (snd (frun c (fst (run c init pre)) r)) = (1 <? fails c) || o.
Proof. exact Proof.C23.new_and_rejoined_start_healthy. Qed.
Print Assumptions C23_new_and_rejoined_start_healthy.

(* ---- a list with a single host always reports it healthy (in any state, reachable or not) *)
Theorem C23_single_host_healthy : forall c s a o, snd (frun c s [(a, o)]) = [a].
Proof. exact Proof.C23.single_host_healthy. Qed.
Print Assumptions C23_single_host_healthy.

(* ---- the result is a subset of the list (used by C21) *)
Theorem C23_subset : forall c pre r x,
  valid c = true -> mem x (snd (frun c (fst (run c init pre)) r)) = true -> mem x (addrs_of r) = true.
Proof. exact Proof.C23.subset. Qed.
Print Assumptions C23_subset.

(* ---- the membership set kept by the state is the latest list *)
Theorem C23_all_is_latest_list : forall c h x,
  valid c = true ->
  mem x (all (fst (run c init h))) = match tenure x h with Some _ => true | None => false end.
Proof. exact Proof.C23.all_is_latest_list. Qed.
Print Assumptions C23_all_is_latest_list.

(* ---- the whole state, host by host, after any history: membership, health flag and the
   trend counter (= current streak, signed, clamped) *)
Theorem C23_state_is_spec : forall c h x,
  valid c = true ->
  let s := fst (run c init h) in
  match tenure x h with
  | None => mem x (all s) = false /\ mem x (healthy s) = false /\ get x (trend s) = 0
  | Some ros => mem x (all s) = true /\ mem x (healthy s) = status c ros /\ get x (trend s) = enc c ros
  end.
Proof. exact Proof.C23.state_is_spec. Qed.
Print Assumptions C23_state_is_spec.

Theorem C23_trend_bounded : forall c h x,
  valid c = true -> - fails c <= get x (trend (fst (run c init h))) <= passes c.
Proof. exact Proof.C23.trend_bounded. Qed.
Print Assumptions C23_trend_bounded.

(* ---- Monitor.Resolve: the list before the first iteration, then what the latest Run returned *)
Theorem C23_monitor_latest : forall c i h, monitor c i h = i :: outs c h.
Proof. exact Proof.C23.monitor_latest. Qed.
Print Assumptions C23_monitor_latest.

(* ---- the order in which the concurrent checks of one Run update the state is irrelevant:
   any other serialisation r' of the lock regions gives the same results now and later *)
Theorem C23_schedule_independent : forall c h1 r r' h2,
  NoDup (addrs_of r) -> Permutation r r' ->
  Forall2 (fun o o' => forall x, mem x o = mem x o') (outs c (h1 ++ r :: h2)) (outs c (h1 ++ r' :: h2)).
Proof. exact Proof.C23.schedule_independent. Qed.
Print Assumptions C23_schedule_independent.

(* ---- every non-negative configuration is a valid one after applyDefaults (uses the defaults
   extracted from config.go) *)
Theorem C23_defaults_valid : forall f p, 0 <= f -> 0 <= p -> valid (apply_defaults f p) = true.
Proof. exact Proof.C23.defaults_valid. Qed.
Print Assumptions C23_defaults_valid.

(* ---- executable form used on observed traces *)
Theorem C23_check_sound : forall f p h, C23_check f p h (outs (apply_defaults f p) h) = true.
Proof. exact Proof.C23.check_sound. Qed.
Print Assumptions C23_check_sound.

Theorem C23_check_mon_sound : forall f p i h,
  C23_check_mon f p i h (monitor (apply_defaults f p) i h) = true.
Proof. exact Proof.C23.check_mon_sound. Qed.
Print Assumptions C23_check_mon_sound.

(* ---- the code at the pinned commit (sync never prunes `all`) violates the rejoin clause:
   host 1, healthy throughout, leaves and rejoins with a passing check and is not returned *)
Theorem C23_rejoin_refuted :
  exists c h x, valid c = true /\ tenure x h = Some [true] /\
                mem x (last (spec_outs c h) []) = true /\ mem x (last (outs c h) []) = true /\
                mem x (last (outs_prefix c h) []) = false.
Proof. exact Proof.C23.rejoin_refuted. Qed.
Print Assumptions C23_rejoin_refuted.

(* pruning `all` alone does not suffice: the single-host path of Run must record membership too *)
Theorem C23_single_skip_refuted :
  exists c h x, valid c = true /\ tenure x h = Some [true] /\
                mem x (last (spec_outs c h) []) = true /\ mem x (last (outs c h) []) = true /\
                mem x (last (outs_halffix c h) []) = false.
Proof. exact Proof.C23.single_skip_refuted. Qed.
Print Assumptions C23_single_skip_refuted.

(* ---- non-vacuity *)
(* Fails=3, Passes=2: three failures make host 0 unhealthy, one pass is not enough, two are *)
Example C23_nonvacuous_hysteresis :
  let c := mkcfg 3 2 in
  valid c = true /\
  outs c [[(0, false); (1, true)]; [(0, false); (1, true)]; [(0, false); (1, true)];
          [(0, true); (1, true)]; [(0, true); (1, true)]]%N
  = [[1; 0]; [1; 0]; [1]; [1]; [0; 1]]%N.
Proof. vm_compute. split; reflexivity. Qed.

(* both directions of the status characterisation are inhabited *)
Example C23_nonvacuous_status :
  status (mkcfg 3 2) (rev [true; false; false; false; true]) = false /\
  status (mkcfg 3 2) (rev [false; false; false; true; true; false; false]) = true /\
  status (mkcfg 3 2) (rev [false; false; true; false; false]) = true.
Proof. vm_compute. repeat split; reflexivity. Qed.

(* a host that became unhealthy, left, and rejoined: absent (tenure None), then fresh and returned *)
Example C23_nonvacuous_rejoin :
  let c := mkcfg 2 2 in
  let pre := [[(0, true); (1, false)]; [(0, true); (1, false)]; [(0, true); (2, true)]]%N in
  let r := [(0, true); (1, false); (2, true)]%N in
  last (outs c pre) [] = [2; 0]%N /\ nth 1 (outs c pre) [] = [0]%N /\
  tenure 1%N pre = None /\ single r = false /\
  mem 1%N (snd (frun c (fst (run c init pre)) r)) = true.
Proof. vm_compute. repeat split; reflexivity. Qed.

(* defaults as extracted from config.go *)
Example C23_nonvacuous_defaults : apply_defaults 0 0 = mkcfg 3 2 /\ apply_defaults 1 0 = mkcfg 1 2.
Proof. vm_compute. split; reflexivity. Qed.

(* two serialisations of the same Run *)
Example C23_nonvacuous_schedule :
  Permutation [(0, false); (1, true); (2, false)]%N [(2, false); (0, false); (1, true)]%N /\
  NoDup (addrs_of [(0, false); (1, true); (2, false)]%N).
Proof. exact Proof.C23.nonvacuous_schedule. Qed.
