(* C21 statements (in progress) *)
From Coq Require Import List NArith ZArith Bool.
From K.Model Require Import C21.
From K.Proof Require C21.
Theorem C21_placeholder : apply_defaults 0 = 3%Z.
Proof. exact Proof.C21.placeholder. Qed.
