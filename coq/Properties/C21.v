(* C21 — hash ring replica sets are non-empty, healthy, bounded and host-independent.
   Statements only; every proof is `exact <lemma from Proof/C21.v>`.

   A ring is observed after New and any number of Refresh calls.  Each call receives what the
   environment answered: the members (hostlist.List.Resolve, in the order the Go map happened
   to iterate) and the healthy set (healthcheck.Filter.Run).  history_wf says that these answers
   respect the contracts the ring relies on (non-empty member set, sets without duplicates,
   healthy included in members).  The theorems hold for every such history, every MaxReplica
   (0 means the default), every key and every score function; "top owners" are the members by
   descending score, and the order/host-independence clauses need the stated tie_free
   hypothesis (distinct members score differently on the key). *)
From Coq Require Import List NArith ZArith Bool Permutation.
From K.Model Require Import C21.
From K.Proof Require C21.
Import ListNotations.

(* the replica set exists (no panic, no fatal) and is non-empty *)
Theorem C21_nonempty : forall (key T : Type) (ltb : T -> T -> bool) (score : node -> key -> T) maxr first steps k,
  history_wf first steps = true ->
  exists l, locations ltb score (run_ring maxr first steps) k = Locs l /\ l <> [].
Proof. exact Proof.C21.cl_nonempty. Qed.
Print Assumptions C21_nonempty.

(* drawn from current members (those of the LAST Resolve) *)
Theorem C21_subset_members : forall (key T : Type) (ltb : T -> T -> bool) (score : node -> key -> T) maxr first steps k,
  history_wf first steps = true ->
  forall l, locations ltb score (run_ring maxr first steps) k = Locs l ->
  forall a, In a l -> In a (fst (last_step first steps)).
Proof. exact Proof.C21.cl_subset_members. Qed.
Print Assumptions C21_subset_members.

(* if some member is healthy, only healthy members are returned *)
Theorem C21_all_healthy : forall (key T : Type) (ltb : T -> T -> bool) (score : node -> key -> T) maxr first steps k,
  history_wf first steps = true ->
  forall l, locations ltb score (run_ring maxr first steps) k = Locs l ->
  snd (last_step first steps) <> [] ->
  forall a, In a l -> In a (snd (last_step first steps)).
Proof. exact Proof.C21.cl_all_healthy. Qed.
Print Assumptions C21_all_healthy.

(* at most MaxReplica addresses (one, if MaxReplica < 1) *)
Theorem C21_bounded : forall (key T : Type) (ltb : T -> T -> bool) (score : node -> key -> T) maxr first steps k,
  history_wf first steps = true ->
  forall l, locations ltb score (run_ring maxr first steps) k = Locs l ->
  (length l <= Nat.max 1 (Z.to_nat (apply_defaults maxr)))%nat.
Proof. exact Proof.C21.cl_bounded. Qed.
Print Assumptions C21_bounded.

(* the exact set, in rank order: spec_locations (Model/C21.v) IS the statement, written as a
   function of the members ranked by descending score *)
Theorem C21_characterisation : forall (key T : Type) (ltb : T -> T -> bool) (score : node -> key -> T) maxr first steps k,
  history_wf first steps = true ->
  exists ns, Permutation ns (member_nodes (fst (last_step first steps))) /\
    locations ltb score (run_ring maxr first steps) k =
    Locs (spec_locations (apply_defaults maxr) (snd (last_step first steps)) (ordered ltb score ns k)).
Proof. exact Proof.C21.cl_characterisation. Qed.
Print Assumptions C21_characterisation.

(* reading the three cases off spec_locations *)
(* (1) no member healthy: the top owner *)
Theorem C21_spec_none_healthy : forall maxr healthy ranked,
  existsb (fun x => memb (label x) healthy) ranked = false ->
  spec_locations maxr healthy ranked = match ranked with x :: _ => [label x] | [] => [] end.
Proof. exact Proof.C21.spec_none_healthy. Qed.
Print Assumptions C21_spec_none_healthy.
(* (2) the healthy members among the top MaxReplica owners, when there is one *)
Theorem C21_spec_top_healthy : forall maxr healthy ranked,
  filter (fun x => memb (label x) healthy) (firstn (Z.to_nat maxr) ranked) <> [] ->
  spec_locations maxr healthy ranked =
  map label (filter (fun x => memb (label x) healthy) (firstn (Z.to_nat maxr) ranked)).
Proof. exact Proof.C21.spec_top_healthy. Qed.
Print Assumptions C21_spec_top_healthy.
(* (3) otherwise the single highest-ranked healthy member: everything ranked above it is unhealthy *)
Theorem C21_spec_next_healthy : forall maxr healthy ranked,
  existsb (fun x => memb (label x) healthy) ranked = true ->
  filter (fun x => memb (label x) healthy) (firstn (Z.to_nat maxr) ranked) = [] ->
  exists l1 x l2, ranked = l1 ++ x :: l2 /\ spec_locations maxr healthy ranked = [label x] /\
                  memb (label x) healthy = true /\ forall y, In y l1 -> memb (label y) healthy = false.
Proof. exact Proof.C21.spec_next_healthy. Qed.
Print Assumptions C21_spec_next_healthy.

(* the rank order, hence the answer, is a function of the membership SET: whatever history and
   discovery order, the result is the statement evaluated on ANY arrangement ms of the members *)
Theorem C21_characterisation_by_set : forall (key T : Type) (ltb : T -> T -> bool) (score : node -> key -> T),
  strict_total ltb -> forall maxr first steps k ms,
  history_wf first steps = true ->
  Permutation ms (member_nodes (fst (last_step first steps))) ->
  tie_free score k ms ->
  locations ltb score (run_ring maxr first steps) k =
  Locs (spec_locations (apply_defaults maxr) (snd (last_step first steps)) (ordered ltb score ms k)).
Proof. exact Proof.C21.history_locations_set. Qed.
Print Assumptions C21_characterisation_by_set.

(* "Processes with the same membership compute the same ordered replica set whatever order they
   discovered the hosts in": any two histories ending in the same member set and healthy set *)
Theorem C21_order_independent : forall (key T : Type) (ltb : T -> T -> bool) (score : node -> key -> T),
  strict_total ltb -> forall maxr f1 s1 f2 s2 k,
  history_wf f1 s1 = true -> history_wf f2 s2 = true ->
  Permutation (fst (last_step f1 s1)) (fst (last_step f2 s2)) ->
  (forall a, In a (snd (last_step f1 s1)) <-> In a (snd (last_step f2 s2))) ->
  tie_free score k (member_nodes (fst (last_step f1 s1))) ->
  locations ltb score (run_ring maxr f1 s1) k = locations ltb score (run_ring maxr f2 s2) k.
Proof. exact Proof.C21.order_independent. Qed.
Print Assumptions C21_order_independent.

(* the digest enters only through its shard id (first four hex digits, core/digest.go:154) *)
Theorem C21_shard_only : forall (T : Type) (ltb : T -> T -> bool) (score : node -> list N -> T) r h1 h2,
  firstn 4 h1 = firstn 4 h2 -> locations_digest ltb score r h1 = locations_digest ltb score r h2.
Proof. exact (@Proof.C21.shard_only). Qed.
Print Assumptions C21_shard_only.

(* executable form: the oracle evaluated on the model's own output *)
Theorem C21_check_sound : forall maxr first steps r,
  C21_check maxr first steps r (locations_run maxr first steps r) = true.
Proof. exact Proof.C21.check_sound. Qed.
Print Assumptions C21_check_sound.

(* ---- outside the contracts, and the tie hypothesis ---- *)

(* an empty member set (excluded by hostlist.New, list.go:47) makes Locations panic: nil hash ... *)
Theorem C21_empty_membership_refuted : forall (key T : Type) (ltb : T -> T -> bool) (score : node -> key -> T) maxr healthy k,
  locations ltb score (new_ring maxr [] healthy) k = Panic.
Proof. exact Proof.C21.empty_membership_panics. Qed.
Print Assumptions C21_empty_membership_refuted.
(* ... or nodes[0] of an empty hash (harness seed "seed-empty-membership" observes both) *)
Theorem C21_emptied_membership_refuted : forall (key T : Type) (ltb : T -> T -> bool) (score : node -> key -> T) maxr k,
  locations ltb score (run_ring maxr ([0; 1]%N, [0]%N) [([], [])]) k = Panic.
Proof. exact Proof.C21.emptied_membership_panics. Qed.
Print Assumptions C21_emptied_membership_refuted.

(* a Filter that answers with a non-member (no in-repo Filter does; C23_subset) yields an EMPTY
   replica set (harness seed "seed-foreign-healthy" observes it) *)
Theorem C21_foreign_healthy_refuted : forall (key T : Type) (ltb : T -> T -> bool) (score : node -> key -> T) k,
  locations ltb score (new_ring 0 [0; 1]%N [2]%N) k = Locs [].
Proof. exact Proof.C21.foreign_healthy_empty. Qed.
Print Assumptions C21_foreign_healthy_refuted.

(* with tied scores two discovery orders disagree: tie_free cannot be dropped.  Not reproducible
   on the real ring short of a 64-bit murmur3 collision; the driver counts ties on everything
   it explores (0 so far). *)
Theorem C21_order_independent_ties_refuted :
  exists r, locations N.ltb tscore (new_ring 1 [0; 1]%N [0; 1]%N) r <> locations N.ltb tscore (new_ring 1 [1; 0]%N [0; 1]%N) r.
Proof. exact Proof.C21.order_independent_ties_refuted. Qed.
Print Assumptions C21_order_independent_ties_refuted.

(* ---- non-vacuity ---- *)
(* four hosts scoring 5,9,7,3 on a key (rank order 1,2,0,3), healthy = {0,3}, after a history
   with a join, an unchanged membership and a health change: the history is well formed, the
   scores are distinct, and the three cases of the statement all occur as MaxReplica varies *)
Example C21_nonvacuous :
  let first := ([0; 1]%N, [0; 1]%N) in
  let steps := [([2; 0; 3; 1]%N, [2; 0; 3; 1]%N); ([0; 1; 2; 3]%N, [1; 2]%N); ([3; 2; 1; 0]%N, [3; 0]%N)] in
  let r := [5; 9; 7; 3]%N in
  history_wf first steps = true /\
  tie_freeb N.ltb tscore r (member_nodes [0; 1; 2; 3]%N) = true /\
  r_hash (run_ring 2 first steps) = Some (member_nodes [2; 0; 3; 1]%N) /\   (* kept since the join *)
  locations_run 2 first steps r = Locs [0]%N /\          (* top two (1,2) unhealthy: next healthy *)
  locations_run 0 first steps r = Locs [0]%N /\          (* default 3: healthy among 1,2,0 *)
  locations_run 4 first steps r = Locs [0; 3]%N /\       (* healthy among all four, in rank order *)
  locations_run (-1) first steps r = Locs [0]%N /\
  locations_run 2 first (steps ++ [([0; 1; 2; 3]%N, [])]) r = Locs [1]%N /\   (* nobody healthy: top owner *)
  C21_check 2 first steps r (Locs [0]%N) = true /\ C21_check 2 first steps r (Locs [3]%N) = false /\
  C21_check 2 first steps r (Locs []) = false /\ C21_check 2 first steps r Panic = false.
Proof. vm_compute. repeat split; reflexivity. Qed.
