(* C32 — placeholder while the proofs are being written *)
From Coq Require Import List NArith.
From K.Model Require Import C32.
