(* C32 — build-index tag puts are dependency-checked, stable and written back.
   Statements only; every proof is `exact <lemma from Proof/C32.v>`.
   The model (Model/C32.v) is the tag server's handlers over the tag store, the write-back
   executor and the task table of the retry manager (K.Model.Retry); a history is any list of
   PUTs, duplicate puts, GETs, HEADs, replicates, executions of stored write-back tasks and
   writes of the backend by others, each carrying the answers the environment gave. *)
From Coq Require Import List NArith Bool.
From K.Model Require Retry.
From K.Model Require Import C32.
From K.Proof Require C32.
Import ListNotations.
Local Open Scope N_scope.

(* ---- clause 1: a tag PUT succeeds only if every blob it depends on is present in the origin
   cluster (and the dependencies could be resolved at all) — in every history, at every position *)
Theorem C32_put_requires_deps : forall c ops i p o,
  nth_error ops i = Some (Put p) -> nth_error (snd (run c init ops)) i = Some o -> o_res o = ROk ->
  p_res p = true /\ forall a, In a (p_deps p) -> a = AFound.
Proof. exact Proof.C32.put_requires_deps. Qed.
Print Assumptions C32_put_requires_deps.

(* ... and a PUT that fails the check leaves no trace at all *)
Theorem C32_failed_check_no_effect : forall c s p,
  passed p = false -> step c s (Put p) = (s, mkout RFail None [] [] (snap_of s (p_tag p))).
Proof. exact Proof.C32.failed_check_no_effect. Qed.
Print Assumptions C32_failed_check_no_effect.

(* ---- clause 2: after a PUT answered 200 there is one digest d, put for this tag by an operation
   of the history so far, such that in EVERY continuation the node holds d for the tag and every
   GET answers d — whatever is put later and whatever the backend does *)
Theorem C32_stable : forall c ops1 p,
  let s1 := fst (run c init ops1) in
  o_res (snd (step c s1 (Put p))) = ROk ->
  exists d, put_forb (p_tag p) d (ops1 ++ [Put p]) = true /\
    forall ops2,
      aget (p_tag p) (disk (fst (run c (fst (step c s1 (Put p))) ops2))) = Some d /\
      forall i f, nth_error ops2 i = Some (Get (p_tag p) f) ->
        exists o, nth_error (snd (run c (fst (step c s1 (Put p))) ops2)) i = Some o /\
                  o_res o = ROk /\ o_dig o = Some d.
Proof. exact Proof.C32.stable. Qed.
Print Assumptions C32_stable.

(* tags do not change once stored on a node: no operation replaces a digest on disk; a re-put
   of another digest therefore leaves the first one (and still answers 200, see C32_reput_keeps_first) *)
Theorem C32_tags_do_not_change : forall c s o t d,
  aget t (disk s) = Some d -> aget t (disk (fst (step c s o))) = Some d.
Proof. exact Proof.C32.tags_do_not_change. Qed.
Print Assumptions C32_tags_do_not_change.

(* stability does not depend on who stored the tag (PUT, duplicate put, a put that failed after its
   disk write): once a digest is on the node every continuation keeps it and every GET answers it *)
Theorem C32_stable_once_stored : forall c s t d,
  aget t (disk s) = Some d ->
  forall ops2,
    aget t (disk (fst (run c s ops2))) = Some d /\
    forall i f, nth_error ops2 i = Some (Get t f) ->
      exists o, nth_error (snd (run c s ops2)) i = Some o /\ o_res o = ROk /\ o_dig o = Some d.
Proof. exact Proof.C32.stable_once_stored. Qed.
Print Assumptions C32_stable_once_stored.

(* replication: a task created for a stored tag carries the digest the node resolves it to; a PUT
   tells its neighbour / replicates only after it passed the check and stored the tag *)
Theorem C32_replicate_uses_resolved : forall c s t f r ok d,
  aget t (disk s) = Some d -> forall x, In x (o_rep (snd (step c s (Repl t f r ok)))) -> x = d.
Proof. exact Proof.C32.replicate_uses_resolved. Qed.
Print Assumptions C32_replicate_uses_resolved.

Theorem C32_put_replicates_after_store : forall c s p x,
  In x (o_rep (snd (step c s (Put p))) ++ o_nb (snd (step c s (Put p)))) ->
  x = p_dig p /\ passed p = true /\ aget (p_tag p) (disk (fst (step c s (Put p)))) <> None.
Proof. exact Proof.C32.put_replicates_after_store. Qed.
Print Assumptions C32_put_replicates_after_store.

(* ---- clause 3, write-through mode: when the PUT answers 200 the backend already holds the digest
   the node resolves the tag to, and keeps it.  Hypotheses: a backend is configured for the tag,
   and nobody else wrote the tag's backend object (both are needed: the _refuted theorems below) *)
Theorem C32_backend_write_through : forall c ops1 p,
  c_mode c = WriteThrough -> c_ns c = true -> bkset_free (p_tag p) ops1 = true ->
  let s1 := fst (run c init ops1) in
  let s2 := fst (step c s1 (Put p)) in
  o_res (snd (step c s1 (Put p))) = ROk ->
  exists d, aget (p_tag p) (disk s2) = Some d /\ aget (p_tag p) (bk s2) = Some (CDig d) /\
    forall ops2, bkset_free (p_tag p) ops2 = true ->
      aget (p_tag p) (bk (fst (run c s2 ops2))) = Some (CDig d).
Proof. exact Proof.C32.backend_write_through. Qed.
Print Assumptions C32_backend_write_through.

(* ---- clause 3, asynchronous mode.  After the PUT answered 200, in every continuation: the tag's
   write-back task stays stored until the backend holds the digest the node resolves the tag to;
   every execution of the task that succeeds leaves that digest in the backend; an execution is
   always possible and succeeds when the backend answers; once there the digest stays.
   PARTIAL — missing: that the retry manager does execute a stored task again and again until it
   succeeds, across failures and restarts (that is property C30 about K.Model.Retry, whose task
   table this model uses: Proof/Retry.v no_lost_task, progress_possible), and that the backend
   eventually answers (an assumption about the environment). *)
Theorem C32_backend_eventually_same_async_partial : forall c ops1 p,
  c_mode c = Async -> c_ns c = true -> bkset_free (p_tag p) ops1 = true ->
  let t := p_tag p in
  let s1 := fst (run c init ops1) in
  let s2 := fst (step c s1 (Put p)) in
  o_res (snd (step c s1 (Put p))) = ROk ->
  exists d, aget t (disk s2) = Some d /\
    forall ops2, bkset_free t ops2 = true ->
      let s3 := fst (run c s2 ops2) in
      (Retry.storedb t (tasks s3) = true \/ aget t (bk s3) = Some (CDig d)) /\
      (forall a, o_res (snd (step c s3 (Exec t a))) = ROk ->
                 aget t (bk (fst (step c s3 (Exec t a)))) = Some (CDig d)) /\
      (Retry.storedb t (tasks s3) = true -> o_res (snd (step c s3 (Exec t (mkea false UOk)))) = ROk) /\
      (aget t (bk s3) = Some (CDig d) ->
       forall ops3, bkset_free t ops3 = true -> aget t (bk (fst (run c s3 ops3))) = Some (CDig d)).
Proof. exact Proof.C32.backend_async_partial. Qed.
Print Assumptions C32_backend_eventually_same_async_partial.

(* interface to the retry manager's model (K.Model.Retry, property C30): the write-back task table
   moves only by that model's store operations, and a task leaves the table only when the executor's
   verdict for it was success (Retry: OpExecRet t true; OpExecFin t) *)
Theorem C32_task_table_moves : forall c s o,
  let ts := tasks s in
  let ts' := tasks (fst (step c s o)) in
  ts' = ts \/
  (exists st d, Retry.add_row (op_tag o) st d 0 ts = Some ts') \/
  (exists t a, o = Exec t a /\ Retry.storedb t ts = true /\
     ts' = (if snd (exec_once c s t a) then Retry.remove_row t ts else Retry.mark_failed t 0 ts)).
Proof. exact Proof.C32.task_table_moves. Qed.
Print Assumptions C32_task_table_moves.

(* ---- the property in executable form (what is evaluated on the implementation's traces) holds of
   every history of the model *)
Theorem C32_check_sound : forall c ops, C32_check c ops (snd (run c init ops)) = true.
Proof. exact Proof.C32.check_sound. Qed.
Print Assumptions C32_check_sound.

(* ---- what does not hold without the hypotheses of clause 3 *)

(* the backend already holds another digest for the tag (put through another node): the PUT
   answers 200, the node resolves the tag to 1 for ever, the backend keeps 2 *)
Theorem C32_preexisting_backend_refuted :
  exists c ops, c_ns c = true /\
    let '(s, outs) := run c init ops in
    map o_res outs = [ROk; ROk; ROk; ROk] /\ aget 0 (disk s) = Some 1 /\ aget 0 (bk s) = Some (CDig 2).
Proof. exact Proof.C32.preexisting_backend_refuted. Qed.
Print Assumptions C32_preexisting_backend_refuted.

Theorem C32_preexisting_backend_async_refuted :
  exists c ops, c_ns c = true /\
    let '(s, outs) := run c init ops in
    map o_res outs = [ROk; ROk; ROk; ROk] /\ aget 0 (disk s) = Some 1 /\ aget 0 (bk s) = Some (CDig 2) /\
    Retry.storedb 0 (tasks s) = false.
Proof. exact Proof.C32.preexisting_backend_async_refuted. Qed.
Print Assumptions C32_preexisting_backend_async_refuted.

(* no backend is configured for the tag's namespace: the executor drops the task, the PUT answers 200 *)
Theorem C32_no_backend_refuted :
  exists c ops, c_ns c = false /\
    let '(s, outs) := run c init ops in map o_res outs = [ROk] /\ aget 0 (bk s) = None.
Proof. exact Proof.C32.no_backend_refuted. Qed.
Print Assumptions C32_no_backend_refuted.

(* ---- how a re-put and a failed put behave (remarks; they do not contradict the statement) *)

(* re-put of another digest: 200, the neighbour is told the NEW digest, the node keeps the old one *)
Theorem C32_reput_keeps_first :
  exists c ops,
    let outs := snd (run c init ops) in
    map o_res outs = [ROk; ROk; ROk] /\ map o_nb outs = [[1]; [2]; []] /\ map o_dig outs = [None; None; Some 1].
Proof. exact Proof.C32.reput_keeps_first. Qed.
Print Assumptions C32_reput_keeps_first.

(* "a digest that was put for it" cannot be strengthened to "a digest whose PUT succeeded": a PUT
   that failed after its disk write (backend down, write-through) decides what a later successful
   PUT of another digest resolves to *)
Theorem C32_resolved_digest_of_failed_put :
  exists c ops,
    let outs := snd (run c init ops) in
    map o_res outs = [RFail; ROk; ROk] /\ map o_dig outs = [None; None; Some 1].
Proof. exact Proof.C32.resolved_digest_of_failed_put. Qed.
Print Assumptions C32_resolved_digest_of_failed_put.

(* before any put on this node GET answers what the backend holds and does not pin it: a later put
   of another digest changes the answer (stability starts with the first store on the node) *)
Theorem C32_backend_answer_not_pinned :
  exists c ops, map o_dig (snd (run c init ops)) = [None; Some 2; None; Some 1].
Proof. exact Proof.C32.backend_answer_not_pinned. Qed.
Print Assumptions C32_backend_answer_not_pinned.

(* ---- non-vacuity *)

(* clause 1/2/3 (write-through): a history with failing and succeeding puts of two tags, backend
   faults and a re-put, after which both clause-3 hypotheses hold for tag 0 and the PUT answers 200 *)
Example C32_nonvacuous_write_through :
  let c := mkcfg WriteThrough 3 true in
  let ops1 := [P 1 2 true [AFound; AMissing] F0 [mkea false UOk] true false true;
               P 1 2 true [AFound; AFound] F0 [mkea true UErr; mkea false UErrStored; mkea false UOk] true false true;
               Get 1 true; BkSet 1 (CDig 3); DupPut 1 3 false F0 [mkea false UOk]] in
  let p := mkput 0 1 true [AFound] F0 [mkea false UErr; mkea false UOk] false true true in
  bkset_free 0 ops1 = true /\
  map o_res (snd (run c init ops1)) = [RFail; ROk; ROk; ROk; ROk] /\
  o_res (snd (step c (fst (run c init ops1)) (Put p))) = ROk /\
  snap_of (fst (step c (fst (run c init ops1)) (Put p))) 0 = mksnap (Some 1) (Some (CDig 1)) None.
Proof. vm_compute. repeat split; reflexivity. Qed.

(* clause 3 (asynchronous): the task is stored after the put, survives two failed executions and is
   removed by the third, which leaves the digest in the backend *)
Example C32_nonvacuous_async :
  let c := mkcfg Async 3 true in
  let ops := [P 0 1 true [AFound] F0 [] true false true; Exec 0 (mkea false UErr); P 0 2 true [] F0 [] true false true;
              Exec 0 (mkea true UErr); Exec 0 (mkea false UOk); Get 0 true] in
  bkset_free 0 ops = true /\
  map o_res (snd (run c init ops)) = [ROk; RFail; ROk; RFail; ROk; ROk] /\
  map (fun o => sn_task (o_snap o)) (snd (run c init ops)) = [Some 0; Some 1; Some 1; Some 2; None; None] /\
  snap_of (fst (run c init ops)) 0 = mksnap (Some 1) (Some (CDig 1)) None.
Proof. vm_compute. repeat split; reflexivity. Qed.

(* the oracle is not trivially true: it rejects a trace in which a successful PUT had a missing
   dependency, one in which the resolved digest changes, and one in which the backend lacks the
   digest after a write-through PUT *)
Example C32_check_rejects :
  let c := mkcfg WriteThrough 3 true in
  C32_check c [P 0 1 true [AMissing] F0 [] true false true]
              [O ROk None [1] [] (Some 1) (Some (CDig 1)) None] = false /\
  C32_check c [P 0 1 true [AFound] F0 [] true false true; Get 0 false; P 0 2 true [] F0 [] true false true; Get 0 false]
              [O ROk None [1] [] (Some 1) (Some (CDig 1)) None; O ROk (Some 1) [] [] (Some 1) (Some (CDig 1)) None;
               O ROk None [2] [] (Some 2) (Some (CDig 1)) None; O ROk (Some 2) [] [] (Some 2) (Some (CDig 1)) None] = false /\
  C32_check c [P 0 1 true [AFound] F0 [] true false true]
              [O ROk None [1] [] (Some 1) None None] = false.
Proof. vm_compute. repeat split; reflexivity. Qed.
