(* C25 -- cluster clients contact a bounded sample of current hosts.
   "A cluster client request tries at most three distinct hosts (exactly one for single-attempt calls),
    all taken from the current host list, before giving up; sampling n hosts from a list yields
    min(n, list size) distinct members."
   Statements only; every proof is `exact <lemma from Proof/C25.v>`.

   Reading guide.  A Go map is the duplicate-free list of its keys in the order `range` visits them.
   hosts = the current host list (what Resolve() returned), sord = ANY order in which Sample's
   `range s` visits it, iord = ANY order in which the client's `range addrs` visits the sample,
   oc = ANY assignment of outcomes (success / network error / other error) to hosts.
   The model is the code WITH fixes/C25_sample_returns_sample.patch; `*_prefix` is the pinned code. *)
From Coq Require Import List NArith ZArith Permutation.
From K.Gen Require Import C25_consts.
From K.Model Require Import C25.
From K.Proof Require C25.
Import ListNotations.

(* the sample sizes are the ones written in the source (regenerated from /repo on every run) *)
Example C25_sample_sizes_in_source :
  tag_do_sample_size = 3%Z /\ blob_locations_sample_size = 3%Z /\ tag_doonce_sample_size = 1%Z.
Proof. vm_compute. repeat split; reflexivity. Qed.

(* ---- clause: sampling n hosts yields min(n, size) distinct members --------------------------- *)
Theorem C25_sample_card : forall s order n,
  NoDup s -> Permutation order s -> (0 <= n)%Z ->
  length (sample n order) = Nat.min (Z.to_nat n) (length s) /\
  NoDup (sample n order) /\ incl (sample n order) s.
Proof. exact Proof.C25.sample_card. Qed.
Print Assumptions C25_sample_card.

(* outside the clause's scope (n < 0 cannot be "n hosts"): stated so that the totalisation is visible *)
Theorem C25_sample_negative_whole : forall s order n,
  NoDup s -> Permutation order s -> (n < 0)%Z -> sample n order = order.
Proof. exact Proof.C25.sample_negative_whole. Qed.
Print Assumptions C25_sample_negative_whole.

(* ---- clause: at most three distinct hosts, all from the current list ---------------------------- *)
Theorem C25_do_bound : forall hosts sord iord oc,
  NoDup hosts -> Permutation sord hosts -> Permutation iord (sample tag_do_sample_size sord) ->
  let cs := contacted (tag_do sord iord oc) in NoDup cs /\ incl cs hosts /\ length cs <= 3.
Proof. exact Proof.C25.do_bound. Qed.
Print Assumptions C25_do_bound.

Theorem C25_locations_bound : forall hosts sord iord oc,
  NoDup hosts -> Permutation sord hosts -> Permutation iord (sample blob_locations_sample_size sord) ->
  let cs := contacted (blob_locations sord iord oc) in NoDup cs /\ incl cs hosts /\ length cs <= 3.
Proof. exact Proof.C25.locations_bound. Qed.
Print Assumptions C25_locations_bound.

(* ---- clause: exactly one for single-attempt calls ------------------------------------------------ *)
Theorem C25_doOnce_exactly_one : forall hosts sord iord oc,
  NoDup hosts -> Permutation sord hosts -> Permutation iord (sample tag_doonce_sample_size sord) ->
  (hosts <> [] -> exists a, tag_do_once sord iord oc = OReq [a] (negb (is_err (oc a))) /\ In a hosts) /\
  (hosts = [] -> tag_do_once sord iord oc = OReq [] false).
Proof. exact Proof.C25.do_once_exactly_one. Qed.
Print Assumptions C25_doOnce_exactly_one.

(* ---- clause: "... before giving up" ------------------------------------------------------------------
   do: an empty list fails without contacting anyone; otherwise somebody is tried; every host but the
   last one tried had a network error; the result is the last host's; and the client gives up on network
   errors only after min(3, |hosts|) hosts *)
Theorem C25_do_stops_on_non_network_error : forall hosts sord iord oc,
  NoDup hosts -> Permutation sord hosts -> Permutation iord (sample tag_do_sample_size sord) ->
  let o := tag_do sord iord oc in
  (hosts = [] -> o = OReq [] false) /\
  (hosts <> [] -> contacted o <> []) /\
  (forall p l, contacted o = p ++ [l] ->
     Forall (fun a => oc a = NetErr) p /\
     succeeded o = negb (is_err (oc l)) /\
     (oc l = NetErr -> length (contacted o) = Nat.min 3 (length hosts))).
Proof. exact Proof.C25.do_stops. Qed.
Print Assumptions C25_do_stops_on_non_network_error.

(* Locations: the same with "any error" in place of "network error" *)
Theorem C25_locations_stops_on_success : forall hosts sord iord oc,
  NoDup hosts -> Permutation sord hosts -> Permutation iord (sample blob_locations_sample_size sord) ->
  let o := blob_locations sord iord oc in
  (hosts = [] -> o = OReq [] false) /\
  (hosts <> [] -> contacted o <> []) /\
  (forall p l, contacted o = p ++ [l] ->
     Forall (fun a => oc a <> Ok) p /\
     succeeded o = negb (is_err (oc l)) /\
     (oc l <> Ok -> length (contacted o) = Nat.min 3 (length hosts))).
Proof. exact Proof.C25.locations_stops. Qed.
Print Assumptions C25_locations_stops_on_success.

(* ---- executable forms ------------------------------------------------------------------------------ *)

(* the boolean `legal` used by the evaluators is exactly "is an iteration order of the set" *)
Theorem C25_legal_iff_permutation : forall ord s, NoDup s -> (legal ord s = true <-> Permutation ord s).
Proof. exact Proof.C25.legal_perm. Qed.
Print Assumptions C25_legal_iff_permutation.

(* the property oracle holds on everything the model can output *)
Theorem C25_check_sound : forall i sord iord,
  oracles_ok i sord iord -> C25_check i (run i sord iord) = true.
Proof. exact Proof.C25.check_sound. Qed.
Print Assumptions C25_check_sound.

(* the correspondence check is independent of map order: whichever legal orders the implementation's
   maps took, re-running the model on the order reconstructed from the observation reproduces it *)
Theorem C25_recon_complete : forall i sord iord,
  oracles_ok i sord iord -> agrees i (run i sord iord) = true.
Proof. exact Proof.C25.recon_complete. Qed.
Print Assumptions C25_recon_complete.

(* and an observation the correspondence accepts satisfies the property *)
Theorem C25_agrees_implies_check : forall i o,
  NoDup (set_of i) -> agrees i o = true -> C25_check i o = true.
Proof. exact Proof.C25.agrees_implies_check. Qed.
Print Assumptions C25_agrees_implies_check.

(* ---- the pinned code: Sample returns the whole set ------------------------------------------------- *)
Theorem C25_sample_prefix_refuted : exists n order,
  (0 <= n)%Z /\ NoDup order /\ length (sample_prefix n order) <> Nat.min (Z.to_nat n) (length order).
Proof. exact Proof.C25.sample_prefix_refuted. Qed.
Print Assumptions C25_sample_prefix_refuted.

Theorem C25_do_prefix_refuted : exists hosts sord iord oc,
  NoDup hosts /\ Permutation sord hosts /\ Permutation iord (sample_prefix tag_do_sample_size sord) /\
  3 < length (contacted (tag_do_prefix sord iord (oc_of oc))).
Proof. exact Proof.C25.do_prefix_refuted. Qed.
Print Assumptions C25_do_prefix_refuted.

Theorem C25_locations_prefix_refuted : exists hosts sord iord oc,
  NoDup hosts /\ Permutation sord hosts /\ Permutation iord (sample_prefix blob_locations_sample_size sord) /\
  3 < length (contacted (blob_locations_prefix sord iord (oc_of oc))).
Proof. exact Proof.C25.locations_prefix_refuted. Qed.
Print Assumptions C25_locations_prefix_refuted.

(* the single-attempt clause holds on the pinned code too *)
Theorem C25_doOnce_prefix_exactly_one : forall hosts sord iord oc,
  NoDup hosts -> Permutation sord hosts -> Permutation iord (sample_prefix tag_doonce_sample_size sord) ->
  hosts <> [] -> exists a, tag_do_once_prefix sord iord oc = OReq [a] (negb (is_err (oc a))) /\ In a hosts.
Proof. exact Proof.C25.do_once_prefix_exactly_one. Qed.
Print Assumptions C25_doOnce_prefix_exactly_one.

(* ---- non-vacuity: concrete hosts, orders and faults meeting the hypotheses (legal = Permutation) ---- *)
Example C25_nonvacuous_do :
  let hosts := [1; 2; 3; 4; 5]%N in let sord := [4; 2; 5; 1; 3]%N in let iord := [2; 5; 4]%N in
  nodupb hosts = true /\ legal sord hosts = true /\ legal iord (sample tag_do_sample_size sord) = true /\
  tag_do sord iord (oc_of [(2, NetErr); (5, OtherErr); (4, Ok)]%N) = OReq [2; 5]%N false /\
  tag_do sord iord (oc_of [(2, NetErr); (5, NetErr); (4, NetErr)]%N) = OReq [2; 5; 4]%N false /\
  blob_locations sord iord (oc_of [(2, NetErr); (5, OtherErr); (4, Ok)]%N) = OReq [2; 5; 4]%N true.
Proof. vm_compute. repeat split; reflexivity. Qed.

Example C25_nonvacuous_once :
  let hosts := [1; 2; 3; 4; 5]%N in let sord := [4; 2; 5; 1; 3]%N in
  legal sord hosts = true /\ legal [4]%N (sample tag_doonce_sample_size sord) = true /\
  tag_do_once sord [4]%N (oc_of [(4, NetErr)]%N) = OReq [4]%N false.
Proof. vm_compute. repeat split; reflexivity. Qed.

Example C25_nonvacuous_sample :
  legal [7; 3; 9; 1]%N [1; 3; 7; 9]%N = true /\ sample 2 [7; 3; 9; 1]%N = [7; 3]%N /\
  sample 9 [7; 3; 9; 1]%N = [7; 3; 9; 1]%N /\ sample 0 [7; 3; 9; 1]%N = [].
Proof. vm_compute. repeat split; reflexivity. Qed.

(* the refutation witnesses are harness seed cases (seed-sample-witness, seed-do-witness,
   seed-loc-witness): on the pinned code the oracle and the correspondence both reject them *)
Example C25_witnesses_rejected :
  let i1 := ISample [0; 1; 2; 3]%N 3 in
  let i2 := IReq KDo [0; 1; 2; 3]%N all_net in
  let i3 := IReq KLoc [0; 1; 2; 3]%N all_500 in
  let ord := [0; 1; 2; 3]%N in
  C25_check i1 (run_prefix i1 ord []) = false /\ agrees i1 (run_prefix i1 ord []) = false /\
  C25_check i2 (run_prefix i2 ord ord) = false /\ agrees i2 (run_prefix i2 ord ord) = false /\
  C25_check i3 (run_prefix i3 ord ord) = false /\ agrees i3 (run_prefix i3 ord ord) = false.
Proof. vm_compute. repeat split; reflexivity. Qed.
