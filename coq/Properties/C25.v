From Coq Require Import List NArith ZArith.
From K.Model Require Import C25.
From K.Proof Require C25.
Theorem C25_placeholder : True.
Proof. exact Proof.C25.trivial_true. Qed.
