(* C24 — passive health filtering follows its failure-window rule.
   Statements only; every proof is `exact <lemma from Proof/C24.v>`. *)
From Coq Require Import List NArith ZArith Bool Sorting.Sorted.
From K.Gen Require Import C24_consts.
From K.Model Require Import C24.
From K.Proof Require C24.
Import ListNotations.
Local Open Scope Z_scope.

(* Clause 1. After ANY history of failures, clock advances, Run and Resolve calls (any number of
   hosts, any configuration incl. defaults, zero and negative values), Run drops host h exactly
   when some recorded failure of h, at time t, happened no more than FailTimeout ago and at least
   Fails of h's recorded failures fall within the FailTimeout leading up to t.
   `times h (t_log (tl_of ops))` are the times of all failures ever recorded for h in `ops`,
   `t_now (tl_of ops)` is the clock. *)
Theorem C24_filtered_iff : forall raw ops addrs h,
  monotone ops = true -> In h addrs ->
  let c := apply_defaults raw in
  let x := tl_of ops in
  let ts := times h (t_log x) in
  (~ In h (snd (run_filter c (fst (exec raw ops)) addrs))
   <-> exists t, In t ts /\ 0 <= t_now x - t <= c_timeout c /\
                 c_fails c <= lenZ (filter (fun t' => (t' <=? t) && (t - t' <=? c_timeout c)) ts)).
Proof. exact Proof.C24.filtered_iff_words. Qed.
Print Assumptions C24_filtered_iff.

(* Clause 1 for every Run and Resolve INSIDE a history: all outputs of the model are those of the
   declarative machine that keeps nothing but the failure log and evaluates the rule *)
Theorem C24_refines_rule : forall raw ops,
  monotone ops = true -> snd (exec raw ops) = sexec raw ops.
Proof. exact Proof.C24.refines_rule. Qed.
Print Assumptions C24_refines_rule.

(* the boolean rule used by that machine is the rule in words *)
Theorem C24_rule_reflects : forall c ts nw,
  filtered_spec c ts nw = true <->
  exists t, In t ts /\ 0 <= nw - t <= c_timeout c /\
            c_fails c <= lenZ (filter (fun t' => (t' <=? t) && (t - t' <=? c_timeout c)) ts).
Proof. exact Proof.C24.filtered_spec_iff. Qed.
Print Assumptions C24_rule_reflects.

(* Clause 1, positional wording: h is dropped exactly when, at the moment one of its failures
   (at most FailTimeout ago) was recorded, at least Fails of the failures recorded for h so far,
   itself included, were at most FailTimeout old. *)
Theorem C24_filtered_iff_positional : forall raw ops addrs h,
  monotone ops = true -> In h addrs ->
  let c := apply_defaults raw in
  let x := tl_of ops in
  (~ In h (snd (run_filter c (fst (exec raw ops)) addrs))
   <-> exists ts1 t ts2, times h (t_log x) = ts1 ++ t :: ts2 /\ 0 <= t_now x - t <= c_timeout c /\
         c_fails c <= lenZ (filter (fun t' => t - t' <=? c_timeout c) (ts1 ++ [t]))).
Proof. exact Proof.C24.filtered_iff_positional. Qed.
Print Assumptions C24_filtered_iff_positional.

(* the record the rule is evaluated on: `times h log` are exactly the failures logged for h, and
   under clock advances they are in time order and not in the future *)
Theorem C24_times_are_log : forall h t log, In t (times h log) <-> In (h, t) log.
Proof. exact Proof.C24.times_In. Qed.
Print Assumptions C24_times_are_log.

Theorem C24_times_ordered : forall ops h, monotone ops = true ->
  Sorted.StronglySorted Z.le (times h (t_log (tl_of ops))) /\
  Forall (fun t => t <= t_now (tl_of ops)) (times h (t_log (tl_of ops))).
Proof. exact Proof.C24.times_sorted. Qed.
Print Assumptions C24_times_ordered.

(* Reading of "within FailTimeout of some failure". The rule above uses the FailTimeout window
   ENDING at that failure (config.go: "the window of time during which Fails must occur"). The
   two-sided reading (FailTimeout before and after) is implied by it but is not what is
   implemented: see C24_note_two_sided_reading below. *)
Theorem C24_rule_implies_two_sided : forall c ts nw, 0 <= c_timeout c ->
  (exists t, In t ts /\ 0 <= nw - t <= c_timeout c /\
             c_fails c <= lenZ (filter (fun t' => (t' <=? t) && (t - t' <=? c_timeout c)) ts)) ->
  (exists t, In t ts /\ 0 <= nw - t <= c_timeout c /\
             c_fails c <= lenZ (filter (fun t' => (t - t' <=? c_timeout c) && (t' - t <=? c_timeout c)) ts)).
Proof. exact Proof.C24.rule_implies_two_sided. Qed.
Print Assumptions C24_rule_implies_two_sided.

(* Run returns a subset of what it was given *)
Theorem C24_run_subset : forall c s addrs h, In h (snd (run_filter c s addrs)) -> In h addrs.
Proof. exact Proof.C24.run_subset. Qed.
Print Assumptions C24_run_subset.

(* Clause 2. A passively checked host list never resolves to an empty set while it has hosts —
   in every state, with no assumption on the clock or the configuration. *)
Theorem C24_resolve_nonempty : forall raw ops all,
  all <> [] -> snd (resolve (apply_defaults raw) (fst (exec raw ops)) all) <> [].
Proof. exact Proof.C24.resolve_nonempty_hist. Qed.
Print Assumptions C24_resolve_nonempty.

Theorem C24_resolve_nonempty_any_state : forall c s all, all <> [] -> snd (resolve c s all) <> [].
Proof. exact Proof.C24.resolve_nonempty. Qed.
Print Assumptions C24_resolve_nonempty_any_state.

Theorem C24_resolve_subset : forall raw ops all h,
  In h (snd (resolve (apply_defaults raw) (fst (exec raw ops)) all)) -> In h all.
Proof. exact Proof.C24.resolve_subset_hist. Qed.
Print Assumptions C24_resolve_subset.

(* ... and what it resolves to: the hosts the rule does not filter, or every host when the rule
   filters all of them *)
Theorem C24_resolve_rule : forall raw ops all, monotone ops = true ->
  snd (resolve (apply_defaults raw) (fst (exec raw ops)) all)
  = match healthy_spec (apply_defaults raw) (tl_of ops) all with [] => all | l => l end.
Proof. exact Proof.C24.resolve_rule. Qed.
Print Assumptions C24_resolve_rule.

(* executable form used on observed traces *)
Theorem C24_check_sound : forall raw ops, C24_check raw ops (snd (exec raw ops)) = true.
Proof. exact Proof.C24.check_sound. Qed.
Print Assumptions C24_check_sound.

Theorem C24_check_complete : forall raw ops obs,
  monotone ops = true -> C24_check raw ops obs = true -> obs = sexec raw ops.
Proof. exact Proof.C24.check_complete. Qed.
Print Assumptions C24_check_complete.

(* ---- non-vacuity *)

(* a timeline of clock advances on which a host is filtered, stays filtered up to exactly
   FailTimeout after the tripping failure, and is released one tick later *)
Example C24_nonvacuous :
  let ops := [Failed false 0; Tick 4; Failed true 0; Run [0; 1]; Tick 10; Run [0; 1]; Tick 1; Run [0; 1]]%N in
  monotone ops = true /\
  snd (exec (mkcfg 2 10) ops) = [OUnit; OUnit; OUnit; OSet [1]; OUnit; OSet [1]; OUnit; OSet [0; 1]]%N.
Proof. vm_compute. split; reflexivity. Qed.

(* three failures within 2*FailTimeout of each other but never three inside one FailTimeout
   window do not trip; the next one does *)
Example C24_nonvacuous_window :
  snd (exec (mkcfg 3 10) [Failed false 0; Tick 8; Failed false 0; Tick 8; Failed false 0; Run [0]; Tick 2; Failed false 0; Run [0]]%N)
  = [OUnit; OUnit; OUnit; OUnit; OUnit; OSet [0]; OUnit; OUnit; OSet []]%N.
Proof. vm_compute. reflexivity. Qed.

(* Resolve: everything unhealthy -> all hosts; otherwise the healthy ones *)
Example C24_nonvacuous_resolve :
  snd (exec (mkcfg 1 10) [Failed false 0; Failed false 1; Resolve [0; 1]; Resolve [0; 1; 2]; Run [0; 1]]%N)
  = [OUnit; OUnit; OSet [0; 1]; OSet [2]; OSet []]%N.
Proof. vm_compute. reflexivity. Qed.

(* the defaults are the literals of PassiveFilterConfig.applyDefaults in the current source *)
Example C24_defaults : apply_defaults (mkcfg 0 0) = mkcfg pf_default_fails pf_default_fail_timeout.
Proof. vm_compute. reflexivity. Qed.

(* Note (outside the property: its timelines only ADVANCE the clock). If the clock steps back the
   front-only pruning of passive_filter.go:81-87 keeps a failure from the future and the model
   leaves the rule; the hypothesis `monotone` in the theorems above is therefore necessary. *)
Example C24_note_backward_clock :
  let ops := [Tick 20; Failed false 0; Tick (-15); Failed false 0; Run [0]]%N in
  monotone ops = false /\
  snd (exec (mkcfg 2 10) ops) <> sexec (mkcfg 2 10) ops.
Proof. vm_compute. split; [reflexivity|discriminate]. Qed.

(* Note on the reading: failures at 0, 8, 16 with Fails 3, FailTimeout 10. The failure at 8 has
   three failures within 10 on either side, yet no window of length 10 holds three, and the host
   is not filtered (harness seed `seed-sliding-window` observes the same on the real code). *)
Example C24_note_two_sided_reading :
  let ops := [Failed false 0; Tick 8; Failed false 0; Tick 8; Failed false 0]%N in
  let c := mkcfg 3 10 in
  snd (run_filter c (fst (exec c ops)) [0%N]) = [0%N] /\
  (3 <=? lenZ (filter (fun t' => (8 - t' <=? 10) && (t' - 8 <=? 10)) (times 0 (t_log (tl_of ops))))) = true.
Proof. vm_compute. split; reflexivity. Qed.
