(* C26 — tracker handouts never include the announcer and respect priority and limits.
   Statements only; every proof is `exact <lemma from Proof/C26.v>`.

   A history `ops` is any list of announces: torrent, announcing peer with any flags, whether the
   peer store failed the update, what the peer store answered to GetPeers (choice oracle) and what
   the origin store answered (any origin set, or an error). `run c init ops` is the model of
   trackerserver.announce on a tracker configured with priority policy and handout limit `c`.
   `legal c ops`: every peer-store answer is at most `cap c` current entries of the torrent's group
   with distinct peer ids (the contract C27 establishes for LocalStore.GetPeers). *)
From Coq Require Import List NArith ZArith Bool Permutation Sorted.
From K.Model Require Import C26.
From K.Proof Require C26.
Import ListNotations.

(* never lists the announcing peer — for every history, every store answer, every origin set *)
Theorem C26_no_self : forall c ops,
  Forall2 (fun a o => forall l, o = OPeers l -> ~ In (pid (a_peer a)) (map pid l))
          ops (snd (run c init ops)).
Proof. exact Proof.C26.no_self. Qed.
Print Assumptions C26_no_self.

(* never any peer twice — when the origin set is duplicate-free and no origin is at the same time
   an announced agent of the torrent (origins do not announce) *)
Theorem C26_nodup : forall c ops,
  legal c ops = true -> origins_ok_from init ops = true ->
  Forall (fun o => forall l, o = OPeers l -> NoDup (map pid l)) (snd (run c init ops)).
Proof. exact Proof.C26.nodup. Qed.
Print Assumptions C26_nodup.

(* at most the configured number (0 = the default written in config.go) plus the blob's origins *)
Theorem C26_bound : forall c ops,
  legal c ops = true ->
  Forall2 (fun a o => forall l, o = OPeers l ->
             (Z.of_nat (length l) <= cap c + Z.of_nat (length (olist (a_origins a))))%Z)
          ops (snd (run c init ops)).
Proof. exact Proof.C26.bound. Qed.
Print Assumptions C26_bound.

(* read per class: at most `cap c` agents, and every origin listed is one of the blob's origins *)
Theorem C26_bound_agents : forall c ops,
  legal c ops = true ->
  Forall2 (fun a o => forall l, o = OPeers l -> forallb porigin (olist (a_origins a)) = true ->
             (Z.of_nat (length (filter agent l)) <= cap c)%Z
             /\ (forall p, In p l -> porigin p = true -> In p (olist (a_origins a))))
          ops (snd (run c init ops)).
Proof. exact Proof.C26.bound_agents. Qed.
Print Assumptions C26_bound_agents.

(* empty (and not an error) for an announcer that reports completion *)
Theorem C26_empty_when_complete : forall c ops,
  Forall2 (fun a o => pcomplete (a_peer a) = true -> o = OPeers []) ops (snd (run c init ops)).
Proof. exact Proof.C26.empty_when_complete. Qed.
Print Assumptions C26_empty_when_complete.

(* ordered by the configured priority ... *)
Theorem C26_priority_sorted : forall c ops,
  Forall (fun o => forall l, o = OPeers l -> StronglySorted N.le (map (prio (c_policy c)) l))
         (snd (run c init ops)).
Proof. exact Proof.C26.priority_sorted. Qed.
Print Assumptions C26_priority_sorted.

(* ... which under the completeness policy means: seeders, then origins, then incomplete peers *)
Theorem C26_completeness_order : forall c ops,
  c_policy c = PCompleteness ->
  Forall (fun o => forall l, o = OPeers l ->
            exists s og i, l = s ++ og ++ i /\ Forall seeder s /\ Forall is_origin og /\ Forall incomplete i)
         (snd (run c init ops)).
Proof. exact Proof.C26.completeness_order. Qed.
Print Assumptions C26_completeness_order.

(* the same for ANY priority-sorted list (so also for a response whose order inside a class
   differs from the model's, as Go's unstable sort may produce) *)
Theorem C26_sorted_is_three_blocks : forall l,
  StronglySorted N.le (map (prio PCompleteness) l) ->
  exists s og i, l = s ++ og ++ i /\ Forall seeder s /\ Forall is_origin og /\ Forall incomplete i.
Proof. exact Proof.C26.completeness_split. Qed.
Print Assumptions C26_sorted_is_three_blocks.

(* nothing dropped, nothing invented: up to order the handout is what the two stores supplied
   minus the announcer; an error only when they supplied nothing *)
Theorem C26_handout_exact : forall c ops,
  Forall2 (fun a o => pcomplete (a_peer a) = false ->
             match o with
             | OErr => candidates a = []
             | OPeers l => candidates a <> [] /\ Permutation l (filter (not_source (a_peer a)) (candidates a))
             end) ops (snd (run c init ops)).
Proof. exact Proof.C26.handout_exact. Qed.
Print Assumptions C26_handout_exact.

(* the agents handed out by the last announce of any history are peers that announced for this
   torrent, listed with the address and completion flag of their most recent announcement
   (so the priority classes are those of the latest flags) *)
Theorem C26_agents_as_last_announced : forall c ops a l,
  legal c (ops ++ [a]) = true -> forallb porigin (olist (a_origins a)) = true ->
  handout c a = OPeers l ->
  forall p, In p l -> porigin p = false -> latest (ops ++ [a]) (a_h a) (pid p) None = Some p.
Proof. exact Proof.C26.agents_latest. Qed.
Print Assumptions C26_agents_as_last_announced.

(* the model's store: per torrent exactly the latest successful announcement of each peer id *)
Theorem C26_store_reflects_latest : forall c ops h e,
  In e (group (fst (run c init ops)) h) <-> latest ops h (pid e) None = Some e.
Proof. exact Proof.C26.store_reflects_latest. Qed.
Print Assumptions C26_store_reflects_latest.

(* all clauses at once, at every position of every history *)
Theorem C26_all_clauses : forall c ops,
  legal c ops = true -> each_from (resp_spec c) init ops (snd (run c init ops)).
Proof. exact Proof.C26.run_resp_spec. Qed.
Print Assumptions C26_all_clauses.

(* executable form: the oracle used on observed traces decides exactly the clauses, and the model
   satisfies it *)
Theorem C26_check_spec : forall c ops obs,
  C26_check c ops obs = true <-> each_from (resp_spec c) init ops obs.
Proof. exact Proof.C26.check_spec. Qed.
Print Assumptions C26_check_spec.

Theorem C26_check_sound : forall c ops, legal c ops = true -> C26_check c ops (snd (run c init ops)) = true.
Proof. exact Proof.C26.check_sound. Qed.
Print Assumptions C26_check_sound.

(* the hypothesis `legal` is satisfiable for EVERY announce sequence (requests, flags, failures and
   origin sets arbitrary): answering with the first `cap c` entries is legal *)
Theorem C26_legal_satisfiable : forall c ops,
  exists ops', map request_of ops' = map request_of ops /\ legal c ops' = true.
Proof. exact Proof.C26.legal_satisfiable. Qed.
Print Assumptions C26_legal_satisfiable.

(* the code as pinned compares pointers (sort_peers_ptr): the first announcer of a torrent is
   handed itself *)
Theorem C26_pointer_eq_refuted :
  exists c a l, legal c [a] = true /\ origins_ok_from init [a] = true
                /\ snd (run_ptr c init [a]) = [OPeers l] /\ In (pid (a_peer a)) (map pid l).
Proof. exact Proof.C26.pointer_eq_refuted. Qed.
Print Assumptions C26_pointer_eq_refuted.

(* in general the pinned code excludes nobody: the announcer is listed whenever the peer store's
   answer contains its entry (which LocalStore's random choice does with probability n/|group|) *)
Theorem C26_pointer_eq_never_excludes : forall pol src l x, In x l -> In x (sort_peers_ptr pol src l).
Proof. exact Proof.C26.pointer_eq_general. Qed.
Print Assumptions C26_pointer_eq_never_excludes.

(* outside the environment assumption of C26_nodup (an origin that also announced as an agent) a
   peer id is listed twice *)
Theorem C26_nodup_overlap_refuted :
  exists c ops, legal c ops = true /\ origins_ok_from init ops = false
                /\ Exists (fun o => exists l, o = OPeers l /\ ~ NoDup (map pid l)) (snd (run c init ops)).
Proof. exact Proof.C26.nodup_overlap_refuted. Qed.
Print Assumptions C26_nodup_overlap_refuted.

(* ---- non-vacuity: a history with seeders, incomplete peers and origins whose store answers are
   legal and whose origin sets meet the assumption; the handouts are non-empty and ordered *)
Definition nv_ops : list announce :=
  [ mka 0 (mkp 1 1 7001 false false) false (Some [mkp 1 1 7001 false false]) (Some [mkp 101 101 9101 true true]);
    mka 0 (mkp 2 2 7002 false true) false None (Some [mkp 101 101 9101 true true]);
    mka 0 (mkp 3 3 7003 false false) false
        (Some [mkp 3 3 7003 false false; mkp 1 1 7001 false false; mkp 2 2 7002 false true])
        (Some [mkp 101 101 9101 true true; mkp 102 102 9102 true true]);
    mka 0 (mkp 1 1 7001 false false) false
        (Some [mkp 3 3 7003 false false; mkp 2 2 7002 false true]) (Some [mkp 101 101 9101 true true]) ]%N.

Example C26_nonvacuous_legal :
  legal (mkc PCompleteness 3) nv_ops = true /\ origins_ok_from init nv_ops = true.
Proof. vm_compute. split; reflexivity. Qed.

Example C26_nonvacuous_run :
  snd (run (mkc PCompleteness 3) init nv_ops) =
  [ OPeers [mkp 101 101 9101 true true];
    OPeers [];
    OPeers [mkp 2 2 7002 false true; mkp 101 101 9101 true true; mkp 102 102 9102 true true; mkp 1 1 7001 false false];
    OPeers [mkp 2 2 7002 false true; mkp 101 101 9101 true true; mkp 3 3 7003 false false] ]%N.
Proof. vm_compute. reflexivity. Qed.

Example C26_nonvacuous_check :
  C26_check (mkc PCompleteness 3) nv_ops (snd (run (mkc PCompleteness 3) init nv_ops)) = true.
Proof. vm_compute. reflexivity. Qed.

(* the oracle rejects what the pinned code answers to the first announcer *)
Example C26_check_rejects_self :
  C26_check (mkc PDefault 5) [w_self] (snd (run_ptr (mkc PDefault 5) init [w_self])) = false.
Proof. vm_compute. reflexivity. Qed.

(* limit 0 means the default of config.go, a negative limit means no agents *)
Example C26_limit_default :
  cap (mkc PDefault 0) = K.Gen.C26_consts.tracker_default_handout_limit /\ cap (mkc PDefault (-3)) = 0%Z.
Proof. vm_compute. split; reflexivity. Qed.
