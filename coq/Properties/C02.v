(* C02 — torrent metainfo exactly describes its blob.
   Statements only; every proof is `exact <lemma from Proof/C02*.v>`.
   [sum] (the piece checksum, crc32.ChecksumIEEE in the code) and [sha1] (the info-hash function)
   are universally quantified: the layout, length, piece-length, stream/buffer and table
   theorems hold for every checksum function. *)
From Coq Require Import String.
From Coq Require Import List NArith ZArith Bool Permutation.
From K.Model Require Import C02.
From K.Proof Require C02 C02_json C02_table C02_check.
Import ListNotations.
Local Open Scope N_scope.

(* ---- the blob's length, consecutive pieces, their checksums ------------------------------ *)

(* NewMetaInfoFromBytes: for every checksum, digest, blob and positive piece length the
   metainfo records the blob's length, the piece length, the digest, and the checksums of the
   pieces of [pieces pl data] in order (never runs out of fuel, never fails) *)
Theorem C02_bytes_describes_blob : forall sum sha1 d data pl, (0 < pl)%Z ->
  new_metainfo_bytes sum sha1 d data pl =
    Ok (mkmi (mkinfo pl (map sum (pieces (Z.to_N pl) data)) d (lenZ data) false)
             (sha1 (bencode_info (mkinfo pl (map sum (pieces (Z.to_N pl) data)) d (lenZ data) false))) d).
Proof. exact Proof.C02.new_metainfo_bytes_spec. Qed.
Print Assumptions C02_bytes_describes_blob.

(* [pieces pl data] is the layout the statement prescribes: the pieces are consecutive
   (their concatenation is the blob), none is empty or longer than pl, all but the last are
   exactly pl long, the empty blob has none, and there are ceil(len/pl) of them *)
Theorem C02_layout : forall pl data, 0 < pl ->
  let ps := pieces pl data in
  concat ps = data
  /\ Forall (fun p => p <> [] /\ lenN p <= pl) ps
  /\ (forall i, (S i < length ps)%nat -> lenN (nth i ps []) = pl)
  /\ (data = [] -> ps = [])
  /\ lenN ps = (lenN data + pl - 1) / pl.
Proof. exact Proof.C02.layout_summary. Qed.
Print Assumptions C02_layout.

(* ... and it is the only list of pieces with these properties *)
Theorem C02_layout_unique : forall pl data ps, 0 < pl ->
  concat ps = data ->
  Forall (fun p => p <> [] /\ lenN p <= pl) ps ->
  (forall i, (S i < length ps)%nat -> lenN (nth i ps []) = pl) ->
  ps = pieces pl data.
Proof. exact Proof.C02.layout_summary_unique. Qed.
Print Assumptions C02_layout_unique.

(* piece i consists of the bytes data[i*pl : min((i+1)*pl, len)] *)
Theorem C02_piece_slices : forall pl, 0 < pl -> forall i data,
  nth i (pieces pl data) [] = takeN pl (dropN (N.of_nat i * pl) data).
Proof. exact Proof.C02.pieces_nth. Qed.
Print Assumptions C02_piece_slices.

(* ---- stream = in-memory buffer --------------------------------------------------------- *)

(* NewMetaInfo on a reader is identical to NewMetaInfoFromBytes on the bytes the reader
   delivers, for EVERY way the reader cuts the blob into Read results (short reads, empty
   reads, reads larger than io.Copy's buffer) and every piece length (non-positive included) *)
Theorem C02_stream_eq_bytes : forall sum sha1 d chunks pl,
  new_metainfo_stream sum sha1 d (mkrd chunks false) pl = new_metainfo_bytes sum sha1 d (concat chunks) pl.
Proof. exact Proof.C02.stream_eq_bytes. Qed.
Print Assumptions C02_stream_eq_bytes.

Theorem C02_rejects_nonpositive_pl : forall sum sha1 d r data pl, (pl <= 0)%Z ->
  new_metainfo_stream sum sha1 d r pl = Err /\ new_metainfo_bytes sum sha1 d data pl = Err.
Proof. exact Proof.C02.rejects_nonpositive. Qed.
Print Assumptions C02_rejects_nonpositive_pl.

(* a reader that ends with a non-EOF error never yields metainfo (of a truncated blob) *)
Theorem C02_failing_reader_rejected : forall sum sha1 d chunks pl,
  new_metainfo_stream sum sha1 d (mkrd chunks true) pl = Err.
Proof. exact Proof.C02.failing_reader_rejected. Qed.
Print Assumptions C02_failing_reader_rejected.

(* ---- GetPieceLength ------------------------------------------------------------------- *)

(* on generated metainfo GetPieceLength i is the true length of piece i, and 0 outside
   0..NumPieces-1; the int64 arithmetic cannot wrap for blobs shorter than 2^63 bytes *)
Theorem C02_piece_length_fn : forall sum sha1 d data pl i,
  (0 < pl < 9223372036854775808)%Z -> (lenZ data < 9223372036854775808)%Z ->
  let ps := pieces (Z.to_N pl) data in
  get_piece_length (expected sum sha1 d data pl) i =
    if ((0 <=? i) && (i <? lenZ ps))%Z then lenZ (nth (Z.to_nat i) ps []) else 0%Z.
Proof. exact Proof.C02.get_piece_length_spec. Qed.
Print Assumptions C02_piece_length_fn.

Theorem C02_piece_length_total : forall sum sha1 d data pl,
  (0 < pl < 9223372036854775808)%Z -> (lenZ data < 9223372036854775808)%Z ->
  fold_right Z.add 0%Z
    (map (get_piece_length (expected sum sha1 d data pl))
         (zrange 0 (length (pieces (Z.to_N pl) data)))) = lenZ data.
Proof. exact Proof.C02.get_piece_length_total. Qed.
Print Assumptions C02_piece_length_total.

(* ---- Serialize / DeserializeMetaInfo --------------------------------------------------- *)

(* any well-formed info (int64 fields, uint32 sums, a name that is a valid sha256 hex digest)
   survives Serialize + DeserializeMetaInfo unchanged; the result carries the info hash of that
   same info (same bencoding) and the digest its name spells *)
Theorem C02_json_roundtrip : forall sha1 mi,
  wf_info (mi_info mi) -> valid_name (i_name (mi_info mi)) = true ->
  deserialize sha1 (serialize mi) =
    Ok (mkmi (mi_info mi) (sha1 (bencode_info (mi_info mi))) (i_name (mi_info mi))).
Proof. exact Proof.C02_json.deserialize_serialize. Qed.
Print Assumptions C02_json_roundtrip.

(* hence on generated metainfo the round trip is the identity: info hash, digest, length, piece
   length and piece sums are preserved *)
Theorem C02_json_roundtrip_generated : forall sha1 sum, (forall b, sum b < 4294967296) ->
  forall d data pl,
  (0 < pl < 9223372036854775808)%Z -> (lenZ data < 9223372036854775808)%Z -> valid_name d = true ->
  deserialize sha1 (serialize (expected sum sha1 d data pl)) = Ok (expected sum sha1 d data pl).
Proof. exact Proof.C02_json.roundtrip_generated. Qed.
Print Assumptions C02_json_roundtrip_generated.

(* whatever document parses, its info hash and digest are those of the parsed info *)
Theorem C02_deserialize_consistent : forall sha1 raw mi, deserialize sha1 raw = Ok mi ->
  mi_ih mi = sha1 (bencode_info (mi_info mi)) /\ mi_digest mi = i_name (mi_info mi)
  /\ valid_name (mi_digest mi) = true.
Proof. exact Proof.C02_json.deserialize_consistent. Qed.
Print Assumptions C02_deserialize_consistent.

(* whatever DeserializeMetaInfo accepts (generated or foreign) survives Serialize +
   DeserializeMetaInfo unchanged: info hash, digest, length, piece length, piece sums *)
Theorem C02_reserialize_stable : forall sha1 raw mi, deserialize sha1 raw = Ok mi ->
  deserialize sha1 (serialize mi) = Ok mi.
Proof. exact Proof.C02_json.reserialize_stable. Qed.
Print Assumptions C02_reserialize_stable.

(* the guard valid_name is needed: metainfo built for the zero Digest{} (empty name)
   serialises but does not parse back (seed case seed-zero-digest) *)
Theorem C02_roundtrip_zero_digest_refuted : exists data pl,
  (0 < pl)%Z /\ deserialize sha1_bytes (serialize (expected crc32 sha1_bytes [] data pl)) = Err.
Proof. exact Proof.C02_check.zero_digest_witness. Qed.
Print Assumptions C02_roundtrip_zero_digest_refuted.

(* ---- piece length table ---------------------------------------------------------------- *)

(* for a table with distinct thresholds (a Go map), in whatever order the map is iterated: the
   piece length is the one configured for the largest threshold not above the size; when every
   threshold is above the size, the one configured for the smallest threshold *)
Theorem C02_table_lookup : forall l size, NoDup (map fst l) -> l <> [] ->
  let r := plconfig_get (sort_ranges l) size in
  (forall x, In x l /\ (fst x <= size)%Z /\ (forall y, In y l -> (fst y <= size)%Z -> (fst y <= fst x)%Z) -> r = snd x)
  /\ ((forall y, In y l -> (size < fst y)%Z) ->
      forall x, In x l /\ (forall y, In y l -> (fst x <= fst y)%Z) -> r = snd x).
Proof. exact Proof.C02_table.table_lookup. Qed.
Print Assumptions C02_table_lookup.

Theorem C02_table_order_irrelevant : forall l l' size, Permutation l l' -> NoDup (map fst l) -> l <> [] ->
  plconfig_get (sort_ranges l) size = plconfig_get (sort_ranges l') size.
Proof. exact Proof.C02_table.get_perm. Qed.
Print Assumptions C02_table_order_irrelevant.

(* the executable specification used by the oracle is that lookup *)
Theorem C02_table_lookup_spec : forall l size, NoDup (map fst l) -> l <> [] ->
  lookup_spec l size = Some (plconfig_get (sort_ranges l) size).
Proof. exact Proof.C02_table.lookup_spec_correct. Qed.
Print Assumptions C02_table_lookup_spec.

(* ---- Generator.Generate ---------------------------------------------------------------- *)

(* generating for a stored blob and reading the stored metadata back gives exactly the
   metainfo of the blob with the table's piece length (or fails when that is not positive) *)
Theorem C02_generate : forall sum sha1, (forall b, sum b < 4294967296) ->
  forall tbl d chunks,
  table_ok tbl = true -> tbl <> [] -> valid_name d = true ->
  (lenZ (concat chunks) < 9223372036854775808)%Z ->
  let pl := plconfig_get (sort_ranges (conv_tbl tbl)) (lenZ (concat chunks)) in
  generate sum sha1 tbl d (mkrd chunks false) =
    if (pl <=? 0)%Z then Err else Ok (expected sum sha1 d (concat chunks) pl).
Proof. exact Proof.C02_check.generate_spec. Qed.
Print Assumptions C02_generate.

(* ---- executable form used on observed traces ------------------------------------------- *)
Theorem C02_check_sound : forall sum sha1, (forall b, sum b < 4294967296) ->
  forall c, C02_check sum sha1 c (case_model sum sha1 c) = true.
Proof. exact Proof.C02_check.check_sound. Qed.
Print Assumptions C02_check_sound.

(* ... and for the instance the correspondence check executes, without hypotheses *)
Theorem C02_check_sound_crc32 : forall c, C02_check crc32 sha1_bytes c (case_model crc32 sha1_bytes c) = true.
Proof. exact Proof.C02_check.check_sound_crc32. Qed.
Print Assumptions C02_check_sound_crc32.

(* the executable checksum streams: writing a then b to the hash state = writing a ++ b
   (what hash.Hash32 promises and the stream model assumes) *)
Theorem C02_crc32_streams : forall c a b, crc_update (crc_update c a) b = crc_update c (a ++ b).
Proof. exact Proof.C02_json.crc_update_app. Qed.
Print Assumptions C02_crc32_streams.

(* ---- non-vacuity ----------------------------------------------------------------------- *)

(* 11 bytes in pieces of 4: lengths 4,4,3; stream cut as 2+0+7+2 agrees; round trip identity *)
Example C02_nonvacuous_layout :
  pieces 4 (codes "hello world") = [codes "hell"; codes "o wo"; codes "rld"]
  /\ pieces 4 (codes "hello wo") = [codes "hell"; codes "o wo"]
  /\ pieces 4 [] = [].
Proof. vm_compute. repeat split; reflexivity. Qed.

Example C02_nonvacuous_stream :
  new_metainfo_stream crc32 sha1_bytes ex_name (mkrd [codes "he"; []; codes "llo wor"; codes "ld"] false) 4
  = new_metainfo_bytes crc32 sha1_bytes ex_name (codes "hello world") 4
  /\ match new_metainfo_bytes crc32 sha1_bytes ex_name (codes "hello world") 4 with
     | Ok mi => i_sums (mi_info mi) = [478544099; 3342855505; 732161222] /\ i_len (mi_info mi) = 11%Z
                /\ map (get_piece_length mi) [(-1)%Z; 0%Z; 1%Z; 2%Z; 3%Z] = [0%Z; 4%Z; 4%Z; 3%Z; 0%Z]
                /\ deserialize sha1_bytes (serialize mi) = Ok mi
     | _ => False
     end.
Proof. vm_compute. repeat split; reflexivity. Qed.

Example C02_nonvacuous_roundtrip_hyp :
  valid_name ex_name = true /\ crc32 (codes "123456789") = 0xCBF43926
  /\ sha1_bytes (codes "abc") = unhex "a9993e364706816aba3e25717850c26c9cd0d89d".
Proof. vm_compute. repeat split; reflexivity. Qed.

(* config.go's documented example: N < 2gb : 1mb; 2gb <= N < 4gb : 4mb; N >= 4gb : 8mb *)
Example C02_nonvacuous_table :
  table_ok [(4294967296, 8388608); (0, 1048576); (2147483648, 4194304)] = true
  /\ match plconfig_new [(4294967296, 8388608); (0, 1048576); (2147483648, 4194304)] with
     | Some rs => map (plconfig_get rs) [0; 2147483647; 2147483648; 4294967295; 4294967296; 1099511627776]%Z
                  = [1048576; 1048576; 4194304; 4194304; 8388608; 8388608]%Z
     | None => False
     end
  /\ match plconfig_new [(10, 3); (20, 5)] with
     | Some rs => plconfig_get rs 5%Z = 3%Z     (* below the smallest threshold *)
     | None => False
     end.
Proof. vm_compute. repeat split; reflexivity. Qed.

Example C02_nonvacuous_generate :
  match generate crc32 sha1_bytes [(0, 4); (10, 8)] ex_name (mkrd [codes "hello world"] false) with
  | Ok mi => i_pl (mi_info mi) = 8%Z /\ length (i_sums (mi_info mi)) = 2%nat
  | _ => False
  end.
Proof. vm_compute. split; reflexivity. Qed.
