(* C09 — the tiered store never loses or corrupts a completed blob or metadata update.
   Statements only; every proof is `exact <lemma from Proof/C09.v>`.

   Model (Model/C09.v): client operations of store.go as atomic steps, the flush worker of
   flusher.go as a program counter over its lock regions, eviction from either tier and the
   outcome of every space reservation as oracle steps.  `run init ops` executes ANY sequence of
   such steps (any interleaving of the worker with the clients, any capacity, any LRU order);
   `C09_check ops outs` evaluates the statement of C09 on the trace: from MarkComplete until
   Delete / eviction from disk / a flush that failed for lack of disk space, Open yields the
   bytes and GetMetadata the last successful update; a deleted key is invisible and can be
   re-created.

   The faithful model VIOLATES the statement on three schedule shapes (theorems *_refuted, all
   three reproduced on the real code by the harness).  C09_partial proves the statement for all
   schedules that avoid those shapes:
     h1  no SetMetadata/DeleteMetadata of k between the worker's delete(f.blobs,k) and its
         UnbanEviction(k);
     h2  no Create of k while the worker is flushing k;
     h3  no client operation looks at k between the worker's disk.Create(k) and its abort check
         when that flush has been aborted by a Delete. *)
From Coq Require Import List NArith Bool.
From K.Model Require Import C09.
From K.Proof Require C09.
Import ListNotations.
Local Open Scope N_scope.

(* every observation along every admissible interleaving is one the property allows *)
Theorem C09_partial : forall ops,
  sched_by (fun s o => h1 s o && h2 s o && h3 s o) init ops = true ->
  C09_check ops (snd (run init ops)) = true.
Proof. exact Proof.C09.check_sound_partial_by. Qed.
Print Assumptions C09_partial.

(* the clauses, on the state reached by any admissible schedule: exactly its bytes ... *)
Theorem C09_bytes_partial : forall ops k d mds sc,
  sched_ok init ops = true -> gget (ghost_after ops) k = GLive d mds -> sc <> SIncomplete ->
  snd (step (fst (run init ops)) (Open k sc)) = OBytes d.
Proof. exact Proof.C09.live_bytes. Qed.
Print Assumptions C09_bytes_partial.

(* ... every successful metadata update ... *)
Theorem C09_metadata_partial : forall ops k d mds x sc,
  sched_ok init ops = true -> gget (ghost_after ops) k = GLive d mds -> sc <> SIncomplete ->
  snd (step (fst (run init ops)) (GetMd k x sc)) = OMd (get x mds).
Proof. exact Proof.C09.live_metadata. Qed.
Print Assumptions C09_metadata_partial.

(* ... a deleted key never resurfaces and never blocks re-creation (outside the window h3
   names; Create additionally waits for the aborted flush to end, h2) *)
Theorem C09_deleted_partial : forall ops k,
  sched_ok init ops = true -> gget (ghost_after ops) k = GAbsent ->
  let s := fst (run init ops) in
  in_window3 s k = false ->
  snd (step s (Has k SAny)) = OHas false false /\
  snd (step s (Open k SAny)) = OErr ENotExist /\
  (forall d, won (wpc s) k = false -> snd (step s (Create k d PMem)) = OOk).
Proof. exact Proof.C09.deleted_absent. Qed.
Print Assumptions C09_deleted_partial.

(* the key invariant: a complete blob is banned from eviction in memory, or it is complete on
   disk with its data and all its metadata and nothing of it is tracked as dirty *)
Theorem C09_banned_or_flushed : forall ops k d mds,
  sched_ok init ops = true -> gget (ghost_after ops) k = GLive d mds ->
  let s := fst (run init ops) in
  (exists m, get k (mem s) = Some m /\ m_banned m = true) \/
  (exists e, get k (disk s) = Some e /\ d_complete e = true /\ d_data e = d /\
             (forall x, get x (d_mds e) = get x mds) /\ get k (fblobs s) = None).
Proof. exact Proof.C09.banned_or_flushed. Qed.
Print Assumptions C09_banned_or_flushed.

(* sched_ok is the conjunction of the three hypotheses *)
Theorem C09_hypotheses : forall ops s,
  sched_ok s ops = sched_by (fun s o => h1 s o && h2 s o && h3 s o) s ops.
Proof. exact Proof.C09.sched_ok_by. Qed.
Print Assumptions C09_hypotheses.

(* (a) without h1 the statement is false: a metadata update is lost *)
Theorem C09_unban_window_refuted :
  sched_by (fun s o => h2 s o && h3 s o) init wit_unban_window = true /\
  sched_by h1 init wit_unban_window = false /\
  C09_check wit_unban_window (snd (run init wit_unban_window)) = false /\
  last (snd (run init wit_unban_window)) OBad = OMd None.
Proof. exact Proof.C09.unban_window_refuted. Qed.
Print Assumptions C09_unban_window_refuted.

(* (b) without h2 the statement is false: a completed blob is lost *)
Theorem C09_recreate_refuted :
  sched_by (fun s o => h1 s o && h3 s o) init wit_recreate = true /\
  sched_by h2 init wit_recreate = false /\
  C09_check wit_recreate (snd (run init wit_recreate)) = false /\
  last (snd (run init wit_recreate)) OBad = OErr ENotExist.
Proof. exact Proof.C09.recreate_refuted. Qed.
Print Assumptions C09_recreate_refuted.

(* (c) without h3 the statement is false: a deleted key resurfaces and blocks re-creation *)
Theorem C09_resurface_refuted :
  sched_by (fun s o => h1 s o) init wit_resurface = true /\
  sched_by h3 init wit_resurface = false /\
  C09_check wit_resurface (snd (run init wit_resurface)) = false /\
  skipn 6 (snd (run init wit_resurface)) = [OHas true true; OErr EExist].
Proof. exact Proof.C09.resurface_refuted. Qed.
Print Assumptions C09_resurface_refuted.

(* non-vacuity: an admissible schedule with metadata updates in the middle of a flush, a second
   round of the dirty loop, a metadata-only flush, eviction from memory, reads served from disk,
   delete and re-creation *)
Example C09_nonvacuous :
  sched_ok init wit_ok = true /\
  C09_check wit_ok (snd (run init wit_ok)) = true /\
  skipn 35 (snd (run init wit_ok)) =
    [OOk; OBytes [7; 7]; OMd (Some [3]); OMd None; OOk; OHas false false; OOk; OOk; OBytes [5]].
Proof. vm_compute. auto. Qed.

Example C09_nonvacuous_live :
  gget (ghost_after (firstn 36 wit_ok)) 1 = GLive [7; 7] [(1, [3])] /\
  get 1 (mem (fst (run init (firstn 36 wit_ok)))) = None.
Proof. vm_compute. auto. Qed.
