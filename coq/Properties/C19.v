(* C19 — a swarm with a reachable seeder converges to the exact blob (PARTIAL).
   Statements only; every proof is `exact <lemma of Proof/C19.v>`.

   The model (Model/C19.v) is a transition system over agents (per-piece status Empty | Dirty |
   Complete, file regions, committed flag, piece-request bookkeeping, connections with the remote
   bitfield), peers Honest | Corrupting, up | departed, messages in flight; labels Join / Depart /
   Connect / Disconnect / Request / Resend / Expire / Serve / Inject / RecvBegin / RecvEnd / RecvErr
   / AnnouncePiece / Drop.  Everything below quantifies over EVERY label sequence (every schedule,
   arrival order, departure, restart, corrupt payload, timeout, lost message) and every
   configuration (blob, piece sizes, pipeline limits, endgame, connection limit).

   NOT proved (and not provable about an executable model without fairness assumptions on the
   runtime): that the real scheduler, under its announce intervals, blacklist back-off, connection
   TTIs and TCP, eventually TAKES such a sequence.  What is proved instead is that it always can
   (C19_progress_possible): no reachable state is stuck. *)
From Coq Require Import List NArith Bool Arith.
From K.Model Require Import C19.
From K.Proof Require C19.
Import ListNotations.

(* safety: an agent that completed holds exactly the blob, piece by piece, for every payload type,
   length function and checksum, under collision-freedom of the checksum on the payloads that
   corrupting peers bring in (cf), the metainfo being the blob's (sums_ok) *)
Theorem C19_safety : forall (P : Type) (plen sum : P -> N) (g : cfg P) ps ls x,
  sums_ok P sum g ->
  Forall (cf P plen sum g) (payloads P ls) ->
  completed P (run P plen sum g (init P g ps) ls) x = true ->
  file P g (run P plen sum g (init P g ps) ls) x = map Some (g_blob P g).
Proof. exact Proof.C19.safety. Qed.
Print Assumptions C19_safety.

(* the same with payloads = byte strings: the cached file is byte-identical to the blob *)
Theorem C19_safety_bytes : forall (sum : list N -> N) (g : cfg (list N)) ps ls x,
  sums_ok (list N) sum g ->
  Forall (cf (list N) (fun b => N.of_nat (length b)) sum g) (payloads (list N) ls) ->
  completed (list N) (run (list N) (fun b => N.of_nat (length b)) sum g (init (list N) g ps) ls) x = true ->
  flat_map (fun o => match o with Some b => b | None => [] end)
    (file (list N) g (run (list N) (fun b => N.of_nat (length b)) sum g (init (list N) g ps) ls) x)
  = concat (g_blob (list N) g).
Proof. exact Proof.C19.safety_bytes. Qed.
Print Assumptions C19_safety_bytes.

(* before completion too: whatever piece an agent has verified is the blob's piece ... *)
Theorem C19_verified_piece_is_blob : forall (P : Type) (plen sum : P -> N) (g : cfg P) ps ls x i,
  sums_ok P sum g ->
  Forall (cf P plen sum g) (payloads P ls) ->
  verified P (run P plen sum g (init P g ps) ls) x i = true ->
  i < npieces P g /\
  p_dat P (peers P (run P plen sum g (init P g ps) ls) x) i = nth_error (g_blob P g) i.
Proof. exact Proof.C19.verified_piece_is_blob. Qed.
Print Assumptions C19_verified_piece_is_blob.

(* ... and completion means every piece is verified *)
Theorem C19_completed_has_all : forall (P : Type) (plen sum : P -> N) (g : cfg P) ps ls x i,
  sums_ok P sum g ->
  Forall (cf P plen sum g) (payloads P ls) ->
  completed P (run P plen sum g (init P g ps) ls) x = true -> i < npieces P g ->
  verified P (run P plen sum g (init P g ps) ls) x i = true.
Proof. exact Proof.C19.completed_has_all. Qed.
Print Assumptions C19_completed_has_all.

(* monotonicity: from any state whatsoever, no label — enabled or not, corrupt payload, conflict,
   departure, restart — takes a verified piece away *)
Theorem C19_monotone_step : forall (P : Type) (plen sum : P -> N) (g : cfg P) s l x i,
  verified P s x i = true -> verified P (exec P plen sum g s l) x i = true.
Proof. exact Proof.C19.monotone_step. Qed.
Print Assumptions C19_monotone_step.

Theorem C19_monotone : forall (P : Type) (plen sum : P -> N) (g : cfg P) s ls x i,
  verified P s x i = true -> verified P (run P plen sum g s ls) x i = true.
Proof. exact Proof.C19.monotone. Qed.
Print Assumptions C19_monotone.

(* progress is always possible: in every reachable state, for every honest agent `a` that is up
   and misses piece i and every honest seeder `sd` that is up and complete, the label sequence
   `plan` is enabled label by label, ends with piece i verified at a, loses nothing anywhere, and
   needs no payload from outside.  (limits_ok: pipeline and connection limits >= 1, as after
   applyDefaults.)  In particular: after corrupt payloads (request marked invalid, piece Empty
   again), conflicts, departures of the peers a had asked (their requests expire or are cleared),
   full connection tables (one connection is dropped), lost messages. *)
Theorem C19_progress_possible : forall (P : Type) (plen sum : P -> N) (g : cfg P) ps ls a sd i,
  sums_ok P sum g -> limits_ok P g ->
  Forall (cf P plen sum g) (payloads P ls) ->
  let s := run P plen sum g (init P g ps) ls in
  p_up P (peers P s a) = true -> honest P (peers P s a) = true ->
  p_up P (peers P s sd) = true -> honest P (peers P s sd) = true -> completed P s sd = true ->
  i < npieces P g -> verified P s a i = false ->
  exists s',
    run_strict P plen sum g s (plan P plen sum g s a sd i) = Some s'
    /\ verified P s' a i = true
    /\ (forall x j, verified P s x j = true -> verified P s' x j = true)
    /\ payloads P (plan P plen sum g s a sd i) = [].
Proof. exact Proof.C19.progress_possible. Qed.
Print Assumptions C19_progress_possible.

(* executable form used on observed runs: the oracle C19_check (monotone receive log, verified
   set = initial + received, success => cached file = blob, nothing accepted from a corrupting
   peer that sent no blob piece) holds on the observations of every run of the model *)
Theorem C19_check_sound : forall (P : Type) (plen sum : P -> N) (g : cfg P) (peqb : P -> P -> bool) ps ls,
  sums_ok P sum g -> (forall a b, peqb a b = true <-> a = b) ->
  Forall (cf P plen sum g) (payloads P ls) ->
  C19_check P peqb g (payloads P ls) (run_log P plen sum g (init P g ps) ls)
            (observe P g (run P plen sum g (init P g ps) ls) ps) = true.
Proof. exact Proof.C19.check_sound. Qed.
Print Assumptions C19_check_sound.

(* the collision hypothesis is necessary: with a checksum that collides on a payload a corrupting
   peer sends, an agent completes with other bytes (CRC-32 is such a checksum: harness seed
   `seed-crc-collision` runs this on the real code) *)
Theorem C19_collision_refuted :
  sums_ok nat col_sum col_cfg /\
  let s := run nat col_plen col_sum col_cfg (init nat col_cfg col_peers) col_trace in
  disabled nat col_plen col_sum col_cfg (init nat col_cfg col_peers) col_trace = 0 /\
  completed nat s 0 = true /\ file nat col_cfg s 0 = [Some 7] /\ g_blob nat col_cfg = [0].
Proof. exact Proof.C19.collision_refuted. Qed.
Print Assumptions C19_collision_refuted.

(* ---- non-vacuity: a reachable state that meets every hypothesis of C19_progress_possible and is
   adverse: agent 1 has no piece, its two connections (the limit) are held by the corrupting peer
   (which already fed it a bad payload: one request invalid, one pending there) and by an agent
   that departed with a request pending.  The plan drops a connection, connects to the seeder,
   lets the stale request expire and transfers the piece. *)
Example C19_nonvacuous_progress :
  disabled nat ex_plen ex_sum ex_cfg (init nat ex_cfg ex_peers) ex_trace = 0
  /\ cf_list nat ex_plen ex_sum Nat.eqb ex_cfg (payloads nat ex_trace) = true
  /\ p_up nat (peers nat ex_state 1) = true /\ honest nat (peers nat ex_state 1) = true
  /\ p_up nat (peers nat ex_state 0) = true /\ honest nat (peers nat ex_state 0) = true
  /\ completed nat ex_state 0 = true /\ verified nat ex_state 1 0 = false
  /\ map (fun r => (r_piece r, r_peer r, r_st r)) (p_reqs nat (peers nat ex_state 1))
     = [(0, 3, RInvalid); (0, 3, RPending); (1, 2, RPending)]
  /\ map c_peer (p_conns nat (peers nat ex_state 1)) = [3; 2]
  /\ plan nat ex_plen ex_sum ex_cfg ex_state 1 0 0 =
       [Disconnect 1 3; Connect 1 0 []; Expire 1 2 1;
        Request 1 0 [0] 1; Serve 0 1 0; RecvBegin 1 0 0; RecvEnd 1 0]
  /\ match run_strict nat ex_plen ex_sum ex_cfg ex_state (plan nat ex_plen ex_sum ex_cfg ex_state 1 0 0) with
     | Some s' => verified nat s' 1 0 = true
     | None => False
     end.
Proof. vm_compute. repeat split; reflexivity. Qed.

(* non-vacuity of safety / monotonicity: the same history carried to completion of agent 1 *)
Example C19_nonvacuous_safety :
  let ls := ex_trace ++ plan nat ex_plen ex_sum ex_cfg ex_state 1 0 0
            ++ [Request 1 0 [1] 1; Serve 0 1 1; RecvBegin 1 0 1; RecvEnd 1 1;
                Request 1 0 [2] 1; Serve 0 1 2; RecvBegin 1 0 2; RecvEnd 1 2] in
  let s := run nat ex_plen ex_sum ex_cfg (init nat ex_cfg ex_peers) ls in
  disabled nat ex_plen ex_sum ex_cfg (init nat ex_cfg ex_peers) ls = 0
  /\ completed nat s 1 = true /\ file nat ex_cfg s 1 = [Some 10; Some 11; Some 12]
  /\ verified nat s 2 0 = true /\ verified nat s 2 1 = true /\ completed nat s 2 = false.
Proof. vm_compute. repeat split; reflexivity. Qed.
