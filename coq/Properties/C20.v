(* C20 — the announce queue holds each torrent once and serves them in order.
   Statements only; every proof is `exact <lemma from Proof/C20.v>`. *)
From Coq Require Import List NArith.
From K.Model Require Import C20.
From K.Proof Require C20.
Import ListNotations.

(* never both waiting and in flight, never twice — for every history that respects the
   documented client contract (Add h only when h is absent) *)
Theorem C20_disjoint_nodup : forall ops,
  wf ops = true -> let s := fst (run init ops) in NoDup (ready s ++ pending s).
Proof. exact Proof.C20.disjoint_nodup. Qed.
Print Assumptions C20_disjoint_nodup.

(* first-come first-served: the outputs are those of the specification in which Next hands
   out the waiting torrent whose arrival stamp is minimal *)
Theorem C20_fifo : forall ops, wf ops = true -> snd (run init ops) = snd (srun sinit ops).
Proof. exact Proof.C20.refines_fifo. Qed.
Print Assumptions C20_fifo.

Theorem C20_spec_next_is_oldest : forall l x,
  oldest l = Some x -> In x l /\ forall y, In y l -> (fst x <= fst y)%N.
Proof. exact Proof.C20.oldest_min. Qed.
Print Assumptions C20_spec_next_is_oldest.

(* a torrent whose announce is in flight is not handed out ... *)
Theorem C20_inflight_not_served : forall ops h,
  wf ops = true -> In h (pending (fst (run init ops))) ->
  snd (step (fst (run init ops)) Next) <> ONext (Some h).
Proof. exact Proof.C20.inflight_not_served. Qed.
Print Assumptions C20_inflight_not_served.

(* ... and becomes ready again only when its announce finished *)
Theorem C20_ready_only_after_done : forall ops o h,
  wf (ops ++ [o]) = true ->
  In h (pending (fst (run init ops))) ->
  In h (ready (fst (run init (ops ++ [o])))) ->
  o = Ready h.
Proof. exact Proof.C20.ready_only_after_done. Qed.
Print Assumptions C20_ready_only_after_done.

(* removal takes it out completely *)
Theorem C20_eject_total : forall ops h,
  wf (ops ++ [Eject h]) = true ->
  let s := fst (run init (ops ++ [Eject h])) in ~ In h (ready s) /\ ~ In h (pending s).
Proof. exact Proof.C20.eject_total. Qed.
Print Assumptions C20_eject_total.

(* executable form used on observed traces *)
Theorem C20_check_sound : forall ops, C20_check ops (snd (run init ops)) = true.
Proof. exact Proof.C20.check_sound. Qed.
Print Assumptions C20_check_sound.

(* outside the client contract removal is not total (Eject stops after one copy) *)
Theorem C20_unguarded_add_refuted :
  exists ops h, In h (ready (fst (run init (ops ++ [Eject h])))).
Proof. exact Proof.C20.unguarded_add_refuted. Qed.
Print Assumptions C20_unguarded_add_refuted.

(* non-vacuity: a contract-respecting history with waiting and in-flight torrents *)
Example C20_nonvacuous :
  wf [Add 1; Add 2; Next; Add 3; Ready 1; Eject 2; Next]%N = true /\
  fst (run init [Add 1; Add 2; Next; Add 3; Ready 1; Eject 2; Next]%N) = mk [1]%N [3]%N.
Proof. vm_compute. split; reflexivity. Qed.
