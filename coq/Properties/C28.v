(* C28 — the Redis peer store round-trips every announced peer.
   Statements only; every proof is `exact <lemma from Proof/C28*.v>`.
   The model is the store with the repaired decoder (fixes/C28_ipv6_decode.patch); the decoder
   of the pinned commit is [deserialize_old] / [get_full_old]. *)
From Coq Require Import List NArith ZArith Bool.
From K.Model Require Import C28.
From K.Proof Require C28_codec C28_store C28.
Import ListNotations.
Local Open Scope Z_scope.

(* ---- the encoding: any 20-byte id, ANY address byte string (IPv4, IPv6, host name, anything
   else, ':' included, empty included), any int port, either flag ---- *)
Theorem C28_codec_roundtrip : forall p,
  valid_peer p = true -> deserialize (serialize p) = Some p.
Proof. exact Proof.C28_codec.roundtrip. Qed.
Print Assumptions C28_codec_roundtrip.

(* two different peers never share a set member *)
Theorem C28_serialize_injective : forall p q,
  valid_peer p = true -> valid_peer q = true -> serialize p = serialize q -> p = q.
Proof. exact Proof.C28_codec.serialize_inj. Qed.
Print Assumptions C28_serialize_injective.

(* the repair reads every entry the pinned decoder could read, identically (entries already
   in Redis stay valid) *)
Theorem C28_backcompat : forall s r, deserialize_old s = Some r -> deserialize s = Some r.
Proof. exact Proof.C28_codec.backcompat. Qed.
Print Assumptions C28_backcompat.

(* key names: distinct (info hash, window) pairs never collide *)
Theorem C28_key_injective : forall h w h' w',
  forallb byte_ok h = true -> forallb byte_ok h' = true ->
  key_string h w = key_string h' w' -> h = h' /\ w = w'.
Proof. exact Proof.C28_codec.key_string_inj. Qed.
Print Assumptions C28_key_injective.

(* ---- time windows (Go's truncated %, any clock value incl. before 1970) ---- *)
(* `visible` (the specification's notion of "still within reach") is exactly: the window the
   announcement was written to is one of the windows GetPeers looks at *)
Theorem C28_visible_is_window : forall c t0 t,
  1 <= W c -> (In (curw c t0) (windows c t) <-> visible c t0 t = true).
Proof. exact Proof.C28_store.visible_iff. Qed.
Print Assumptions C28_visible_is_window.

Theorem C28_retention : forall c t0 t,
  cfg_ok c = true -> t0 <= t -> t <= t0 + (Z.of_nat (M c) - 1) * W c -> visible c t0 t = true.
Proof. exact Proof.C28_store.retention. Qed.
Print Assumptions C28_retention.

Theorem C28_forgotten : forall c t0 t,
  cfg_ok c = true -> 0 <= t0 -> t0 + Z.of_nat (M c) * W c <= t -> visible c t0 t = false.
Proof. exact Proof.C28_store.forgotten. Qed.
Print Assumptions C28_forgotten.

(* the EXPIREAT the store sets never removes a key a reader can still reach, and (clock after
   1970) removes it at the first moment no reader can *)
Theorem C28_expiry_not_early : forall c t0 t,
  cfg_ok c = true -> visible c t0 t = true -> t < expire_at c (curw c t0).
Proof. exact Proof.C28_store.expiry_not_early. Qed.
Print Assumptions C28_expiry_not_early.

Theorem C28_expiry_tight : forall c t0 t,
  cfg_ok c = true -> 0 <= t0 -> t0 <= t -> visible c t0 t = false -> expire_at c (curw c t0) <= t.
Proof. exact Proof.C28_store.expiry_tight. Qed.
Print Assumptions C28_expiry_tight.

(* ---- one identity seen several times (same or different windows): one entry, complete iff
   any occurrence was complete ---- *)
Theorem C28_collapse : forall l i c,
  In (i, c) (collapse l) <-> (exists c0, In (i, c0) l) /\ (c = true <-> In (i, true) l).
Proof. exact Proof.C28_store.collapse_spec. Qed.
Print Assumptions C28_collapse.

Theorem C28_collapse_nodup : forall l, nodup_ident (collapse l) = true.
Proof. exact Proof.C28_store.collapse_nodup. Qed.
Print Assumptions C28_collapse_nodup.

(* ---- the store, over every history of clock steps, announcements and reads, from any start
   time: a read that is not cut short by n returns exactly the announcements within reach —
   same id, address, port; one entry per identity; complete iff one of them was ---- *)
Theorem C28_store_roundtrip : forall c t0 ops,
  wf c ops = true -> forall h, no_inj ops = true ->
  let spec := vis_anns c (hist_anns t0 ops) h (end_time t0 ops) in
  nodup_ident (get_full c (fst (run c (init_at t0) ops)) h) = true /\
  forall i cf, In (i, cf) (get_full c (fst (run c (init_at t0) ops)) h) <->
               (exists c0, In (i, c0) spec) /\ (cf = true <-> In (i, true) spec).
Proof. exact Proof.C28.store_roundtrip. Qed.
Print Assumptions C28_store_roundtrip.

(* ... and whatever else is in the sets (entries of other writers, undecodable garbage):
   no announcement within reach is lost or loses its completion *)
Theorem C28_store_never_loses : forall c t0 ops,
  wf c ops = true -> forall h i c0,
  In (i, c0) (vis_anns c (hist_anns t0 ops) h (end_time t0 ops)) ->
  nodup_ident (get_full c (fst (run c (init_at t0) ops)) h) = true /\
  exists c1, In (i, c1) (get_full c (fst (run c (init_at t0) ops)) h) /\ (c0 = true -> c1 = true).
Proof. exact Proof.C28.store_never_loses. Qed.
Print Assumptions C28_store_never_loses.

(* a read cut short by n: for EVERY order in which windows are visited and EVERY answer of
   SRANDMEMBER (batches of visible members), the result has at most n peers, one per identity,
   each with an identity and flag that an announcement within reach carried *)
Theorem C28_store_sample : forall c t0 ops,
  wf c ops = true -> forall h n orc res, no_inj ops = true ->
  (forall ss, In ss orc ->
     incl ss (visible_members c (view (fst (run c (init_at t0) ops))) h (now (fst (run c (init_at t0) ops))))) ->
  sample_run n [] orc = Some res ->
  legal_sample n (vis_anns c (hist_anns t0 ops) h (end_time t0 ops)) res = true.
Proof. exact Proof.C28.store_sample. Qed.
Print Assumptions C28_store_sample.

(* get_full (the read not cut short by n) is not a separate definition of convenience: it is what
   the loop returns, for any window order, whenever n is at least the number of visible members *)
Theorem C28_full_read_is_loop : forall c d h t n orc,
  (forall x, In x (concat orc) <-> In x (visible_members c d h t)) ->
  Z.of_nat (length (concat orc)) <= n ->
  exists res, sample_run n [] orc = Some res /\ nodup_ident res = true /\
              forall p, In p res <-> In p (collapse (decode_all (visible_members c d h t))).
Proof. exact Proof.C28_store.full_read_is_loop. Qed.
Print Assumptions C28_full_read_is_loop.

Theorem C28_legal_sample_means : forall n entries res,
  legal_sample n entries res = true ->
  Z.of_nat (length res) <= Z.max n 0 /\ nodup_ident res = true /\ incl res entries.
Proof. exact Proof.C28.legal_sample_spec. Qed.
Print Assumptions C28_legal_sample_means.

(* executable form used on observed traces (oks: the sampled results carried by the history
   are results the loop can produce) *)
Theorem C28_check_sound : forall c t0 ops,
  oks (snd (run c (init_at t0) ops)) = true ->
  C28_check c t0 ops (snd (run c (init_at t0) ops)) = true.
Proof. exact Proof.C28.check_sound. Qed.
Print Assumptions C28_check_sound.

(* ---- the pinned commit (len(parts) != 4): refuted, with the strongest true statement ---- *)
Theorem C28_old_decoder_ipv6_refuted :
  exists p, valid_peer p = true /\ deserialize_old (serialize p) = None.
Proof. exact Proof.C28.old_decoder_ipv6_refuted. Qed.
Print Assumptions C28_old_decoder_ipv6_refuted.

(* every address containing ':' is dropped ... *)
Theorem C28_old_decoder_drops_colon : forall p,
  valid_peer p = true -> In 58%N (i_ip (fst p)) -> deserialize_old (serialize p) = None.
Proof. exact Proof.C28_codec.old_drops_colon. Qed.
Print Assumptions C28_old_decoder_drops_colon.

(* ... and exactly the others round-trip *)
Theorem C28_old_roundtrip_partial : forall p,
  valid_peer p = true -> ~ In 58%N (i_ip (fst p)) -> deserialize_old (serialize p) = Some p.
Proof. exact Proof.C28_codec.old_roundtrip_notin. Qed.
Print Assumptions C28_old_roundtrip_partial.

(* end to end: an announced IPv6 peer within reach is not returned *)
Theorem C28_old_store_loses_ipv6_refuted :
  exists c t0 ops h p,
    wf c ops = true /\ no_inj ops = true /\
    In p (vis_anns c (hist_anns t0 ops) h (end_time t0 ops)) /\
    get_full_old c (fst (run c (init_at t0) ops)) h = [].
Proof. exact Proof.C28.old_store_loses_ipv6_refuted. Qed.
Print Assumptions C28_old_store_loses_ipv6_refuted.

(* ---- non-vacuity ---- *)
Definition ex_id : list N := [1;8;15;22;29;36;43;50;57;64;71;78;85;92;99;106;113;120;127;134]%N.
Definition ex_id2 : list N := [0;10;68;75;82;89;96;103;110;117;124;131;138;145;152;159;166;173;180;255]%N.
Definition ex_hash : list N := [3;14;25;36;47;58;69;80;91;102;113;124;135;146;157;168;179;190;201;212]%N.
Definition ex_v6 : ident := mkid ex_id [50;48;48;49;58;100;98;56;58;58;49]%N 16001.      (* "2001:db8::1" *)
Definition ex_host : ident := mkid ex_id2 [108;111;99;97;108;104;111;115;116]%N (-1).   (* "localhost", port -1 *)
Definition ex_cfg : cfg := mkcfg 10 3.
(* announce v6 (incomplete), next window: v6 complete and host; two windows later both still
   within reach; one more window and the first announcement is gone *)
Definition ex_ops : list op :=
  [Upd ex_hash (ex_v6, false); Adv 10; Upd ex_hash (ex_v6, true); Upd ex_hash (ex_host, false);
   Get ex_hash 1 [(ex_host, false)]; Adv 10].

Example C28_nonvacuous_codec :
  valid_peer (ex_v6, true) = true /\ valid_peer (ex_host, false) = true /\
  deserialize (serialize (ex_v6, true)) = Some (ex_v6, true) /\
  deserialize_old (serialize (ex_v6, true)) = None.
Proof. vm_compute. repeat split; reflexivity. Qed.

Example C28_nonvacuous_store :
  wf ex_cfg ex_ops = true /\ no_inj ex_ops = true /\
  oks (snd (run ex_cfg (init_at 1700000005) ex_ops)) = true /\
  vis_anns ex_cfg (hist_anns 1700000005 ex_ops) ex_hash (end_time 1700000005 ex_ops)
    = [(ex_v6, false); (ex_v6, true); (ex_host, false)] /\
  get_full ex_cfg (fst (run ex_cfg (init_at 1700000005) ex_ops)) ex_hash
    = [(ex_v6, true); (ex_host, false)] /\
  get_full_old ex_cfg (fst (run ex_cfg (init_at 1700000005) ex_ops)) ex_hash = [(ex_host, false)].
Proof. vm_compute. repeat split; reflexivity. Qed.

Example C28_nonvacuous_windows :
  cfg_ok ex_cfg = true /\ visible ex_cfg 1700000005 1700000029 = true /\
  visible ex_cfg 1700000005 1700000030 = false /\ visible ex_cfg (-15) 5 = true /\
  windows ex_cfg 1700000025 = [1700000020; 1700000010; 1700000000] /\
  expire_at ex_cfg (curw ex_cfg 1700000005) = 1700000030.
Proof. vm_compute. repeat split; reflexivity. Qed.

Example C28_nonvacuous_sample :
  sample_run 1 [] [[serialize (ex_host, false)]; [serialize (ex_v6, true)]] = Some [(ex_host, false)] /\
  sample_run 2 [] [[serialize (ex_v6, false)]; [serialize (ex_v6, true)]] = Some [(ex_v6, true)].
Proof. vm_compute. split; reflexivity. Qed.
