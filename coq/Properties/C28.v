(* C28 placeholder; statements follow *)
From K.Model Require Import C28.
