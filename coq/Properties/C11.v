(* C11 — no client-supplied name makes a store touch files outside its directory.
   Statements only; every proof is `exact <lemma from Proof/C11.v>`.
   The model is file_entry.go WITH fixes/C11_reject_dot_names.patch; the check of the pinned commit is
   [local_accepts_prefix], refuted below. *)
From Coq Require Import List NArith Bool.
From K.Gen Require Import C11_consts.
From K.Model Require Import PathLib C11.
From K.Proof Require C11.
Import ListNotations.
Local Open Scope N_scope.

(* the name check accepts exactly the clean relative paths made of ordinary elements
   (no empty element, no ".", no "..") — every byte string, any bytes *)
Theorem C11_accepts_exactly_ordinary : forall name, local_accepts name = normal_path name.
Proof. exact Proof.C11.accepts_normal. Qed.
Print Assumptions C11_accepts_exactly_ordinary.

(* containment: for EVERY accepted name, EVERY state directory and EVERY sidecar suffix made of ordinary
   elements, the data file, the entry's directory (what MkdirAll / ReadDir / RemoveAll get) and the sidecar
   lie strictly inside the state directory, and the sidecar inside the entry's own directory *)
Theorem C11_contained : forall dir name, local_accepts name = true ->
  inside (clean dir) (entry_path dir name) = true /\
  inside (clean dir) (entry_dir dir name) = true /\
  forall suffix, normal_path suffix = true ->
    inside (clean dir) (md_path dir name suffix) = true /\
    inside (entry_dir dir name) (md_path dir name suffix) = true.
Proof. exact Proof.C11.contained. Qed.
Print Assumptions C11_contained.

(* the same for the name ParseParam hands to the store *)
Theorem C11_contained_raw : forall raw name dir,
  parse_param raw = Some name -> local_accepts name = true ->
  inside (clean dir) (entry_path dir name) = true /\
  forall suffix, normal_path suffix = true -> inside (clean dir) (md_path dir name suffix) = true.
Proof. exact Proof.C11.contained_raw. Qed.
Print Assumptions C11_contained_raw.

(* the paths, exactly: <clean dir>/<name>/data, <clean dir>/<name>, <clean dir>/<name>/<suffix> *)
Theorem C11_paths_exact : forall dir name suffix, local_accepts name = true -> normal_path suffix = true ->
  entry_path dir name = under (clean dir) (name ++ slash :: data_name) /\
  entry_dir dir name = under (clean dir) name /\
  md_path dir name suffix = under (clean dir) (name ++ slash :: suffix).
Proof. exact Proof.C11.paths_exact. Qed.
Print Assumptions C11_paths_exact.

(* names that cannot be stored are rejected with an error (ErrInvalidName), nothing is touched *)
Theorem C11_rejected_error : forall dir name, normal_path name = false -> local_create dir name = None.
Proof. exact Proof.C11.rejected_error. Qed.
Print Assumptions C11_rejected_error.

(* Create is total: an error, or a path strictly inside *)
Theorem C11_create_error_or_inside : forall dir name,
  (local_create dir name = None /\ local_accepts name = false) \/
  (exists p, local_create dir name = Some p /\ local_accepts name = true /\ inside (clean dir) p = true).
Proof. exact Proof.C11.create_spec. Qed.
Print Assumptions C11_create_error_or_inside.

(* whatever chi routing + ParseParam make of a raw parameter (single or double decoding) *)
Theorem C11_http_contained : forall raw dir,
  match http_name raw with
  | Some name => C11_check dir (local_create dir name) = true
  | None => True
  end.
Proof. exact Proof.C11.http_contained. Qed.
Print Assumptions C11_http_contained.

(* two accepted names never denote the same file *)
Theorem C11_no_alias : forall dir n1 n2, local_accepts n1 = true -> local_accepts n2 = true ->
  entry_path dir n1 = entry_path dir n2 -> n1 = n2.
Proof. exact Proof.C11.no_alias. Qed.
Print Assumptions C11_no_alias.

(* the quantifier is not vacuous: every non-empty byte string IS the decoded value of some parameter *)
Theorem C11_every_name_reachable : forall name, name <> [] -> forallb is_byte name = true ->
  parse_param (escape_all name) = Some name.
Proof. exact Proof.C11.parse_param_reach. Qed.
Print Assumptions C11_every_name_reachable.

Theorem C11_every_name_reachable_via_route : forall name, name <> [] -> forallb is_byte name = true ->
  existsb keep_in_path name = true -> http_name (escape_all name) = Some name.
Proof. exact Proof.C11.http_name_reach. Qed.
Print Assumptions C11_every_name_reachable_via_route.

(* content-addressed entries (names are core.Digest.Hex(): no '/', no '.') *)
Theorem C11_cas_contained : forall dir name, cas_name_ok name = true ->
  cas_path dir name = under (clean dir) (cas_rel name) /\
  inside (clean dir) (cas_path dir name) = true.
Proof. exact Proof.C11.cas_contained. Qed.
Print Assumptions C11_cas_contained.

Theorem C11_cas_rel_exact : forall name, cas_name_ok name = true ->
  cas_rel name = join_slash (cas_shards shard_n name ++ [name; data_name]) /\
  normal_path (cas_rel name) = true.
Proof. exact Proof.C11.cas_rel_exact. Qed.
Print Assumptions C11_cas_rel_exact.

(* [inside] is strict: a directory is not inside itself *)
Theorem C11_inside_strict : forall root, inside root root = false.
Proof. exact Proof.C11.inside_irrefl. Qed.
Print Assumptions C11_inside_strict.

(* executable form used on observed paths *)
Theorem C11_check_sound : forall dir name, C11_check dir (local_create dir name) = true.
Proof. exact Proof.C11.check_sound. Qed.
Print Assumptions C11_check_sound.

(* ---- the pinned commit: its check lets through exactly two more names, and both are wrong *)
Theorem C11_pinned_check_shape : forall name, local_accepts_prefix name = true ->
  name = [dot] \/ name = [dot; dot] \/ normal_path name = true.
Proof. exact Proof.C11.prefix_check_shape. Qed.
Print Assumptions C11_pinned_check_shape.

Theorem C11_dotdot_refuted :
  exists dir name, local_accepts_prefix name = true /\ local_create_prefix dir name = Some (slash :: data_name) /\
                   inside (clean dir) (entry_path dir name) = false /\
                   entry_dir dir name = [slash].
Proof. exact Proof.C11.dotdot_refuted. Qed.
Print Assumptions C11_dotdot_refuted.

Theorem C11_dot_refuted :
  exists dir name, local_accepts_prefix name = true /\ entry_dir dir name = clean dir /\
                   inside (clean dir) (entry_dir dir name) = false.
Proof. exact Proof.C11.dot_refuted. Qed.
Print Assumptions C11_dot_refuted.

(* and the escape is not an accident of one directory: under the pinned check ".." leaves EVERY state
   directory that does not clean to "/" *)
Theorem C11_dotdot_escapes_every_dir : forall dir, clean dir <> [slash] ->
  local_accepts_prefix [dot; dot] = true /\ inside (clean dir) (entry_path dir [dot; dot]) = false.
Proof. exact Proof.C11.dotdot_escapes_everywhere. Qed.
Print Assumptions C11_dotdot_escapes_every_dir.

(* ---- non-vacuity and boundary examples *)

(* "library/ubuntu:22.04" is accepted and lands in /var/cache/u/library/ubuntu:22.04/data *)
Example C11_nonvacuous_accepts :
  let name := [108;105;98;114;97;114;121;47;117;98;117;110;116;117;58;50;50;46;48;52] in
  local_accepts name = true /\
  local_create [47;118;97;114;47;99;97;99;104;101;47;117] name =
    Some ([47;118;97;114;47;99;97;99;104;101;47;117;47] ++ name ++ [47;100;97;116;97]).
Proof. vm_compute. split; reflexivity. Qed.

(* the hostile shapes are all refused *)
Example C11_rejects_hostile :
  map local_accepts
    [[dot; dot]; [dot]; []; [slash]; [dot; dot; slash; 97]; [97; slash; dot; dot]; [97; slash; slash; 98];
     [97; slash]; [slash; 97]; [97; slash; dot; slash; 98]; [97; slash; dot; dot; slash; dot; dot]]
  = [false; false; false; false; false; false; false; false; false; false; false].
Proof. vm_compute. reflexivity. Qed.

(* "..." and "..a" are ordinary file names *)
Example C11_accepts_dotty :
  map local_accepts [[dot; dot; dot]; [dot; dot; 97]; [97; dot; dot]; [dot; 97]] = [true; true; true; true].
Proof. vm_compute. reflexivity. Qed.

(* [inside] discriminates: /s/a/data is inside /s; /data, /s itself, /s/../data, /sa/data are not *)
Example C11_inside_examples :
  map (inside [slash; 115])
    [[slash;115;slash;97;slash;100]; [slash;100]; [slash;115]; [slash;115;slash;dot;dot;slash;100]; [slash;115;97;slash;100];
     [115;slash;97]]
  = [true; false; false; false; false; false].
Proof. vm_compute. reflexivity. Qed.

(* %2E%2E, %2e%2e and the doubly encoded %252E%252E all reach the store as ".." *)
Example C11_dotdot_reachable :
  http_name [37;50;69;37;50;69] = Some [dot; dot] /\
  http_name [37;50;101;37;50;101] = Some [dot; dot] /\
  http_name [37;50;53;50;69;37;50;53;50;69] = Some [dot; dot] /\
  http_name [dot; dot] = Some [dot; dot].
Proof. vm_compute. repeat split; reflexivity. Qed.

(* malformed or empty parameters are an error before the store is reached *)
Example C11_malformed_param :
  map parse_param [[]; [37]; [37; 50]; [37; 122; 122]; [97; 37; 50; 103]] = [None; None; None; None; None].
Proof. vm_compute. reflexivity. Qed.

(* the sidecar suffixes that exist in the source are ordinary elements (so C11_contained applies to them);
   literals are extracted from /repo on every run *)
Example C11_suffixes_ordinary :
  map normal_path [persist_suffix; lat_suffix; torrentmeta_suffix; startedat_suffix; piecestatus_suffix;
                   (* _hashstates/sha256/0 : hashstate_fmt with algo and offset filled in *)
                   [95;104;97;115;104;115;116;97;116;101;115;47;115;104;97;50;53;54;47;48]]
  = [true; true; true; true; true; true] /\
  normal_path data_name = true /\ existsb (N.eqb slash) data_name = false /\ shard_n = 2%nat /\
  hashstate_fmt = [95;104;97;115;104;115;116;97;116;101;115;47;37;115;47;37;115].
Proof. vm_compute. repeat split; reflexivity. Qed.

(* blob names: whatever digest parameter parses, the CAS paths of its hex part are inside the store *)
Theorem C11_blob_name_contained : forall raw h dir, parse_digest raw = Some h ->
  inside (clean dir) (cas_path dir h) = true.
Proof. exact Proof.C11.blob_name_contained. Qed.
Print Assumptions C11_blob_name_contained.

(* sha256:../../… padded to 64 characters, a digest with two ':' and an empty one are refused; upper-case hex parses *)
Example C11_digest_examples :
  map (fun r => match parse_digest r with Some _ => true | None => false end)
    [ [115;104;97;50;53;54;58] ++ repeat 48 64;
      [115;104;97;50;53;54;58] ++ repeat 65 64;
      [115;104;97;50;53;54;58] ++ [46;46;47] ++ repeat 48 61;
      [115;104;97;50;53;54;58] ++ repeat 48 63;
      [115;104;97;50;53;54;58;58] ++ repeat 48 64;
      [115;104;97;49;58] ++ repeat 48 64;
      [] ]
  = [true; true; false; false; false; false; false].
Proof. vm_compute. reflexivity. Qed.
