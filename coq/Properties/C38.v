(* C38 — registry path parsing recovers exactly the components it was built from.
   Statements only; every proof is `exact <lemma of Proof/C38*.v>`.

   Model/C38.v: `build k` is the storage path docker/distribution builds for kind k (revision link,
   tag current/index link, layer link, blob data, upload data/startedat/hashstates ...);
   `parse_path` and the `get_*` functions are paths.go's ParsePath and Get* extractors, i.e. the
   pattern trees below run by a backtracking matcher with Go's preference order; `expected k` is what
   the property demands of all eight functions on `build k`.  `pk_ok` is weaker than the documented
   grammars (`pk_valid`: docker repository / tag names, 64 lower-case hex digits, uuid text).
   The `sh_*` predicates (Proof/C38_shapes.v) spell out "follows the layout". *)
From Coq Require Import List NArith Bool.
From K.Gen Require Import C38_consts.
From K.Model Require Import C38 C38_layout.
From K.Proof Require C38 C38_shapes C38_engine C38_segs C38_repo C38_layout.
Import ListNotations.
Import K.Proof.C38_shapes K.Proof.C38_engine K.Proof.C38.

(* the twelve pattern trees the theorems are about print to exactly the regular-expression
   literals found in paths.go today (and lie in the fragment the printer reads back
   unambiguously); the root of the layout is paths.go's _repositoryRoot *)
Theorem C38_patterns_are_source : table_ok (pattern_table ast_get_repo) = true.
Proof. exact Proof.C38.patterns_are_source. Qed.
Print Assumptions C38_patterns_are_source.
Theorem C38_root_is_source : repository_root = v2_root ++ sl s_repositories.
Proof. exact Proof.C38.roots_are_source. Qed.
Print Assumptions C38_root_is_source.

(* the matcher is sound and complete for the declarative reading D of a pattern; when all
   declarative matches of a text agree on the captures the matcher returns them *)
Theorem C38_matcher_sound : forall r p c, exec r p = Some c -> exists s1 s2, p = s1 ++ s2 /\ D r s1 s2 c.
Proof. exact Proof.C38_engine.exec_sound. Qed.
Print Assumptions C38_matcher_sound.
Theorem C38_matcher_complete : forall r s1 s2 c, D r s1 s2 c -> exec r (s1 ++ s2) <> None.
Proof. exact Proof.C38_engine.exec_complete. Qed.
Print Assumptions C38_matcher_complete.

(* clause 1: classification returns the kind of path that was built *)
Theorem C38_classify : forall k, pk_ok k = true -> parse_path (build k) = o_parse (expected k).
Proof. exact Proof.C38.parse_built. Qed.
Print Assumptions C38_classify.

(* clause 2: the extractors return exactly the components (and nothing for a kind that does
   not carry the component) *)
Theorem C38_extract_repo : forall k, pk_ok k = true -> get_repo (build k) = o_repo (expected k).
Proof. exact Proof.C38.repo_built. Qed.
Print Assumptions C38_extract_repo.
Theorem C38_extract_tag : forall k, pk_ok k = true -> get_manifest_tag (build k) = o_tag (expected k).
Proof. exact Proof.C38.tag_built. Qed.
Print Assumptions C38_extract_tag.
Theorem C38_extract_blob : forall k, pk_ok k = true -> get_blob_digest (build k) = o_blob (expected k).
Proof. exact Proof.C38.blob_built. Qed.
Print Assumptions C38_extract_blob.
Theorem C38_extract_layer : forall k, pk_ok k = true -> get_layer_digest (build k) = o_layer (expected k).
Proof. exact Proof.C38.layer_built. Qed.
Print Assumptions C38_extract_layer.
Theorem C38_extract_manifest : forall k, pk_ok k = true -> get_manifest_digest (build k) = o_manifest (expected k).
Proof. exact Proof.C38.manifest_built. Qed.
Print Assumptions C38_extract_manifest.
Theorem C38_extract_uuid : forall k, pk_ok k = true -> get_upload_uuid (build k) = o_uuid (expected k).
Proof. exact Proof.C38.uuid_built. Qed.
Print Assumptions C38_extract_uuid.
Theorem C38_extract_algo_offset : forall k, pk_ok k = true -> get_upload_algo_offset (build k) = o_algo (expected k).
Proof. exact Proof.C38.algo_built. Qed.
Print Assumptions C38_extract_algo_offset.

(* clauses 1+2 for the documented grammars, all eight functions at once *)
Theorem C38_valid_names : forall k, pk_valid k = true -> observe (build k) = expected k.
Proof. exact Proof.C38.observe_valid. Qed.
Print Assumptions C38_valid_names.
Theorem C38_valid_implies_ok : forall k, pk_valid k = true -> pk_ok k = true.
Proof. exact Proof.C38_segs.pk_valid_ok. Qed.
Print Assumptions C38_valid_implies_ok.

(* GetRepo for every path of the form <root>/repositories/<repo>/<keyword>..., whatever follows
   (the preference order of the lazy quantifiers is what makes this hold) *)
Theorem C38_extract_repo_any_suffix : forall r kw rest, repo_ok r = true ->
  kw = s_manifests \/ kw = s_layers \/ kw = s_uploads ->
  exec ast_get_repo (repo_dir r ++ SL :: kw ++ rest) = Some [r].
Proof. exact Proof.C38_repo.get_repo_built. Qed.
Print Assumptions C38_extract_repo_any_suffix.

(* clause 3: paths that do not follow the layout are rejected — whatever is accepted has the
   layout's shape, with the returned component at its place *)
Theorem C38_rejects_parse : forall p ty st, parse_path p = Some (ty, st) -> follows_layout ty st p.
Proof. exact Proof.C38.parse_rejects. Qed.
Print Assumptions C38_rejects_parse.
Theorem C38_rejects_repo : forall p r, get_repo p = Some r -> exists t1 t2, p = t1 ++ t2 /\ sh_repo t1 [r].
Proof. exact Proof.C38.repo_rejects. Qed.
Print Assumptions C38_rejects_repo.
Theorem C38_rejects_tag : forall p t cur, get_manifest_tag p = Some (t, cur) ->
  exists x, sh_tag p [] [t; x] /\ cur = str_eqb x s_current.
Proof. exact Proof.C38.tag_rejects. Qed.
Print Assumptions C38_rejects_tag.
Theorem C38_rejects_blob : forall p h, get_blob_digest p = Some h -> sh_blob p [] h /\ valid_sha256_hex h = true.
Proof. exact Proof.C38.blob_rejects. Qed.
Print Assumptions C38_rejects_blob.
Theorem C38_rejects_layer : forall p h, get_layer_digest p = Some h -> (exists x, sh_layer p [] h x) /\ valid_sha256_hex h = true.
Proof. exact Proof.C38.layer_rejects. Qed.
Print Assumptions C38_rejects_layer.
Theorem C38_rejects_manifest : forall p h, get_manifest_digest p = Some h -> sh_mdigest p [] [h] /\ valid_sha256_hex h = true.
Proof. exact Proof.C38.manifest_rejects. Qed.
Print Assumptions C38_rejects_manifest.
Theorem C38_rejects_uuid : forall p u, get_upload_uuid p = Some u -> sh_uuid p [] [u].
Proof. exact Proof.C38.uuid_rejects. Qed.
Print Assumptions C38_rejects_uuid.
Theorem C38_rejects_algo_offset : forall p a o, get_upload_algo_offset p = Some (a, o) -> sh_algo p [] [a; o].
Proof. exact Proof.C38.algo_rejects. Qed.
Print Assumptions C38_rejects_algo_offset.

(* clause 3 in executable form (Model/C38_layout.v: recognisers written without the matcher):
   every answer of the eight functions, on any path whatsoever, is consistent with the layout *)
Theorem C38_accepted_follow_layout : forall p, obs_follows_layout p (observe p) = true.
Proof. exact Proof.C38_layout.observe_follows_layout. Qed.
Print Assumptions C38_accepted_follow_layout.

(* executable form of the whole property, used on observed cases *)
Theorem C38_check_sound : forall path built, C38_check2 path built (observe path) = true.
Proof. exact Proof.C38_layout.check2_sound. Qed.
Print Assumptions C38_check_sound.

(* the pattern as shipped before fixes/C38_getrepo_lazy.patch (greedy quantifiers) returns a wrong
   repository for valid names: "foo/repositories/bar" -> "bar", tag "_layers" -> "foo/_manifests/tags" *)
Theorem C38_repo_component_refuted :
  pk_valid w_repo_component = true
  /\ get_repo_prefix (build w_repo_component) = Some [98; 97; 114]%N
  /\ get_repo_prefix (build w_repo_component) <> o_repo (expected w_repo_component).
Proof. exact Proof.C38.shipped_repo_component_refuted. Qed.
Print Assumptions C38_repo_component_refuted.
Theorem C38_keyword_tag_refuted :
  pk_valid w_keyword_tag = true
  /\ get_repo_prefix (build w_keyword_tag) = Some ([102; 111; 111]%N ++ sl s_manifests ++ sl s_tags)
  /\ get_repo_prefix (build w_keyword_tag) <> o_repo (expected w_keyword_tag).
Proof. exact Proof.C38.shipped_keyword_tag_refuted. Qed.
Print Assumptions C38_keyword_tag_refuted.

(* non-vacuity: valid components of every kind (repository with a `repositories` component, tags
   "_uploads" / "_manifests"), on which all eight functions answer as the property demands *)
Example C38_nonvacuous :
  forallb pk_valid ex_kinds = true
  /\ forallb (fun k => obs_eqb (observe (build k)) (expected k)) ex_kinds = true
  /\ length ex_kinds = 12.
Proof. vm_compute. repeat split; reflexivity. Qed.
(* non-vacuity of the rejection theorems: each function accepts some path *)
Example C38_nonvacuous_accepts :
  parse_path (build (KBlob ex_hex)) = Some (pt_blobs, st_data)
  /\ get_upload_algo_offset (build (KUploadHashState ex_repo ex_uuid s_sha256 [52; 50]%N)) = Some (s_sha256, [52; 50]%N)
  /\ get_manifest_tag (build (KTagIndex ex_repo s_manifests ex_hex)) = Some (s_manifests, false).
Proof. vm_compute. repeat split; reflexivity. Qed.
(* ... and rejects near misses *)
Example C38_rejects_examples :
  parse_path (v2_root ++ sl s_manifests ++ sl s_tags ++ sl s_link) = None            (* .../_manifests/tags/link: nothing between *)
  /\ get_blob_digest (v2_root ++ sl s_blobs ++ sl s_sha256 ++ sl [97; 97; 97]%N ++ sl ex_hex ++ sl s_data) = None  (* 3-char shard *)
  /\ get_upload_uuid (sl s_uploads ++ sl ex_uuid ++ sl s_data) = None    (* empty prefix *)
  /\ get_repo (build (KBlob ex_hex)) = None.
Proof. vm_compute. repeat split; reflexivity. Qed.
