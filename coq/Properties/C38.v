From Coq Require Import List NArith Bool.
From K.Gen Require Import C38_consts.
From K.Model Require Import C38.
From K.Proof Require C38.
Import ListNotations.

Theorem C38_patterns_are_source : table_ok (pattern_table ast_get_repo) = true.
Proof. exact Proof.C38.patterns_are_source. Qed.
Print Assumptions C38_patterns_are_source.
