(* C18 — idle timeouts follow real activity and never delete completed blobs.
   Statements only; proofs are in Proof/C18.v. *)
From Coq Require Import List NArith Bool.
From K.Model Require Import C18.
From K.Proof Require C18.
Import ListNotations.
Local Open Scope N_scope.

(* A completed torrent is dropped as idle only after it has served no piece for the seeder
   idle limit: for every timeline, every effective upload (a piece reader opened and closed
   for a requesting peer) lies at least seeder_tti before the dropping tick. *)
Theorem C18_seeder_drop_only_if_idle : forall sd c t0 ops,
  let s := run c (init sd c t0) ops in
  present s = true -> complete s = true -> present (step c s Tick) = false ->
  seeder_tti c <= now s - t0 /\
  forall t, In t (uploads c (init sd c t0) ops) -> seeder_tti c <= now s - t /\ t <= now s.
Proof. exact Proof.C18.seeder_drop_only_if_idle. Qed.
Print Assumptions C18_seeder_drop_only_if_idle.

(* An in-progress torrent is dropped as idle only after it has received no piece for the
   leecher idle limit. *)
Theorem C18_leecher_drop_only_if_idle : forall sd c t0 ops,
  let s := run c (init sd c t0) ops in
  present s = true -> complete s = false -> present (step c s Tick) = false ->
  leecher_tti c <= now s - t0 /\
  forall t, In t (downloads c (init sd c t0) ops) -> leecher_tti c <= now s - t /\ t <= now s.
Proof. exact Proof.C18.leecher_drop_only_if_idle. Qed.
Print Assumptions C18_leecher_drop_only_if_idle.

(* Conversely, a tick keeps a torrent only when its creation or an upload (complete) resp.
   a download (in progress) is more recent than the limit. *)
Theorem C18_kept_only_if_active : forall sd c t0 ops,
  let s := run c (init sd c t0) ops in
  present s = true -> present (step c s Tick) = true ->
  exists t, t <= now s /\
    ((complete s = true /\ now s - t < seeder_tti c /\ (t = t0 \/ In t (uploads c (init sd c t0) ops))) \/
     (complete s = false /\ now s - t < leecher_tti c /\ (t = t0 \/ In t (downloads c (init sd c t0) ops)))).
Proof. exact Proof.C18.kept_only_if_active. Qed.
Print Assumptions C18_kept_only_if_active.

(* Dropping a completed torrent never deletes the cached blob: along every timeline the blob
   disappears only through a manual removal. *)
Theorem C18_drop_complete_keeps_blob : forall sd c t0 ops o,
  let s := run c (init sd c t0) ops in blob s = true -> o <> Cancel -> blob (step c s o) = true.
Proof. exact Proof.C18.blob_kept_run. Qed.
Print Assumptions C18_drop_complete_keeps_blob.

(* Dropping or cancelling an in-progress download deletes its partial file. *)
Theorem C18_drop_incomplete_deletes_partial : forall c s o,
  present s = true -> complete s = false -> (o = Tick \/ o = Cancel) ->
  present (step c s o) = false -> partialf (step c s o) = false /\ blob (step c s o) = false.
Proof. exact Proof.C18.drop_incomplete_deletes_partial. Qed.
Print Assumptions C18_drop_incomplete_deletes_partial.

(* executable form used on observed timelines *)
Theorem C18_check_sound : forall sd c t0 ops, C18_check sd c t0 ops (trace c (init sd c t0) ops) = true.
Proof. exact Proof.C18.check_sound. Qed.
Print Assumptions C18_check_sound.

(* the code before the fix (lastRead touched only when Close FAILS) drops a seeder that
   served a piece two seconds earlier *)
Theorem C18_inverted_close_refuted :
  exists c t0 ops,
    let s := run_prefix c (init true c t0) ops in
    present s = true /\ complete s = true /\ present (step_prefix c s Tick) = false /\
    exists t, In t (uploads c (init true c t0) ops) /\ now s - t < seeder_tti c.
Proof. exact Proof.C18.inverted_close_refuted. Qed.
Print Assumptions C18_inverted_close_refuted.

(* non-vacuity: a seeder that serves at 109 is kept by the tick at 111 and dropped at 119;
   a leecher that received a piece at 105 is dropped at 165 and its partial file deleted *)
Example C18_nonvacuous_seeder :
  let c := mkCfg 10 60 3 in
  let s1 := run c (init true c 100) [Advance 9; Serve 0 true; Advance 2] in
  let s2 := run c (init true c 100) [Advance 9; Serve 0 true; Advance 10] in
  (present (step c s1 Tick), present (step c s2 Tick), blob (step c s2 Tick)) = (true, false, true).
Proof. vm_compute. reflexivity. Qed.
Example C18_nonvacuous_leecher :
  let c := mkCfg 10 60 3 in
  let s := run c (init false c 100) [Advance 5; Write 1 true; Advance 60] in
  (present s, complete s, present (step c s Tick), partialf (step c s Tick)) = (true, false, false, false).
Proof. vm_compute. reflexivity. Qed.
