From Coq Require Import List ZArith.
From K.Model Require Import C14.
From K.Proof Require C14.
Theorem C14_placeholder : True.
Proof. exact Proof.C14.placeholder. Qed.
