(* C14 — no input from a remote peer can crash or corrupt a peer.
   Statements only; every proof is `exact <lemma from Proof/C14*.v>`.

   Level: DECODED handshakes and messages with ALL field values (any Z for every int32 / uint64 field, any
   combination of present and missing bodies, any bitfield bit count and words, any frame size), delivered to
   agent and origin torrents, from any peers, in any order and number (histories = lists of events).
   Byte-level protobuf decoding is outside the model (its result is the model's input).
   The code modelled is the code with fixes/C14_*.patch ([gfixed]); the code without each guard is refuted below. *)
From Coq Require Import List ZArith Bool.
From K.Model Require Import C14.
From K.Proof Require C14 C14_main C14_frame C14_sound C14_sched C14_refute.
Import ListNotations.
Local Open Scope Z_scope.

(* ---- clause "makes an agent or origin panic": no history of handshakes, messages and hang-ups panics.
   [inv]: piece table and counters have NumPieces entries, every connected peer's bitfield is clean (what addPeer
   admits); [wf_event]: a decoded bitfield lies inside the frame it arrived in. *)
Theorem C14_total : forall t s evs,
  wf_torrent t = true -> inv t s = true -> forallb wf_event evs = true ->
  run_events gfixed t s evs <> None.
Proof. exact Proof.C14_main.total. Qed.
Print Assumptions C14_total.

(* the invariant is inductive, and holds initially: the theorems speak about every reachable state *)
Theorem C14_inv_preserved : forall t s evs s' es,
  wf_torrent t = true -> inv t s = true -> forallb wf_event evs = true ->
  run_events gfixed t s evs = Some (s', es) -> inv t s' = true.
Proof. exact Proof.C14_main.inv_preserved. Qed.
Print Assumptions C14_inv_preserved.

Theorem C14_inv_initial : forall t have,
  wf_torrent t = true -> zlen have = t_n t -> inv t (init t have) = true.
Proof. exact Proof.C14_main.init_inv_b. Qed.
Print Assumptions C14_inv_initial.

(* ---- clause "allocate without bound": every allocation whose size derives from the wire is at most
   max(maxMessageSize, piece length); maxMessageSize is read from conn.go on every run *)
Theorem C14_alloc_bounded : forall t s evs s' es n,
  wf_torrent t = true -> inv t s = true -> forallb wf_event evs = true ->
  run_events gfixed t s evs = Some (s', es) -> In (EAlloc n) es -> n <= Z.max max_msg (t_p t).
Proof. exact Proof.C14_main.alloc_bounded. Qed.
Print Assumptions C14_alloc_bounded.

Example C14_max_message_size : max_msg = 32768.
Proof. vm_compute. reflexivity. Qed.

(* ---- clause "read or write outside the blob" *)
Theorem C14_in_bounds : forall t s evs s' es i,
  wf_torrent t = true -> inv t s = true -> forallb wf_event evs = true ->
  run_events gfixed t s evs = Some (s', es) -> In (EPiece i) es \/ In (ECounter i) es \/ In (EBit i) es ->
  0 <= i < t_n t.
Proof. exact Proof.C14_main.index_in_bounds. Qed.
Print Assumptions C14_in_bounds.

Theorem C14_file_in_bounds : forall t s evs s' es off len,
  wf_torrent t = true -> inv t s = true -> forallb wf_event evs = true ->
  run_events gfixed t s evs = Some (s', es) -> In (EFileRd off len) es \/ In (EFileWr off len) es ->
  0 <= off /\ 0 <= len /\ off + len <= t_len t.
Proof. exact Proof.C14_main.file_in_bounds. Qed.
Print Assumptions C14_file_in_bounds.

(* what the peer sends in response names pieces of the torrent, with their true lengths *)
Theorem C14_sends_in_bounds : forall t s evs s' es q r,
  wf_torrent t = true -> inv t s = true -> forallb wf_event evs = true ->
  run_events gfixed t s evs = Some (s', es) -> In (ESend q r) es -> reply_ok t r = true.
Proof. exact Proof.C14_main.sends_in_bounds. Qed.
Print Assumptions C14_sends_in_bounds.

(* ---- clause "such input is rejected or ends that connection, and the peer keeps serving its other
   connections": a message of q leaves every other connection and its bitfield alone; another peer is dropped only
   in the step in which the torrent completes, and only if that peer is complete as well (dispatcher.go complete()) *)
Theorem C14_other_conns_unaffected : forall t s q m a q' b,
  wf_torrent t = true -> inv t s = true -> uniq s = true ->
  step gfixed t s q m = Some a -> q' <> q -> find_peer (d_peers s) q' = Some b ->
  find_peer (d_peers (a_st a)) q' = Some b \/
  (find_peer (d_peers (a_st a)) q' = None /\ b_all b = true /\ all_have s = false /\ all_have (a_st a) = true).
Proof. exact Proof.C14_frame.others_unaffected_b. Qed.
Print Assumptions C14_other_conns_unaffected.

(* [uniq] (one entry per peer id, as in the Go map) holds in every reachable state *)
Theorem C14_uniq_preserved : forall t evs s s' es,
  wf_torrent t = true -> inv t s = true -> uniq s = true -> forallb wf_event evs = true ->
  run_events gfixed t s evs = Some (s', es) -> uniq s' = true.
Proof. exact Proof.C14_frame.uniq_preserved. Qed.
Print Assumptions C14_uniq_preserved.

Theorem C14_handshake_others_unaffected : forall g t s q h q',
  q' <> q ->
  match handshake g t s q h with
  | HAccept a => find_peer (d_peers (a_st a)) q' = find_peer (d_peers s) q'
  | _ => True          (* rejected: the state is the old state by definition of apply_event *)
  end.
Proof. exact Proof.C14_frame.handshake_others_unaffected. Qed.
Print Assumptions C14_handshake_others_unaffected.

Theorem C14_hangup_others_unaffected : forall s q a q',
  hangup s q = Some a -> q' <> q ->
  find_peer (d_peers (a_st a)) q' = find_peer (d_peers s) q' /\ d_have (a_st a) = d_have s.
Proof. exact Proof.C14_frame.hangup_others_unaffected. Qed.
Print Assumptions C14_hangup_others_unaffected.

(* ---- "corrupt": a piece becomes complete only through a payload for exactly that piece — index in range,
   offset 0, the piece's length, bytes with the piece sum — and nothing else in the piece table changes *)
Theorem C14_pieces_only_by_valid_payload : forall t s q m a,
  wf_torrent t = true -> inv t s = true -> step gfixed t s q m = Some a ->
  d_have (a_st a) = d_have s \/
  (exists i off len, m_ty m = 2 /\ m_pay m = Some (i, off, len) /\ 0 <= i < t_n t /\ off = 0 /\ len = plen t i /\
                     m_sumok m = true /\ t_kind t = Agent /\ zget (d_have s) i false = false /\
                     d_have (a_st a) = zset (d_have s) i true).
Proof. exact Proof.C14_frame.have_only_by_valid_payload_b. Qed.
Print Assumptions C14_pieces_only_by_valid_payload.

(* ---- the property in executable form: the oracle the runner evaluates on the implementation's observations
   holds of the model's own observations, for every torrent (piece length up to the 32 MiB threshold of the
   driver's allocation meter), every initial piece table, every handshake and every list of messages *)
Theorem C14_check_sound : forall t have bfull h ms,
  wf_torrent t = true -> zlen have = t_n t -> t_p t <= big_thr -> wf_hs h = true ->
  C14_check t have bfull h ms (run_case gfixed t have bfull h ms) = true.
Proof. exact Proof.C14_sound.check_sound. Qed.
Print Assumptions C14_check_sound.

(* ---- at the scheduler (scheduler.go establishIncomingHandshake, with fixes/C14_infohash_mismatch.patch): an
   incoming connection that has ended — refused, answered and closed, or served — leaves no pending or active
   entry behind (the entries themselves are C16's model), so each attempt is answered by its own fields alone *)
Theorem C14_ended_connection_leaves_no_entry : forall s a, fst (sched_attempt true s a) = s.
Proof. exact Proof.C14_sched.attempt_leaves_nothing. Qed.
Print Assumptions C14_ended_connection_leaves_no_entry.

Theorem C14_sched_check_sound : forall l, C14_sched_check l (snd (sched_run true sinit l)) = true.
Proof. exact Proof.C14_sched.sched_check_sound. Qed.
Print Assumptions C14_sched_check_sound.

(* before that fix: a handshake whose info hash is not the hash of the torrent its digest names leaves an entry
   for ever; n such handshakes leave n entries, for every n; the same handshake sent twice is answered differently *)
Theorem C14_infohash_mismatch_refuted :
  (exists s a, ss_pending (fst (sched_attempt false s a)) <> ss_pending s) /\
  snd (sched_run false sinit [mksa 1 7 true true; mksa 1 7 true true]) = [1; 0] /\
  snd (sched_run true sinit [mksa 1 7 true true; mksa 1 7 true true]) = [0; 0] /\
  forall n, length (ss_pending (fst (sched_run false sinit (Proof.C14_sched.foreign_from 0 n)))) = n.
Proof. exact Proof.C14_sched.unguarded_leak_refuted. Qed.
Print Assumptions C14_infohash_mismatch_refuted.

(* ---- the code before the fixes: each guard removed on its own breaks the property (witnesses = driver seeds) *)
Theorem C14_nil_body_refuted :
  wf_torrent C14_refute.tA = true /\ inv C14_refute.tA (C14_refute.with_peer C14_refute.tA C14_refute.haveA) = true /\
  step C14_refute.no_nilbody C14_refute.tA (C14_refute.with_peer C14_refute.tA C14_refute.haveA) 1 (C14_refute.msg 3 None None None None) = None /\
  step C14_refute.no_nilbody C14_refute.tA (C14_refute.with_peer C14_refute.tA C14_refute.haveA) 1 (C14_refute.msg 1 None None None None) = None /\
  step C14_refute.no_nilbody C14_refute.tA (C14_refute.with_peer C14_refute.tA C14_refute.haveA) 1 (C14_refute.msg 5 None None None None) = None /\
  step C14_refute.no_nilbody C14_refute.tA (C14_refute.with_peer C14_refute.tA C14_refute.haveA) 1 (C14_refute.msg 2 None None None None) = None /\
  step C14_refute.no_nilbody C14_refute.tO (C14_refute.with_peer C14_refute.tO C14_refute.haveO) 1 (C14_refute.msg 3 None None None None) = None.
Proof. exact Proof.C14_refute.nil_body_refuted. Qed.
Print Assumptions C14_nil_body_refuted.

Theorem C14_negative_index_refuted :
  step C14_refute.no_negidx C14_refute.tA (C14_refute.with_peer C14_refute.tA C14_refute.haveA) 1 (C14_refute.msg 3 None None (Some (-1)) None) = None /\
  step C14_refute.no_negidx C14_refute.tA (C14_refute.with_peer C14_refute.tA C14_refute.haveA) 1 (C14_refute.msg 3 None None (Some (-5)) None) = None /\
  step C14_refute.no_negidx C14_refute.tO (C14_refute.with_peer C14_refute.tO C14_refute.haveO) 1 (C14_refute.msg 3 None None (Some (-2147483648)) None) = None /\
  step C14_refute.no_negidx C14_refute.tA (C14_refute.with_peer C14_refute.tA C14_refute.haveA) 1 (C14_refute.msg 1 (Some (-1, 0, 0)) None None None) = None /\
  step C14_refute.no_negidx C14_refute.tO (C14_refute.with_peer C14_refute.tO C14_refute.haveO) 1 (C14_refute.msg 1 (Some (-1, 0, 0)) None None None) = None /\
  step C14_refute.no_negidx C14_refute.tA (C14_refute.with_peer C14_refute.tA C14_refute.haveA) 1 (C14_refute.msg 2 None (Some (-1, 0, 0)) None None) = None.
Proof. exact Proof.C14_refute.negative_index_refuted. Qed.
Print Assumptions C14_negative_index_refuted.

Theorem C14_payload_length_refuted :
  step C14_refute.no_paylen C14_refute.tA (C14_refute.with_peer C14_refute.tA C14_refute.haveA) 1 (C14_refute.msg 2 None (Some (1, 0, -1)) None None) = None /\
  (exists a, step C14_refute.no_paylen C14_refute.tA (C14_refute.with_peer C14_refute.tA C14_refute.haveA) 1
               (mkm 16 true 2 None (Some (1, 0, 2147483647)) None None false false) = Some a /\
             In (EAlloc 2147483647) (a_eff a) /\ eff_ok C14_refute.tA (EAlloc 2147483647) = false).
Proof. exact Proof.C14_refute.payload_length_refuted. Qed.
Print Assumptions C14_payload_length_refuted.

Theorem C14_bitfield_prefix_refuted :
  wf_hs (C14_refute.hs (Some (2 ^ 50, [], 0)) []) = true /\
  (exists st es, handshake C14_refute.no_bfprefix C14_refute.tA (init C14_refute.tA C14_refute.haveA) 1 (C14_refute.hs (Some (2 ^ 50, [], 0)) []) = HReject st es /\
                 In (EAlloc (2 ^ 47)) es /\ eff_ok C14_refute.tA (EAlloc (2 ^ 47)) = false) /\
  (exists st es, handshake C14_refute.no_bfprefix C14_refute.tA (init C14_refute.tA C14_refute.haveA) 1
                   (C14_refute.hs (Some (4, [0], 8)) [(true, Some (2 ^ 50, [], 0))]) = HReject st es /\
                 In (EAlloc (2 ^ 47)) es).
Proof. exact Proof.C14_refute.bitfield_prefix_refuted. Qed.
Print Assumptions C14_bitfield_prefix_refuted.

Theorem C14_bitfield_size_refuted :
  wf_hs (C14_refute.hs (Some (5, [16], 8)) []) = true /\
  handshake C14_refute.no_bfsize C14_refute.tA (init C14_refute.tA C14_refute.haveA) 1 (C14_refute.hs (Some (5, [16], 8)) []) = HPanic /\
  handshake C14_refute.no_bfsize C14_refute.tA (init C14_refute.tA C14_refute.haveA) 1 (C14_refute.hs (Some (64, [18446744073709551615], 8)) []) = HPanic /\
  handshake C14_refute.no_bfsize C14_refute.tA (init C14_refute.tA C14_refute.haveA) 1 (C14_refute.hs (Some (4, [1099511627776], 8)) []) = HPanic /\
  handshake C14_refute.no_bfsize C14_refute.tO (init C14_refute.tO C14_refute.haveO) 1 (C14_refute.hs (Some (65, [0; 1], 16)) []) = HPanic.
Proof. exact Proof.C14_refute.bitfield_size_refuted. Qed.
Print Assumptions C14_bitfield_size_refuted.

(* ---- non-vacuity: a reachable state with two peers; a history that is accepted, changes the state, completes
   the torrent; the hypotheses of the theorems hold of it *)
Example C14_nonvacuous_state :
  let t := mkt Agent 4 8 29 in
  let s := C14_refute.with_peer t [true; false; false; false] in
  wf_torrent t = true /\ inv t s = true /\ uniq s = true /\ d_peers s <> [] /\
  forallb wf_event [EvHs 2 (C14_refute.hs (Some (4, [0], 8)) []);
                    EvMsg 1 (C14_refute.msg 3 None None (Some 2) None);
                    EvMsg 1 (mkm 20 true 2 None (Some (2, 0, 8)) None None true true);
                    EvMsg 2 (C14_refute.msg 1 (Some (2, 0, 8)) None None None);
                    EvMsg 1 (C14_refute.msg 3 None None (Some (-1)) None);
                    EvHangup 1] = true.
Proof. vm_compute. repeat split; try reflexivity. discriminate. Qed.

Example C14_nonvacuous_history :
  let t := mkt Agent 4 8 29 in
  let s := C14_refute.with_peer t [true; false; false; false] in
  exists s' es,
    run_events gfixed t s [EvHs 2 (C14_refute.hs (Some (4, [0], 8)) []);
                           EvMsg 1 (C14_refute.msg 3 None None (Some 2) None);
                           EvMsg 1 (mkm 20 true 2 None (Some (2, 0, 8)) None None true true);
                           EvMsg 2 (C14_refute.msg 1 (Some (2, 0, 8)) None None None);
                           EvMsg 1 (C14_refute.msg 3 None None (Some (-1)) None);
                           EvHangup 1] = Some (s', es) /\
    d_have s' = [true; false; true; false] /\ map fst (d_peers s') = [2] /\
    In (ESend 1 (RReq 2 8)) es /\ In (EFileWr 16 8) es /\ In (ESend 2 (RPay 2 8 true)) es /\ In (ESend 2 (RAnn 2)) es.
Proof. vm_compute. do 2 eexists. split; [reflexivity|]. repeat split; try reflexivity; tauto. Qed.
