(* C13 — memory caches stay within budget and their accounting balances.
   Statements only; every proof is `exact <lemma from Proof/C13*.v>`.

   Histories: `ops : list op` ranges over ALL finite sequences of
     - single lock regions of BlobMemoryCache issued by any number of concurrent write-through
       callers (A (PReserve ..) / A (PEnd ..) / A (PRelease ..), a step of a caller that is not at
       that point of its program is a no-op), by the drain and TTL workers and by readers (A (PRaw ..)),
     - the composite CAStore operations WtEnd / Drain / Tick / Expire,
   i.e. over every interleaving of concurrent callers at lock-region granularity.
   `run true` is the model of the code WITH fixes/C13_size_mismatch.patch; `run false` the code as pinned.
   `proto max ops` = bare cache calls are limited to those ca_store.go's workers make
   (Remove / RemoveBatch / GetExpiredEntries / Get) and every reservation size satisfies
   size + MaxSize < 2^64 (no uint64 wrap in TryReserve). *)
From Coq Require Import List NArith ZArith Bool.
From K.Model Require Import C13.
From K.Proof Require C13 C13_lru C13_pinned.
Import ListNotations.
Local Open Scope N_scope.

(* ---- BlobMemoryCache + write-through ---- *)

(* accounted bytes = bytes of stored entries + outstanding reservations, after every history
   (including failed, duplicate and abandoned writes, drains that fail, expiry) *)
Theorem C13_balance : forall max ttl mr ops,
  proto max ops = true ->
  let y := sy (fst (run true (init max ttl mr) ops)) in
  total y = held y + reserved y.
Proof. exact Proof.C13.balance. Qed.
Print Assumptions C13_balance.

(* the accounted bytes, and with them the bytes really held plus reserved, never exceed MaxSize *)
Theorem C13_within_budget : forall max ttl mr ops,
  proto max ops = true ->
  let y := sy (fst (run true (init max ttl mr) ops)) in
  total y <= max /\ held y + reserved y <= max.
Proof. exact Proof.C13.within_budget. Qed.
Print Assumptions C13_within_budget.

(* a reservation is never admitted when it would take the accounted bytes above the maximum ... *)
Theorem C13_never_above_max : forall max ttl mr ops t name sz,
  proto max ops = true -> sz + max < W64 ->
  let s := fst (run true (init max ttl mr) ops) in
  snd (step true s (A (PReserve t name sz))) = OBool true ->
  total (sy s) + sz <= max /\
  total (sy (fst (step true s (A (PReserve t name sz))))) = total (sy s) + sz.
Proof. exact Proof.C13.never_above_max. Qed.
Print Assumptions C13_never_above_max.

(* ... and is admitted whenever it fits (the bound is not met by refusing everything) *)
Theorem C13_admits_when_fits : forall max ttl mr ops t name sz,
  proto max ops = true -> sz + max < W64 ->
  let s := fst (run true (init max ttl mr) ops) in
  lookupP t (s_pend (sy s)) = None -> total (sy s) + sz <= max ->
  snd (step true s (A (PReserve t name sz))) = OBool true.
Proof. exact Proof.C13.admits_when_fits. Qed.
Print Assumptions C13_admits_when_fits.

(* every write-through call that holds a reservation gives it up when it returns: it either
   became the entry (same number of bytes, accounted bytes unchanged) or — write error, abandoned
   stream, metainfo error, length different from the reserved size, blob already cached — exactly
   its size is subtracted and the entries are untouched *)
Theorem C13_failed_write_releases : forall max ttl mr ops t name sz w,
  proto max ops = true ->
  let s := fst (run true (init max ttl mr) ops) in
  lookupP t (s_pend (sy s)) = Some (Reserved name sz) ->
  let s' := fst (step true s (WtEnd t w)) in
  lookupP t (s_pend (sy s')) = None
  /\ reserved (sy s') + sz = reserved (sy s)
  /\ (if wt_succeeds (sy s) name sz w
      then c_ents (s_c (sy s')) = c_ents (s_c (sy s)) ++ [mkE name sz (clk s)] /\ total (sy s') = total (sy s)
      else c_ents (s_c (sy s')) = c_ents (s_c (sy s)) /\ total (sy s') + sz = total (sy s)).
Proof. exact Proof.C13.failed_write_releases. Qed.
Print Assumptions C13_failed_write_releases.

(* the same for single lock regions under any interleaving: whichever point of its program a
   caller is at, its releasing step subtracts exactly what it reserved *)
Theorem C13_release_any_interleaving : forall max ttl mr ops t p,
  proto max ops = true ->
  let s := fst (run true (init max ttl mr) ops) in
  lookupP t (s_pend (sy s)) = Some p ->
  let o := match p with Reserved _ _ => A (PEnd t WErr 0%Z) | NeedRelease _ => A (PRelease t) end in
  let s' := fst (step true s o) in
  lookupP t (s_pend (sy s')) = None
  /\ total (sy s') + phase_size p = total (sy s)
  /\ reserved (sy s') + phase_size p = reserved (sy s)
  /\ c_ents (s_c (sy s')) = c_ents (s_c (sy s)).
Proof. exact Proof.C13.atomic_release. Qed.
Print Assumptions C13_release_any_interleaving.

(* once no call is in flight nothing is leaked: accounted bytes = bytes of the entries *)
Theorem C13_quiescent_no_leak : forall max ttl mr ops,
  proto max ops = true ->
  let y := sy (fst (run true (init max ttl mr) ops)) in
  s_pend y = [] -> total y = held y.
Proof. exact Proof.C13.quiescent_no_leak. Qed.
Print Assumptions C13_quiescent_no_leak.

(* executable form used on observed traces *)
Theorem C13_cache_check_sound : forall max ttl mr ops,
  C13_cache_check max ops (snd (run true (init max ttl mr) ops)) = true.
Proof. exact Proof.C13.check_sound. Qed.
Print Assumptions C13_cache_check_sound.

(* two calls started concurrently (lock convoy): for the order in which they ran the pair oracle
   holds — prefix property plus balance and budget of the final state *)
Theorem C13_pair_check_sound : forall max ttl mr pre a b,
  let s := fst (run true (init max ttl mr) pre) in
  let s1 := fst (step true s a) in
  C13_pair_check max pre (snd (run true (init max ttl mr) pre)) a b
    (snd (step true s a)) (snd (step true s1 b)) (snap (fst (step true s1 b))) = true.
Proof. exact Proof.C13.pair_check_sound. Qed.
Print Assumptions C13_pair_check_sound.

(* the code as pinned: reservation = backend Stat size, entry = len(data). A 100-byte entry is
   stored in a 10-byte cache ... *)
Theorem C13_size_mismatch_refuted :
  exists max ops, proto max ops = true /\
    let y := sy (fst (run false (init max 1000 1) ops)) in
    max < held y /\ total y <> held y + reserved y.
Proof. exact Proof.C13.size_mismatch_over_budget. Qed.
Print Assumptions C13_size_mismatch_refuted.

(* ... and 9 bytes stay accounted for ever with nothing stored and nothing in flight *)
Theorem C13_size_mismatch_leak_refuted :
  exists max ops, proto max ops = true /\
    let y := sy (fst (run false (init max 1000 1) ops)) in
    s_pend y = [] /\ c_ents (s_c y) = [] /\ total y = 9.
Proof. exact Proof.C13.size_mismatch_leak. Qed.
Print Assumptions C13_size_mismatch_leak_refuted.

(* the mismatch is the whole defect: on every history in which each write callback delivers as
   many bytes as were reserved, the code as pinned runs exactly like the fixed code, hence
   balances and stays within budget (partial: says nothing when a length differs) *)
Theorem C13_pinned_balance_partial : forall max ttl mr ops,
  proto max ops = true -> lens_ok (init max ttl mr) ops = true ->
  let y := sy (fst (run false (init max ttl mr) ops)) in
  total y = held y + reserved y /\ total y <= max.
Proof. exact Proof.C13_pinned.pinned_balance_partial. Qed.
Print Assumptions C13_pinned_balance_partial.

(* outside the no-wrap guard: `totalSize+size` wraps and the reservation is admitted *)
Theorem C13_wrap_refuted :
  exists max ops t name sz,
    let s := fst (run true (init max 1000 1) ops) in
    snd (step true s (A (PReserve t name sz))) = OBool true /\ max < total (sy s) + sz.
Proof. exact Proof.C13.wrap_admits. Qed.
Print Assumptions C13_wrap_refuted.

(* ---- LRUCache ---- *)

(* never more keys than configured (Size 0 means the default; a negative Size is a config error) *)
Theorem C13_lru_bound : forall size ttl ops,
  (0 <= size)%Z ->
  (Z.of_nat (length (l_ents (fst (lrun (linit size ttl) ops)))) <= l_size (linit size ttl))%Z.
Proof. exact Proof.C13_lru.lru_bound. Qed.
Print Assumptions C13_lru_bound.

(* Has never reports an expired key *)
Theorem C13_lru_no_expired : forall size ttl ops k now,
  let c := fst (lrun (linit size ttl) ops) in
  snd (lstep c (LHas k now)) = OBool true ->
  exists t j, last_touch (map fst ops) k = Some (t, j) /\ (now <= t + l_ttl c)%Z.
Proof. exact Proof.C13_lru.lru_no_expired. Qed.
Print Assumptions C13_lru_no_expired.

(* last_touch hist k = Some (t, j): the j-th operation is `Add k` at time t and no later
   operation adds, refreshes or deletes k or clears the cache *)
Theorem C13_lru_last_touch_spec : forall hist k t j,
  last_touch hist k = Some (t, j) ->
  nth_error hist (N.to_nat j) = Some (LAdd k t)
  /\ forall j' o, (N.to_nat j < j')%nat -> nth_error hist j' = Some o -> undoes k o = false.
Proof. exact Proof.C13_lru.last_touch_spec. Qed.
Print Assumptions C13_lru_last_touch_spec.

(* the least recently added or refreshed key is dropped first: a key v that is present and
   unexpired when another key is added and is gone afterwards was last added/refreshed before
   every key w that was kept, and it was dropped only because the cache was full of unexpired keys *)
Theorem C13_lru_order : forall size ttl ops k now v w,
  (0 <= size)%Z ->
  let c := fst (lrun (linit size ttl) ops) in
  let c' := fst (lstep c (LAdd k now)) in
  let hist' := map fst ops ++ [LAdd k now] in
  (exists ev, In ev (l_ents c) /\ l_key ev = v /\ live now ev = true) -> v <> k ->
  ~ In v (map l_key (l_ents c')) ->
  (In w (map l_key (l_ents c')) ->
     exists tv jv tw jw, last_touch hist' v = Some (tv, jv) /\ last_touch hist' w = Some (tw, jw) /\ jv < jw)
  /\ (l_size c < Z.of_nat (length (filter (live now) (l_ents c))) + 1)%Z.
Proof. exact Proof.C13_lru.lru_order. Qed.
Print Assumptions C13_lru_order.

Theorem C13_lru_check_sound : forall size ttl ops,
  C13_lru_check size ttl ops (snd (lrun (linit size ttl) ops)) = true.
Proof. exact Proof.C13_lru.lru_check_sound. Qed.
Print Assumptions C13_lru_check_sound.

Theorem C13_lru_pair_check_sound : forall size ttl pre a b at_,
  let c := fst (lrun (linit size ttl) pre) in
  let c2 := fst (lstep (fst (lstep c a)) b) in
  C13_lru_pair_check size ttl pre (snd (lrun (linit size ttl) pre)) a b at_ (lsnap c2 at_) = true.
Proof. exact Proof.C13_lru.lru_pair_check_sound. Qed.
Print Assumptions C13_lru_pair_check_sound.

(* the defaults used by linit are the literals of utils/cache/config.go (regenerated every run) *)
Theorem C13_lru_defaults_tied :
  lru_default_size = K.Gen.C13_consts.lru_default_size_src
  /\ (lru_default_ttl_us * 1000 = K.Gen.C13_consts.lru_default_ttl_ns_src)%Z.
Proof. exact Proof.C13_lru.defaults_tied. Qed.
Print Assumptions C13_lru_defaults_tied.

(* ---- non-vacuity ---- *)

(* a protocol history with two concurrent callers of one blob (the second Add is refused and
   released later, after a third caller was admitted), a failed write, a drain and an expiry *)
Example C13_nonvacuous_history :
  proto 100 ex_ops = true /\
  map (fun x => (fst x, fst (snd x))) (snd (run true (init 100 1000 1) ex_ops)) =
  [(OBool true, 40); (OBool true, 80); (OBool true, 80); (OBool false, 80); (OBool false, 80);
   (OUnit, 40); (OBool true, 80); (OUnit, 40); (OBool true, 70); (OUnit, 70); (OUnit, 40);
   (OUnit, 40); (OUnit, 0)].
Proof. vm_compute. split; reflexivity. Qed.

Example C13_nonvacuous_lens_ok :
  lens_ok (init 100 1000 1) ex_ops = true /\
  lens_ok (init 10 1000 1) [A (PReserve 1 0 1); WtEnd 1 (WData 100)] = false.
Proof. vm_compute. split; reflexivity. Qed.

(* hypotheses of C13_failed_write_releases / C13_release_any_interleaving are met *)
Example C13_nonvacuous_pending :
  let s := fst (run true (init 100 1000 1) [A (PReserve 1 0 40); A (PReserve 2 0 40); A (PEnd 1 (WData 40) 0%Z); A (PEnd 2 (WData 40) 0%Z); A (PReserve 3 1 10)]) in
  lookupP 2 (s_pend (sy s)) = Some (NeedRelease 40) /\ lookupP 3 (s_pend (sy s)) = Some (Reserved 1 10).
Proof. vm_compute. split; reflexivity. Qed.

(* the oracle tells the pinned code's behaviour apart: both refutation witnesses are flagged *)
Example C13_oracle_flags_mismatch :
  C13_cache_check 10 [A (PReserve 1 0 1); WtEnd 1 (WData 100)]
    (snd (run false (init 10 1000 1) [A (PReserve 1 0 1); WtEnd 1 (WData 100)])) = false /\
  C13_cache_check 100 [A (PReserve 1 0 10); WtEnd 1 (WData 1); Drain true]
    (snd (run false (init 100 1000 1) [A (PReserve 1 0 10); WtEnd 1 (WData 1); Drain true])) = false.
Proof. vm_compute. split; reflexivity. Qed.

(* LRU: capacity 2; 0 is refreshed, so adding 2 drops 1; the hypotheses of C13_lru_order hold for v = 1 *)
Example C13_nonvacuous_lru :
  let c := fst (lrun (linit 2 100) ex_lops) in
  map l_key (l_ents c) = [1; 0] /\
  map l_key (l_ents (fst (lstep c (LAdd 2 3%Z)))) = [0; 2] /\
  forallb (live 3%Z) (l_ents c) = true /\
  last_touch (map fst ex_lops ++ [LAdd 2 3%Z]) 1 = Some (1%Z, 1) /\
  last_touch (map fst ex_lops ++ [LAdd 2 3%Z]) 0 = Some (2%Z, 2).
Proof. vm_compute. repeat split; reflexivity. Qed.

(* LRU: an expired key is not reported and is removed by the next Add of a new key *)
Example C13_nonvacuous_lru_expiry :
  let c := fst (lrun (linit 2 100) [(LAdd 0 0%Z, 0%Z); (LAdd 1 60%Z, 60%Z)]) in
  snd (lstep c (LHas 0 100%Z)) = OBool true /\ snd (lstep c (LHas 0 101%Z)) = OBool false /\
  map l_key (l_ents (fst (lstep c (LAdd 2 101%Z)))) = [1; 2].
Proof. vm_compute. repeat split; reflexivity. Qed.

(* lock convoy: two Removes of one entry that BOTH subtract its size (a Remove that is not one
   atomic region) are neither linearisable nor balanced: 900 reserved + nothing stored, 800 accounted *)
Example C13_pair_oracle_flags_double_decrement :
  let pre := [A (PReserve 1 0 900); A (PReserve 2 1 100); A (PEnd 2 (WData 100) 0%Z)] in
  let obs := snd (run true (init 1000 0 0) pre) in
  pair_agrees 1000 pre obs (A (PRaw (CRemove 1))) (A (PRaw (CRemove 1))) OUnit OUnit (900, []) = true /\
  C13_pair_check 1000 pre obs (A (PRaw (CRemove 1))) (A (PRaw (CRemove 1))) OUnit OUnit (900, []) = true /\
  pair_agrees 1000 pre obs (A (PRaw (CRemove 1))) (A (PRaw (CRemove 1))) OUnit OUnit (800, []) = false /\
  C13_pair_check 1000 pre obs (A (PRaw (CRemove 1))) (A (PRaw (CRemove 1))) OUnit OUnit (800, []) = false.
Proof. vm_compute. repeat split; reflexivity. Qed.
