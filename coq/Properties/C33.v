(* C33 — tags reach a remote cluster only after their blobs do.
   Statements only; every proof is `exact <lemma from Proof/C33*.v>`.

   `exec e` (Model/C33.v) is one execution of Executor.Exec for a tag replication task in the
   environment e: e_has / e_origin / e_put are the remote build-index's answers, e_deps is the
   task's dependency list, each dependency with what the local origin cluster does when asked
   to replicate it (resolve ok?, per origin a script of answers and a 202 back-off budget).
   All theorems are over every environment: every dependency list, every number of origins,
   every finite answer script (200 / 202 / any other status / no response), every budget. *)
From Coq Require Import List NArith Bool.
From K.Model Require Import C33.
From K.Model Require Retry.
From K.Proof Require C33 C33_retry.
Import ListNotations.
Local Open Scope N_scope.

(* ---- clause 1: the put comes only after every dependency was confirmed *)

(* in every trace, a put-and-replicate of the tag is preceded, within the same execution, by a
   replicate request answered 200 for every dependency of the task *)
Theorem C33_order : forall e pre r post,
  trace e = pre ++ EPut r :: post ->
  forall d, In d (deps e) -> exists o, In (ERepl d o (RCode 200)) pre.
Proof. exact Proof.C33.order. Qed.
Print Assumptions C33_order.

(* the complete shape of a trace with a put: Has (not present), Origin (ok), then one
   conversation per dependency in list order, each `confirmed`: owners resolved, earlier origins
   given up without a 200, then ONE origin answering 202 n times (n within its budget) and
   then 200 — success = a 200 after any number of 202s —, and the put is the last request *)
Theorem C33_order_segments : forall e pre r post,
  trace e = pre ++ EPut r :: post ->
  r = e_put e /\ post = [] /\
  exists segs, pre = EHas (e_has e) :: EOrigin (e_origin e) :: concat segs /\
               Forall2 Proof.C33.confirmed (e_deps e) segs /\
               is200 (e_has e) = false /\ is200 (e_origin e) = true.
Proof. exact Proof.C33.put_shape. Qed.
Print Assumptions C33_order_segments.

Theorem C33_put_once_last : forall e pre r post,
  trace e = pre ++ EPut r :: post -> post = [] /\ forall x, In x pre -> is_put x = false.
Proof. exact Proof.C33.put_once_last. Qed.
Print Assumptions C33_put_once_last.

(* ---- clause 2: any failed step fails the task *)

(* the task succeeds exactly when the remote already has the tag, or the origin lookup, the
   replication of every dependency and the put all succeed *)
Theorem C33_failure_is_error : forall e,
  verdict e = Ok <->
  is200 (e_has e) = true \/
  (is200 (e_origin e) = true /\ (forall de, In de (e_deps e) -> snd (replicate de) = true) /\
   is200 (e_put e) = true).
Proof. exact Proof.C33.verdict_ok_iff. Qed.
Print Assumptions C33_failure_is_error.

(* replicating one dependency succeeds exactly when its owners resolve and the first origin that
   does not pass the poll on answers 200 after n <= budget answers 202 *)
Theorem C33_replicate_success_iff : forall de,
  snd (replicate de) = true <->
  d_resolve de = true /\
  exists k x n rest,
    nth_error (d_origins de) k = Some x /\
    (forall j y, (j < k)%nat -> nth_error (d_origins de) j = Some y -> Proof.C33.o_outcome y = PNext) /\
    n <= o_budget x /\ o_script x = repeat (RCode 202) (N.to_nat n) ++ RCode 200 :: rest.
Proof. exact Proof.C33.replicate_success_iff. Qed.
Print Assumptions C33_replicate_success_iff.

(* ... where an origin passes the poll on exactly when, after n <= budget answers 202, it is gone,
   gives no response, answers >= 500, or answers 202 once more than the back-off allows *)
Theorem C33_origin_passes_on_iff : forall sc bud,
  Proof.C33.outcome sc bud = PNext <->
  exists n, n <= bud /\ firstn (N.to_nat n) sc = repeat (RCode 202) (N.to_nat n) /\
    match skipn (N.to_nat n) sc with
    | [] => True
    | RNet :: _ => True
    | RCode c :: _ => final_below <= c \/ (c = 202 /\ n = bud)
    end.
Proof. exact Proof.C33.outcome_next. Qed.
Print Assumptions C33_origin_passes_on_iff.

(* a failing dependency ends the execution at once: earlier dependencies were confirmed, the
   trace ends with the failing conversation, later dependencies are not touched, no put *)
Theorem C33_failure_stops : forall e,
  is200 (e_has e) = false -> is200 (e_origin e) = true ->
  (exists de, In de (e_deps e) /\ snd (replicate de) = false) ->
  exists done de rest segs tf,
    e_deps e = done ++ de :: rest /\ Forall2 Proof.C33.confirmed done segs /\
    replicate de = (tf, false) /\
    exec e = (EHas (e_has e) :: EOrigin (e_origin e) :: concat segs ++ tf, Err).
Proof. exact Proof.C33.failure_stops. Qed.
Print Assumptions C33_failure_stops.

(* ---- clause 2b: the failed task is retried until the remote holds the tag.
   The persisted-retry manager (Model/Retry.v, owned by C30) with the executor's verdicts taken
   from `exec`: whatever the manager, the clock, crashes and restarts do, the row of a task
   leaves the store only by the worker's Remove after an execution of that task that ended with
   the remote cluster holding the tag (its build-index said so, or it answered 200 to a put that
   came after the confirmation of every dependency) *)
Theorem C33_retried_until_held : forall cfg cops c t,
  forallb Proof.C33_retry.honest (cops ++ [c]) = true ->
  let s := fst (Retry.run (Retry.init cfg) (map Proof.C33_retry.lower cops)) in
  Retry.storedb t (Retry.s_store s) = true ->
  Retry.storedb t (Retry.s_store (fst (Retry.step s (Proof.C33_retry.lower c)))) = false ->
  Proof.C33_retry.lower c = Retry.OpExecFin t /\
  exists e, In (Proof.C33_retry.CExec t e) cops /\ verdict e = Ok /\ Proof.C33_retry.remote_holds e.
Proof. exact Proof.C33_retry.retried_until_held. Qed.
Print Assumptions C33_retried_until_held.

(* until then every step keeps the row (a failed execution only marks it failed), so C30's
   theorems (no lost task, restart recovers, progress possible) keep applying to it *)
Theorem C33_kept_unless_success : forall cfg cops o t,
  let s := fst (Retry.run (Retry.init cfg) (map Proof.C33_retry.lower cops)) in
  Retry.storedb t (Retry.s_store s) = true ->
  Retry.last_ev t (Retry.s_log s) <> Some (Retry.ERet t true) ->
  Retry.storedb t (Retry.s_store (fst (Retry.step s o))) = true.
Proof. exact Proof.C33_retry.kept_unless_success. Qed.
Print Assumptions C33_kept_unless_success.

(* ---- clause 3: nothing is sent when the tag is already present remotely *)

Theorem C33_noop_when_present : forall e,
  is200 (e_has e) = true -> exec e = ([EHas (e_has e)], Ok).
Proof. exact Proof.C33.noop_when_present. Qed.
Print Assumptions C33_noop_when_present.

(* and the presence check is always the first request *)
Theorem C33_first_request_is_has : forall e, exists t, trace e = EHas (e_has e) :: t.
Proof. exact Proof.C33.first_is_has. Qed.
Print Assumptions C33_first_request_is_has.

(* ---- Poll (cluster_client.go:389-431) *)

(* the origins are asked in their resolved order and never gone back to *)
Theorem C33_poll_in_order : forall d o os, Proof.C33.sorted_from o (fst (poll d o os)).
Proof. exact Proof.C33.poll_sorted. Qed.
Print Assumptions C33_poll_in_order.

(* at most budget + 1 requests go to one origin *)
Theorem C33_poll_bounded : forall d o sc bud,
  (length (fst (poll_origin d o sc bud)) <= N.to_nat bud + 1)%nat.
Proof. exact Proof.C33.poll_origin_bounded. Qed.
Print Assumptions C33_poll_bounded.

(* ---- the origin's replicate handler (server.go:322-358): it answers 200 exactly when it had
   the blob and the upload to the remote cluster succeeded, so the 200s of C33_order mean
   "confirmed present in the remote origin cluster" *)
Theorem C33_handler_200_iff_uploaded : forall h, handler h = 200 <-> uploaded h = true.
Proof. exact Proof.C33.handler_200. Qed.
Print Assumptions C33_handler_200_iff_uploaded.

Theorem C33_handler_202_iff_fetching : forall h,
  handler h = 202 <-> h_cache h = CAbsent /\ (h_refresh h = FStarted \/ h_refresh h = FPending).
Proof. exact Proof.C33.handler_202. Qed.
Print Assumptions C33_handler_202_iff_fetching.

(* executable form on observed requests (status answered, blob accepted by the remote during this
   very request?): evaluated on every request that reached a real origin, also on overlapping ones *)
Theorem C33_uploads_check_sound : forall hs, C33_uploads_check (observed_of hs) = true.
Proof. exact Proof.C33.uploads_check_sound. Qed.
Print Assumptions C33_uploads_check_sound.

Theorem C33_uploads_check_means : forall ups,
  C33_uploads_check ups = true <-> forall c u, In (c, u) ups -> c = 200 -> u = true.
Proof. exact Proof.C33.uploads_check_means. Qed.
Print Assumptions C33_uploads_check_means.

(* with origins that answer from the handler: before the put, every dependency was — during one of
   the recorded requests — in the cache of an origin that uploaded it to the remote cluster and had
   the upload accepted; everything that origin answered before was "still fetching" (202) *)
Theorem C33_order_uploaded : forall e pre r post,
  Proof.C33.handler_env e -> trace e = pre ++ EPut r :: post ->
  forall de, In de (e_deps e) ->
  exists k x hs n h,
    nth_error (d_origins de) (N.to_nat k) = Some x /\ o_script x = served hs /\
    nth_error hs n = Some h /\ uploaded h = true /\
    (forall j h', (j < n)%nat -> nth_error hs j = Some h' -> handler h' = 202) /\
    In (ERepl (d_id de) k (RCode 200)) pre.
Proof. exact Proof.C33.order_uploaded. Qed.
Print Assumptions C33_order_uploaded.

(* finite answer scripts lose no generality: on an origin that answers its i-th request with f i
   (any function, no end of script) the poll loop does what it does on the first budget + 1
   answers; in particular the "origin gone" completion of a script is never reached then *)
Theorem C33_scripts_are_general : forall d o f i bud,
  Proof.C33.poll_fn d o f i bud = poll_origin d o (map f (seq i (S bud))) (N.of_nat bud).
Proof. exact Proof.C33.poll_fn_script. Qed.
Print Assumptions C33_scripts_are_general.

(* ---- executable form used on observed traces *)
Theorem C33_check_sound : forall e, C33_check e (trace e) (verdict e) = true.
Proof. exact Proof.C33.check_sound. Qed.
Print Assumptions C33_check_sound.

(* and what a passing check says about ANY observed trace, independent of the model *)
Theorem C33_check_means : forall e tr res,
  C33_check e tr res = true ->
  (forall pre r post, tr = pre ++ EPut r :: post ->
     post = [] /\ forall d, In d (deps e) -> exists o, In (ERepl d o (RCode 200)) pre) /\
  (exists r t, tr = EHas r :: t /\ (is200 r = true -> t = [])) /\
  (res = Ok <-> success_shape tr = true).
Proof. exact Proof.C33.check_means. Qed.
Print Assumptions C33_check_means.

(* ---- non-vacuity *)

(* the literal of cluster_client.go:418 as extracted from the source of this run *)
Example C33_final_below_is_500 : final_below = 500.
Proof. vm_compute. reflexivity. Qed.

(* three dependencies, two origins: 202-202-200 on the first origin; a 503 then 202-200 on the
   second; a dead first origin; then the put *)
Example C33_nonvacuous_order :
  exec (mkenv (RCode 404) (RCode 200)
          [mkdep 1 true [mkorigin [RCode 202; RCode 202; RCode 200] 5; mkorigin [RCode 200] 5];
           mkdep 2 true [mkorigin [RCode 503] 5; mkorigin [RCode 202; RCode 200] 5];
           mkdep 3 true [mkorigin [] 5; mkorigin [RCode 200] 5]]
          (RCode 200))
  = ([EHas (RCode 404); EOrigin (RCode 200);
      EResolve 1 true; ERepl 1 0 (RCode 202); ERepl 1 0 (RCode 202); ERepl 1 0 (RCode 200);
      EResolve 2 true; ERepl 2 0 (RCode 503); ERepl 2 1 (RCode 202); ERepl 2 1 (RCode 200);
      EResolve 3 true; ERepl 3 0 RNet; ERepl 3 1 (RCode 200);
      EPut (RCode 200)], Ok).
Proof. vm_compute. reflexivity. Qed.

(* a failed step: the back-off of the only origin of dependency 2 runs out; dependency 3 is
   not touched, no put, the task fails *)
Example C33_nonvacuous_failure :
  exec (mkenv (RCode 404) (RCode 200)
          [mkdep 1 true [mkorigin [RCode 200] 1];
           mkdep 2 true [mkorigin [RCode 202; RCode 202; RCode 200] 1];
           mkdep 3 true [mkorigin [RCode 200] 1]]
          (RCode 200))
  = ([EHas (RCode 404); EOrigin (RCode 200);
      EResolve 1 true; ERepl 1 0 (RCode 200);
      EResolve 2 true; ERepl 2 0 (RCode 202); ERepl 2 0 (RCode 202)], Err).
Proof. vm_compute. reflexivity. Qed.

(* a 4xx from the first origin is final: the second origin, which has the blob, is not asked *)
Example C33_nonvacuous_4xx_final :
  exec (mkenv (RCode 404) (RCode 200)
          [mkdep 1 true [mkorigin [RCode 404] 5; mkorigin [RCode 200] 5]] (RCode 200))
  = ([EHas (RCode 404); EOrigin (RCode 200); EResolve 1 true; ERepl 1 0 (RCode 404)], Err).
Proof. vm_compute. reflexivity. Qed.

(* origins that run the handler: fetching, fetching, then cached and uploaded *)
Example C33_nonvacuous_handler :
  exec (mkenv (RCode 404) (RCode 200)
          [mkdep 1 true [mkorigin (served [mkh CAbsent FStarted UOk; mkh CAbsent FPending UOk; mkh CPresent FStarted UOk]) 5];
           mkdep 2 true [mkorigin (served [mkh CPresent FStarted UFail]) 5; mkorigin (served [mkh CPresent FStarted UOk]) 5]]
          (RCode 200))
  = ([EHas (RCode 404); EOrigin (RCode 200);
      EResolve 1 true; ERepl 1 0 (RCode 202); ERepl 1 0 (RCode 202); ERepl 1 0 (RCode 200);
      EResolve 2 true; ERepl 2 0 (RCode 500); ERepl 2 1 (RCode 200);
      EPut (RCode 200)], Ok).
Proof. vm_compute. reflexivity. Qed.

Example C33_nonvacuous_present :
  exec (mkenv (RCode 200) (RCode 200) [mkdep 1 true [mkorigin [RCode 200] 5]] (RCode 200))
  = ([EHas (RCode 200)], Ok).
Proof. vm_compute. reflexivity. Qed.

(* the oracle rejects a put that overtakes a dependency, a put after which something is sent,
   a reported success without a put, and a request after "present" *)
Example C33_check_rejects :
  let e := mkenv (RCode 404) (RCode 200)
             [mkdep 1 true [mkorigin [RCode 200] 5]; mkdep 2 true [mkorigin [RCode 200] 5]] (RCode 200) in
  C33_check e [EHas (RCode 404); EOrigin (RCode 200); EResolve 1 true; ERepl 1 0 (RCode 200);
               EPut (RCode 200); EResolve 2 true; ERepl 2 0 (RCode 200)] Ok = false /\
  C33_check e [EHas (RCode 404); EOrigin (RCode 200); EResolve 1 true; ERepl 1 0 (RCode 200);
               EResolve 2 true; ERepl 2 0 (RCode 202); EPut (RCode 200)] Ok = false /\
  C33_check e [EHas (RCode 404); EOrigin (RCode 200); EResolve 1 true; ERepl 1 0 (RCode 500)] Ok = false /\
  C33_check e [EHas (RCode 404); EOrigin (RCode 200); EResolve 1 true; ERepl 1 0 (RCode 200);
               EResolve 2 true; ERepl 2 0 (RCode 200); EPut (RCode 500)] Ok = false /\
  C33_check e [EHas (RCode 200); EOrigin (RCode 200)] Ok = false /\
  C33_check e [EHas (RCode 404); EOrigin (RCode 200); EResolve 1 true; ERepl 1 0 (RCode 200);
               EResolve 2 true; ERepl 2 0 (RCode 200); EPut (RCode 200)] Ok = true.
Proof. vm_compute. repeat split; reflexivity. Qed.
