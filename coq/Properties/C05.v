(* C05 — an origin or proxy crash at any point leaves its blob cache consistent.
   Statements only; every proof is `exact <lemma>`.  Quantification: every environment (SHA-256 is an
   arbitrary function; the metainfo codec satisfies [env_ok]), every life of the origin = every finite
   list of epochs, each epoch = (any history of upload start / patch / commit / write-back / metainfo
   generation / overwrite / backend refresh / metainfo read, with any directory-order oracle; any crash
   point = prefix length of the epoch's mutating file-system calls), each followed by a restart. *)
From Coq Require Import List NArith Bool.
From K.Model Require Import C05.
From K.Proof Require Import C05_inv C05.
Import ListNotations.
Local Open Scope N_scope.

(* the store opens: after every crash and restart both directories exist and the upload directory is empty *)
Theorem C05_opens : forall E es ep,
  let s := run_epoch E (run_epochs E es) ep in
  root_up s = true /\ root_ca s = true /\ (forall u, up s u = None).
Proof. exact opens. Qed.
Print Assumptions C05_opens.

(* every blob the restarted store serves hashes to its name (the rename into the cache is the commit
   point and follows the verification) *)
Theorem C05_listed_hash_to_name : forall E es d c,
  fileof ACa d FData (run_epochs E es) = Some c -> eH E c = d.
Proof. exact listed_hash_to_name. Qed.
Print Assumptions C05_listed_hash_to_name.

(* the disk invariant behind it holds after every prefix of every operation from every state it holds in *)
Theorem C05_crash_invariant : forall E ns s ops k, Inv E s -> Inv E (crash k (epoch_calls E ns s ops) s).
Proof. exact crash_inv. Qed.
Print Assumptions C05_crash_invariant.

(* torrent metainfo of every name is absent or valid for the cached bytes (fixed read path) *)
Theorem C05_metainfo_absent_or_valid : forall E es d, env_ok E ->
  md E (run_epochs E es) d = MAbsent \/ md E (run_epochs E es) d = MValid.
Proof. exact metainfo_absent_or_valid. Qed.
Print Assumptions C05_metainfo_absent_or_valid.

Theorem C05_valid_means_valid : forall E s d, md E s d = MValid ->
  exists c b, fileof ACa d FData s = Some c /\ fileof ACa d FMeta s = Some b /\ evalid E d c b = true.
Proof. exact md_valid_means. Qed.
Print Assumptions C05_valid_means_valid.

(* the only thing the unfixed read path can do differently is fail where the fixed one reports "absent" *)
Theorem C05_old_read_differs_only_by_error : forall E s d, env_ok E -> Inv E s ->
  md_old E s d = md E s d \/ (md_old E s d = MBroken /\ md E s d = MAbsent).
Proof. exact md_old_cases. Qed.
Print Assumptions C05_old_read_differs_only_by_error.

(* before the fix: crash between creation and write of `_torrentmeta` during a backend refresh; the blob
   is cached and intact, the metainfo read fails, and reading again does not repair it *)
Theorem C05_empty_torrentmeta_refuted :
  env_ok toy /\
  fileof ACa 5 FData wit_state = Some [5; 1; 2] /\
  fileof ACa 5 FMeta wit_state = Some [] /\
  md_old toy wit_state 5 = MBroken /\
  md_old toy (after toy wit_state (GetMeta 5)) 5 = MBroken.
Proof. exact empty_torrentmeta_refuted. Qed.
Print Assumptions C05_empty_torrentmeta_refuted.

(* metainfo of a cached blob is regenerated on demand — PARTIAL: shown at the witness crash point for the
   three on-demand paths (refresh from the backend, upload retry -> write-back, Generate); the general
   statement (for every history and crash point) is not proved, it is observed by the correspondence
   (k_fin, k_rt = MValid at every crash point of every case) *)
Theorem C05_metainfo_never_stuck_partial :
  md toy wit_state 5 = MAbsent /\
  md toy (after toy wit_state (Refresh 5 (eblob toy 5) true)) 5 = MValid /\
  md toy (after toy wit_state (WriteBack 5)) 5 = MValid /\
  md toy (after toy wit_state (Generate 5)) 5 = MValid.
Proof. exact empty_torrentmeta_fixed. Qed.
Print Assumptions C05_metainfo_never_stuck_partial.

(* a name can be listed without bytes behind it (crash between the last-access sidecar and the rename):
   it is never served, reads as "no metainfo", and a refresh turns it into the blob *)
Theorem C05_listed_unreadable_refuted :
  let s := recover (crash 13 wit_calls fs0) in
  isSome (ca s 5) = true /\ fileof ACa 5 FData s = None /\ md toy s 5 = MAbsent /\
  fileof ACa 5 FData (after toy s (Refresh 5 (eblob toy 5) true)) = Some [5; 1; 2].
Proof. exact listed_unreadable_refuted. Qed.
Print Assumptions C05_listed_unreadable_refuted.

(* executable form: the hash / listing / metainfo clauses of the oracle hold on the model's observation at
   every crash point of every history *)
Theorem C05_check_core_sound : forall E ns n ops k d, env_ok E -> (d < n) ->
  core_ok E d (observe_key E (recover (crash k (epoch_calls E ns fs0 ops) fs0)) d) = true.
Proof. exact check_core_sound. Qed.
Print Assumptions C05_check_core_sound.

(* non-vacuity: the environment assumptions are satisfiable, the witness history has its crash point
   where claimed, and the full oracle (including the never-stuck clauses) holds on it *)
Example C05_nonvacuous_env : env_ok toy.
Proof. exact toy_ok. Qed.
Example C05_nonvacuous_witness :
  nth 16 wit_calls (CBad 0) = CCreate ACa 5 FMeta /\ nth 17 wit_calls (CBad 0) = CWrite ACa 5 FMeta 0 [7; 5; 4; 9]
  /\ length wit_calls = 18%nat.
Proof. vm_compute. repeat split. Qed.
Example C05_nonvacuous_check : C05_check toy (model_recs toy 0 6 wit_ops) = true.
Proof. vm_compute. reflexivity. Qed.
