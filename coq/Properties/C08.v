(* C08 — the memory blob store behaves like its model, and stale handles fail cleanly.
   Statements only; every proof is `exact <lemma from Proof/>`.
   Vocabulary (Model/LruStore.v, Model/C08.v): `cstep Memory true` / `crun` = the concrete model of
   lib/store/memory/store.go + file.go (size counter, evictQueue, data cells, kept *File handles;
   fixed admission test), `sstep`/`srun` = the reference specification shared with the disk store,
   `mreach_c cap ops` / `mreach_s cap ops` = the states after history `ops` from the empty store.
   Every API call and every handle call is one atomic step (store mutex / sliceMu), so the
   interleavings of concurrent clients are the histories quantified over here. *)
From Coq Require Import List NArith ZArith Bool Sorting.Sorted.
From K.Model Require Import C08.
From K.Proof Require LruStore LruStore_cells C08.
Import K.Proof.LruStore_cells.   (* CellInv: the invariant on data cells and handles *)
Import ListNotations.
Local Open Scope N_scope.

(* ---- same results as the capacity-bounded LRU model shared with the disk store *)
Theorem C08_refines_spec : forall cap ops, cap < two64 ->
  C08_impl cap ops = C08_spec cap ops /\ c_core (mreach_c cap ops) = s_core (mreach_s cap ops).
Proof. exact Proof.C08.refines_spec. Qed.
Print Assumptions C08_refines_spec.

Theorem C08_size_sum_capacity : forall cap ops, cap < two64 ->
  c_size (mreach_c cap ops) = sum_sizes (k_blobs (c_core (mreach_c cap ops))) /\
  c_size (mreach_c cap ops) <= cap.
Proof. exact Proof.C08.size_sum_capacity. Qed.
Print Assumptions C08_size_sum_capacity.

Theorem C08_evicts_only_complete_unbanned_lru : forall cap ops k sz data, cap < two64 ->
  let c := mreach_c cap ops in let s := mreach_s cap ops in
  let c' := fst (c_create Memory true c k sz data) in
  forall k' b, assoc k' (k_blobs (c_core c)) = Some b -> assoc k' (k_blobs (c_core c')) = None ->
    b_complete b = true /\ b_banned b = false /\
    forall k'' b'', assoc k'' (k_blobs (c_core c')) = Some b'' -> b_complete b'' = true -> b_banned b'' = false ->
      last_of s k' < last_of s k''.
Proof. exact Proof.C08.evicts_only_complete_unbanned_lru. Qed.
Print Assumptions C08_evicts_only_complete_unbanned_lru.

(* the code before fixes/C07_admission_overflow.patch: `size+space` wraps, the blob is admitted
   (on the real code make([]byte, 0, size) then panics with the counter already corrupted) *)
Theorem C08_wrap_refuted : exists cap ops, cap < two64 /\
  let c := fst (crun Memory false (cinit cap) ops) in
  cap < sum_sizes (k_blobs (c_core c)) /\ c_size c <> sum_sizes (k_blobs (c_core c)).
Proof. exact Proof.C08.wrap_refuted. Qed.
Print Assumptions C08_wrap_refuted.

Theorem C08_scope_hides_exactly : forall fx c o k sc b,
  op_scope o = Some (k, sc) -> assoc k (k_blobs (c_core c)) = Some b ->
  match o with Has _ _ => True | _ =>
    if out_of_scope b sc then cstep Memory fx c o = (c, if (match Memory, o with
                                                      | Disk, Open _ _ => true
                                                      | Memory, WriteAtMd _ _ _ _ _ => true
                                                      | _, _ => false end) then OUnsupported else OErr EOutOfScope)
    else cstep Memory fx c o = cstep Memory fx c (unscoped o)
  end.
Proof. exact (Proof.LruStore.scope_hides Memory). Qed.
Print Assumptions C08_scope_hides_exactly.

Theorem C08_metadata_last_write : forall fx c o k s b,
  md_writes o k s = false -> assoc k (k_blobs (c_core c)) = Some b ->
  let c' := fst (cstep Memory fx c o) in
  assoc k (k_blobs (c_core c')) = None \/
  exists b', assoc k (k_blobs (c_core c')) = Some b' /\ b_cell b' = b_cell b /\
             assoc s (b_mds b') = assoc s (b_mds b).
Proof. exact (Proof.LruStore.md_frame Memory). Qed.
Print Assumptions C08_metadata_last_write.

(* ---- stale handles.  Handle h was handed out by Create/Open for key k (at the end of ops1); after
   ops2 the key is not in the store (evicted or deleted); then, after ANY further history ops3 —
   including a re-creation of k — every operation on h returns the stale result: the evicted error
   for everything that touches the data (next theorem), never any bytes. *)
Theorem C08_stale_handle_evicted : forall cap ops1 o k h ops2 ops3 hop,
  key_of_open o = Some k ->
  snd (cstep Memory true (mreach_c cap ops1) o) = OHandle h ->
  assoc k (k_blobs (c_core (mreach_c cap (ops1 ++ [o] ++ ops2)))) = None ->
  handle_of_op hop = Some h ->
  stale_ok hop (snd (cstep Memory true (mreach_c cap (ops1 ++ [o] ++ ops2 ++ ops3)) hop)) = true.
Proof. exact Proof.C08.stale_handle_evicted. Qed.
Print Assumptions C08_stale_handle_evicted.

Theorem C08_stale_data_ops_evicted : forall cap ops1 o k h ops2 ops3 hop,
  key_of_open o = Some k ->
  snd (cstep Memory true (mreach_c cap ops1) o) = OHandle h ->
  assoc k (k_blobs (c_core (mreach_c cap (ops1 ++ [o] ++ ops2)))) = None ->
  handle_of_op hop = Some h -> touches_data hop = true ->
  let r := snd (cstep Memory true (mreach_c cap (ops1 ++ [o] ++ ops2 ++ ops3)) hop) in
  r = OErr EEvicted \/ (exists h', hop = HSize h' /\ r = OSize (-1)).
Proof. exact Proof.C08.stale_data_ops_evicted. Qed.
Print Assumptions C08_stale_data_ops_evicted.

(* the literal reading "EVERY operation fails with the evicted error" is false of the code:
   file.go:38 returns (0, nil) for a zero-length Read before looking at the data (likewise
   ReadAt; negative offsets are rejected as such; Off/Close/Cancel/Commit never fail).  None of
   these returns bytes; `stale_ok` lists exactly what they return. *)
Theorem C08_stale_zero_length_read_refuted : exists cap ops h,
  snd (cstep Memory true (mreach_c cap ops) (HSize h)) = OSize (-1) /\
  snd (cstep Memory true (mreach_c cap ops) (HRead h 0)) = ORead [] false.
Proof. exact Proof.C08.stale_zero_length_read_refuted. Qed.
Print Assumptions C08_stale_zero_length_read_refuted.

(* ---- no stale or foreign bytes: bytes returned through h come from the cell h was opened on,
   which still belongs to the same incarnation of k and to no other blob *)
Theorem C08_no_foreign_bytes : forall cap ops1 o k h ops2 n off bs eof,
  key_of_open o = Some k ->
  snd (cstep Memory true (mreach_c cap ops1) o) = OHandle h ->
  let c1 := fst (cstep Memory true (mreach_c cap ops1) o) in
  let c2 := mreach_c cap (ops1 ++ [o] ++ ops2) in
  (snd (cstep Memory true c2 (HRead h n)) = ORead bs eof \/ snd (cstep Memory true c2 (HReadAt h n off)) = ORead bs eof) ->
  bs <> [] ->
  exists cl b1 b2 buf cur,
    assoc k (k_blobs (c_core c1)) = Some b1 /\ b_cell b1 = cl /\
    assoc h (k_handles (c_core c2)) = Some (cl, cur) /\
    assoc k (k_blobs (c_core c2)) = Some b2 /\ b_cell b2 = cl /\
    cell_of (c_core c2) cl = Some buf /\
    (bs = firstn (N.to_nat n) (skipn (N.to_nat cur) buf) \/ bs = firstn (N.to_nat n) (skipn (Z.to_nat off) buf)) /\
    (forall k' b', assoc k' (k_blobs (c_core c2)) = Some b' -> b_cell b' = cl -> k' = k).
Proof. exact Proof.C08.no_foreign_bytes. Qed.
Print Assumptions C08_no_foreign_bytes.

(* the content of a data cell changes only through a write issued on a handle bound to that cell
   (or an Open-write on the blob that owns it); any other step leaves it as it is or nils it *)
Theorem C08_cell_content_frame : forall fx c o cl,
  CellInv (c_core c) -> cl < k_next (c_core c) -> writes_cell (c_core c) o cl = false ->
  let kc' := c_core (fst (cstep Memory fx c o)) in
  cell_of kc' cl = cell_of (c_core c) cl \/ cell_of kc' cl = None.
Proof. exact (Proof.LruStore_cells.cell_frame Memory). Qed.
Print Assumptions C08_cell_content_frame.

(* its hypothesis holds in every reachable state *)
Theorem C08_reachable_cells : forall fx cap ops, CellInv (c_core (fst (crun Memory fx (cinit cap) ops))).
Proof. exact (Proof.LruStore_cells.crun_CellInv Memory). Qed.
Print Assumptions C08_reachable_cells.

(* cells are never shared between blobs and never reused (a new blob always gets the next id) *)
Theorem C08_cells_distinct_fresh : forall cap ops,
  let kc := c_core (mreach_c cap ops) in
  (forall k1 k2 b1 b2, assoc k1 (k_blobs kc) = Some b1 -> assoc k2 (k_blobs kc) = Some b2 -> b_cell b1 = b_cell b2 -> k1 = k2) /\
  (forall k b, assoc k (k_blobs kc) = Some b -> b_cell b < k_next kc /\ exists d, cell_of kc (b_cell b) = Some d) /\
  (forall h c off, assoc h (k_handles kc) = Some (c, off) -> c < k_next kc) /\
  (forall o, k_next kc <= k_next (c_core (fst (cstep Memory true (mreach_c cap ops) o)))).
Proof. exact Proof.C08.cells_distinct_fresh. Qed.
Print Assumptions C08_cells_distinct_fresh.

(* ---- executable form used on observed traces (spec equality + the stale-handle scan) *)
Theorem C08_check_sound : forall cap ops, cap < two64 -> C08_check cap ops (C08_impl cap ops) = true.
Proof. exact Proof.C08.check_sound. Qed.
Print Assumptions C08_check_sound.

(* ---- non-vacuity: a handle kept across an eviction and a re-creation of the same key *)
Example C08_nonvacuous_stale :
  let ops1 := [CreateW 9 1 []] in
  let o := Create 0 60 in
  let ops2 := [HWrite 0 [104; 105]; MarkComplete 0; CreateW 1 60 [7]] in      (* evicts key 0 *)
  let ops3 := [Delete 1 SAny; Create 0 60; HWrite 1 [78; 69; 87]] in          (* key 0 again: a new incarnation *)
  key_of_open o = Some 0 /\
  snd (cstep Memory true (mreach_c 100 ops1) o) = OHandle 0 /\
  assoc 0 (k_blobs (c_core (mreach_c 100 (ops1 ++ [o] ++ ops2)))) = None /\
  let c := mreach_c 100 (ops1 ++ [o] ++ ops2 ++ ops3) in
  snd (cstep Memory true c (HReadAt 0 8 0)) = OErr EEvicted /\
  snd (cstep Memory true c (HSize 0)) = OSize (-1) /\
  snd (cstep Memory true c (HWrite 0 [1])) = OErr EEvicted /\
  snd (cstep Memory true c (HReadAt 1 8 0)) = ORead [78; 69; 87] true /\
  snd (cstep Memory true c (OpenRead 0 SAny)) = OBytes [78; 69; 87].
Proof. vm_compute. repeat split; reflexivity. Qed.

Example C08_nonvacuous_live :
  let ops := [Create 0 4; Open 0 SIncomplete; HWrite 0 [1; 2; 3; 4; 5; 6]; HRead 1 4] in
  map fst (C08_impl 100 ops) = [OHandle 0; OHandle 1; OWrote 6; ORead [1; 2; 3; 4] false] /\
  snd (cstep Memory true (mreach_c 100 ops) (HRead 1 4)) = ORead [5; 6] false /\
  snd (cstep Memory true (mreach_c 100 ops) (HOff 1)) = OSize 4.
Proof. vm_compute. repeat split; reflexivity. Qed.
