(* C01 — content-addressed stores never serve bytes that do not hash to their name.
   Statements only; every proof is `exact <lemma from Proof/C01*.v>`.

   H is the hash (SHA-256 followed by the canonical naming of digests): every theorem holds for
   every function H.  cfg: memory cache on/off, SkipHashVerification, DrainMaxRetries, TTL, the
   metainfo piece length; c_memverify = true is the code with fixes/C01_mem_path_verify.patch,
   c_memverify = false the pinned code; c_lenchk = whether fixes/C13_size_mismatch.patch is present
   (both values are covered).  Histories range over client uploads (transfer and cluster: start,
   patch at any offset, commit), CreateCacheFile, backend refreshes with any Stat size, any byte
   stream on the first and on the second download attempt, any outcome of the memory reservation
   (= any capacity), drain iterations at any point with or without the disk accepting the write,
   clock ticks, TTL expiry, delete and overwrite-metainfo.  race_free ops = no PATCH is still
   delivering its body while its own upload is committed (the property's schedules are the timings
   of the drain; what happens otherwise is C01_late_patch_refuted, known finding C01-late-patch). *)
From Coq Require Import List NArith ZArith Bool.
From K.Model Require Import C01.
From K.Proof Require C01_thm C01_wit.
Import ListNotations.
Local Open Scope N_scope.

(* clause 1: after any history, whatever a reader obtains under a name — data, size, torrent
   metainfo, from a memory entry or from the cache dir — belongs to bytes that hash to the name *)
Theorem C01_readable_hashes : forall (H : bytes -> N) (cf : cfg) (ops : list (op bytes)) (name : N),
  c_skip cf = false -> c_memverify cf = true -> race_free ops = true ->
  let v := view_of (exec H cf init ops) name in
  (forall c, v_data v = Some c -> H c = name) /\
  (forall k, v_size v = Some k -> exists c, v_data v = Some c /\ H c = name /\ k = len c) /\
  (forall nm c pl, v_meta v = Some (nm, c, pl) -> nm = name /\ H c = name).
Proof. exact Proof.C01_thm.readable_hashes. Qed.
Print Assumptions C01_readable_hashes.

(* clause 2: a write (upload commit, CreateCacheFile, refresh) none of whose attempts delivers bytes
   hashing to the claimed name fails, and every reader of every name sees exactly what it saw
   before — from any state whatsoever *)
Theorem C01_failed_write_invisible : forall (H : bytes -> N) (cf : cfg) (s : st) (o : op bytes),
  c_skip cf = false -> c_memverify cf = true -> bad_write H s o = true ->
  snd (step H cf s o) <> OOk /\ forall n, view_of (fst (step H cf s o)) n = view_of s n.
Proof. exact Proof.C01_thm.failed_write_invisible. Qed.
Print Assumptions C01_failed_write_invisible.

(* ... equivalently: a write that reports success delivered bytes that hash to the name *)
Theorem C01_ok_write_matches : forall (H : bytes -> N) (cf : cfg) (s : st) (o : op bytes),
  c_skip cf = false -> c_memverify cf = true -> snd (step H cf s o) = OOk -> bad_write H s o = false.
Proof. exact Proof.C01_thm.ok_write_matches. Qed.
Print Assumptions C01_ok_write_matches.

(* the store is not vacuously safe: matching bytes are accepted and become readable at once —
   through the disk path (CreateCacheFile) and through the memory write-through path *)
Theorem C01_matching_create_visible : forall (H : bytes -> N) (cf : cfg) (s : st) (name : N) (w : stream bytes),
  s_err w = false -> valid name = true -> H (sdata w) = name -> read s name = None ->
  snd (step H cf s (Create name w)) = OOk /\ read (fst (step H cf s (Create name w))) name = Some (sdata w).
Proof. exact Proof.C01_thm.matching_create_visible. Qed.
Print Assumptions C01_matching_create_visible.

Theorem C01_matching_refresh_memory_visible :
  forall (H : bytes -> N) (cf : cfg) (s : st) (name stat : N) (w1 w2 : stream bytes) (pl : Z),
  c_mem cf = true -> s_err w1 = false -> valid name = true -> H (sdata w1) = name ->
  len (sdata w1) = stat -> (0 < pl)%Z -> alookup name (mem s) = None ->
  let r := step H cf s (Refresh name true stat w1 w2 pl) in
  snd r = OOk /\
  view_of (fst r) name = mkview (Some (sdata w1)) (Some (len (sdata w1))) (Some (name, sdata w1, pl)).
Proof. exact Proof.C01_thm.matching_refresh_memory_visible. Qed.
Print Assumptions C01_matching_refresh_memory_visible.

(* any timing of the drain, at the granularity of lock regions: the same conclusion for every
   sequence of atomic steps of any number of concurrent writers, drain workers, TTL workers and
   readers (each step may carry arbitrary bytes; local data = ghost sets, see Model/C01.v) *)
Theorem C01_readable_hashes_atomic : forall (H : bytes -> N) (cf : cfg) (l : list aop) (name : N),
  c_skip cf = false ->
  let v := aview (arun H cf ainit l) name in
  (forall c, v_data v = Some c -> H c = name) /\
  (forall k, v_size v = Some k -> exists c, v_data v = Some c /\ H c = name /\ k = len c) /\
  (forall nm c pl, v_meta v = Some (nm, c, pl) -> nm = name /\ H c = name).
Proof. exact Proof.C01_thm.readable_hashes_atomic. Qed.
Print Assumptions C01_readable_hashes_atomic.

(* the API-level model (the one executed against the real code) is refined by the atomic-step
   system: every reachable API-level state is reached by atomic steps, with the same views *)
Theorem C01_api_refines_atomic : forall (H : bytes -> N) (cf : cfg) (ops : list (op bytes)),
  c_skip cf = false -> c_memverify cf = true -> race_free ops = true ->
  exists l : list aop,
    let a := arun H cf ainit l in let s := exec H cf init ops in
    a_disk a = disk s /\ a_mem a = mem s /\ forall name, aview a name = view_of s name.
Proof. exact Proof.C01_thm.api_refines_atomic. Qed.
Print Assumptions C01_api_refines_atomic.

(* executable form used on observed traces, and what it means for one observed view *)
Theorem C01_check_sound : forall (H : bytes -> N) (cf : cfg) (names : list N) (ops : list (op bytes)),
  c_skip cf = false -> c_memverify cf = true -> race_free ops = true ->
  C01_check H cf names ops (snd (run H cf names init ops)) = true.
Proof. exact Proof.C01_thm.check_sound. Qed.
Print Assumptions C01_check_sound.

Theorem C01_check_view_meaning : forall (H : bytes -> N) (name : N) (v : view bytes),
  view_ok H name v = true ->
  (forall c, v_data v = Some c -> H c = name) /\
  (forall k, v_size v = Some k -> exists c, v_data v = Some c /\ H c = name /\ k = len c) /\
  (forall nm c pl, v_meta v = Some (nm, c, pl) -> nm = name /\ H c = name).
Proof. exact Proof.C01_thm.check_view_meaning. Qed.
Print Assumptions C01_check_view_meaning.

(* the pinned code (memory write-through path without verification) violates clause 1: a corrupted
   backend stream of the announced length is readable — data, size and a metainfo naming d — under d *)
Theorem C01_mem_path_refuted :
  exists (H : bytes -> N) (cf : cfg) (ops : list (op bytes)) (name : N) (c : bytes),
    c_skip cf = false /\ c_memverify cf = false /\
    view_of (exec H cf init ops) name = mkview (Some c) (Some (len c)) (Some (name, c, 4%Z)) /\
    H c <> name.
Proof. exact Proof.C01_wit.mem_path_refuted. Qed.
Print Assumptions C01_mem_path_refuted.

(* outside race_free: a PATCH that opened the upload file before the commit and delivers its body
   after it writes into the committed file — fixed code, verification on, every call returned success *)
Theorem C01_late_patch_refuted :
  exists (H : bytes -> N) (cf : cfg) (ops : list (op bytes)) (name : N) (c : bytes),
    c_skip cf = false /\ c_memverify cf = true /\ race_free ops = false /\
    snd (run H cf [] init ops) = [(OOk, [], []); (OOk, [], []); (OOk, [], [])] /\
    v_data (view_of (exec H cf init ops) name) = Some c /\ H c <> name.
Proof. exact Proof.C01_wit.late_patch_refuted. Qed.
Print Assumptions C01_late_patch_refuted.

(* SkipHashVerification is an opt-out: with it the property does not hold (by design) *)
Theorem C01_skip_refuted :
  exists (H : bytes -> N) (cf : cfg) (ops : list (op bytes)) (name : N) (c : bytes),
    c_skip cf = true /\ c_memverify cf = true /\
    v_data (view_of (exec H cf init ops) name) = Some c /\ H c <> name.
Proof. exact Proof.C01_wit.skip_refuted. Qed.
Print Assumptions C01_skip_refuted.

(* the refutation witness on both codes: served until the drain gives up (pinned), rejected (fixed) *)
Example C01_witness_pinned_until_drain_gives_up :
  v_data (view_of (exec Proof.C01_wit.Hw Proof.C01_wit.cf_pinned init (Proof.C01_wit.ops_refuted ++ [Drain true])) 1)
    = Some Proof.C01_wit.blobA_corrupt /\
  v_data (view_of (exec Proof.C01_wit.Hw Proof.C01_wit.cf_pinned init (Proof.C01_wit.ops_refuted ++ [Drain true; Drain true])) 1)
    = None.
Proof. vm_compute. split; reflexivity. Qed.

Example C01_witness_fixed_rejects :
  snd (run Proof.C01_wit.Hw Proof.C01_wit.cf_fixed [1] init Proof.C01_wit.ops_refuted)
    = [(OErr, [mkview None None None], [mkview None None None])].
Proof. vm_compute. reflexivity. Qed.

(* non-vacuity: on the fixed code a history makes one blob readable from memory and one from the
   cache dir (with metainfo) after rejecting a corrupted refresh; the hypothesis of clause 2 is met
   by each kind of mismatching write and not by a matching one *)
Example C01_nonvacuous_history :
  race_free Proof.C01_wit.ops_nonvac = true /\
  map (view_of (exec Proof.C01_wit.Hw Proof.C01_wit.cf_fixed init Proof.C01_wit.ops_nonvac)) [1; 2] =
    [ mkview (Some [10; 11; 12; 13]) (Some 4) (Some (1, [10; 11; 12; 13], 4%Z));
      mkview (Some [20; 21]) (Some 2) (Some (2, [20; 21], 4%Z)) ] /\
  map fst (mem (exec Proof.C01_wit.Hw Proof.C01_wit.cf_fixed init Proof.C01_wit.ops_nonvac)) = [1] /\
  map fst (disk (exec Proof.C01_wit.Hw Proof.C01_wit.cf_fixed init Proof.C01_wit.ops_nonvac)) = [2].
Proof. vm_compute. repeat split; reflexivity. Qed.

Example C01_nonvacuous_bad_writes :
  bad_write Proof.C01_wit.Hw init (Refresh 1 true 4 (mkstream [[10; 11; 12; 99]] false) (mkstream [[10; 11; 12; 99]] false) 4%Z) = true /\
  bad_write Proof.C01_wit.Hw init (Create 1 (mkstream [[20; 21]] false)) = true /\
  bad_write Proof.C01_wit.Hw (exec Proof.C01_wit.Hw Proof.C01_wit.cf_fixed init [UStart false 1 1; UPatch false 1 1 0 4 [10; 11; 12; 99]])
            (UCommit false 1 1) = true /\
  bad_write Proof.C01_wit.Hw (exec Proof.C01_wit.Hw Proof.C01_wit.cf_fixed init [UStart false 1 1; UPatch false 1 1 0 4 [10; 11; 12; 13]])
            (UCommit false 1 1) = false.
Proof. vm_compute. repeat split; reflexivity. Qed.
