(* C37 — backend clients honour the storage contract.
   Statements only; every proof is `exact <lemma from Proof/C37*.v>`.

   Partial by construction: the storage engines (the file tree behind the testfs server, the SQL
   table behind gorm, the S3 bucket and its pager) are association lists; what is proved is
   Kraken's own logic on top of them — path / key / repo:tag mappings, the upsert, the two SQL
   list queries, the directory walk, the S3 pagination callback, the shadow composition — as a
   refinement of the contract  name |-> bytes.  `guard c ops` is the contract's domain, a boolean
   over the history's name space: the client maps every name to an engine key, different names to
   different keys (testfs: no key is a directory of another), sql contents are non-empty when the
   engine skips zero-valued assigns (sql_zero), no objects written behind the client's back;
   `guard_list` adds that listing maps keys back to names (C36's round trip).  Outside the domain:
   the `_refuted` / observation witnesses at the end. *)
From Coq Require Import List NArith Bool.
From K.Model Require Import C37.
From K.Proof Require C37 C37_pages C37_thm C37_wit C37_names.
Import ListNotations.
Local Open Scope N_scope.

(* ---- clause 4: a paginated listing returns every name exactly once across its pages.
   The loop of s3backend.List over ANY page sequence: keys ks in service order, callback limit m,
   any page-size oracle zss for the successive calls.  A consumer that follows the continuation
   tokens ends with the empty token and has received exactly ks (as names), in order, each once. *)
Theorem C37_s3_pages_exactly_once :
  forall (name_of : str -> option str) (m : N) (ks : list str) (zss : list (list N)) (fuel : nat),
  (length zss + length ks < fuel)%nat ->
  let l := s3_session fuel name_of m ks 0 zss in
  last_tok l = 0 /\ concat (map fst l) = filter_map name_of ks.
Proof. exact Proof.C37_pages.s3_session_complete. Qed.
Print Assumptions C37_s3_pages_exactly_once.

(* one List call returns a prefix of what remains, whatever the page sizes (and whatever the fuel) *)
Theorem C37_s3_call_returns_prefix :
  forall (name_of : str -> option str) (m : N) (fuel : nat) (rest : list str) (zs : list N)
         (acc names rest' : list str),
  s3_call fuel name_of m rest zs acc = (names, rest') ->
  exists consumed, rest = consumed ++ rest' /\ names = acc ++ filter_map name_of consumed.
Proof. exact Proof.C37_pages.s3_call_spec. Qed.
Print Assumptions C37_s3_call_returns_prefix.

(* the fuel of the totalised loops is adequate: more fuel never changes the result *)
Theorem C37_s3_call_fuel_adequate :
  forall (name_of : str -> option str) (m : N) (f1 f2 : nat) (rest : list str) (zs : list N) (acc : list str),
  (length zs + length rest < f1)%nat -> (f1 <= f2)%nat ->
  s3_call f1 name_of m rest zs acc = s3_call f2 name_of m rest zs acc.
Proof. exact Proof.C37_pages.s3_call_fuel. Qed.
Print Assumptions C37_s3_call_fuel_adequate.

Theorem C37_s3_session_fuel_adequate :
  forall (name_of : str -> option str) (m : N) (ks : list str) (zss : list (list N)) (f1 f2 : nat),
  (length zss + length ks < f1)%nat -> (f1 <= f2)%nat ->
  s3_session f1 name_of m ks 0 zss = s3_session f2 name_of m ks 0 zss.
Proof. exact Proof.C37_pages.s3_session_fuel. Qed.
Print Assumptions C37_s3_session_fuel_adequate.

(* the non-paginated List is one such call: a prefix, complete iff its token is empty *)
Theorem C37_s3_unpaged_prefix_partial :
  forall (name_of : str -> option str) (m : N) (ks : list str) (zs : list N) (names : list str) (tok' : N),
  s3_list_once name_of m ks 0 zs = (names, tok') ->
  exists consumed rest', ks = consumed ++ rest' /\ names = filter_map name_of consumed /\
                         (tok' = 0 <-> rest' = []).
Proof. exact Proof.C37_pages.s3_list_once_first. Qed.
Print Assumptions C37_s3_unpaged_prefix_partial.

(* ---- shadow over ANY two clients: if each honours the contract on names D / contents V, the
   shadow client over them (write both, read active, stat both) honours it on their common store *)
Theorem C37_shadow_contract :
  forall (SA SB : Type) (stepA : SA -> op -> SA * out) (stepB : SB -> op -> SB * out)
         (RA : SA -> store -> Prop) (RB : SB -> store -> Prop) (D V : str -> Prop) (tA tB : bool),
  (forall a s n v, RA a s -> D n -> V v ->
     exists a', stepA a (Upload n v) = (a', OOk) /\ RA a' (sset n v s)) ->
  (forall a s n, RA a s -> D n -> stepA a (Download n) = (a, get_spec (sget n s))) ->
  (forall a s n, RA a s -> D n -> stepA a (Stat n) = (a, stat_spec tA (sget n s))) ->
  (forall b s n v, RB b s -> D n -> V v ->
     exists b', stepB b (Upload n v) = (b', OOk) /\ RB b' (sset n v s)) ->
  (forall b s n, RB b s -> D n -> stepB b (Stat n) = (b, stat_spec tB (sget n s))) ->
  forall a b s n, RA a s -> RB b s -> D n ->
  (forall v, V v -> exists a' b', shadow_step stepA stepB (a, b) (Upload n v) = ((a', b'), OOk) /\
                                  RA a' (sset n v s) /\ RB b' (sset n v s)) /\
  shadow_step stepA stepB (a, b) (Download n) = ((a, b), get_spec (sget n s)) /\
  shadow_step stepA stepB (a, b) (Stat n) = ((a, b), stat_spec tA (sget n s)).
Proof. exact @Proof.C37.shadow_contract. Qed.
Print Assumptions C37_shadow_contract.

(* ---- every client (testfs, sql, s3, shadow over any two of them) refines the contract: after ANY
   history in the domain, the next answer is the one given by the stores name |-> bytes *)
Theorem C37_upload_accepted : forall c ops n v, guard c (ops ++ [Upload n v]) = true ->
  snd (step c (fst (run c (init c) ops)) (Upload n v)) = OOk.
Proof. exact Proof.C37_thm.upload_refines. Qed.
Print Assumptions C37_upload_accepted.

Theorem C37_download_refines : forall c ops n, guard c (ops ++ [Download n]) = true ->
  snd (step c (fst (run c (init c) ops)) (Download n)) = get_spec (sget n (fst (spec_stores ops))).
Proof. exact Proof.C37_thm.download_refines. Qed.
Print Assumptions C37_download_refines.

Theorem C37_stat_refines : forall c ops n, guard c (ops ++ [Stat n]) = true ->
  snd (step c (fst (run c (init c) ops)) (Stat n)) =
  match sget n (snd (spec_stores ops)) with
  | Some _ => stat_spec (tracks_size (active c)) (sget n (fst (spec_stores ops)))
  | None => ONotFound
  end.
Proof. exact Proof.C37_thm.stat_refines. Qed.
Print Assumptions C37_stat_refines.

(* clause 1: exactly the bytes last uploaded under the name *)
Theorem C37_last_upload_wins : forall c ops n v ops',
  guard c ((ops ++ Upload n v :: ops') ++ [Download n]) = true ->
  Proof.C37_thm.untouched_a n ops' = true ->
  snd (step c (fst (run c (init c) (ops ++ Upload n v :: ops'))) (Download n)) = OBytes v.
Proof. exact Proof.C37_thm.last_upload_wins. Qed.
Print Assumptions C37_last_upload_wins.

(* clause 2: that size from Stat where the client tracks sizes (sqlbackend reports 0) *)
Theorem C37_stat_size : forall c ops n v ops',
  guard c ((ops ++ Upload n v :: ops') ++ [Stat n]) = true ->
  Proof.C37_thm.untouched_a n ops' = true -> Proof.C37_thm.untouched_b n ops' = true ->
  snd (step c (fst (run c (init c) (ops ++ Upload n v :: ops'))) (Stat n)) =
  OSize (if tracks_size (active c) then len v else 0).
Proof. exact Proof.C37_thm.stat_size. Qed.
Print Assumptions C37_stat_size.

(* clause 3: the not-found answer for names never uploaded *)
Theorem C37_notfound_download : forall c ops n,
  guard c (ops ++ [Download n]) = true -> Proof.C37_thm.untouched_a n ops = true ->
  snd (step c (fst (run c (init c) ops)) (Download n)) = ONotFound.
Proof. exact Proof.C37_thm.never_uploaded_download. Qed.
Print Assumptions C37_notfound_download.

Theorem C37_notfound_stat : forall c ops n,
  guard c (ops ++ [Stat n]) = true -> Proof.C37_thm.untouched_a n ops = true ->
  snd (step c (fst (run c (init c) ops)) (Stat n)) = ONotFound.
Proof. exact Proof.C37_thm.never_uploaded_stat. Qed.
Print Assumptions C37_notfound_stat.

(* clause 4 on the clients: after any history in the domain, a listing is acceptable (list_ok):
   complete listings return exactly the stored names under the prefix, each once *)
Theorem C37_list_refines : forall c ops p md zss,
  guard c (ops ++ [List p md zss]) = true -> guard_list c (active c) (ops ++ [List p md zss]) = true ->
  list_ok (active c) md (expected c (active c) p (fst (spec_stores ops)))
          (snd (step c (fst (run c (init c) ops)) (List p md zss))) = true.
Proof. exact Proof.C37_thm.list_refines. Qed.
Print Assumptions C37_list_refines.

Theorem C37_s3_listing_exactly_once : forall c ops p k zss,
  c_bk c = Single KS3 ->
  guard c (ops ++ [List p (Paged k) zss]) = true ->
  guard_list c KS3 (ops ++ [List p (Paged k) zss]) = true ->
  exists l, snd (step c (fst (run c (init c) ops)) (List p (Paged k) zss)) = OPages l /\
    last_tok l = 0 /\
    NoDup (concat (map fst l)) /\
    forall x, In x (concat (map fst l)) <->
              sget x (fst (spec_stores ops)) <> None /\ under c KS3 p x = true.
Proof. exact Proof.C37_thm.s3_listing_exactly_once. Qed.
Print Assumptions C37_s3_listing_exactly_once.

Theorem C37_single_page_listing_exact : forall c e ops p l zss,
  c_bk c = Single e -> (e = KSql -> p <> []) ->
  guard c (ops ++ [List p Unpaged zss]) = true ->
  guard_list c e (ops ++ [List p Unpaged zss]) = true ->
  snd (step c (fst (run c (init c) ops)) (List p Unpaged zss)) = OPages [(l, 0)] ->
  NoDup l /\ forall x, In x l <-> sget x (fst (spec_stores ops)) <> None /\ under c e p x = true.
Proof. exact Proof.C37_thm.single_page_listing_exact. Qed.
Print Assumptions C37_single_page_listing_exact.

(* executable form used on observed traces: the oracle accepts every run of the model *)
Theorem C37_check_sound : forall c ops, C37_check c ops (snd (run c (init c) ops)) = true.
Proof. exact Proof.C37.check_sound. Qed.
Print Assumptions C37_check_sound.

(* ---- the domain is not an ad-hoc condition: it contains every natural name space.
   s3: any root "/" ++ clean relative path, any clean relative names (the identity pather's valid names) *)
Theorem C37_domain_s3_clean_names : forall c ops,
  c_bk c = Single KS3 -> Proof.C37_names.s3_root_ok (s3_root c) = true ->
  forallb normal_path (names_of ops) = true -> no_raw ops = true -> no_side ops = true ->
  guard c ops = true /\ guard_list c KS3 ops = true.
Proof. exact Proof.C37_names.s3_guard_of_valid. Qed.
Print Assumptions C37_domain_s3_clean_names.

(* testfs: clean relative root and names without ':', no name a directory of another *)
Theorem C37_domain_fs_clean_names : forall c ops,
  c_bk c = Single KFs -> Proof.C37_names.fs_name_ok (fs_root c) = true ->
  forallb Proof.C37_names.fs_name_ok (names_of ops) = true ->
  Proof.C37_names.prefix_free (names_of ops) = true ->
  no_raw ops = true -> no_side ops = true ->
  guard c ops = true /\ guard_list c KFs ops = true.
Proof. exact Proof.C37_names.fs_guard_of_valid. Qed.
Print Assumptions C37_domain_fs_clean_names.

(* sql: any names of the form repo:tag; contents non-empty while the engine skips zero-valued assigns *)
Theorem C37_domain_sql_tag_names : forall c ops,
  c_bk c = Single KSql ->
  forallb (fun n => match decompose n with Some _ => true | None => false end) (names_of ops) = true ->
  negb (sql_zero c) || forallb (fun v => negb (is_nil v)) (contents_of ops) = true ->
  no_raw ops = true -> no_side ops = true ->
  guard c ops = true /\ guard_list c KSql ops = true.
Proof. exact Proof.C37_names.sql_guard_of_valid. Qed.
Print Assumptions C37_domain_sql_tag_names.

Theorem C37_sql_decomposes_tag_names : forall r t,
  r <> [] -> t <> [] -> Proof.C37_names.nocolon r = true -> Proof.C37_names.nocolon t = true ->
  decompose (tag_name r t) = Some (r, t).
Proof. exact Proof.C37_names.decompose_tag_name. Qed.
Print Assumptions C37_sql_decomposes_tag_names.

(* ---- outside the domain (each witness is a harness seed case) *)

(* sqlbackend with the pinned gorm behaviour (engine oracle sql_zero = true): empty content over
   existing content keeps the old bytes — "last upload wins" fails for empty contents *)
Theorem C37_sql_empty_overwrite_refuted :
  snd (run (Proof.C37_wit.cfg_of (Single KSql) 3 true) (init (Proof.C37_wit.cfg_of (Single KSql) 3 true))
           [Upload Proof.C37_wit.w_rt Proof.C37_wit.w_x; Upload Proof.C37_wit.w_rt []; Download Proof.C37_wit.w_rt])
  = [OOk; OOk; OBytes Proof.C37_wit.w_x].
Proof. exact Proof.C37_wit.sql_empty_overwrite. Qed.
Print Assumptions C37_sql_empty_overwrite_refuted.

(* testfs: Stat of a never-uploaded name that is a directory of an uploaded name is not "not found" *)
Theorem C37_fs_directory_stat_refuted :
  snd (run (Proof.C37_wit.cfg_of (Single KFs) 3 true) (init (Proof.C37_wit.cfg_of (Single KFs) 3 true))
           [Upload Proof.C37_wit.w_b_c Proof.C37_wit.w_1; Stat Proof.C37_wit.w_b; Download Proof.C37_wit.w_b])
  = [OOk; OSizeAny; OErr].
Proof. exact Proof.C37_wit.fs_dir_stat. Qed.
Print Assumptions C37_fs_directory_stat_refuted.

(* testfs: "r:t" and "r/t" are the same file, and the listing returns the '/' form *)
Theorem C37_fs_colon_alias_refuted :
  snd (run (Proof.C37_wit.cfg_of (Single KFs) 3 true) (init (Proof.C37_wit.cfg_of (Single KFs) 3 true))
           [Upload Proof.C37_wit.w_rt Proof.C37_wit.w_1; Download Proof.C37_wit.w_r_t; List Proof.C37_wit.w_r Unpaged []])
  = [OOk; OBytes Proof.C37_wit.w_1; OPages [([Proof.C37_wit.w_r_t], 0)]].
Proof. exact Proof.C37_wit.fs_colon_alias. Qed.
Print Assumptions C37_fs_colon_alias_refuted.

(* observation (not a clause of the property, which speaks of paginated listings): the
   non-paginated s3 List stops at ListMaxKeys names and hands back a token *)
Theorem C37_s3_unpaged_truncates_observed :
  snd (run (Proof.C37_wit.cfg_of (Single KS3) 2 true) (init (Proof.C37_wit.cfg_of (Single KS3) 2 true))
           [Upload Proof.C37_wit.w_a Proof.C37_wit.w_1; Upload Proof.C37_wit.w_b Proof.C37_wit.w_2;
            Upload Proof.C37_wit.w_c Proof.C37_wit.w_3; List [] Unpaged []])
  = [OOk; OOk; OOk; OPages [([Proof.C37_wit.w_a; Proof.C37_wit.w_b], 3)]].
Proof. exact Proof.C37_wit.s3_unpaged_truncates. Qed.
Print Assumptions C37_s3_unpaged_truncates_observed.

(* observation: shadow components that diverged (a write reached the active one only) *)
Theorem C37_shadow_diverged_observed :
  snd (run (Proof.C37_wit.cfg_of (Shadow KFs KSql) 3 true) (init (Proof.C37_wit.cfg_of (Shadow KFs KSql) 3 true))
           [SideUpload false Proof.C37_wit.w_st Proof.C37_wit.w_1; Stat Proof.C37_wit.w_st; Download Proof.C37_wit.w_st])
  = [OOk; ONotFound; OBytes Proof.C37_wit.w_1].
Proof. exact Proof.C37_wit.shadow_diverged. Qed.
Print Assumptions C37_shadow_diverged_observed.

(* ---- non-vacuity: the domain contains non-trivial histories of every client; the oracle can fail *)
Example C37_nonvacuous_s3 :
  guard (Proof.C37_wit.cfg_of (Single KS3) 5 true) Proof.C37_wit.h_s3 = true /\
  guard_list (Proof.C37_wit.cfg_of (Single KS3) 5 true) KS3 Proof.C37_wit.h_s3 = true /\
  length (names_of Proof.C37_wit.h_s3) = 7%nat.
Proof. vm_compute. repeat split; reflexivity. Qed.

Example C37_nonvacuous_fs :
  guard (Proof.C37_wit.cfg_of (Single KFs) 5 true) Proof.C37_wit.h_fs = true /\
  guard_list (Proof.C37_wit.cfg_of (Single KFs) 5 true) KFs Proof.C37_wit.h_fs = true.
Proof. vm_compute. split; reflexivity. Qed.

Example C37_nonvacuous_sql :
  guard (Proof.C37_wit.cfg_of (Single KSql) 5 true) Proof.C37_wit.h_sql = true /\
  guard_list (Proof.C37_wit.cfg_of (Single KSql) 5 true) KSql Proof.C37_wit.h_sql = true.
Proof. vm_compute. split; reflexivity. Qed.

Example C37_nonvacuous_shadow :
  guard (Proof.C37_wit.cfg_of (Shadow KSql KFs) 5 true) Proof.C37_wit.h_shadow = true /\
  guard (Proof.C37_wit.cfg_of (Shadow KFs KSql) 5 true) Proof.C37_wit.h_shadow = true.
Proof. vm_compute. split; reflexivity. Qed.

Example C37_nonvacuous_pages :
  s3_session 10 (fun k => Some k) 2 [[1]; [2]; [3]; [4]; [5]] 0 [[1]; [0; 1; 1]; [0]] =
  [([[1]; [2]; [3]], 4); ([[4]; [5]], 0)].
Proof. vm_compute. reflexivity. Qed.

Example C37_oracle_can_fail :
  C37_check (Proof.C37_wit.cfg_of (Single KS3) 5 true)
            [Upload Proof.C37_wit.w_a Proof.C37_wit.w_1; Upload Proof.C37_wit.w_a Proof.C37_wit.w_x; Download Proof.C37_wit.w_a]
            [OOk; OOk; OBytes Proof.C37_wit.w_1] = false.
Proof. vm_compute. reflexivity. Qed.
