(* C37 — statements only (work in progress: placeholder until Proof/C37.v lands) *)
From Coq Require Import List NArith.
From K.Model Require Import C37.
Import ListNotations.
Example C37_placeholder : strip1 [47; 97]%N = [97]%N.
Proof. vm_compute. reflexivity. Qed.
