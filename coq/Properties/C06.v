(* C06 — the disk blob store restores its state after a crash at any point.
   Statements only; every proof is `exact <lemma from Proof/C06.v>`.

   Vocabulary (Model/C06.v): [reach c s] = every state of the store: fresh, after any completed
   operation, after a crash at ANY point of any operation followed by recovery (any number of
   crashes).  [crash c s o k] = the disk after the first k mutating calls of operation o issued in
   state s (all k; k beyond the last call = every call done, memory lost).  [recover] = disk.NewStore on
   that disk (with fixes/C06_*.patch).  [wf_op] = the client contract: legal oracles (any order in
   which RemoveAll unlinks the files; any evictable victim), data writes inside the reservation,
   registered metadata kinds.  All theorems hold for both settings of RebootIncompleteBlobs and
   every shard layout (the configuration c is universally quantified). *)
From Coq Require Import List NArith Bool.
From K.Model Require Import C06.
From K.Proof Require C06 C06_ok.
Import ListNotations.
Local Open Scope N_scope.

(* 1. After a crash at any point of any operation, reopening succeeds. *)
Theorem C06_reopen_succeeds : forall c s o k,
  reach c s -> wf_op c s o = true -> exists s', recover c (crash c s o k) = Some s'.
Proof. exact Proof.C06.reopen_succeeds. Qed.
Print Assumptions C06_reopen_succeeds.

(* 2. Every blob complete before the crash (its MarkComplete returned: it is complete in s) and not
   being deleted / evicted by the interrupted operation is listed complete, with bytes, eviction
   ban and metadata (pub = data, ban flag, metadata files) exactly as before the interrupted
   operation or exactly as after it; its accounted size is the length of its bytes. *)
Theorem C06_completed_survive : forall c s o k s' x e,
  reach c s -> wf_op c s o = true ->
  mem s x = Some e -> e_complete e = true -> removes o x = false ->
  recover c (crash c s o k) = Some s' ->
  exists d' b', dir_of s' x = Some d' /\ d_data d' = Some b' /\
    mem s' x = Some (mkment (N.of_nat (length b')) true (d_ban d')) /\
    (option_map pub (dir_of s x) = Some (pub d') \/
     option_map pub (dir_of (st_of (step c s o)) x) = Some (pub d')).
Proof. exact Proof.C06.completed_survive. Qed.
Print Assumptions C06_completed_survive.

(* 2'. PARTIAL for the one blob whose Delete / eviction the crash interrupted (RemoveAll in any
   order): it is gone without a trace, or still listed with its bytes and a SUBSET of its ban flag
   and metadata — not necessarily all of them (the files RemoveAll already unlinked are lost). *)
Theorem C06_interrupted_removal_partial : forall c s o k s' x e,
  reach c s -> wf_op c s o = true -> mem s x = Some e -> removes o x = true ->
  recover c (crash c s o k) = Some s' ->
  (mem s' x = None /\ blobs (disk s') x = (None, None)) \/
  exists d0 d' b, dir_of s x = Some d0 /\ dir_of s' x = Some d' /\ d_data d0 = Some b /\ d_data d' = Some b /\
    mem s' x = Some (mkment (if e_complete e then N.of_nat (length b) else e_size e) (e_complete e) (d_ban d')) /\
    (d_ban d' = true -> d_ban d0 = true) /\
    (forall sfx v, aget sfx (d_md d') = Some v -> aget sfx (d_md d0) = Some v).
Proof. exact Proof.C06.interrupted_removal. Qed.
Print Assumptions C06_interrupted_removal_partial.

(* 3. Nothing incomplete is reported complete: a blob listed complete after recovery was complete
   before, or the interrupted operation is its MarkComplete. Nothing is invented either. *)
Theorem C06_nothing_incomplete_complete : forall c s o k s' x e',
  reach c s -> wf_op c s o = true -> recover c (crash c s o k) = Some s' ->
  mem s' x = Some e' -> e_complete e' = true ->
  (exists e, mem s x = Some e /\ e_complete e = true) \/
  (o = MarkComplete x /\ exists e, mem s x = Some e /\ e_complete e = false).
Proof. exact Proof.C06.nothing_incomplete_complete. Qed.
Print Assumptions C06_nothing_incomplete_complete.

Theorem C06_nothing_invented : forall c s o k s' x,
  reach c s -> wf_op c s o = true -> recover c (crash c s o k) = Some s' ->
  mem s' x <> None -> mem s x <> None \/ exists sz, o = Create x sz.
Proof. exact Proof.C06.nothing_invented. Qed.
Print Assumptions C06_nothing_invented.

(* 4. Incomplete blobs: restored with their reserved size (and bytes / ban / metadata as before or
   after the interrupted operation) when RebootIncompleteBlobs is set, dropped — directory
   included — when it is not. *)
Theorem C06_incomplete_restored_or_dropped : forall c s o k s' x e,
  reach c s -> wf_op c s o = true ->
  mem s x = Some e -> e_complete e = false -> removes o x = false -> o <> MarkComplete x ->
  recover c (crash c s o k) = Some s' ->
  if c_ri c
  then exists d' b', dir_of s' x = Some d' /\ d_data d' = Some b' /\
         mem s' x = Some (mkment (e_size e) false (d_ban d')) /\
         (option_map pub (dir_of s x) = Some (pub d') \/
          option_map pub (dir_of (st_of (step c s o)) x) = Some (pub d'))
  else mem s' x = None /\ blobs (disk s') x = (None, None).
Proof. exact Proof.C06.incomplete_restored_or_dropped. Qed.
Print Assumptions C06_incomplete_restored_or_dropped.

(* 4'. A Create interrupted by the crash: the blob is absent with nothing left on disk, or restored
   with exactly the size it reserved (never with a stale or empty size). *)
Theorem C06_inflight_create : forall c s k s' x sz,
  reach c s -> wf_op c s (Create x sz) = true -> mem s x = None ->
  recover c (crash c s (Create x sz) k) = Some s' ->
  (mem s' x = None /\ blobs (disk s') x = (None, None)) \/
  (c_ri c = true /\ mem s' x = Some (mkment sz false false)).
Proof. exact Proof.C06.inflight_create. Qed.
Print Assumptions C06_inflight_create.

(* 4''. A MarkComplete interrupted by the crash: still incomplete (restored / dropped as configured), or
   complete with its bytes and ban flag, its movable metadata intact and its immovable (even)
   metadata each either still there or already removed. *)
Theorem C06_inflight_complete : forall c s k s' x e,
  reach c s -> wf_op c s (MarkComplete x) = true -> mem s x = Some e -> e_complete e = false ->
  recover c (crash c s (MarkComplete x) k) = Some s' ->
  (if c_ri c
   then exists d' b', dir_of s' x = Some d' /\ d_data d' = Some b' /\
          mem s' x = Some (mkment (e_size e) false (d_ban d')) /\ option_map pub (dir_of s x) = Some (pub d')
   else mem s' x = None /\ blobs (disk s') x = (None, None)) \/
  exists d0 d' b, dir_of s x = Some d0 /\ dir_of s' x = Some d' /\ d_data d0 = Some b /\ d_data d' = Some b /\
    mem s' x = Some (mkment (N.of_nat (length b)) true (d_ban d')) /\ d_ban d' = d_ban d0 /\
    (forall sfx, aget sfx (d_md d') = aget sfx (d_md d0) \/ (N.even sfx = true /\ aget sfx (d_md d') = None)).
Proof. exact Proof.C06.inflight_complete. Qed.
Print Assumptions C06_inflight_complete.

(* 5. Every key can be created and completed again — in every reachable state, in particular after
   any crash and recovery, including keys whose creation or deletion the crash interrupted:
   (Delete if listed, in any legal unlink order,) Create, MarkComplete all succeed. *)
Theorem C06_keys_reusable : forall c s x sz ord,
  reach c s ->
  (mem s x <> None -> legal_order ord (dir_of s x) = true) ->
  (msize s - size_of (mem s x)) + sz <= c_cap c ->
  reuse c s x sz ord = true.
Proof. exact Proof.C06.keys_reusable. Qed.
Print Assumptions C06_keys_reusable.

Theorem C06_keys_reusable_after_crash : forall c s o k s' x sz ord,
  reach c s -> wf_op c s o = true -> recover c (crash c s o k) = Some s' ->
  (mem s' x <> None -> legal_order ord (dir_of s' x) = true) ->
  (msize s' - size_of (mem s' x)) + sz <= c_cap c ->
  reuse c s' x sz ord = true.
Proof. exact Proof.C06.keys_reusable_after_crash. Qed.
Print Assumptions C06_keys_reusable_after_crash.

(* ... because no reachable state has anything on disk for a key the store does not list, and every
   listed blob has its data file (within the reservation) and its ban flag on disk. *)
Theorem C06_memory_matches_disk : forall c s x, reach c s ->
  match mem s x with
  | None => blobs (disk s) x = (None, None)
  | Some e => exists d b, blobs (disk s) x = vset (area_of e) (Some d) (None, None) /\ dir_of s x = Some d /\
                          d_data d = Some b /\ N.of_nat (length b) <= e_size e /\ d_ban d = e_banned e
  end.
Proof. exact Proof.C06.memory_matches_disk. Qed.
Print Assumptions C06_memory_matches_disk.

(* 6. Size accounting is the sum over the listed blobs (and stays within capacity) ... *)
Theorem C06_size_is_sum : forall c s, reach c s ->
  msize s = sum_sizes (mem s) (dom (disk s)) /\ NoDup (dom (disk s)) /\
  (forall x, mem s x <> None -> In x (dom (disk s))) /\ msize s <= c_cap c.
Proof. exact Proof.C06.size_is_sum. Qed.
Print Assumptions C06_size_is_sum.

(* ... and right after ANY successful recovery the summands are: length of the bytes for a complete
   blob, the size decoded from the `_size` sidecar for an incomplete one. *)
Theorem C06_recovered_sizes : forall c f s' x e, recover c f = Some s' -> mem s' x = Some e ->
  msize s' = sum_sizes (mem s') (dom (disk s')) /\
  exists d, dir_of s' x = Some d /\
    if e_complete e then exists b, d_data d = Some b /\ e_size e = N.of_nat (length b)
    else exists sb, d_sizef d = Some sb /\ undec sb = Some (e_size e).
Proof. exact Proof.C06.recovered_sizes. Qed.
Print Assumptions C06_recovered_sizes.

(* 7. The model's programs are exact: from every reachable state every mutating call an operation
   lists succeeds when executed in order (a failed call never appears in a recorded trace), and the
   operation's disk effect IS the execution of its call list — so "crash after k calls" is well defined
   ([crash] = [exec] of the first k calls). This is the proved half of the trace correspondence. *)
Theorem C06_calls_succeed : forall c s o, reach c s -> wf_op c s o = true ->
  all_ok (calls_of (step c s o)) (disk s) = true /\
  disk (st_of (step c s o)) = exec (calls_of (step c s o)) (disk s).
Proof. exact Proof.C06_ok.calls_succeed_and_effect. Qed.
Print Assumptions C06_calls_succeed.

Theorem C06_trace_succeeds : forall c ops s, reach c s -> wf_all c s ops = true ->
  all_ok (trace (run c s ops)) (disk s) = true.
Proof. exact Proof.C06_ok.trace_succeeds. Qed.
Print Assumptions C06_trace_succeeds.

(* 8. A crash DURING recovery is harmless: recovery's own mutations are removals of entries it
   drops (and of the incomplete area when it is wiped); from any disk such an interrupted removal can
   leave, the next recovery yields the same store (same entries, same sizes, same directories). *)
Theorem C06_recovery_crash_harmless : forall c f f' s1,
  interrupted_recovery c f f' -> recover c f = Some s1 ->
  exists s2, recover c f' = Some s2 /\ msize s2 = msize s1 /\
    forall x, mem s2 x = mem s1 x /\ blobs (disk s2) x = blobs (disk s1) x.
Proof. exact Proof.C06.recovery_crash_harmless. Qed.
Print Assumptions C06_recovery_crash_harmless.

Theorem C06_recovery_crash_nonvacuous :
  interrupted_recovery (Proof.C06.cfg_w true) Proof.C06.ex_f Proof.C06.ex_f' /\
  blobs Proof.C06.ex_f 0 <> blobs Proof.C06.ex_f' 0 /\
  exists s1, recover (Proof.C06.cfg_w true) Proof.C06.ex_f = Some s1 /\ mem s1 0 = None.
Proof. exact Proof.C06.recovery_crash_nonvacuous. Qed.

(* The recovery of the pinned commit (before fixes/C06_*.patch), [recover_old], violates clauses 1 and 5. *)
Theorem C06_empty_size_refuted :
  exists c s o k, reach c s /\ wf_op c s o = true /\ recover_old c (crash c s o k) = None.
Proof. exact Proof.C06.empty_size_refuted. Qed.
Print Assumptions C06_empty_size_refuted.

Theorem C06_leftover_dir_refuted :
  exists c s o k s' x, reach c s /\ wf_op c s o = true /\ recover_old c (crash c s o k) = Some s' /\
    mem s' x = None /\ reuse c s' x 1 [] = false.
Proof. exact Proof.C06.leftover_dir_refuted. Qed.
Print Assumptions C06_leftover_dir_refuted.

Theorem C06_leftover_complete_dir_refuted :
  exists c s o k s' x, reach c s /\ wf_op c s o = true /\ recover_old c (crash c s o k) = Some s' /\
    mem s' x = None /\ is_ok (out_of (step c s' (Create x 1))) = true /\
    out_of (step c (st_of (step c s' (Create x 1))) (MarkComplete x)) = OErr.
Proof. exact Proof.C06.leftover_complete_dir_refuted. Qed.
Print Assumptions C06_leftover_complete_dir_refuted.

(* ---- non-vacuity: a reachable state with a complete, banned blob carrying metadata and an
   incomplete blob; an operation in flight; crash points in its middle; recovery succeeds and
   shows what the theorems say. *)
Definition ex_cfg : cfg := mkcfg true 100 3 [(0, [160; 176]); (1, [160; 177])].
Definition ex_hist : list op :=
  [Create 0 3; WriteAt 0 0 [97; 98; 99]; SetMd 0 1 [109]; SetMd 0 0 [105]; Ban 0; MarkComplete 0;
   Create 1 4; WriteAt 1 1 [7; 8]].
Example C06_nonvacuous_state :
  wf_all ex_cfg init ex_hist = true /\
  mem (after ex_cfg init ex_hist) 0 = Some (mkment 3 true true) /\
  mem (after ex_cfg init ex_hist) 1 = Some (mkment 4 false false) /\
  option_map pub (dir_of (after ex_cfg init ex_hist) 0) = Some (Some [97; 98; 99], true, [(1, [109])]).
Proof. vm_compute. repeat split; reflexivity. Qed.

Example C06_nonvacuous_crash_in_setmd :
  let s := after ex_cfg init ex_hist in
  let o := SetMd 0 1 [110; 111] in
  wf_op ex_cfg s o = true /\ removes o 0 = false /\ length (calls_of (step ex_cfg s o)) = 3%nat /\
  (* tmp file created and written, rename not done: the old metadata is still there *)
  match recover ex_cfg (crash ex_cfg s o 2) with
  | Some s' => mem s' 0 = Some (mkment 3 true true) /\
               option_map pub (dir_of s' 0) = Some (Some [97; 98; 99], true, [(1, [109])]) /\
               mem s' 1 = Some (mkment 4 false false) /\ msize s' = 7
  | None => False
  end /\
  match recover ex_cfg (crash ex_cfg s o 3) with
  | Some s' => option_map pub (dir_of s' 0) = Some (Some [97; 98; 99], true, [(1, [110; 111])])
  | None => False
  end.
Proof. vm_compute. repeat split; reflexivity. Qed.

Example C06_nonvacuous_interrupted_delete :
  let s := after ex_cfg init ex_hist in
  let o := Delete 0 [FMd 1; FBan; FSize; FData] in
  wf_op ex_cfg s o = true /\ removes o 0 = true /\
  match recover ex_cfg (crash ex_cfg s o 2) with          (* metadata and ban flag gone, data still there *)
  | Some s' => mem s' 0 = Some (mkment 3 true false) /\ option_map pub (dir_of s' 0) = Some (Some [97; 98; 99], false, [])
               /\ reuse ex_cfg s' 0 5 [FSize; FData] = true
  | None => False
  end /\
  match recover ex_cfg (crash ex_cfg s o 4) with          (* all files unlinked, rmdir not done *)
  | Some s' => mem s' 0 = None /\ blobs (disk s') 0 = (None, None) /\ reuse ex_cfg s' 0 5 [] = true
  | None => False
  end.
Proof. vm_compute. repeat split; reflexivity. Qed.

Example C06_nonvacuous_inflight_create_and_complete :
  let s := after ex_cfg init ex_hist in
  (* crash between create and write of `_size` (point 4 of Create): dropped, nothing left, reusable *)
  match recover ex_cfg (crash ex_cfg (after ex_cfg init [Create 0 3]) (Create 1 4) 4) with
  | Some s' => mem s' 1 = None /\ blobs (disk s') 1 = (None, None) /\ reuse ex_cfg s' 1 4 [] = true
  | None => False
  end /\
  (* crash right after MarkComplete's rename of blob 1 (its first call is the mkdir of a shard directory);
     3 bytes were written of the 4 reserved: the size becomes the real one *)
  match recover ex_cfg (crash ex_cfg s (MarkComplete 1) 2) with
  | Some s' => mem s' 1 = Some (mkment 3 true false) /\ msize s' = 6
  | None => False
  end.
Proof. vm_compute. repeat split; reflexivity. Qed.
