From Coq Require Import List NArith Bool.
From K.Model Require Import C06.
From K.Proof Require C06.
