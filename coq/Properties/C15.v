(* C15 — Piece request bookkeeping respects pipeline limits and peer removal.
   Statements only; every proof is `exact <lemma from Proof/C15*.v>`.

   Model (Model/C15.v): `run c init ops` is piecerequest.Manager with both indexes
   (requests, requestsByPeer) as in manager.go, ClearPeer as in fixes/C15_clearpeer_all.patch;
   `run_prefix` is the same with ClearPeer as at the pinned commit.  `live s` is the complete
   index flattened; `pu c t r` = r is pending and unexpired at time t ("outstanding").
   A Reserve op carries the policy's selection and is accepted iff `legal` (a duplicate-free
   list of valid candidates no longer than requestQuota); `srun` is the flat request-log
   specification used by the oracle C15_check. *)
From Coq Require Import List NArith ZArith Bool Permutation Sorted.
From K.Model Require Import C15.
From K.Proof Require C15.
Import ListNotations.
Local Open Scope N_scope.

(* ---- the two-index manager behaves as the flat request log, for every history:
   same accept/reject decision for every selection, same failed and pending reports *)
Theorem C15_refines_spec : forall c ops,
  outs_eqb (snd (srun c sinit ops)) (snd (run c init ops)) = true.
Proof. exact Proof.C15_ref.refines. Qed.
Print Assumptions C15_refines_spec.

(* ---- clause 1: a peer is never asked for more unexpired pieces at once than its limit.
   Whatever the history, a non-empty accepted selection leaves the peer with at most
   limit-many outstanding requests, counted over the COMPLETE index *)
Theorem C15_pipeline_limit : forall c ops p origin cands dup ch,
  let s := fst (run c init ops) in
  legal c s p origin cands dup ch = true -> ch <> [] ->
  let s' := fst (step c s (Reserve p origin cands dup ch)) in
  s' = reserve_all p s ch /\
  (Z.of_nat (count_pu_peer c (now s') p (live s')) <= limit_of c origin)%Z.
Proof. exact Proof.C15_thm.pipeline_limit. Qed.
Print Assumptions C15_pipeline_limit.

(* ... and at every moment of every history in which the peer is always presented with
   the same origin flag *)
Theorem C15_pipeline_limit_always : forall c ops p origin,
  Forall (fun o => match o with Reserve p' o' _ _ _ => p' = p -> o' = origin | _ => True end) ops ->
  let s := fst (run c init ops) in
  (Z.of_nat (count_pu_peer c (now s) p (live s)) <= Z.max 0 (limit_of c origin))%Z.
Proof. exact Proof.C15_thm.pipeline_always. Qed.
Print Assumptions C15_pipeline_limit_always.

(* requestQuota with its `quota--; if quota == 0 break` is exactly limit - outstanding,
   clamped at 0 for a positive limit; the by-peer index it walks misses nothing *)
Theorem C15_quota_exact : forall c ops p origin,
  let s := fst (run c init ops) in
  let n := Z.of_nat (count_pu_peer c (now s) p (live s)) in
  ((0 < limit_of c origin)%Z -> quota c s p origin = Z.max 0 (limit_of c origin - n)) /\
  ((limit_of c origin <= 0)%Z -> quota c s p origin = (limit_of c origin - n)%Z).
Proof. exact Proof.C15_thm.quota_exact. Qed.
Print Assumptions C15_quota_exact.

(* ---- clause 2: outside endgame no piece has two unexpired outstanding requests *)
Theorem C15_no_dup_outside_endgame : forall c ops,
  Forall (fun o => match o with Reserve _ _ _ dup _ => dup = false | _ => True end) ops ->
  let s := fst (run c init ops) in
  forall i, (count_pu_piece c (now s) i (live s) <= 1)%nat.
Proof. exact Proof.C15_thm.no_dup_outside_endgame. Qed.
Print Assumptions C15_no_dup_outside_endgame.

(* whatever happened before (endgame or not), a non-endgame selection contains only pieces
   without an outstanding request and afterwards each has exactly one *)
Theorem C15_reserve_exclusive : forall c ops p origin cands ch i,
  let s := fst (run c init ops) in
  legal c s p origin cands false ch = true -> In i ch ->
  count_pu_piece c (now s) i (live s) = 0%nat /\
  count_pu_piece c (now s) i (live (reserve_all p s ch)) = 1%nat.
Proof. exact Proof.C15_thm.reserve_exclusive. Qed.
Print Assumptions C15_reserve_exclusive.

(* even in endgame one peer never holds two outstanding requests for one piece *)
Theorem C15_no_dup_same_peer : forall c ops,
  let s := fst (run c init ops) in
  forall p i,
    (length (filter (fun r => (N.eqb (r_peer r) p && N.eqb (r_piece r) i) && pu c (now s) r) (live s)) <= 1)%nat.
Proof. exact Proof.C15_thm.no_dup_same_peer. Qed.
Print Assumptions C15_no_dup_same_peer.

(* ---- clause 3: after a peer is removed none of its requests is reported pending or
   failed -- now, after any clock advance, and after any other operations short of
   reserving for that peer again; nothing of it is left in either index *)
Theorem C15_clearpeer_total : forall c ops p rest,
  Forall (fun o => match o with Reserve p' _ _ _ _ => p' <> p | _ => True end) rest ->
  let s := fst (run c init (ops ++ ClearPeer p :: rest)) in
  (forall r, In r (live s) -> r_peer r <> p) /\
  (forall i, bp_get s p i = None) /\
  (forall i q x, In (i, q, x) (get_failed c s) -> q <> p) /\
  pending_pieces s p = [].
Proof. exact Proof.C15_thm.clearpeer_total. Qed.
Print Assumptions C15_clearpeer_total.

(* ---- clause 4: clearing a piece removes all its requests (from both indexes), until the
   piece is handed out again *)
Theorem C15_clear_total : forall c ops i rest,
  Forall (fun o => match o with Reserve _ _ _ _ ch => ~ In i ch | _ => True end) rest ->
  let s := fst (run c init (ops ++ Clear i :: rest)) in
  (forall r, In r (live s) -> r_piece r <> i) /\
  (forall p, bp_get s p i = None) /\
  (forall j q x, In (j, q, x) (get_failed c s) -> j <> i) /\
  (forall p, ~ In i (pending_pieces s p)).
Proof. exact Proof.C15_thm.clear_total. Qed.
Print Assumptions C15_clear_total.

(* ---- clause 5: the failed report is, as a multiset, the failed requests of the flat log,
   and its entries are exactly the live requests that expired / were marked unsent /
   were marked invalid *)
Theorem C15_failed_exact : forall c ops,
  let s := fst (run c init ops) in
  let t := fst (srun c sinit ops) in
  Permutation (get_failed c s) (failed_of c (snow t) (sreqs t)) /\
  (forall e, In e (get_failed c s) <-> exists r, In r (live s) /\ failed_entry c (now s) r = Some e).
Proof. exact Proof.C15_thm.failed_exact. Qed.
Print Assumptions C15_failed_exact.

Theorem C15_failed_entry_spec : forall c t r i p x,
  failed_entry c t r = Some (i, p, x) <->
  r_piece r = i /\ r_peer r = p /\
  ((x = code_expired /\ r_status r = SPending /\ expired c t r = true) \/
   (x = code_unsent /\ r_status r = SUnsent) \/
   (x = code_invalid /\ r_status r = SInvalid)).
Proof. exact Proof.C15_thm.failed_entry_spec. Qed.
Print Assumptions C15_failed_entry_spec.

(* ---- the two indexes never disagree: requestsByPeer[p][i] points at a live request of
   (p,i), every live request is covered by the entry of its (peer,piece), which points at
   the newest one, and every older one is no longer outstanding; pointers are unique *)
Theorem C15_indexes_agree : forall c ops,
  let s := fst (run c init ops) in
  (forall p i id, bp_get s p i = Some id ->
     exists r, In r (live s) /\ r_id r = id /\ r_peer r = p /\ r_piece r = i) /\
  (forall r, In r (live s) ->
     exists id', bp_get s (r_peer r) (r_piece r) = Some id' /\ r_id r <= id' /\
                 (id' = r_id r \/ pu c (now s) r = false)) /\
  NoDup (map r_id (live s)).
Proof. exact Proof.C15_thm.indexes_agree. Qed.
Print Assumptions C15_indexes_agree.

(* ---- both policies only ever make legal selections: for every random stream (default
   policy, reservoir sampling) and every pop order of the queue (rarest-first) *)
Theorem C15_default_policy_legal : forall limit validf cands rnd,
  NoDup cands ->
  legal_sel (Z.of_nat limit) validf cands (default_select limit validf cands rnd) = true.
Proof. exact Proof.C15_pol.default_policy_legal. Qed.
Print Assumptions C15_default_policy_legal.

Theorem C15_rarest_policy_legal : forall limit validf cands order,
  NoDup order -> (forall x, In x order -> In x cands) ->
  legal_sel (Z.of_nat limit) validf cands (rarest_select limit validf order) = true.
Proof. exact Proof.C15_pol.rarest_policy_legal. Qed.
Print Assumptions C15_rarest_policy_legal.

Theorem C15_rarest_prefers_rare : forall limit validf (prio : N -> Z) order,
  StronglySorted (fun a b => (prio a <= prio b)%Z) order ->
  let sel := rarest_select limit validf order in
  forall s u, In s sel -> In u order -> validf u = true -> ~ In u sel -> (prio s <= prio u)%Z.
Proof. exact Proof.C15_pol.rarest_prefers_rare. Qed.
Print Assumptions C15_rarest_prefers_rare.

(* plugged into the manager: with the quota and the validity test of ANY state, what either
   policy returns is accepted by the bookkeeping (so the oracle-style Reserve of the model
   loses nothing) *)
Theorem C15_reserve_default_accepted : forall c s p origin cands dup rnd k,
  NoDup cands -> quota c s p origin = Z.of_nat k ->
  legal c s p origin cands dup (default_select k (fun i => valid c s p i dup) cands rnd) = true.
Proof. exact Proof.C15.reserve_default_accepted. Qed.
Print Assumptions C15_reserve_default_accepted.

Theorem C15_reserve_rarest_accepted : forall c s p origin cands dup order k,
  NoDup order -> (forall x, In x order -> In x cands) -> quota c s p origin = Z.of_nat k ->
  legal c s p origin cands dup (rarest_select k (fun i => valid c s p i dup) order) = true.
Proof. exact Proof.C15.reserve_rarest_accepted. Qed.
Print Assumptions C15_reserve_rarest_accepted.

(* ---- executable form used on observed traces *)
Theorem C15_check_sound : forall c ops, C15_check c ops (snd (run c init ops)) = true.
Proof. exact Proof.C15_thm.check_sound. Qed.
Print Assumptions C15_check_sound.

(* the oracle's comparison is exact: same accept/reject flags, reports equal as multisets *)
Theorem C15_check_meaning : forall c ops obs,
  C15_check c ops obs = true <->
  Forall2 (fun a b => match a, b with
                      | OUnit, OUnit => True
                      | ORes x, ORes y => x = y
                      | OFailed x, OFailed y => Permutation x y
                      | OPending x, OPending y => Permutation x y
                      | _, _ => False
                      end) (snd (srun c sinit ops)) obs.
Proof. exact Proof.C15.check_meaning. Qed.
Print Assumptions C15_check_meaning.

(* ---- the code at the pinned commit (ClearPeer ejects only the first request of the peer
   per piece): after re-reserving an expired piece for the same peer and removing the peer,
   a request of the peer is still live, is reported failed, and is in no by-peer entry *)
Theorem C15_clearpeer_refuted :
  exists c ops p,
    let s := fst (run_prefix c init (ops ++ [ClearPeer p; Tick 6])) in
    (exists r, In r (live s) /\ r_peer r = p) /\
    In (0, p, code_expired) (get_failed c s) /\
    bp_get s p 0 = None.
Proof. exact Proof.C15.clearpeer_refuted. Qed.
Print Assumptions C15_clearpeer_refuted.

(* ... requestQuota does not see the ghost: the peer can exceed its pipeline limit *)
Theorem C15_prefix_pipeline_refuted :
  exists c ops p origin cands ch,
    let s := fst (run_prefix c init ops) in
    legal c s p origin cands false ch = true /\
    (limit_of c origin < Z.of_nat (count_pu_peer c (now s) p (live (reserve_all p s ch))))%Z.
Proof. exact Proof.C15.prefix_pipeline_refuted. Qed.
Print Assumptions C15_prefix_pipeline_refuted.

(* ... and the oracle rejects that behaviour *)
Theorem C15_prefix_check_refuted :
  exists c ops, C15_check c ops (snd (run_prefix c init ops)) = false.
Proof. exact Proof.C15.prefix_check_refuted. Qed.
Print Assumptions C15_prefix_check_refuted.

(* ---- non-vacuity: concrete histories meeting the hypotheses, reaching non-trivial states *)
Example C15_nonvacuous_pipeline :
  let s := fst (run Proof.C15.wit_cfg init Proof.C15.nv_ops) in
  legal Proof.C15.wit_cfg s 0 false [2; 3; 4] false [4] = true /\ [4] <> @nil N /\
  count_pu_peer Proof.C15.wit_cfg (now s) 0 (live s) = 0%nat /\ length (live s) = 5%nat.
Proof. exact Proof.C15.nv_pipeline_limit. Qed.

Example C15_nonvacuous_history :
  Proof.C15.nv_ops =
    [Reserve 0 false [0; 1; 2; 3] false [0; 1]; Reserve 1 true [0; 1; 2; 3] false [2; 3];
     MarkUnsent 0 1; Tick 6; Reserve 0 false [0; 1] false [1]; MarkInvalid 0 1; Tick 3] /\
  get_failed Proof.C15.wit_cfg (fst (run Proof.C15.wit_cfg init Proof.C15.nv_ops)) =
    [(0, 0, 1); (1, 0, 3); (1, 0, 3); (2, 1, 1); (3, 1, 1)] /\
  pending_pieces (fst (run Proof.C15.wit_cfg init Proof.C15.nv_ops)) 1 = [2; 3].
Proof. vm_compute. auto. Qed.

Example C15_nonvacuous_flags :
  Forall (Proof.C15_thm.reserve_flag_ok 0 false) Proof.C15.nv_ops /\
  Forall (Proof.C15_thm.reserve_flag_ok 1 true) Proof.C15.nv_ops /\
  snd (run Proof.C15.wit_cfg init Proof.C15.nv_ops) = [ORes true; ORes true; OUnit; OUnit; ORes true; OUnit; OUnit].
Proof. exact Proof.C15.nv_pipeline_always. Qed.

Example C15_nonvacuous_no_endgame : Forall Proof.C15_thm.no_endgame Proof.C15.nv_ops.
Proof. exact Proof.C15.nv_no_endgame. Qed.

Example C15_nonvacuous_clearpeer :
  Forall (Proof.C15_thm.no_reserve_for 0) Proof.C15.nv_rest0 /\
  (exists r, In r (live (fst (run Proof.C15.wit_cfg init Proof.C15.nv_ops))) /\ r_peer r = 0) /\
  pending_pieces (fst (run Proof.C15.wit_cfg init Proof.C15.nv_ops)) 0 <> [] /\
  snd (run Proof.C15.wit_cfg init (Proof.C15.nv_ops ++ ClearPeer 0 :: Proof.C15.nv_rest0)) =
    [ORes true; ORes true; OUnit; OUnit; ORes true; OUnit; OUnit; OUnit; ORes true; OUnit; OUnit; OUnit; OUnit].
Proof. exact Proof.C15.nv_clearpeer. Qed.

Example C15_nonvacuous_clear :
  Forall (Proof.C15_thm.no_reserve_of 1) Proof.C15.nv_rest1 /\
  (exists r, In r (live (fst (run Proof.C15.wit_cfg init Proof.C15.nv_ops))) /\ r_piece r = 1) /\
  length (filter (fun r => N.eqb (r_piece r) 1) (live (fst (run Proof.C15.wit_cfg init Proof.C15.nv_ops)))) = 2%nat.
Proof. exact Proof.C15.nv_clear. Qed.

Example C15_nonvacuous_policies :
  default_select 2 (fun i => negb (N.eqb i 1)) [0; 1; 2; 3; 4] [0%nat; 5%nat; 1%nat] = [3; 2] /\
  rarest_select 2 (fun i => negb (N.eqb i 1)) [3; 1; 2; 0; 4] = [3; 2].
Proof. vm_compute. auto. Qed.

(* the refutation witness on the fixed model: nothing of the peer is left *)
Example C15_fixed_witness :
  let s := fst (run Proof.C15.wit_cfg init (Proof.C15.wit_ops ++ [ClearPeer 0; Tick 6])) in
  live s = [] /\ get_failed Proof.C15.wit_cfg s = [] /\
  C15_check Proof.C15.wit_cfg (Proof.C15.wit_ops ++ [ClearPeer 0; Tick 6; GetFailed])
            (snd (run Proof.C15.wit_cfg init (Proof.C15.wit_ops ++ [ClearPeer 0; Tick 6; GetFailed]))) = true.
Proof. vm_compute. auto. Qed.
