(* C14 — no input from a remote peer can crash or corrupt a peer.

   Model, at the level of DECODED handshakes and messages (all field values; protobuf byte decoding is
   outside the model: its result is the model's input), of
     lib/torrent/scheduler/conn/message.go      readMessage            (frame size cap)
     lib/torrent/scheduler/conn/conn.go         readMessage/readPayload
     lib/torrent/scheduler/conn/handshaker.go   handshakeFromP2PMessage, unmarshalBitfield (+ willf/bitset ReadFrom)
     lib/torrent/scheduler/dispatch/dispatcher.go  addPeer, removePeer, dispatch, handle*, complete, maybeRequestMorePieces
     lib/torrent/scheduler/dispatch/sync_bitfield.go, piecerequest/manager.go (as used with a large pipeline limit, no endgame)
     lib/torrent/storage/agentstorage/torrent.go  getPiece, WritePiece, GetPieceReader
     lib/torrent/storage/originstorage/torrent.go GetPieceReader, WritePiece
     utils/syncutil/counters.go, core/metainfo.go GetPieceLength.

   The code modelled is the code WITH the five guards of fixes/C14_*.patch; every guard is a boolean of the
   record [guards], so the pre-fix code (and every single-guard-removed mutant) is the same definition with
   the boolean off.  Go's runtime checks are explicit: an out-of-range slice index, a nil dereference, a
   negative or oversized make, a bitset.Set beyond the address space are [None] (= the process panics).
   Every use of an index, every allocation whose size derives from remote input and every file access is
   logged as an effect before it happens.

   Executable definitions only; proofs are in Proof/C14*.v. *)
From Coq Require Import List ZArith Bool.
From K.Gen Require Import C14_consts.
Import ListNotations.
Local Open Scope Z_scope.

(* ------------------------------------------------------------------ constants *)
Definition max_msg : Z := conn_max_message_size.   (* conn.go:40 maxMessageSize, extracted from the source *)
Definition max_alloc : Z := 2 ^ 48.                (* Go: makeslice panics above maxAlloc (linux/amd64) *)
Definition two64 : Z := 2 ^ 64.

(* ------------------------------------------------------------------ guards (fixes/C14_*.patch) *)
Record guards := mkg {
  g_nilbody : bool;   (* conn.readMessage + Dispatcher.dispatch reject a message without the body of its type *)
  g_negidx : bool;    (* handleAnnouncePiece / agent getPiece / origin GetPieceReader reject a negative index *)
  g_paylen : bool;    (* conn.readPayload rejects length < 0 or > max piece length *)
  g_bfprefix : bool;  (* handshaker.unmarshalBitfield checks the 64-bit bit count against the data *)
  g_bfsize : bool     (* Dispatcher.addPeer rejects a bitfield whose size is not NumPieces / with bits beyond *)
}.
Definition gfixed : guards := mkg true true true true true.
Definition gprefix : guards := mkg false false false false false.

(* ------------------------------------------------------------------ torrent *)
Inductive kind := Agent | Origin.
Record torrent := mkt { t_kind : kind; t_n : Z; t_p : Z; t_len : Z }.

(* n >= 1 pieces (a Go int) of p >= 1 bytes (piece lengths travel as int32), the last one of 1..p bytes *)
Definition wf_torrent (t : torrent) : bool :=
  (1 <=? t_n t) && (t_n t <? 2 ^ 63) && (1 <=? t_p t) && (t_p t <? 2 ^ 31) &&
  (t_p t * (t_n t - 1) <? t_len t) && (t_len t <=? t_p t * t_n t).

Definition in_range (t : torrent) (i : Z) : bool := (0 <=? i) && (i <? t_n t).

(* core/metainfo.go:91 GetPieceLength *)
Definition plen (t : torrent) (i : Z) : Z :=
  if (i <? 0) || (t_n t <=? i) then 0
  else if i =? t_n t - 1 then t_len t - t_p t * (t_n t - 1)
  else t_p t.

(* ------------------------------------------------------------------ effects *)
Inductive reply :=
| RErr (i c : Z)              (* ErrorMessage index, code *)
| RPay (i l : Z) (ok : bool)  (* PiecePayload index, length; ok = the bytes are the blob's piece i *)
| RReq (i l : Z)              (* PieceRequest index, length *)
| RAnn (i : Z)
| RComplete
| ROther (ty : Z).

Inductive eff :=
| EAlloc (n : Z)            (* make of n bytes, n computed from remote-controlled fields *)
| EPiece (i : Z)            (* t.pieces[i] / piece sum i *)
| ECounter (i : Z)          (* numPeersByPiece[i] *)
| EBit (i : Z)              (* bit i of a peer bitfield is written *)
| EFileRd (off len : Z)     (* bytes [off, off+len) of the blob file are read *)
| EFileWr (off len : Z)
| ESend (to : Z) (r : reply)
| EClose (q : Z).           (* the local peer closes its connection to q *)

(* ------------------------------------------------------------------ lists indexed by Z *)
Definition zget {A} (l : list A) (i : Z) (d : A) : A := nth (Z.to_nat i) l d.
Fixpoint nset {A} (l : list A) (k : nat) (v : A) : list A :=
  match l, k with
  | [], _ => []
  | _ :: t, O => v :: t
  | x :: t, S k' => x :: nset t k' v
  end.
Definition zset {A} (l : list A) (i : Z) (v : A) : list A := nset l (Z.to_nat i) v.
Definition zlen {A} (l : list A) : Z := Z.of_nat (length l).
Definition idx_ok {A} (l : list A) (i : Z) : bool := (0 <=? i) && (i <? zlen l).
Fixpoint zrange_from (k : Z) (n : nat) : list Z :=
  match n with O => [] | S n' => k :: zrange_from (k + 1) n' end.
Definition zrange (n : Z) : list Z := zrange_from 0 (Z.to_nat n).

(* ------------------------------------------------------------------ willf/bitset *)
(* blen = b.length (bits); bbits = all bits of the backing words (64 per word), lowest first *)
Record bset := mkb { blen : Z; bbits : list bool }.

Definition bits_of_word (w : Z) : list bool := map (Z.testbit w) (zrange 64).
Definition bits_of_words (ws : list Z) : list bool := flat_map bits_of_word ws.

(* bitset.go:101 wordsNeeded, for a uint argument *)
Definition words_needed (l : Z) : Z :=
  if two64 - 64 <? l then two64 / 64 - 1 else (l + 63) / 64.

Definition bget (bs : list bool) (i : Z) : bool := if i <? 0 then false else zget bs i false.

(* indices of all set bits of the backing words (what NextSet / NextSetMany iterate over: they ignore b.length) *)
Fixpoint set_from (k : Z) (bs : list bool) : list Z :=
  match bs with
  | [] => []
  | b :: t => if b then k :: set_from (k + 1) t else set_from (k + 1) t
  end.
Definition set_idxs (b : bset) : list Z := set_from 0 (bbits b).

Definition count_true (bs : list bool) : Z := zlen (filter (fun b => b) bs).
(* bitset.go:724 All *)
Definition b_all (b : bset) : bool := count_true (bbits b) =? blen b.

Definition pad_to (bs : list bool) (n : Z) : list bool := bs ++ repeat false (Z.to_nat (n - zlen bs)).

(* bitset.go:163 Set(u) for a uint u (0 <= u < 2^64); None = panic.
   u < length: plain write.  Otherwise extendSetMaybe: wordsNeeded(u+1) words (u+1 wraps to 0 for u = 2^64-1,
   then the write indexes an empty slice); make([]uint64, nsize, 2*nsize) panics beyond maxAlloc. *)
Definition b_set (b : bset) (u : Z) : option bset :=
  if u <? blen b then Some (mkb (blen b) (zset (bbits b) u true))
  else if u + 1 =? two64 then None
  else let nw := words_needed (u + 1) in
       if max_alloc <? 16 * nw then None
       else Some (mkb (u + 1) (zset (pad_to (bbits b) (64 * nw)) u true)).

(* sync_bitfield.go:94 SetAll(true): bits below b.length *)
Fixpoint setall_from (k l : Z) (bs : list bool) : list bool :=
  match bs with
  | [] => []
  | b :: t => (if k <? l then true else b) :: setall_from (k + 1) l t
  end.
Definition b_setall (b : bset) : bset := mkb (blen b) (setall_from 0 (blen b) (bbits b)).

(* a bitfield as an honest peer sends it for n pieces *)
Definition clean (n : Z) (b : bset) : bool :=
  (blen b =? n) && (zlen (bbits b) =? 64 * ((n + 63) / 64)) && forallb (fun i => i <? n) (set_idxs b).

(* ------------------------------------------------------------------ dispatcher state *)
Record dst := mkd {
  d_have : list bool;            (* piece i is complete locally *)
  d_peers : list (Z * bset);     (* connected peers: id, bitfield (Dispatcher.peers) *)
  d_cnt : list Z;                (* numPeersByPiece *)
  d_reqs : list (Z * Z * bool)   (* piece requests: peer, piece, still pending (piecerequest.Manager) *)
}.

Definition init (t : torrent) (have : list bool) : dst :=
  mkd have [] (repeat 0 (Z.to_nat (t_n t))) [].

Definition all_have (s : dst) : bool := forallb (fun b => b) (d_have s).

Fixpoint find_peer (ps : list (Z * bset)) (q : Z) : option bset :=
  match ps with
  | [] => None
  | (q', b) :: t => if q' =? q then Some b else find_peer t q
  end.
Definition set_peer (ps : list (Z * bset)) (q : Z) (b : bset) : list (Z * bset) :=
  map (fun '(q', b') => if q' =? q then (q', b) else (q', b')) ps.
Definition del_peer (ps : list (Z * bset)) (q : Z) : list (Z * bset) :=
  filter (fun '(q', _) => negb (q' =? q)) ps.

(* piecerequest/manager.go *)
Definition mark_invalid (rs : list (Z * Z * bool)) (q i : Z) : list (Z * Z * bool) :=          (* :149, :270 *)
  map (fun '(q', j, pd) => if (q' =? q) && (j =? i) then (q', j, false) else (q', j, pd)) rs.
Definition clear_piece (rs : list (Z * Z * bool)) (i : Z) : list (Z * Z * bool) :=             (* :155 *)
  filter (fun '(_, j, _) => negb (j =? i)) rs.
Definition clear_peer (rs : list (Z * Z * bool)) (q : Z) : list (Z * Z * bool) :=              (* :186 *)
  filter (fun '(q', _, _) => negb (q' =? q)) rs.
Definition pending_on (rs : list (Z * Z * bool)) (i : Z) : bool :=                             (* :228 validRequest, no duplicates *)
  existsb (fun '(_, j, pd) => (j =? i) && pd) rs.

(* the monad of one handler: state, effect log (most recent last); None = panic *)
Record acc := mka { a_st : dst; a_eff : list eff }.
Definition emit (a : acc) (e : eff) : acc := mka (a_st a) (a_eff a ++ [e]).
Definition with_st (a : acc) (s : dst) : acc := mka s (a_eff a).

(* syncutil/counters.go:56/:64 Increment / Decrement: c[i] *)
Definition cnt_add (a : acc) (i dlt : Z) : option acc :=
  let a := emit a (ECounter i) in
  let s := a_st a in
  if idx_ok (d_cnt s) i
  then Some (with_st a (mkd (d_have s) (d_peers s) (zset (d_cnt s) i (zget (d_cnt s) i 0 + dlt)) (d_reqs s)))
  else None.
Fixpoint cnt_add_all (a : acc) (is : list Z) (dlt : Z) : option acc :=
  match is with
  | [] => Some a
  | i :: t => match cnt_add a i dlt with None => None | Some a' => cnt_add_all a' t dlt end
  end.

(* dispatcher.go:375 maybeRequestMorePieces + :381 maybeSendPieceRequests, with a pipeline limit above the
   number of pieces and endgame disabled: every candidate (peer has it, we do not) without a pending request is
   requested, in index order (default policy, reservoir not full). *)
Definition request_more (t : torrent) (a : acc) (q : Z) : acc :=
  let s := a_st a in
  match find_peer (d_peers s) q with
  | None => a
  | Some b =>
      let cands := filter (fun i => bget (bbits b) i && negb (zget (d_have s) i true)) (zrange (t_n t)) in
      fold_left (fun a i =>
                   let s := a_st a in
                   if pending_on (d_reqs s) i then a
                   else emit (with_st a (mkd (d_have s) (d_peers s) (d_cnt s) (d_reqs s ++ [(q, i, true)])))
                             (ESend q (RReq i (plen t i))))
                cands a
  end.

(* dispatcher.go:283 removePeer (runs when the peer's receiver channel is closed) *)
Definition remove_peer (a : acc) (q : Z) : option acc :=
  let s := a_st a in
  match find_peer (d_peers s) q with
  | None => Some a
  | Some b =>
      let a := with_st a (mkd (d_have s) (del_peer (d_peers s) q) (d_cnt s) (clear_peer (d_reqs s) q)) in
      cnt_add_all a (set_idxs b) (-1)
  end.
Fixpoint remove_peers (a : acc) (qs : list Z) : option acc :=
  match qs with
  | [] => Some a
  | q :: t => match remove_peer a q with None => None | Some a' => remove_peers a' t end
  end.

Definition closed_of (es : list eff) : list Z :=
  flat_map (fun e => match e with EClose q => [q] | _ => [] end) es.

(* after a handler: the connections it closed are torn down (feed exits, removePeer) *)
Definition finish (a : option acc) : option acc :=
  match a with
  | None => None
  | Some a => remove_peers a (closed_of (a_eff a))
  end.

(* ------------------------------------------------------------------ handshake (decoded) *)
(* a bitfield field as it arrives: None = fewer than 8 bytes; Some (L, ws, db) = 64-bit big-endian bit count L,
   the complete 8-byte words that follow, db = number of bytes after the count *)
Definition rawbf := option (Z * list Z * Z).

Record hshake := mkh {
  h_size : Z;        (* the frame's 4-byte length prefix *)
  h_ok : bool;       (* that many bytes arrive and proto.Unmarshal accepts them *)
  h_ty : Z;          (* Message.Type *)
  h_body : bool;     (* Message.Bitfield present *)
  h_peer : bool;     (* PeerID parses (core.NewPeerID) *)
  h_hash : bool;     (* InfoHash parses *)
  h_name : bool;     (* Name parses as a sha256 digest *)
  h_bf : rawbf;      (* BitfieldBytes *)
  h_rb : list (bool * rawbf);   (* RemoteBitfieldBytes: key parses as a peer id, value *)
  h_known : bool;    (* the digest names the torrent (scheduler.go:386 torrentArchive.Stat) *)
  h_dup : bool       (* the peer id is that of a peer which is already connected *)
}.

Inductive bfres := BPanic | BReject (es : list eff) | BOk (es : list eff) (b : bset).

(* handshaker.go unmarshalBitfield (guard) + bitset.go:799 ReadFrom: New(L) allocates wordsNeeded(L) words
   (a makeslice panic is recovered by New and ends in "type mismatch"), binary.Read allocates as many bytes
   again and fails when fewer arrive.  (ws holds the db/8 complete words, so firstn yields nw words whenever
   8*nw <= db; pad_to only makes the length independent of that relation.) *)
Definition parse_bf (g : guards) (r : rawbf) : bfres :=
  match r with
  | None => BReject []
  | Some (L, ws, db) =>
      if g_bfprefix g && (8 * db <? L) then BReject []
      else let nw := words_needed L in
           if max_alloc <? 8 * nw then BReject []
           else if nw =? 0 then BOk [EAlloc 0] (mkb L [])
           else if db <? 8 * nw then BReject [EAlloc (8 * nw); EAlloc (8 * nw)]
           else BOk [EAlloc (8 * nw); EAlloc (8 * nw)] (mkb L (pad_to (bits_of_words (firstn (Z.to_nat nw) ws)) (64 * nw)))
  end.

Fixpoint parse_rbs (g : guards) (rs : list (bool * rawbf)) (es : list eff) : option (list eff * bool) :=
  match rs with
  | [] => Some (es, true)
  | (kok, r) :: t =>
      if negb kok then Some (es, false)
      else match parse_bf g r with
           | BPanic => None
           | BReject es' => Some (es ++ es', false)
           | BOk es' _ => parse_rbs g t (es ++ es')
           end
  end.

Inductive hres :=
| HPanic
| HReject (stage : Z) (es : list eff)   (* 0 handshake undecodable, 1 unknown torrent, 2 refused by addPeer *)
| HAccept (a : acc).

(* dispatcher.go:264 addPeer *)
Definition add_peer (g : guards) (t : torrent) (s : dst) (q : Z) (b : bset) (dup : bool) (es : list eff) : hres :=
  if g_bfsize g && negb ((blen b =? t_n t) && forallb (fun i => i <? t_n t) (set_idxs b)) then HReject 2 es
  else if dup then HReject 2 es
  else match find_peer (d_peers s) q with
       | Some _ => HReject 2 es
       | None =>
           let a := mka (mkd (d_have s) (d_peers s ++ [(q, mkb (blen b) (bbits b))]) (d_cnt s) (d_reqs s)) es in
           match cnt_add_all a (set_idxs b) 1 with
           | None => HPanic
           | Some a => HAccept (request_more t a q)
           end
       end.

(* message.go:126 readMessage, handshaker.go:97 handshakeFromP2PMessage, scheduler glue, addPeer *)
Definition handshake (g : guards) (t : torrent) (s : dst) (q : Z) (h : hshake) : hres :=
  if max_msg <? h_size h then HReject 0 []
  else let es := [EAlloc (h_size h)] in
  if negb (h_ok h) then HReject 0 es
  else if negb ((h_ty h =? 0) && h_body h) then HReject 0 es
  else if negb (h_peer h && h_hash h && h_name h) then HReject 0 es
  else match parse_bf g (h_bf h) with
       | BPanic => HPanic
       | BReject es' => HReject 0 (es ++ es')
       | BOk es' b =>
           match parse_rbs g (h_rb h) (es ++ es') with
           | None => HPanic
           | Some (es, false) => HReject 0 es
           | Some (es, true) =>
               if negb (h_known h) then HReject 1 es
               else add_peer g t s q b (h_dup h) es
           end
       end.

(* ------------------------------------------------------------------ messages (decoded) *)
Record wmsg := mkm {
  m_size : Z;                     (* length prefix *)
  m_ok : bool;                    (* that many bytes arrive and decode *)
  m_ty : Z;                       (* Message.Type: 0 BITFIELD 1 PIECE_REQUEST 2 PIECE_PAYLOAD 3 ANNOUCE_PIECE 4 CANCEL_PIECE 5 ERROR 6 COMPLETE *)
  m_req : option (Z * Z * Z);     (* PieceRequest: index, offset, length *)
  m_pay : option (Z * Z * Z);     (* PiecePayload: index, offset, length *)
  m_ann : option Z;               (* AnnouncePiece: index *)
  m_err : option (Z * Z);         (* Error: index, code *)
  m_deliver : bool;               (* the remote sends the payload bytes it announced (otherwise it hangs up) *)
  m_sumok : bool                  (* the delivered bytes have the piece sum of the piece the header names *)
}.

Definition to_uint (i : Z) : Z := i mod two64.

Definition set_bit_of (a : acc) (q i : Z) : option acc :=
  let a := emit a (EBit i) in
  let s := a_st a in
  match find_peer (d_peers s) q with
  | None => Some a
  | Some b => match b_set b (to_uint i) with
              | None => None
              | Some b' => Some (with_st a (mkd (d_have s) (set_peer (d_peers s) q b') (d_cnt s) (d_reqs s)))
              end
  end.

Definition do_mark_invalid (a : acc) (q i : Z) : acc :=
  let s := a_st a in with_st a (mkd (d_have s) (d_peers s) (d_cnt s) (mark_invalid (d_reqs s) q i)).

(* dispatcher.go:546 isFullPiece *)
Definition is_full (t : torrent) (i off len : Z) : bool := (off =? 0) && (len =? plen t i).

(* agentstorage/torrent.go:149 getPiece; originstorage/torrent.go:124: Some true = a piece, Some false = error *)
Definition get_piece (g : guards) (t : torrent) (i : Z) : option bool :=
  if t_n t <=? i then Some false
  else if i <? 0 then (if g_negidx g then Some false else None)
  else Some true.

(* dispatcher.go:550 handlePieceRequest *)
Definition handle_request (g : guards) (t : torrent) (a : acc) (q i off len : Z) : option acc :=
  if negb (is_full t i off len) then Some (emit a (ESend q (RErr i 0)))
  else
    let serve (a : acc) :=
      let a := emit a (ESend q (RPay i (plen t i) (in_range t i))) in
      let a := emit a (EFileRd (t_p t * i) (plen t i)) in
      set_bit_of a q i in
    match t_kind t with
    | Agent =>
        match get_piece g t i with
        | None => None
        | Some false => Some (emit a (ESend q (RErr i 0)))
        | Some true =>
            let a := emit a (EPiece i) in
            if zget (d_have (a_st a)) i false then serve a else Some (emit a (ESend q (RErr i 0)))
        end
    | Origin =>
        (* GetPieceReader has no piece table: before the fix a negative index yields a reader at a negative offset *)
        if t_n t <=? i then Some (emit a (ESend q (RErr i 0)))
        else if (i <? 0) && g_negidx g then Some (emit a (ESend q (RErr i 0)))
        else serve a
    end.

(* dispatcher.go:299 complete(): close the peers that are complete too, tell the others *)
Definition do_complete (a : acc) : acc :=
  fold_left (fun a '(q, b) => if b_all b then emit a (EClose q) else emit a (ESend q RComplete))
            (d_peers (a_st a)) a.

Definition announce_others (a : acc) (q i : Z) : acc :=
  fold_left (fun a '(q', _) =>
               if (q' =? q) || existsb (Z.eqb q') (closed_of (a_eff a)) then a else emit a (ESend q' (RAnn i)))
            (d_peers (a_st a)) a.

(* dispatcher.go:581 handlePiecePayload + agentstorage WritePiece / originstorage WritePiece *)
Definition handle_payload (g : guards) (t : torrent) (a : acc) (q i off len : Z) (sumok : bool) : option acc :=
  if negb (is_full t i off len) then Some (do_mark_invalid a q i)
  else match t_kind t with
       | Origin => Some (do_mark_invalid a q i)                  (* ErrReadOnly *)
       | Agent =>
           match get_piece g t i with
           | None => None
           | Some false => Some (do_mark_invalid a q i)
           | Some true =>
               let a := emit a (EPiece i) in
               let s := a_st a in
               if zget (d_have s) i false then Some a            (* ErrPieceComplete *)
               else
                 let a := emit a (EFileWr (t_p t * i) len) in
                 if negb sumok then Some (do_mark_invalid a q i) (* invalid piece sum *)
                 else
                   let s := mkd (zset (d_have s) i true) (d_peers s) (d_cnt s) (d_reqs s) in
                   let a := with_st a s in
                   let a := if all_have s then do_complete a else a in
                   let s := a_st a in
                   let a := with_st a (mkd (d_have s) (d_peers s) (d_cnt s) (clear_piece (d_reqs s) i)) in
                   let a := if existsb (Z.eqb q) (closed_of (a_eff a)) then a else request_more t a q in
                   Some (announce_others a q i)
           end
       end.

(* dispatcher.go:535 handleAnnouncePiece *)
Definition handle_announce (g : guards) (t : torrent) (a : acc) (q i : Z) : option acc :=
  if (t_n t <=? i) || (g_negidx g && (i <? 0)) then Some a
  else match set_bit_of a q i with
       | None => None
       | Some a => match cnt_add a i 1 with
                   | None => None
                   | Some a => Some (request_more t a q)
                   end
       end.

(* dispatcher.go:646 handleComplete *)
Definition handle_complete (t : torrent) (a : acc) (q : Z) : acc :=
  let s := a_st a in
  if all_have s then emit a (EClose q)
  else match find_peer (d_peers s) q with
       | None => a
       | Some b => request_more t (with_st a (mkd (d_have s) (set_peer (d_peers s) q (b_setall b)) (d_cnt s) (d_reqs s))) q
       end.

(* dispatcher.go:505 dispatch *)
Definition dispatch (g : guards) (t : torrent) (a : acc) (q : Z) (m : wmsg) : option acc :=
  let nobody := if g_nilbody g then Some a else None in
  if m_ty m =? 5 then
    match m_err m with
    | None => nobody
    | Some (i, c) => Some (if c =? 0 then do_mark_invalid a q i else a)            (* :527 handleError *)
    end
  else if m_ty m =? 3 then
    match m_ann m with None => nobody | Some i => handle_announce g t a q i end
  else if m_ty m =? 1 then
    match m_req m with None => nobody | Some (i, off, len) => handle_request g t a q i off len end
  else if m_ty m =? 2 then
    match m_pay m with None => nobody | Some (i, off, len) => handle_payload g t a q i off len (m_sumok m) end
  else if m_ty m =? 6 then Some (handle_complete t a q)
  else Some a.   (* CANCEL_PIECE, BITFIELD: ignored; unknown type: error logged *)

(* message.go:126 readMessage + conn.go:213 readMessage + conn.go:202 readPayload; then dispatch *)
Definition recv (g : guards) (t : torrent) (a : acc) (q : Z) (m : wmsg) : option acc :=
  if max_msg <? m_size m then Some (emit a (EClose q))
  else
    let a := emit a (EAlloc (m_size m)) in
    if negb (m_ok m) then Some (emit a (EClose q))
    else if m_ty m =? 2 then
      match m_pay m with
      | None => if g_nilbody g then Some (emit a (EClose q)) else None
      | Some (i, off, len) =>
          if g_paylen g && ((len <? 0) || (t_p t <? len)) then Some (emit a (EClose q))
          else if (len <? 0) || (max_alloc <? len) then None     (* make([]byte, length) *)
          else
            let a := emit a (EAlloc len) in
            if negb (m_deliver m) then Some (emit a (EClose q))
            else dispatch g t a q m
      end
    else dispatch g t a q m.

(* one message from the connected peer q, including the teardown of the connections it made the local peer close *)
Definition step (g : guards) (t : torrent) (s : dst) (q : Z) (m : wmsg) : option acc :=
  match find_peer (d_peers s) q with
  | None => Some (mka s [])            (* no such connection: nothing is delivered *)
  | Some _ => finish (recv g t (mka s []) q m)
  end.

(* the remote side hangs up *)
Definition hangup (s : dst) (q : Z) : option acc := remove_peer (mka s []) q.

(* ------------------------------------------------------------------ histories *)
Inductive event := EvHs (q : Z) (h : hshake) | EvMsg (q : Z) (m : wmsg) | EvHangup (q : Z).

Definition apply_event (g : guards) (t : torrent) (s : dst) (e : event) : option (dst * list eff) :=
  match e with
  | EvHs q h => match handshake g t s q h with
                | HPanic => None
                | HReject _ es => Some (s, es)
                | HAccept a => Some (a_st a, a_eff a)
                end
  | EvMsg q m => match step g t s q m with None => None | Some a => Some (a_st a, a_eff a) end
  | EvHangup q => match hangup s q with None => None | Some a => Some (a_st a, a_eff a) end
  end.

Fixpoint run_events (g : guards) (t : torrent) (s : dst) (evs : list event) : option (dst * list eff) :=
  match evs with
  | [] => Some (s, [])
  | e :: r => match apply_event g t s e with
              | None => None
              | Some (s1, es1) => match run_events g t s1 r with
                                  | None => None
                                  | Some (s2, es2) => Some (s2, es1 ++ es2)
                                  end
              end
  end.

(* ------------------------------------------------------------------ the property on effects *)
Definition alloc_bound (t : torrent) : Z := Z.max max_msg (t_p t).

Definition reply_ok (t : torrent) (r : reply) : bool :=
  match r with
  | RPay i l ok => in_range t i && (l =? plen t i) && ok
  | RReq i l => in_range t i && (l =? plen t i)
  | RAnn i => in_range t i
  | _ => true
  end.

Definition eff_ok (t : torrent) (e : eff) : bool :=
  match e with
  | EAlloc n => n <=? alloc_bound t
  | EPiece i | ECounter i | EBit i => in_range t i
  | EFileRd off len | EFileWr off len => (0 <=? off) && (0 <=? len) && (off + len <=? t_len t)
  | ESend _ r => reply_ok t r
  | EClose _ => true
  end.

(* state invariant of the patched code *)
Definition inv (t : torrent) (s : dst) : bool :=
  (zlen (d_have s) =? t_n t) && (zlen (d_cnt s) =? t_n t) && forallb (fun '(_, b) => clean (t_n t) b) (d_peers s).

(* Dispatcher.peers is a map: one entry per peer id *)
Fixpoint nodupb (l : list Z) : bool :=
  match l with
  | [] => true
  | x :: r => negb (existsb (Z.eqb x) r) && nodupb r
  end.
Definition uniq (s : dst) : bool := nodupb (map fst (d_peers s)).

(* decoded fields fit into the frame they arrived in; a bit count is unsigned *)
Definition rawbf_fits (sz : Z) (r : rawbf) : bool :=
  match r with None => true | Some (L, _, db) => (0 <=? L) && (0 <=? db) && (8 + db <=? sz) end.
Definition wf_hs (h : hshake) : bool :=
  rawbf_fits (h_size h) (h_bf h) && forallb (fun '(_, r) => rawbf_fits (h_size h) r) (h_rb h).
Definition wf_event (e : event) : bool :=
  match e with EvHs _ h => wf_hs h | _ => true end.

(* ------------------------------------------------------------------ scheduler glue around an incoming handshake
   scheduler.go:318 listenLoop, :385 establishIncomingHandshake, events.go:145 incomingHandshakeEvent, :186
   incomingConnEvent, :128 connClosedEvent, connstate pending / active entries (the bookkeeping itself is C16's model).
   One attempt = one incoming connection from its handshake to its end (the remote peer hangs up after being
   served).  The peer registers the pending connection under the info hash OF THE HANDSHAKE, looks the torrent up by
   the DIGEST and creates the connection for that torrent's info hash. *)
Record sattempt := mksa {
  sa_peer : Z;      (* peer id *)
  sa_hash : Z;      (* info hash of the handshake: 0 = the hash of the torrent the digest names, else a foreign one *)
  sa_known : bool;  (* the digest names a torrent *)
  sa_bfok : bool    (* the bitfield fits the torrent (addPeer accepts) *)
}.
Record sst := mkss { ss_pending : list (Z * Z); ss_active : list (Z * Z) }.
Definition sinit : sst := mkss [] [].
Definition pair_mem (k : Z * Z) (l : list (Z * Z)) : bool := existsb (fun y => (fst k =? fst y) && (snd k =? snd y)) l.

(* result: 0 = closed without an answer, 1 = handshake answered, then closed by the local peer, 2 = accepted and served.
   [guard] = fixes/C14_infohash_mismatch.patch *)
Definition sched_attempt (guard : bool) (s : sst) (a : sattempt) : sst * Z :=
  let k := (sa_peer a, sa_hash a) in
  if pair_mem k (ss_pending s) || pair_mem k (ss_active s) then (s, 0)   (* events.go:151 AddPending refuses *)
  else if negb (sa_known a) then (s, 0)                                  (* Stat fails: failIncomingHandshake -> DeletePending *)
  else if guard && negb (sa_hash a =? 0) then (s, 0)                     (* the fix: same path *)
  else if sa_hash a =? 0
       then (s, if sa_bfok a then 2 else 1)   (* active until it ends (connClosedEvent: DeleteActive) / AddPeer error: Close *)
       else (mkss (k :: ss_pending s) (ss_active s), 1).
            (* before the fix: MovePendingToActive(peer, torrent hash) fails, the connection is closed, and the entry
               (peer, foreign hash) is never deleted *)

Fixpoint sched_run (guard : bool) (s : sst) (l : list sattempt) : sst * list Z :=
  match l with
  | [] => (s, [])
  | a :: r => let '(s1, o) := sched_attempt guard s a in
              let '(s2, os) := sched_run guard s1 r in (s2, o :: os)
  end.

(* the property on an observed run: a connection that has ended leaves nothing behind, so an attempt is answered
   according to its own fields only — and every well-formed attempt for a known torrent is served *)
Definition sched_expected (a : sattempt) : Z :=
  if negb (sa_known a) || negb (sa_hash a =? 0) then 0 else if sa_bfok a then 2 else 1.
Definition C14_sched_check (l : list sattempt) (obs : list Z) : bool :=
  (Z.of_nat (length obs) =? Z.of_nat (length l)) &&
  forallb (fun '(a, o) => o =? sched_expected a) (combine l obs).

(* ------------------------------------------------------------------ what the driver observes *)
Record obs := mkobs {
  o_crash : Z;                                   (* 0 alive, 1 panic, 2 out of memory *)
  o_big : bool;                                  (* more than 32 MiB allocated while the hostile peer was served *)
  o_hs : Z;                                      (* 0/1/2 rejected (stage), 3 accepted *)
  o_ainit : list reply;                          (* sent to A right after its handshake *)
  o_binit : list reply;                          (* sent to B right after its handshake *)
  o_steps : list (list reply * list reply * bool);   (* per message: sent to A, sent to B, A's connection closed *)
  o_abits : option (Z * list Z);                 (* A's bitfield at the end if still connected: Len, set bits *)
  o_cnt1 : list Z;                               (* numPeersByPiece at the end *)
  o_pend : list Z;                               (* pieces with a pending request to A *)
  o_have : list bool;
  o_cnt2 : list Z;                               (* numPeersByPiece after A hung up *)
  o_bclosed : bool;                              (* the local peer closed B's connection *)
  o_bprobe : list Z;                             (* B requests every piece at the end: 2 served correctly, 1 error reply, 0 else *)
  o_fsize : Z                                    (* size of the blob file *)
}.

Definition big_thr : Z := 32 * 1024 * 1024.
Definition oom_thr : Z := 2 ^ 31 - 1.   (* children run under RLIMIT_AS = 2 GiB *)

Definition sends_to (q : Z) (es : list eff) : list reply :=
  flat_map (fun e => match e with ESend q' r => if q' =? q then [r] else [] | _ => [] end) es.
Definition has_big (es : list eff) : bool := existsb (fun e => match e with EAlloc n => big_thr <? n | _ => false end) es.
Definition has_oom (es : list eff) : bool := existsb (fun e => match e with EAlloc n => oom_thr <=? n | _ => false end) es.

Definition pid_a : Z := 1.
Definition pid_b : Z := 2.

Definition honest_bits (t : torrent) (full : bool) : bset :=
  let n := t_n t in
  mkb n (map (fun i => full && (i <? n)) (zrange (64 * ((n + 63) / 64)))).

Definition pending_of (t : torrent) (s : dst) (q : Z) : list Z :=
  filter (fun i => existsb (fun '(q', j, pd) => (q' =? q) && (j =? i) && pd) (d_reqs s)) (zrange (t_n t)).

(* messages are delivered while A's connection is open; the run stops at the message that closes it *)
Fixpoint run_msgs (g : guards) (t : torrent) (s : dst) (ms : list wmsg) (es : list eff)
  : option (dst * list (list reply * list reply * bool) * list eff) :=
  match ms with
  | [] => Some (s, [], es)
  | m :: r =>
      match step g t s pid_a m with
      | None => None
      | Some a =>
          let closed_a := negb (match find_peer (d_peers (a_st a)) pid_a with Some _ => true | None => false end) in
          let closed_b := negb (match find_peer (d_peers (a_st a)) pid_b with Some _ => true | None => false end) in
          let row := (sends_to pid_a (a_eff a), if closed_b then [] else sends_to pid_b (a_eff a), closed_a) in
          if closed_a then Some (a_st a, [row], es ++ a_eff a)
          else match run_msgs g t (a_st a) r (es ++ a_eff a) with
               | None => None
               | Some (s', rows, es') => Some (s', row :: rows, es')
               end
      end
  end.

Definition crash_obs (c : Z) : obs := mkobs c false 0 [] [] [] None [] [] [] [] false [] 0.

(* the whole scenario the driver plays: B (honest, empty or complete bitfield) joins, A's handshake, A's
   messages, final snapshot, A hangs up, B asks for every piece *)
Definition run_case (g : guards) (t : torrent) (have : list bool) (bfull : bool) (h : hshake) (ms : list wmsg) : obs :=
  let s0 := init t have in
  match add_peer g t s0 pid_b (honest_bits t bfull) false [] with
  | HAccept ab =>
      let binit := sends_to pid_b (a_eff ab) in
      let s1 := a_st ab in
      let qa := if h_dup h then pid_b else pid_a in
      match handshake g t s1 qa h with
      | HPanic => crash_obs 1
      | HReject stage es =>
          if has_oom es then crash_obs 2
          else mkobs 0 (has_big es) stage [] binit [] None (d_cnt s1) (pending_of t s1 qa) (d_have s1) (d_cnt s1) false
                     (map (fun b : bool => if b then 2 else 1) (d_have s1)) (t_len t)
      | HAccept aa =>
          if has_oom (a_eff aa) then crash_obs 2 else
          match run_msgs g t (a_st aa) ms (a_eff aa) with
          | None => crash_obs 1
          | Some (s2, rows, es) =>
              if has_oom es then crash_obs 2 else
              match hangup s2 pid_a with
              | None => crash_obs 1
              | Some a3 =>
                  let s3 := a_st a3 in
                  let bopen := match find_peer (d_peers s3) pid_b with Some _ => true | None => false end in
                  mkobs 0 (has_big es) 3 (sends_to pid_a (a_eff aa)) binit rows
                        (match find_peer (d_peers s2) pid_a with
                         | Some b => Some (blen b, set_idxs b)
                         | None => None
                         end)
                        (d_cnt s2) (pending_of t s2 pid_a) (d_have s2) (d_cnt s3) (negb bopen)
                        (if bopen then map (fun b : bool => if b then 2 else 1) (d_have s3) else [])
                        (t_len t)
              end
          end
      end
  | _ => crash_obs 1
  end.

(* ---- equality of observations *)
Definition reply_eqb (a b : reply) : bool :=
  match a, b with
  | RErr i c, RErr j d => (i =? j) && (c =? d)
  | RPay i l o, RPay j k p => (i =? j) && (l =? k) && Bool.eqb o p
  | RReq i l, RReq j k => (i =? j) && (l =? k)
  | RAnn i, RAnn j => i =? j
  | RComplete, RComplete => true
  | ROther x, ROther y => x =? y
  | _, _ => false
  end.
Fixpoint list_eqb {A} (f : A -> A -> bool) (a b : list A) : bool :=
  match a, b with
  | [], [] => true
  | x :: a', y :: b' => f x y && list_eqb f a' b'
  | _, _ => false
  end.
Definition row_eqb (a b : list reply * list reply * bool) : bool :=
  let '(a1, a2, a3) := a in let '(b1, b2, b3) := b in
  list_eqb reply_eqb a1 b1 && list_eqb reply_eqb a2 b2 && Bool.eqb a3 b3.
Definition oabits_eqb (a b : option (Z * list Z)) : bool :=
  match a, b with
  | None, None => true
  | Some (l, s), Some (l', s') => (l =? l') && list_eqb Z.eqb s s'
  | _, _ => false
  end.

(* a crashed process has no further observations; whether a hostile allocation ends in the runtime's
   "out of memory" or merely shows up as a big allocation depends on the memory limit: one class *)
Definition o_panic (o : obs) : bool := o_crash o =? 1.
Definition o_mem (o : obs) : bool := (o_crash o =? 2) || o_big o.
Definition obs_eqb (a b : obs) : bool :=
  Bool.eqb (o_panic a) (o_panic b) && Bool.eqb (o_mem a) (o_mem b) &&
  (o_panic a || o_mem a ||
   ((o_hs a =? o_hs b) &&
    list_eqb reply_eqb (o_ainit a) (o_ainit b) && list_eqb reply_eqb (o_binit a) (o_binit b) &&
    list_eqb row_eqb (o_steps a) (o_steps b) && oabits_eqb (o_abits a) (o_abits b) &&
    list_eqb Z.eqb (o_cnt1 a) (o_cnt1 b) && list_eqb Z.eqb (o_pend a) (o_pend b) &&
    list_eqb Bool.eqb (o_have a) (o_have b) && list_eqb Z.eqb (o_cnt2 a) (o_cnt2 b) &&
    Bool.eqb (o_bclosed a) (o_bclosed b) && list_eqb Z.eqb (o_bprobe a) (o_bprobe b) && (o_fsize a =? o_fsize b))).

(* ------------------------------------------------------------------ the oracle: the property on one observed trace.
   Independent of the model's outputs: it looks only at the torrent, at what was sent and at what was observed. *)
(* (vm_compute is call-by-value: the expensive part sits under an [if]) *)
Definition hs_clean_bits (t : torrent) (h : hshake) : bool :=
  match h_bf h with
  | Some (L, ws, db) =>
      if (L =? t_n t) && (8 * ((L + 63) / 64) <=? db)
      then forallb (fun i => i <? t_n t) (set_from 0 (bits_of_words (firstn (Z.to_nat ((L + 63) / 64)) ws)))
      else false
  | None => false
  end.

Definition C14_check (t : torrent) (have : list bool) (bfull : bool) (h : hshake) (ms : list wmsg) (o : obs) : bool :=
  (* never panics, never exhausts memory, no allocation beyond the bound *)
  (o_crash o =? 0) && negb (o_big o) &&
  (* a handshake is accepted only with a bitfield that fits the torrent *)
  (if o_hs o <? 3 then true else hs_clean_bits t h) &&
  (* everything the peer sends refers to pieces of the torrent: index in range, length = that piece's length, right bytes *)
  forallb (reply_ok t) (o_ainit o) && forallb (reply_ok t) (o_binit o) &&
  forallb (fun '(ra, rb, _) => forallb (reply_ok t) ra && forallb (reply_ok t) rb) (o_steps o) &&
  (* bitfield and counters stay within the torrent *)
  match o_abits o with Some (l, s) => (l =? t_n t) && forallb (in_range t) s | None => true end &&
  ((o_hs o <? 3) || ((zlen (o_cnt1 o) =? t_n t) && (zlen (o_cnt2 o) =? t_n t))) &&
  forallb (in_range t) (o_pend o) &&
  (* the blob file keeps its size *)
  (o_fsize o =? t_len t) &&
  (* the honest connection stays up unless both sides are complete, and is served: every piece we have is delivered
     byte-identical, every other request is answered with an error *)
  (negb (o_bclosed o) || (bfull && forallb (fun b => b) (o_have o) && negb (forallb (fun b => b) have))) &&
  (o_bclosed o || ((zlen (o_bprobe o) =? t_n t) &&
                   list_eqb Z.eqb (o_bprobe o) (map (fun b : bool => if b then 2 else 1) (o_have o)))) &&
  (* pieces are never lost *)
  (zlen (o_have o) =? t_n t) && list_eqb Bool.eqb (map (fun '(x, y) => implb x y) (combine have (o_have o))) (map (fun _ => true) have).
