(* Model of the origin / proxy content-addressed blob store:
     lib/store/ca_store.go            (CAStore: upload commit, CreateCacheFile, the write-through
                                       memory path, the drain worker, the TTL worker, the read overrides)
     utils/cache/blob_memory_cache.go (entries: name -> bytes + metainfo)
     lib/store/base/buffer_readwriter.go (the memory path's buffer: Bytes() = what was written)
     lib/blobrefresh/refresher.go     (download = WriteBlobToCacheWithMetaInfo with the backend's stream)
     origin/blobserver/server.go, uploader.go (start / patch / commit of transfers and cluster uploads,
                                       delete, overwrite-metainfo, and the GET handlers used as observers)
   Executable definitions only; proofs live in Proof/C01*.v.

   Bytes are N, contents are lists of bytes.  Digest names are canonicalised to small N by the
   harness (0 = a name that is not a valid sha256 hex string); the hash H is a parameter
   (a Section variable in every theorem; a table sent with each case when the model is executed). *)
From Coq Require Import List NArith ZArith Bool.
Import ListNotations.
Local Open Scope N_scope.

Definition bytes := list N.

Definition len {A} (l : list A) : N := N.of_nat (length l).

Fixpoint bytes_eqb (a b : bytes) : bool :=
  match a, b with
  | [], [] => true
  | x :: a', y :: b' => N.eqb x y && bytes_eqb a' b'
  | _, _ => false
  end.

(* ---------------------------------------------------------------- configuration *)

Record cfg := mkcfg {
  c_mem : bool;        (* config.go:34  MemoryCache.Enabled *)
  c_skip : bool;       (* config.go:53  SkipHashVerification *)
  c_memverify : bool;  (* true = addToMemoryCache verifies the digest before memCache.Add
                          (fixes/C01_mem_path_verify.patch); false = the pinned code *)
  c_lenchk : bool;     (* true = addToMemoryCache rejects len(data) <> size
                          (fixes/C13_size_mismatch.patch); detected by the driver, both values are legal *)
  c_retry : N;         (* MemoryCache.DrainMaxRetries *)
  c_ttl : N;           (* MemoryCache.TTL (ms) *)
  c_genpl : Z          (* metainfogen piece length (one-row table) used by Generate *)
}.

(* ---------------------------------------------------------------- state *)

(* core/metainfo.go: a metainfo is determined by the name it was built for, the bytes it was
   computed from (length, piece sums) and the piece length. *)
Record minfo := mkmi { mi_name : N; mi_data : bytes; mi_pl : Z }.
(* cache dir entry: data file + optional _torrentmeta sidecar + the _persist sidecar (write-back pending) *)
Record dent := mkdent { d_data : bytes; d_meta : option minfo; d_persist : bool }.
(* blob_memory_cache.go:27-32 MemoryEntry *)
Record ment := mkment { m_data : bytes; m_mi : minfo; m_at : N }.

Record st := mkst {
  disk : list (N * dent);          (* CacheDir *)
  mem : list (N * ment);           (* memCache.entries *)
  ups : list (N * bytes);          (* UploadDir: uid -> content *)
  drainq : list (N * ment * N);    (* drain.queue: (entry.Name, entry, retries) *)
  now : N                          (* mock clock, ms *)
}.

Definition init : st := mkst [] [] [] [] 0.

Definition set_disk (s : st) d := mkst d (mem s) (ups s) (drainq s) (now s).
Definition set_mem (s : st) m := mkst (disk s) m (ups s) (drainq s) (now s).
Definition set_ups (s : st) u := mkst (disk s) (mem s) u (drainq s) (now s).
Definition set_drainq (s : st) q := mkst (disk s) (mem s) (ups s) q (now s).
Definition set_now (s : st) t := mkst (disk s) (mem s) (ups s) (drainq s) t.

Fixpoint alookup {A} (k : N) (l : list (N * A)) : option A :=
  match l with
  | [] => None
  | (k', v) :: t => if N.eqb k k' then Some v else alookup k t
  end.
Fixpoint aremove {A} (k : N) (l : list (N * A)) : list (N * A) :=
  match l with
  | [] => []
  | (k', v) :: t => if N.eqb k k' then aremove k t else (k', v) :: aremove k t
  end.
Definition aset {A} (k : N) (v : A) (l : list (N * A)) : list (N * A) := (k, v) :: aremove k l.
Definition has {A} (k : N) (l : list (N * A)) : bool :=
  match alookup k l with Some _ => true | None => false end.

(* ---------------------------------------------------------------- operations *)

(* what a write callback does: the chunks it writes, then success or an error *)
Record stream (C : Type) := mkstream { s_chunks : list C; s_err : bool }.
Arguments mkstream {C}. Arguments s_chunks {C}. Arguments s_err {C}.

(* C = representation of contents: bytes in the model, table indices in case files *)
Inductive op (C : Type) :=
| UStart (cluster : bool) (name uid : N)                       (* server.go:634 / :721, uploader.go:38 *)
| UPatch (cluster : bool) (name uid start stop : N) (body : C) (* server.go:659 / :767, uploader.go:55 *)
| UCommit (cluster : bool) (name uid : N)                      (* server.go:683 / :827, uploader.go:88 *)
| UCommitRaced (cluster : bool) (name uid start stop : N) (body : C)
     (* the commit, interleaved with a PATCH of the same upload that passed its checks and opened the
        upload file before the commit (uploader.go:58-73) and whose body arrives after it (:76):
        the open descriptor follows the file into the cache dir.  Not covered by the theorems
        (race_free); known finding C01-late-patch *)
| Create (name : N) (w : stream C)                             (* ca_store.go:192 CreateCacheFile (proxy) *)
| Refresh (name : N) (rsv : bool) (stat : N) (w1 w2 : stream C) (pl : Z)
     (* ca_store.go:233 WriteBlobToCacheWithMetaInfo (refresher.go:139).  rsv = TryReserve succeeded
        (oracle: depends on the cache budget, which C13 models); w1 / w2 = what the write callback does
        on its first / second invocation (the disk path re-invokes it after a failed memory path) *)
| Drain (envok : bool)     (* ca_store.go:413 drainNext; envok=false: the disk refuses the write *)
| Tick (dt : N)
| Expire                   (* ca_store.go:371 cleanupMemoryCacheExpiredEntries *)
| Delete (name : N)        (* server.go:361 -> DeleteCacheFile (disk only) *)
| GenMeta (name : N) (pl : Z).  (* server.go:419 overwriteMetaInfo *)
Arguments UStart {C}. Arguments UPatch {C}. Arguments UCommit {C}. Arguments UCommitRaced {C}. Arguments Create {C}.
Arguments Refresh {C}. Arguments Drain {C}. Arguments Tick {C}. Arguments Expire {C}.
Arguments Delete {C}. Arguments GenMeta {C}.

Inductive out := OOk | OErr | OConflict | ONotFound.

Definition out_eqb (a b : out) : bool :=
  match a, b with
  | OOk, OOk | OErr, OErr | OConflict, OConflict | ONotFound, ONotFound => true
  | _, _ => false
  end.

(* what a reader sees under one name *)
Record view (C : Type) := mkview {
  v_data : option C;                 (* GetCacheFileReader / GET .../blobs/{d} *)
  v_size : option N;                 (* GetCacheFileStat / HEAD *)
  v_meta : option (N * C * Z)        (* GetCacheFileMetadata(TorrentMeta) / GET .../metainfo:
                                        (name in the metainfo, bytes it describes, piece length) *)
}.
Arguments mkview {C}. Arguments v_data {C}. Arguments v_size {C}. Arguments v_meta {C}.

Definition mi_tuple (m : minfo) : N * bytes * Z := (mi_name m, mi_data m, mi_pl m).

(* ca_store.go:458-503: memory entry first, else the cache dir *)
Definition view_of (s : st) (name : N) : view bytes :=
  match alookup name (mem s) with
  | Some e => mkview (Some (m_data e)) (Some (len (m_data e))) (Some (mi_tuple (m_mi e)))
  | None =>
      match alookup name (disk s) with
      | Some d => mkview (Some (d_data d)) (Some (len (d_data d))) (option_map mi_tuple (d_meta d))
      | None => mkview None None None
      end
  end.

Definition read (s : st) (name : N) : option bytes := v_data (view_of s name).
Definition exists_blob (s : st) (name : N) : bool :=
  match read s name with Some _ => true | None => false end.

(* os.File semantics of Seek(off) + Write(data): a gap is zero-filled; an empty write changes nothing *)
Definition write_at (f : bytes) (off : N) (data : bytes) : bytes :=
  match data with
  | [] => f
  | _ => firstn (N.to_nat off) f ++ repeat 0 (N.to_nat (off - len f)) ++ data
         ++ skipn (N.to_nat off + length data) f
  end.

Definition valid (name : N) : bool := negb (name =? 0).

Inductive mv := MvOk | MvExist | MvBad.

Section Model.
Variable H : bytes -> N.     (* SHA-256 followed by the harness's canonical naming *)
Variable cf : cfg.

(* ca_store.go:335-353 verify *)
Definition verify_ok (name : N) (data : bytes) : bool :=
  valid name && (c_skip cf || (H data =? name)).

(* ca_store.go:183-187: verify, then MoveFileFrom (file_op.go:211: ErrExist when present) *)
Definition move_in (s : st) (name : N) (data : bytes) : st * mv :=
  if negb (verify_ok name data) then (s, MvBad)
  else if has name (disk s) then (s, MvExist)
  else (set_disk s (aset name (mkdent data None false) (disk s)), MvOk).

(* cacheStore.SetCacheFileMetadata(TorrentMeta): only for a file in the cache dir *)
Definition set_meta (s : st) (name : N) (mi : minfo) : st * bool :=
  match alookup name (disk s) with
  | Some d => (set_disk s (aset name (mkdent (d_data d) (Some mi) (d_persist d)) (disk s)), true)
  | None => (s, false)
  end.

(* metainfogen/generator.go:41, ca_store.go:308 generateMetadataFromFile, server.go:440:
   the blob is read through the override (memory first), the metainfo is written to the cache dir *)
Definition gen_meta (s : st) (name : N) (pl : Z) : st * bool :=
  match read s name with
  | None => (s, false)
  | Some c => if (pl <=? 0)%Z then (s, false) else set_meta s name (mkmi name c pl)
  end.

(* server.go:954 writeBack: persist sidecar (needs the cache file), task (always accepted), Generate *)
Definition write_back (s : st) (name : N) : st * bool :=
  match alookup name (disk s) with
  | Some d => gen_meta (set_disk s (aset name (mkdent (d_data d) (d_meta d) true) (disk s))) name (c_genpl cf)
  | None => (s, false)
  end.

(* server.go:705 handleUploadConflict (cluster uploads only) *)
Definition on_conflict (cluster : bool) (s : st) (name : N) : st * out :=
  if cluster then let '(s', ok) := write_back s name in (s', if ok then OConflict else OErr)
  else (s, OConflict).

Definition sdata (w : stream bytes) : bytes := concat (s_chunks w).

Definition mem_remove (s : st) (name : N) : st := set_mem s (aremove name (mem s)).

(* ca_store.go:440-454 writeDrainItemToDisk: WriteCacheFile (ErrExist swallowed, :222), then the entry's metainfo *)
Definition drain_write (s : st) (name : N) (e : ment) : st * bool :=
  match move_in s name (m_data e) with
  | (_, MvBad) => (s, false)
  | (s', _) => set_meta s' name (m_mi e)
  end.

(* uploader.go:88 commit + server.go:697 / :870; the flag says whether the upload file was renamed
   into the cache dir *)
Definition commit_core (s : st) (cluster : bool) (name uid : N) : st * out * bool :=
  if negb (valid name) then (s, OErr, false)
  else match alookup uid (ups s) with
       | None => (s, ONotFound, false)                                  (* ca_store.go:172, uploader.go:91 *)
       | Some f =>
           let s1 := set_ups s (aremove uid (ups s)) in                (* ca_store.go:176 deferred delete *)
           match move_in s1 name f with
           | (_, MvBad) => (s1, OErr, false)                            (* ca_store.go:183 *)
           | (_, MvExist) => let '(s2, r) := on_conflict cluster s1 name in (s2, r, false)   (* uploader.go:95 *)
           | (s2, MvOk) =>
               (* server.go:697 Generate / server.go:870 writeBack *)
               let '(s3, ok) := if cluster then write_back s2 name else gen_meta s2 name (c_genpl cf) in
               (s3, if ok then OOk else OErr, true)
           end
       end.

(* a write through a descriptor opened on the upload file before it was renamed *)
Definition late_write (s : st) (name off : N) (data : bytes) : st :=
  match alookup name (disk s) with
  | Some d => set_disk s (aset name (mkdent (write_at (d_data d) off data) (d_meta d) (d_persist d)) (disk s))
  | None => s
  end.

Definition expired (s : st) (e : ment) : bool := c_ttl cf <? now s - m_at e.   (* blob_memory_cache.go:186 *)

Definition step (s : st) (o : op bytes) : st * out :=
  match o with
  | UStart cluster name uid =>
      if negb (valid name) then (s, OErr)                               (* httputil.ParseDigest *)
      else if exists_blob s name then on_conflict cluster s name        (* uploader.go:39-45 *)
      else (set_ups s (aset uid [] (ups s)), OOk)                       (* uploader.go:47 *)
  | UPatch cluster name uid start stop body =>
      if negb (valid name) then (s, OErr)
      else if exists_blob s name then on_conflict cluster s name        (* uploader.go:58-64 *)
      else match alookup uid (ups s) with
           | None => (s, ONotFound)                                     (* uploader.go:67-70 *)
           | Some f =>
               if stop <? start then (s, OOk)                           (* io.CopyN with n < 0 *)
               else let n := stop - start in
                    (set_ups s (aset uid (write_at f start (firstn (N.to_nat n) body)) (ups s)),
                     if len body <? n then OErr else OOk)               (* uploader.go:76-84 *)
           end
  | UCommit cluster name uid => fst (commit_core s cluster name uid)
  | UCommitRaced cluster name uid start stop body =>
      let raced := valid name && negb (exists_blob s name) && has uid (ups s) && (start <? stop) in
      let '(s', r, moved) := commit_core s cluster name uid in
      if raced && moved
      then (late_write s' name start (firstn (N.to_nat (stop - start)) body), r)
      else (s', r)
  | Create name w =>
      if s_err w then (s, OErr)                                         (* ca_store.go:219 *)
      else match move_in s name (sdata w) with
           | (_, MvBad) => (s, OErr)
           | (s', _) => (s', OOk)                                       (* ca_store.go:222 *)
           end
  | Refresh name rsv stat w1 w2 pl =>
      let memtry := c_mem cf && rsv in                                  (* ca_store.go:238 *)
      let d1 := sdata w1 in
      if memtry && negb (s_err w1)                                      (* ca_store.go:265 *)
         && (negb (c_memverify cf) || verify_ok name d1)                (* the fix *)
         && (negb (c_lenchk cf) || (len d1 =? stat))                    (* C13's fix *)
         && valid name && (0 <? pl)%Z                                   (* ca_store.go:270, 296-306 *)
         && negb (has name (mem s))                                     (* ca_store.go:282 *)
      then
        let e := mkment d1 (mkmi name d1 pl) (now s) in
        (set_drainq (set_mem s (aset name e (mem s))) (drainq s ++ [(name, e, 0)]), OOk)
      else
        let wd := if memtry then w2 else w1 in                         (* ca_store.go:247-248 *)
        if s_err wd then (s, OErr)
        else match move_in s name (sdata wd) with
             | (_, MvBad) => (s, OErr)
             | (s', _) => let '(s'', ok) := gen_meta s' name pl in      (* ca_store.go:225-227 *)
                          (s'', if ok then OOk else OErr)
             end
  | Drain envok =>
      match drainq s with
      | [] => (s, OOk)
      | (name, e, r) :: q =>
          let s0 := set_drainq s q in                                   (* ca_store.go:395-411 *)
          let '(s1, ok) := if envok then drain_write s0 name e else (s0, false) in
          if ok then (mem_remove s1 name, OOk)                          (* ca_store.go:437 *)
          else if r <? c_retry cf
               then (set_drainq s1 (drainq s1 ++ [(name, e, r + 1)]), OOk)   (* ca_store.go:421-427 *)
               else (mem_remove s1 name, OOk)                           (* ca_store.go:429 *)
      end
  | Tick dt => (set_now s (now s + dt), OOk)
  | Expire => (set_mem s (filter (fun p => negb (expired s (snd p))) (mem s)), OOk)
  | Delete name =>
      if negb (valid name) then (s, OErr)
      else match alookup name (disk s) with
           | Some d => if d_persist d then (s, OErr)                    (* file_entry.go:432-441 ErrFilePersisted *)
                       else (set_disk s (aremove name (disk s)), OOk)
           | None => (s, ONotFound)                                     (* server.go:621-631 *)
           end
  | GenMeta name pl =>
      if negb (valid name) then (s, OErr)
      else let '(s', ok) := gen_meta s name pl in (s', if ok then OOk else OErr)
  end.

(* ---------------------------------------------------------------- runs and observations *)

Definition obs (C : Type) : Type := out * list (view C) * list (view C).
    (* result; views through the CAStore getters; views through the origin's HTTP handlers *)

Definition views (names : list N) (s : st) : list (view bytes) := map (view_of s) names.

Fixpoint run (names : list N) (s : st) (ops : list (op bytes)) : st * list (obs bytes) :=
  match ops with
  | [] => (s, [])
  | o :: t => let '(s1, r) := step s o in
              let '(s2, rs) := run names s1 t in
              (s2, (r, views names s1, views names s1) :: rs)
  end.

(* histories the theorems speak about: no PATCH races the commit of its own upload *)
Definition is_raced (o : op bytes) : bool := match o with UCommitRaced _ _ _ _ _ _ => true | _ => false end.
Definition race_free (ops : list (op bytes)) : bool := forallb (fun o => negb (is_raced o)) ops.

Fixpoint exec (s : st) (ops : list (op bytes)) : st :=
  match ops with
  | [] => s
  | o :: t => exec (fst (step s o)) t
  end.

(* ---------------------------------------------------------------- the property on one observed trace *)

(* clause 1 at one name: whatever is readable hashes to the name *)
Definition view_ok (name : N) (v : view bytes) : bool :=
  (match v_data v, v_size v with
   | Some c, Some k => (H c =? name) && (k =? len c)
   | None, None => true
   | _, _ => false
   end)
  && (match v_meta v with
      | Some (nm, c, _) => (nm =? name) && (H c =? name)
      | None => true
      end).

Fixpoint views_ok (names : list N) (vs : list (view bytes)) : bool :=
  match names, vs with
  | [], [] => true
  | n :: ns, v :: vs' => view_ok n v && views_ok ns vs'
  | _, _ => false
  end.

Definition bad_stream (name : N) (w : stream bytes) : bool :=
  s_err w || negb (valid name) || negb (H (sdata w) =? name).

(* clause 2's hypothesis: the operation is a write under `name` none of whose attempts delivers
   bytes that hash to the name (the upload's bytes are those the patches put in the upload file) *)
Definition bad_write (s : st) (o : op bytes) : bool :=
  match o with
  | UCommit _ name uid =>
      match alookup uid (ups s) with
      | Some f => negb (valid name) || negb (H f =? name)
      | None => false
      end
  | Create name w => bad_stream name w
  | Refresh name _ _ w1 w2 _ => bad_stream name w1 && bad_stream name w2
  | _ => false
  end.

Definition opt_eqb {A} (e : A -> A -> bool) (a b : option A) : bool :=
  match a, b with
  | Some x, Some y => e x y
  | None, None => true
  | _, _ => false
  end.
Definition meta_eqb (a b : N * bytes * Z) : bool :=
  let '(n1, c1, p1) := a in let '(n2, c2, p2) := b in
  (n1 =? n2) && bytes_eqb c1 c2 && (p1 =? p2)%Z.
Definition view_eqb (a b : view bytes) : bool :=
  opt_eqb bytes_eqb (v_data a) (v_data b) && opt_eqb N.eqb (v_size a) (v_size b)
  && opt_eqb meta_eqb (v_meta a) (v_meta b).
Fixpoint list_eqb {A} (e : A -> A -> bool) (a b : list A) : bool :=
  match a, b with
  | [], [] => true
  | x :: a', y :: b' => e x y && list_eqb e a' b'
  | _, _ => false
  end.
Definition out_ok (r : out) : bool := match r with OOk => true | _ => false end.

(* walks the observed trace; the model state is carried only to know the bytes of an upload file *)
Fixpoint check_from (names : list N) (s : st) (pd ph : list (view bytes))
         (ops : list (op bytes)) (os : list (obs bytes)) : bool :=
  match ops, os with
  | [], [] => true
  | o :: ops', (r, dv, hv) :: os' =>
      views_ok names dv && views_ok names hv
      && (if bad_write s o
          then negb (out_ok r) && list_eqb view_eqb dv pd && list_eqb view_eqb hv ph
          else true)
      && check_from names (fst (step s o)) dv hv ops' os'
  | _, _ => false
  end.

Definition C01_check (names : list N) (ops : list (op bytes)) (os : list (obs bytes)) : bool :=
  c_skip cf || check_from names init (views names init) (views names init) ops os.

End Model.

(* ---------------------------------------------------------------- the atomic-step system *)

(* The same store at the granularity of lock regions / single file-system actions, driven by a
   most general client: any number of concurrent callers, drain workers and TTL workers, each
   holding local data (downloaded bytes, a private upload file, a blob it read earlier, a drain
   item).  Local data is modelled by what the step carries plus two monotone ghost sets:
   `a_items` = every memory entry ever added (drain items are pointers to them),
   `a_seen`  = every (name, bytes) some caller has read through the override. *)
Record ast := mkast {
  a_disk : list (N * dent);
  a_mem : list (N * ment);
  a_items : list (N * ment);
  a_seen : list (N * bytes)
}.
Definition ainit : ast := mkast [] [] [] [].

Inductive aop :=
| AMemAdd (name : N) (data : bytes) (pl : Z) (at_ : N)  (* verify + metainfo + memCache.Add (ca_store.go:270-282) *)
| AMove (name : N) (data : bytes)            (* verify + rename of a private upload file (ca_store.go:183-187) *)
| ARead (name : N)                           (* a caller opens the blob through the override *)
| ASetMetaSeen (name : N) (data : bytes) (pl : Z)  (* SetCacheFileMetadata with a metainfo built from bytes read earlier *)
| ASetMetaItem (name : N) (e : ment)         (* SetCacheFileMetadata(entry.MetaInfo) by a drain worker *)
| AMoveItem (name : N) (e : ment)            (* the drain's WriteCacheFile of an item *)
| AMemRemove (name : N)                      (* memCache.Remove *)
| AMemFilter (keep : N -> ment -> bool)      (* memCache.RemoveBatch of any set of entries (every TTL, every clock) *)
| ASetPersist (name : N) (v : bool)          (* SetCacheFileMetadata(Persist) / DeleteCacheFileMetadata *)
| ADelete (name : N).                        (* DeleteCacheFile (refused while persisted) *)

Fixpoint in_items (name : N) (e : ment) (l : list (N * ment)) : bool :=
  match l with
  | [] => false
  | (n, e') :: t =>
      ((n =? name) && bytes_eqb (m_data e') (m_data e) && (mi_name (m_mi e') =? mi_name (m_mi e))
       && bytes_eqb (mi_data (m_mi e')) (mi_data (m_mi e)) && (mi_pl (m_mi e') =? mi_pl (m_mi e))%Z
       && (m_at e' =? m_at e)) || in_items name e t
  end.
Fixpoint in_seen (name : N) (c : bytes) (l : list (N * bytes)) : bool :=
  match l with
  | [] => false
  | (n, c') :: t => ((n =? name) && bytes_eqb c' c) || in_seen name c t
  end.

Section Atomic.
Variable H : bytes -> N.
Variable cf : cfg.

Definition aview (a : ast) (name : N) : view bytes :=
  view_of (mkst (a_disk a) (a_mem a) [] [] 0) name.

Definition astep (a : ast) (o : aop) : ast :=
  match o with
  | AMemAdd name data pl t =>
      if verify_ok H cf name data && (0 <? pl)%Z && negb (has name (a_mem a))
      then let e := mkment data (mkmi name data pl) t in
           mkast (a_disk a) (aset name e (a_mem a)) ((name, e) :: a_items a) (a_seen a)
      else a
  | AMove name data =>
      if verify_ok H cf name data && negb (has name (a_disk a))
      then mkast (aset name (mkdent data None false) (a_disk a)) (a_mem a) (a_items a) (a_seen a)
      else a
  | ARead name =>
      match v_data (aview a name) with
      | Some c => mkast (a_disk a) (a_mem a) (a_items a) ((name, c) :: a_seen a)
      | None => a
      end
  | ASetMetaSeen name data pl =>
      if in_seen name data (a_seen a) && (0 <? pl)%Z
      then match alookup name (a_disk a) with
           | Some d => mkast (aset name (mkdent (d_data d) (Some (mkmi name data pl)) (d_persist d)) (a_disk a))
                             (a_mem a) (a_items a) (a_seen a)
           | None => a
           end
      else a
  | ASetMetaItem name e =>
      if in_items name e (a_items a)
      then match alookup name (a_disk a) with
           | Some d => mkast (aset name (mkdent (d_data d) (Some (m_mi e)) (d_persist d)) (a_disk a))
                             (a_mem a) (a_items a) (a_seen a)
           | None => a
           end
      else a
  | AMoveItem name e =>
      if in_items name e (a_items a) && verify_ok H cf name (m_data e) && negb (has name (a_disk a))
      then mkast (aset name (mkdent (m_data e) None false) (a_disk a)) (a_mem a) (a_items a) (a_seen a)
      else a
  | AMemRemove name => mkast (a_disk a) (aremove name (a_mem a)) (a_items a) (a_seen a)
  | AMemFilter keep =>
      mkast (a_disk a) (filter (fun p => keep (fst p) (snd p)) (a_mem a)) (a_items a) (a_seen a)
  | ASetPersist name v =>
      match alookup name (a_disk a) with
      | Some d => mkast (aset name (mkdent (d_data d) (d_meta d) v) (a_disk a)) (a_mem a) (a_items a) (a_seen a)
      | None => a
      end
  | ADelete name =>
      match alookup name (a_disk a) with
      | Some d => if d_persist d then a else mkast (aremove name (a_disk a)) (a_mem a) (a_items a) (a_seen a)
      | None => a
      end
  end.

Definition arun (a : ast) (l : list aop) : ast := fold_left astep l a.

End Atomic.
