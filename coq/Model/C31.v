(* C31 — an acknowledged origin upload reaches the backend before local deletion.

   Model of the write-back path of an origin:
     origin/blobserver/server.go    commitClusterUploadHandler :827, handleUploadConflict :705,
                                    writeBack :954, maybeDelete :1015 (forced cleanup), deleteBlob :621
     origin/blobserver/uploader.go  start :38 / patch :56 / commit :90 (presence check, move to cache)
     lib/persistedretry/writeback/executor.go  Exec :68, upload :127
     lib/store/base/file_entry.go   Delete :398 (refuses when the persist sidecar says true)
     lib/store/base/file_op.go      DeleteFile :322 (drops the map entry "regardless"), lockHelper :150
     lib/store/base/file_map.go     LoadForRead :317 (look-up, THEN entry lock + re-check `ne != e`),
                                    syncRemoveOldestIfNeeded :168 (LRU eviction = the same entry.Delete)
     lib/store/cleanup.go           ttlBasedCleanup :262 / customPolicyBasedCleanup :199 (op.DeleteFile)
   The retry manager (lib/persistedretry/manager.go) is the abstraction of K.Model.Retry (C30) to
   what C31 needs: the set of stored rows; Add of a stored row is a no-op (C30_add_existing_noop);
   a row leaves the store only by the worker's Remove after a successful Exec
   (C30_removed_only_after_success); a crash/restart keeps every row (C30_restart_recovers); a
   stored row can be handed to the executor again and again (C30_progress_possible), never twice
   at the same time by the workers (C30_no_double_execution).

   One atomic step = one store / metadata / backend / task-table call of one thread (a lock region
   of lruFileMap / one SQL statement / one backend request).  Threads: uploads (commit or the
   conflict path), worker executions, forced cleanups; environment events: a deletion attempt on a
   digest (periodic cleanup pass, LRU eviction, DELETE /internal/blobs — all end in
   localFileEntry.Delete), crash + restart.  Backend answers are oracles carried by the step.
   Executable definitions only; lemmas live in Proof/C31*.v. *)
From Coq Require Import List NArith Bool.
Import ListNotations.
Local Open Scope N_scope.

(* ---------------------------------------------------------------- small helpers *)

Definition key := (N * N)%type.                          (* (namespace, digest) *)
Definition key_eqb (a b : key) : bool := (fst a =? fst b) && (snd a =? snd b).
Definition kmem (k : key) (l : list key) : bool := existsb (key_eqb k) l.
Definition kremove (k : key) (l : list key) : list key := filter (fun x => negb (key_eqb k x)) l.

Definition add_key (k : key) (l : list key) : list key := if kmem k l then l else l ++ [k].

(* the cache: digest -> persist flag; a digest is present iff it has an entry *)
Definition files := list (N * bool).
Fixpoint flook (d : N) (f : files) : option bool :=
  match f with [] => None | (x, p) :: t => if x =? d then Some p else flook d t end.
Definition present (d : N) (f : files) : bool := match flook d f with Some _ => true | None => false end.
Definition persisted (d : N) (f : files) : bool := match flook d f with Some p => p | None => false end.
Definition fremove (d : N) (f : files) : files := filter (fun x => negb (fst x =? d)) f.
Fixpoint fset (d : N) (p : bool) (f : files) : files :=       (* only changes an existing entry *)
  match f with [] => [] | (x, q) :: t => if x =? d then (x, p) :: t else (x, q) :: fset d p t end.

(* ---------------------------------------------------------------- threads *)

(* executor.Exec: Stat :151, GetCacheFileReader :160 (look-up | entry lock + re-check), Upload :186,
   DeleteCacheFileMetadata :89, return to the caller (manager.exec :285 Remove|MarkFailed, or SyncExec).
   EOpen's flag: false once a deletion attempt dropped the map entry this reader looked up. *)
Inductive ephase := EStat | ELook | EOpen (fresh : bool) | EUpl | EClr | ERet (ok : bool).

(* an upload request for (ns,d): presence check / move to cache; writeBack: set persist :957,
   Add :965, Generate :970; the response *)
Inductive upc := UMove | USetP | UAdd | UMeta | UAck.

(* maybeDelete :1015: stat :1020, read persist :1030, Find :1038, SyncExec of each found task :1043
   (attempts left), delete persist :1048, DeleteCacheFile :1052 *)
Inductive fpc := FStat | FGetP | FFind | FSync (todo : list key) (ph : ephase) (att : N) | FDelP | FDel.

Inductive thread :=
| TUp (ns d : N) (pc : upc)
| TEx (ns d : N) (ph : ephase)
| TFc (d : N) (pc : fpc).

Definition thr_digest (t : thread) : N :=
  match t with TUp _ d _ => d | TEx _ d _ => d | TFc d _ => d end.

Record st := mkst {
  s_files : files;                 (* origin cache on disk *)
  s_tasks : list key;              (* rows of writeback_task *)
  s_back  : list key;              (* backend contents per namespace *)
  s_acked : list key;              (* ghost: uploads acknowledged to a client *)
  s_thr   : list (N * thread) }.   (* live threads by id *)

Definition init : st := mkst [] [] [] [] [].

(* SyncExec attempts: config.go SyncRetryBackoff.MaxRetries + 1 (the driver configures 1 retry) *)
Definition sync_attempts : N := 2.

Fixpoint tlook (t : N) (l : list (N * thread)) : option thread :=
  match l with [] => None | (x, th) :: r => if x =? t then Some th else tlook t r end.
Definition tremove (t : N) (l : list (N * thread)) : list (N * thread) :=
  filter (fun x => negb (fst x =? t)) l.
Fixpoint tset (t : N) (th : thread) (l : list (N * thread)) : list (N * thread) :=
  match l with [] => [] | (x, o) :: r => if x =? t then (x, th) :: r else (x, o) :: tset t th r end.

Definition executing (k : key) (l : list (N * thread)) : bool :=
  existsb (fun x => match snd x with TEx ns d _ => key_eqb k (ns, d) | _ => false end) l.

(* a deletion attempt invalidates the entry every reader of d has looked up (file_op.go:322-330:
   the callback returns true "so the entry would be removed from map regardless") *)
Definition stale_ph (ph : ephase) : ephase := match ph with EOpen _ => EOpen false | p => p end.
Definition stale_thread (d : N) (th : thread) : thread :=
  match th with
  | TEx ns x ph => if x =? d then TEx ns x (stale_ph ph) else th
  | TFc x (FSync todo ph k) => if x =? d then TFc x (FSync todo (stale_ph ph) k) else th
  | _ => th
  end.
Definition stale_all (d : N) (l : list (N * thread)) : list (N * thread) :=
  map (fun x => (fst x, stale_thread d (snd x))) l.

(* ---------------------------------------------------------------- operations and results *)

Inductive op :=
| OSpawnUp (t ns d : N)          (* a client sends the upload of d to namespace ns *)
| OSpawnEx (t ns d : N)          (* a worker hands stored row (ns,d) to the executor *)
| OSpawnFc (t d : N)             (* forced cleanup reaches d (expired or not owned) *)
| OStep (t : N) (up : bool)      (* thread t takes its next step; up = the backend | the task table answers *)
| ODel (d : N)                   (* cleanup pass | LRU eviction | DELETE reaches d: entry.Delete *)
| ORestart                       (* crash + restart: threads and the file map are gone *)
| OObs.

Inductive res :=
| RIllegal                       (* not enabled in this state *)
| RNext                          (* the thread moved on *)
| RConflict                      (* blob already present: conflict path *)
| RErr                           (* the request failed (no acknowledgement) / cleanup gave up *)
| RAck                           (* the upload was acknowledged (200, or 409 after writeBack) *)
| RFound | RMissing              (* executor: Stat found the blob / cache file missing, task dropped *)
| RDeleted | RPersisted | RNotExist   (* entry.Delete outcomes *)
| RRemoved | RFailed             (* worker: Remove | MarkFailed *)
| RObs (f : files) (tasks back : list key).

(* localFileEntry.Delete under the entry lock + removal from the map (file_op.go:322, file_map.go:168) *)
Definition del_file (d : N) (s : st) : st * res :=
  match flook d (s_files s) with
  | None => (s, RNotExist)
  | Some true => (mkst (s_files s) (s_tasks s) (s_back s) (s_acked s) (stale_all d (s_thr s)), RPersisted)
  | Some false => (mkst (fremove d (s_files s)) (s_tasks s) (s_back s) (s_acked s) (stale_all d (s_thr s)), RDeleted)
  end.

Definition with_thr (s : st) (l : list (N * thread)) : st :=
  mkst (s_files s) (s_tasks s) (s_back s) (s_acked s) l.
Definition with_files (s : st) (f : files) : st :=
  mkst f (s_tasks s) (s_back s) (s_acked s) (s_thr s).

(* one executor step for task k; returns the new shared state and the next phase.
   [fx] = true models the repaired look-up (fixes/C31_*.patch idea: re-check the disk instead of
   reporting a vanished map entry as a missing file); the code at HEAD is fx = false. *)
Definition exec_step (fx : bool) (k : key) (ph : ephase) (up : bool) (s : st) : st * ephase * res :=
  let d := snd k in
  match ph with
  | EStat => if up && kmem k (s_back s) then (s, EClr, RFound) else (s, ELook, RNext)          (* :151 *)
  | ELook => if present d (s_files s) then (s, EOpen true, RNext) else (s, EClr, RMissing)     (* :160-169 *)
  | EOpen fresh =>
      if (if fx then present d (s_files s) else fresh) then (s, EUpl, RNext) else (s, EClr, RMissing)
  | EUpl => if up then (mkst (s_files s) (s_tasks s) (add_key k (s_back s))
                             (s_acked s) (s_thr s), EClr, RNext)                               (* :186 *)
            else (s, ERet false, RErr)
  | EClr => (with_files s (fset d false (s_files s)), ERet true, RNext)                        (* :89 *)
  | ERet ok => (s, ERet ok, RIllegal)
  end.

Definition tasks_named (d : N) (l : list key) : list key := filter (fun k => snd k =? d) l.

Definition step_thread (fx : bool) (t : N) (th : thread) (up : bool) (s : st) : st * res :=
  match th with
  | TUp ns d pc =>
      match pc with
      | UMove =>                                        (* uploader.go:39,59,92 *)
          if present d (s_files s)
          then (with_thr s (tset t (TUp ns d USetP) (s_thr s)), RConflict)
          else (mkst (s_files s ++ [(d, false)]) (s_tasks s) (s_back s) (s_acked s)
                     (tset t (TUp ns d USetP) (s_thr s)), RNext)
      | USetP =>                                        (* server.go:957 *)
          if present d (s_files s)
          then (mkst (fset d true (s_files s)) (s_tasks s) (s_back s) (s_acked s)
                     (tset t (TUp ns d UAdd) (s_thr s)), RNext)
          else (with_thr s (tremove t (s_thr s)), RErr)
      | UAdd =>                                         (* server.go:965, manager.go:127-144 *)
          (* up = false here: the manager's Add fails (database locked, manager closing); writeBack
             returns the error (:967), the persist flag set before stays, nothing is acknowledged *)
          if up
          then (mkst (s_files s) (add_key (ns, d) (s_tasks s))
                     (s_back s) (s_acked s) (tset t (TUp ns d UMeta) (s_thr s)), RNext)
          else (with_thr s (tremove t (s_thr s)), RErr)
      | UMeta =>                                        (* server.go:970 *)
          if present d (s_files s)
          then (with_thr s (tset t (TUp ns d UAck) (s_thr s)), RNext)
          else (with_thr s (tremove t (s_thr s)), RErr)
      | UAck =>
          (mkst (s_files s) (s_tasks s) (s_back s)
                (add_key (ns, d) (s_acked s))
                (tremove t (s_thr s)), RAck)
      end
  | TEx ns d ph =>
      match ph with
      | ERet true =>                                    (* manager.go:296 Remove *)
          (mkst (s_files s) (kremove (ns, d) (s_tasks s)) (s_back s) (s_acked s) (tremove t (s_thr s)), RRemoved)
      | ERet false => (with_thr s (tremove t (s_thr s)), RFailed)          (* manager.go:287 MarkFailed *)
      | _ => let '(s1, ph1, r) := exec_step fx (ns, d) ph up s in
             (with_thr s1 (tset t (TEx ns d ph1) (s_thr s1)), r)
      end
  | TFc d pc =>
      match pc with
      | FStat => if present d (s_files s)               (* server.go:1020 *)
                 then (with_thr s (tset t (TFc d FGetP) (s_thr s)), RNext)
                 else (with_thr s (tremove t (s_thr s)), RErr)
      | FGetP => if persisted d (s_files s)             (* server.go:1030-1033 *)
                 then (with_thr s (tset t (TFc d FFind) (s_thr s)), RNext)
                 else (with_thr s (tset t (TFc d FDel) (s_thr s)), RNext)
      | FFind =>                                        (* server.go:1038 *)
          match tasks_named d (s_tasks s) with
          | [] => (with_thr s (tset t (TFc d FDelP) (s_thr s)), RNext)
          | l => (with_thr s (tset t (TFc d (FSync l EStat sync_attempts)) (s_thr s)), RNext)
          end
      | FSync [] _ _ => (with_thr s (tset t (TFc d FDelP) (s_thr s)), RNext)
      | FSync (k :: rest) (ERet true) _ =>              (* SyncExec returned nil: next task *)
          match rest with
          | [] => (with_thr s (tset t (TFc d FDelP) (s_thr s)), RNext)
          | _ => (with_thr s (tset t (TFc d (FSync rest EStat sync_attempts)) (s_thr s)), RNext)
          end
      | FSync (k :: rest) (ERet false) att =>          (* backoff.Retry: again, or give up :1045 *)
          if 1 <? att
          then (with_thr s (tset t (TFc d (FSync (k :: rest) EStat (att - 1))) (s_thr s)), RNext)
          else (with_thr s (tremove t (s_thr s)), RErr)
      | FSync (k :: rest) ph att =>
          let '(s1, ph1, r) := exec_step fx k ph up s in
          (with_thr s1 (tset t (TFc d (FSync (k :: rest) ph1 att)) (s_thr s1)), r)
      | FDelP => if present d (s_files s)               (* server.go:1048 *)
                 then (mkst (fset d false (s_files s)) (s_tasks s) (s_back s) (s_acked s)
                            (tset t (TFc d FDel) (s_thr s)), RNext)
                 else (with_thr s (tremove t (s_thr s)), RErr)
      | FDel => let '(s1, r) := del_file d s in         (* server.go:1052 *)
                (with_thr s1 (tremove t (s_thr s1)), r)
      end
  end.

Definition tfree (t : N) (s : st) : bool := match tlook t (s_thr s) with None => true | Some _ => false end.

Definition step (fx : bool) (s : st) (o : op) : st * res :=
  match o with
  | OSpawnUp t ns d => if tfree t s then (with_thr s (s_thr s ++ [(t, TUp ns d UMove)]), RNext) else (s, RIllegal)
  | OSpawnEx t ns d =>
      if tfree t s && kmem (ns, d) (s_tasks s) && negb (executing (ns, d) (s_thr s))
      then (with_thr s (s_thr s ++ [(t, TEx ns d EStat)]), RNext) else (s, RIllegal)
  | OSpawnFc t d => if tfree t s then (with_thr s (s_thr s ++ [(t, TFc d FStat)]), RNext) else (s, RIllegal)
  | OStep t up => match tlook t (s_thr s) with
                  | Some th => step_thread fx t th up s
                  | None => (s, RIllegal)
                  end
  | ODel d => del_file d s
  | ORestart => (with_thr s [], RNext)
  | OObs => (s, RObs (s_files s) (s_tasks s) (s_back s))
  end.

Fixpoint run (fx : bool) (s : st) (ops : list op) : st * list res :=
  match ops with
  | [] => (s, [])
  | o :: t => let '(s1, r) := step fx s o in
              let '(s2, rs) := run fx s1 t in (s2, r :: rs)
  end.

(* ---------------------------------------------------------------- the property on one state / trace *)

(* safety clause: an acknowledged upload that is not yet in its backend still has its local copy
   and a stored write-back row *)
Definition safe_key (f : files) (tasks back : list key) (k : key) : bool :=
  kmem k back || (present (snd k) f && kmem k tasks).
Definition safe_state (s : st) : bool :=
  forallb (safe_key (s_files s) (s_tasks s) (s_back s)) (s_acked s).
(* eventual clause, evaluated after the drain suffix of a case *)
Definition delivered (back acked : list key) : bool := forallb (fun k => kmem k back) acked.

(* acknowledgements are read off the observed results: the i-th op is the UAck step of an upload
   for (ns,d).  [who] tracks which upload a thread id belongs to (from the ops alone). *)
Fixpoint who_look (t : N) (l : list (N * key)) : option key :=
  match l with [] => None | (x, k) :: r => if x =? t then Some k else who_look t r end.

(* The property on the OBSERVED results [obs] (one per op), using the ops and what the
   implementation reported only:
   check_safety: every observation satisfies the safety clause for the acknowledgements seen so far;
   check_final : the last observation after the last acknowledgement (every case ends with a
                 drain: restart, healthy backend, every stored row executed) has every acknowledged
                 blob in its backend. *)
Fixpoint check_safety_from (who : list (N * key)) (acked : list key) (ops : list op) (obs : list res) : bool :=
  match ops, obs with
  | o :: ops', r :: obs' =>
      match o, r with
      | OSpawnUp t ns d, RNext => check_safety_from ((t, (ns, d)) :: who) acked ops' obs'
      | OStep t _, RAck =>
          match who_look t who with
          | Some k => check_safety_from who (add_key k acked) ops' obs'
          | None => false                      (* an acknowledgement out of nowhere *)
          end
      | OObs, RObs f tasks back => forallb (safe_key f tasks back) acked && check_safety_from who acked ops' obs'
      | _, _ => check_safety_from who acked ops' obs'
      end
  | _, _ => true
  end.

Fixpoint check_final_from (who : list (N * key)) (acked : list key) (last_ok : bool)
         (ops : list op) (obs : list res) : bool :=
  match ops, obs with
  | o :: ops', r :: obs' =>
      match o, r with
      | OSpawnUp t ns d, RNext => check_final_from ((t, (ns, d)) :: who) acked last_ok ops' obs'
      | OStep t _, RAck =>
          match who_look t who with
          | Some k => check_final_from who (add_key k acked) false ops' obs'
          | None => false
          end
      | OObs, RObs f tasks back => check_final_from who acked (delivered back acked) ops' obs'
      | _, _ => check_final_from who acked last_ok ops' obs'
      end
  | _, _ => last_ok
  end.

Definition check_safety (ops : list op) (obs : list res) : bool := check_safety_from [] [] ops obs.
Definition check_final (ops : list op) (obs : list res) : bool := check_final_from [] [] true ops obs.
Definition C31_check (ops : list op) (obs : list res) : bool := check_safety ops obs && check_final ops obs.

(* ---------------------------------------------------------------- comparison of observations *)

Definition keys_sub (a b : list key) : bool := forallb (fun k => kmem k b) a.
Definition keys_eqb (a b : list key) : bool := keys_sub a b && keys_sub b a.
Definition files_sub (a b : files) : bool :=
  forallb (fun x => match flook (fst x) b with Some p => Bool.eqb p (snd x) | None => false end) a.
Definition files_eqb (a b : files) : bool := files_sub a b && files_sub b a.
Definition res_eqb (a b : res) : bool :=
  match a, b with
  | RIllegal, RIllegal | RNext, RNext | RConflict, RConflict | RErr, RErr | RAck, RAck
  | RFound, RFound | RMissing, RMissing | RDeleted, RDeleted | RPersisted, RPersisted
  | RNotExist, RNotExist | RRemoved, RRemoved | RFailed, RFailed => true
  | RObs f t b, RObs f' t' b' => files_eqb f f' && keys_eqb t t' && keys_eqb b b'
  | _, _ => false
  end.
Fixpoint ress_eqb (a b : list res) : bool :=
  match a, b with
  | [], [] => true
  | x :: a', y :: b' => res_eqb x y && ress_eqb a' b'
  | _, _ => false
  end.

(* ---------------------------------------------------------------- hypotheses of the partial theorems *)

(* The three conditions under which the safety clause is proved (each is necessary: see the
   three `_refuted` theorems).  [nsof] assigns every digest its one namespace.
   (1) one namespace per digest: every upload of d goes to namespace nsof d;
   (2) forced cleanup of d is isolated from the uploads of d: no upload of d sets the persist flag
       while a forced cleanup of d is between its Find and its deletion of the flag, and no forced
       cleanup of d runs its Find while an upload of d is between set-persist and Add;
   (3) (only for the code without the look-up repair, fx = false) no executor opens the cache
       file through a map entry that a deletion attempt dropped after the look-up. *)
Definition in_window (pc : fpc) : bool := match pc with FSync _ _ _ | FDelP => true | _ => false end.
Definition fc_in_window (d : N) (l : list (N * thread)) : bool :=
  existsb (fun x => match snd x with TFc d' pc => (d' =? d) && in_window pc | _ => false end) l.
Definition up_at_add (d : N) (l : list (N * thread)) : bool :=
  existsb (fun x => match snd x with TUp _ d' UAdd => d' =? d | _ => false end) l.

Definition guard (nsof : N -> N) (fx : bool) (s : st) (o : op) : bool :=
  match o with
  | OSpawnUp _ ns d => ns =? nsof d
  | OStep t _ =>
      match tlook t (s_thr s) with
      | Some (TUp _ d USetP) => negb (fc_in_window d (s_thr s))
      | Some (TFc d FFind) => negb (up_at_add d (s_thr s))
      | Some (TEx _ _ (EOpen false)) => fx
      | Some (TFc _ (FSync _ (EOpen false) _)) => fx
      | _ => true
      end
  | _ => true
  end.

(* every step of the history [ops] from state s respects the three conditions *)
Fixpoint nice (nsof : N -> N) (fx : bool) (s : st) (ops : list op) : bool :=
  match ops with
  | [] => true
  | o :: r => guard nsof fx s o && nice nsof fx (fst (step fx s o)) r
  end.
