(* C22 — rendezvous ordering: the instance of the shared model (Model/Rendezvous.v) that is
   executed on observed cases, the observation record and the property oracle C22_check.
   Executable definitions only; proofs in Proof/C22.v. *)
From Coq Require Import List NArith ZArith Bool.
From K.Model Require Export Rendezvous.
Import ListNotations.
Local Open Scope N_scope.

(* The executed instance (Model/Rendezvous.v: row, tscore): the key is the row of real scores. *)

Definition ord (ns : list node) (r : row) : list node := ordered N.ltb tscore ns r.
Definition lab (l : list node) : list N := map label l.

Fixpoint list_eqb (a b : list N) : bool :=
  match a, b with
  | [], [] => true
  | x :: a', y :: b' => N.eqb x y && list_eqb a' b'
  | _, _ => false
  end.

(* drop label x from a list of labels *)
Definition drop (x : N) (l : list N) : list N := filter (fun y => negb (N.eqb y x)) l.

(* what the implementation returned for one key and one node set U *)
Record obs := mkobs {
  o_full : list N;                         (* GetOrderedNodes(key, len U), hash built in order U *)
  o_perm : list N;                         (* same nodes inserted in the order U' *)
  o_top  : list N;                         (* GetOrderedNodes(key, topn) *)
  o_rem  : list (N * list N * list N)      (* x, list after RemoveNode(x), list after re-AddNode(x) *)
}.

(* the model's observation *)
Definition node_of (U : list node) (l : N) : node :=
  match find (fun n => N.eqb (label n) l) U with Some n => n | None => mknode l (-1) end.

Definition observe (U U' : list node) (topn : nat) (xs : list N) (r : row) : obs :=
  mkobs (lab (ord U r)) (lab (ord U' r)) (lab (get_ordered_nodes N.ltb tscore U r topn))
        (map (fun x => let R := remove_node x U in
                       (x, lab (ord R r), lab (ord (add_node (node_of U x) R) r))) xs).

Fixpoint rems_eqb (a b : list (N * list N * list N)) : bool :=
  match a, b with
  | [], [] => true
  | (x, r1, a1) :: a', (y, r2, a2) :: b' => N.eqb x y && list_eqb r1 r2 && list_eqb a1 a2 && rems_eqb a' b'
  | _, _ => false
  end.
Definition obs_eqb (a b : obs) : bool :=
  list_eqb (o_full a) (o_full b) && list_eqb (o_perm a) (o_perm b) &&
  list_eqb (o_top a) (o_top b) && rems_eqb (o_rem a) (o_rem b).

(* the case is inside the property's domain: U is a set of nodes (distinct labels), U' the
   same set in another order, every x a member *)
Definition dom (U U' : list node) (xs : list N) : bool :=
  labels_nodupb U && same_nodesb U' U && forallb (fun x => existsb (N.eqb x) (lab U)) xs.

(* The property evaluated on one observation (no reference to [ordered]):
   - the list is the node set sorted by descending score;
   - it does not depend on the insertion order;
   - removing x only removes x; adding x only inserts x (all others keep their relative order).
   hexkey = false (odd-length / non-hex key: every score is NaN, outside the property's
   domain): only "a permutation of the node set" is required. *)
Definition C22_check (hexkey : bool) (U U' : list node) (topn : nat) (xs : list N) (r : row) (o : obs) : bool :=
  if negb (dom U U' xs) then true else
  let full := map (node_of U) (o_full o) in
  if negb hexkey then same_nodesb full U else
  is_orderingb N.ltb tscore U r full
  && list_eqb (o_perm o) (o_full o)
  && list_eqb (o_top o) (firstn topn (o_full o))
  && list_eqb (map (fun t => fst (fst t)) (o_rem o)) xs
  && forallb (fun t => let '(x, rem, add) := t in
                list_eqb rem (drop x (o_full o))            (* removal removes x and nothing else *)
                && list_eqb (drop x add) rem                 (* addition leaves the others in place *)
                && existsb (N.eqb x) add
                && Nat.eqb (length add) (S (length rem))
                && is_orderingb N.ltb tscore U r (map (node_of U) add))  (* and x sits where its score puts it *)
             (o_rem o).

(* the stated hypothesis, as a boolean on the case *)
Definition C22_tie_free (U : list node) (r : row) : bool := tie_freeb N.ltb tscore r U.

(* ---- the proposed repair (fixes/C22_tiebreak.patch): break score ties by label ---- *)
Section Tiebreak.
  Variables key T : Type.
  Variable ltb : T -> T -> bool.
  Variable score : node -> key -> T.
  (* (score, label) compared lexicographically *)
  Definition lex_ltb (a b : T * N) : bool :=
    ltb (fst a) (fst b) || (negb (ltb (fst b) (fst a)) && N.ltb (snd a) (snd b)).
  Definition lex_score (n : node) (k : key) : T * N := (score n k, label n).
End Tiebreak.
Arguments lex_ltb {T} ltb a b.
Arguments lex_score {key T} score n k.
