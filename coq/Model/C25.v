(* Model of utils/stringset/stringset.go (Set.Add, Set.Sample), build-index/tagclient/client.go
   (clusterClient.do / doOnce) and origin/blobclient/cluster_client.go (Locations).
   Executable definitions only; proofs live in Proof/C25.v.

   Host addresses are canonicalised to small N by the harness.  A Go map (stringset.Set) is
   represented by the duplicate-free list of its keys IN THE ORDER A `range` VISITS THEM; that order
   is an oracle (Go randomises it), so every definition below takes the order as an argument and
   the theorems quantify over all of them.

   Sample is modelled WITH the proposed fix fixes/C25_sample_returns_sample.patch (`return c`);
   the code as pinned (`return s`) is kept as the mutant [sample_prefix]. *)
From Coq Require Import List NArith ZArith Bool Permutation.
From K.Gen Require Import C25_consts.
Import ListNotations.

Definition memb (h : N) (l : list N) : bool := existsb (N.eqb h) l.

(* stringset.go:37 Add: s[x] = struct{}{} -- adding a present key changes nothing *)
Definition set_add (x : N) (c : list N) : list N := if memb x c then c else c ++ [x].

(* stringset.go:104-113
     c := make(Set, n)
     for x := range s { if n == 0 { break }; c.Add(x); n-- }
     return c                       (pinned code: return s)
   n is a Go int: it is decremented below zero when it starts negative, and `n == 0` never fires. *)
Fixpoint sample_loop (n : Z) (order c : list N) : list N :=
  match order with
  | [] => c
  | x :: t => if (n =? 0)%Z then c else sample_loop (n - 1)%Z t (set_add x c)
  end.

Definition sample (n : Z) (order : list N) : list N := sample_loop n order [].

(* the pinned, pre-fix code: builds c, returns s *)
Definition sample_prefix (n : Z) (order : list N) : list N :=
  let _ := sample_loop n order [] in order.

(* ---- requests --------------------------------------------------------------------------- *)

(* what one request to one host produced, as the loops below classify it:
   Ok = nil error; NetErr = httputil.NetworkError; OtherErr = any other error (status error, ...) *)
Inductive outcome := Ok | NetErr | OtherErr.

Definition is_net (o : outcome) : bool := match o with NetErr => true | _ => false end.
Definition is_err (o : outcome) : bool := match o with Ok => false | _ => true end.

(* fault oracle: host -> outcome, as an association list (hosts without an entry fail) *)
Fixpoint oc_of (l : list (N * outcome)) (a : N) : outcome :=
  match l with
  | [] => OtherErr
  | (k, o) :: t => if N.eqb a k then o else oc_of t a
  end.

(* the `for addr := range addrs` loops: client.go:312-319 (retry = IsNetworkError: Failed+continue,
   else break) and cluster_client.go:47-53 (retry = err != nil: continue, else break).
   Returns the hosts requested, in order, and the error value held when the loop ends. *)
Fixpoint try_loop (retry : outcome -> bool) (oc : N -> outcome) (iord : list N) (last : outcome)
  : list N * outcome :=
  match iord with
  | [] => ([], last)
  | a :: t => let o := oc a in
              if retry o then let '(cs, r) := try_loop retry oc t o in (a :: cs, r)
              else ([a], o)
  end.

(* observable result of one cluster request: hosts contacted in order, and whether it returned nil *)
Inductive output := OSample (res : list N) | OReq (contacted : list N) (ok : bool).

(* do (client.go:306-321) / Locations (cluster_client.go:42-55), parametric in the Sample used.
   sord = order in which `range s` inside Sample visits the resolved set,
   iord = order in which `range addrs` visits the sample. *)
Definition attempt_with (smp : Z -> list N -> list N) (retry : outcome -> bool) (n : Z)
           (sord iord : list N) (oc : N -> outcome) : output :=
  match smp n sord with
  | [] => OReq [] false                       (* len(addrs) == 0: "no hosts" / "cluster is empty" *)
  | _ :: _ => let '(cs, r) := try_loop retry oc iord Ok in OReq cs (negb (is_err r))
  end.

(* doOnce (client.go:324-338): `for addr = range addrs {}` leaves the LAST key visited in addr *)
Definition once_with (smp : Z -> list N -> list N) (n : Z) (sord iord : list N) (oc : N -> outcome)
  : output :=
  match smp n sord with
  | [] => OReq [] false
  | _ :: _ => let addr := last iord 0%N in OReq [addr] (negb (is_err (oc addr)))
  end.

Definition tag_do := attempt_with sample is_net tag_do_sample_size.
Definition blob_locations := attempt_with sample is_err blob_locations_sample_size.
Definition tag_do_once := once_with sample tag_doonce_sample_size.

(* the same three entry points over the pinned Sample *)
Definition tag_do_prefix := attempt_with sample_prefix is_net tag_do_sample_size.
Definition blob_locations_prefix := attempt_with sample_prefix is_err blob_locations_sample_size.
Definition tag_do_once_prefix := once_with sample_prefix tag_doonce_sample_size.

(* ---- cases ------------------------------------------------------------------------------- *)

Inductive kind := KDo | KOnce | KLoc.

(* s / hosts: the set, as the harness lists it (ascending ids, duplicate-free) *)
Inductive input :=
| ISample (s : list N) (n : Z)
| IReq (k : kind) (hosts : list N) (oc : list (N * outcome)).

Definition sample_size (k : kind) : Z :=
  match k with KDo => tag_do_sample_size | KOnce => tag_doonce_sample_size | KLoc => blob_locations_sample_size end.

(* the model, given the two iteration-order oracles *)
Definition run (i : input) (sord iord : list N) : output :=
  match i with
  | ISample _ n => OSample (sample n sord)
  | IReq KDo _ oc => tag_do sord iord (oc_of oc)
  | IReq KOnce _ oc => tag_do_once sord iord (oc_of oc)
  | IReq KLoc _ oc => blob_locations sord iord (oc_of oc)
  end.

Definition run_prefix (i : input) (sord iord : list N) : output :=
  match i with
  | ISample _ n => OSample (sample_prefix n sord)
  | IReq KDo _ oc => tag_do_prefix sord iord (oc_of oc)
  | IReq KOnce _ oc => tag_do_once_prefix sord iord (oc_of oc)
  | IReq KLoc _ oc => blob_locations_prefix sord iord (oc_of oc)
  end.

Definition set_of (i : input) : list N := match i with ISample s _ => s | IReq _ h _ => h end.

(* ---- boolean predicates ------------------------------------------------------------------ *)

Fixpoint nodupb (l : list N) : bool :=
  match l with [] => true | x :: t => negb (memb x t) && nodupb t end.
Definition subsetb (a b : list N) : bool := forallb (fun x => memb x b) a.
Fixpoint list_eqb (a b : list N) : bool :=
  match a, b with
  | [], [] => true
  | x :: a', y :: b' => N.eqb x y && list_eqb a' b'
  | _, _ => false
  end.
Definition output_eqb (a b : output) : bool :=
  match a, b with
  | OSample x, OSample y => list_eqb x y
  | OReq c1 k1, OReq c2 k2 => list_eqb c1 c2 && Bool.eqb k1 k2
  | _, _ => false
  end.

(* `ord` is a legal iteration order of the set s (s duplicate-free): a permutation of it *)
Definition legal (ord s : list N) : bool :=
  nodupb ord && Nat.eqb (length ord) (length s) && subsetb ord s.

(* An iteration order consistent with what was seen: the elements seen first, in the order seen,
   then the rest of the set.  Used to turn an observation into the oracle the model needs. *)
Definition recon (seen s : list N) : list N := seen ++ filter (fun x => negb (memb x seen)) s.

Definition seen_of (o : output) : list N := match o with OSample r => r | OReq c _ => c end.
Definition contacted (o : output) : list N := match o with OReq c _ => c | OSample _ => [] end.
Definition succeeded (o : output) : bool := match o with OReq _ b => b | OSample _ => false end.

(* does the model, run with the oracle reconstructed from the observation, produce the observation? *)
Definition agrees_with (runner : input -> list N -> list N -> output) (i : input) (o : output) : bool :=
  let sord := recon (seen_of o) (set_of i) in
  let iord := match i with ISample _ _ => [] | IReq k _ _ => sample (sample_size k) sord end in
  legal sord (set_of i) && output_eqb (runner i sord iord) o.
Definition agrees := agrees_with run.

(* ---- the property on one observed case (spec-based: does not run the model) ---------------
   "tries at most three distinct hosts (exactly one for single-attempt calls), all taken from the
    current host list; sampling n hosts from a list yields min(n, list size) distinct members" *)
Definition C25_check (i : input) (o : output) : bool :=
  match i, o with
  | ISample s n, OSample res =>
      if (n <? 0)%Z then true
      else Nat.eqb (length res) (Nat.min (Z.to_nat n) (length s)) && nodupb res && subsetb res s
  | IReq KOnce hosts _, OReq cs _ =>
      subsetb cs hosts && Nat.eqb (length cs) (match hosts with [] => 0 | _ => 1 end)
  | IReq _ hosts _, OReq cs _ =>
      nodupb cs && subsetb cs hosts && Nat.leb (length cs) 3
  | _, _ => false
  end.

(* ---- hypotheses of the theorems: the two iteration orders are legal -------------------------
   the set is duplicate-free, sord is an iteration order of it, and (for requests) iord is an
   iteration order of the sample drawn from sord *)
Definition oracles_ok (i : input) (sord iord : list N) : Prop :=
  NoDup (set_of i) /\ Permutation sord (set_of i) /\
  match i with ISample _ _ => True | IReq k _ _ => Permutation iord (sample (sample_size k) sord) end.

(* fault patterns of the refutation witnesses (also harness seed cases) *)
Definition all_net : list (N * outcome) := [(0, NetErr); (1, NetErr); (2, NetErr); (3, NetErr)]%N.
Definition all_500 : list (N * outcome) := [(0, OtherErr); (1, OtherErr); (2, OtherErr); (3, OtherErr)]%N.
