(* Model of the cluster blob download:
     origin/blobclient/cluster_client.go  clusterClient.DownloadBlob (248-277), Poll (364-403)
     origin/blobclient/client.go          HTTPClient.DownloadBlob (238-272)
     utils/httputil/httputil.go           Send: result classification (362-368)
   Executable definitions only; proofs live in Proof/C35.v.

   The environment (the resolved origins) is an oracle: every origin carries the finite script
   of responses it gives to successive requests and the number of 202 answers the poll
   back-off tolerates before it says Stop.  Theorems quantify over all such environments.

   `download` models the code WITH fixes/C35_partial_then_next_origin.patch (a failed attempt
   that already wrote to dst ends the call); `download_prefix` is the code as pinned
   (every failed attempt falls through to the next origin). *)
From Coq Require Import List NArith Bool.
Import ListNotations.
Local Open Scope N_scope.

(* What one GET /namespace/<ns>/blobs/<d> yields, seen from the client. *)
Inductive resp :=
| RNet                                              (* no HTTP response: refused / closed before the header *)
| RResp (code : N) (body : list N) (clean : bool).  (* status, body bytes received, framing completed? *)

(* Result of one HTTPClient.DownloadBlob call, projected. *)
Inductive rq := QOk | QNet | QStatus (code : N) | QCopy.

(* client.go:251-271 + httputil.go:362-368.  Accepted codes = {200}: any other status is a
   StatusError and nothing is copied (NewStatusError drains the body, ignoring read errors);
   on 200 io.Copy hands every received byte to dst, then reports the read error if the
   framing (Content-Length / chunked) was cut. *)
Definition http_download (r : resp) : list N * rq :=
  match r with
  | RNet => ([], QNet)
  | RResp code body clean =>
      if code =? 200 then (body, if clean then QOk else QCopy)
      else ([], QStatus code)
  end.

Inductive outcome := Ok | NotFound | StatusErr (code : N) | Failed.

(* Result of the POLL loop for one origin. *)
Inductive pres := PDone (o : outcome) | PNext.

Definition is_nil (l : list N) : bool := match l with [] => true | _ => false end.

(* cluster_client.go:378-400 for one client.  [fixed] = the request closure is the one of
   the patched clusterClient.DownloadBlob (counts bytes handed to dst; an error after
   n > 0 bytes is wrapped in backoff.Permanent, which Poll returns at once).
   [bud] = how many more times b.NextBackOff() answers a duration rather than Stop.
   A request beyond the end of the script finds the origin gone (RNet).
   Returns (result, dst, number of requests made to this origin). *)
Fixpoint poll_origin (fixed : bool) (sc : list resp) (bud : N) (dst : list N) (cnt : N)
  : pres * list N * N :=
  match sc with
  | [] => (PNext, dst, cnt + 1)                                   (* :394 network error *)
  | r :: sc' =>
      let '(w, q) := http_download r in
      let dst' := dst ++ w in
      match q with
      | QOk => (PDone Ok, dst', cnt + 1)                           (* :397 *)
      | _ =>
          if fixed && negb (is_nil dst') then (PDone Failed, dst', cnt + 1)  (* patch: Permanent *)
          else
            match q with
            | QStatus c =>
                if c =? 202 then                                   (* :382 *)
                  if bud =? 0 then (PNext, dst', cnt + 1)          (* :384-385, :399 *)
                  else poll_origin fixed sc' (bud - 1) dst' (cnt + 1)   (* :387-388 *)
                else if c <? 500 then (PDone (StatusErr c), dst', cnt + 1)  (* :390-391 *)
                else (PNext, dst', cnt + 1)                        (* :394-395 *)
            | _ => (PNext, dst', cnt + 1)                          (* :394-395 *)
            end
      end
  end.

Record origin := mkorigin { script : list resp; budget : N }.

Definition zeros (os : list origin) : list N := map (fun _ => 0) os.

(* cluster_client.go:375-402: the ORIGINS loop.  Returns (result, dst, requests per origin). *)
Fixpoint poll (fixed : bool) (os : list origin) (dst : list N) : outcome * list N * list N :=
  match os with
  | [] => (Failed, dst, [])                                        (* :402 *)
  | o :: os' =>
      match poll_origin fixed (script o) (budget o) dst 0 with
      | (PDone r, dst', c) => (r, dst', c :: zeros os')
      | (PNext, dst', c) =>
          let '(r, dst'', cs) := poll fixed os' dst' in (r, dst'', c :: cs)
      end
  end.

(* Entry point exercised: the cluster client, or Poll called directly with the plain
   closure `client.DownloadBlob(ctx, ns, d, dst)` (used by the correspondence to reach the
   back-off exhaustion path, which the cluster client's 15-minute back-off hides). *)
Inductive entry := Cluster | PollDirect.

Record input := mkin {
  i_entry : entry;
  i_blob : list N;            (* the blob named by the digest *)
  i_resolve : bool;           (* does ClientResolver.Resolve succeed *)
  i_origins : list origin
}.

Record obs := mkobs { o_res : outcome; o_dst : list N; o_cnt : list N }.

(* cluster_client.go:265-267: a 404 becomes ErrBlobNotFound *)
Definition map404 (r : outcome) : outcome :=
  match r with
  | StatusErr c => if c =? 404 then NotFound else r
  | _ => r
  end.

Definition run_with (fixed : bool) (i : input) : obs :=
  if i_resolve i then                                              (* :370-373 *)
    let '(r, dst, cs) := poll fixed (i_origins i) [] in
    mkobs (match i_entry i with Cluster => map404 r | PollDirect => r end) dst cs
  else mkobs Failed [] (zeros (i_origins i)).

(* the patched code *)
Definition run (i : input) : obs :=
  run_with (match i_entry i with Cluster => true | PollDirect => false end) i.

(* the pinned code: no attempt is ever final because of what it wrote *)
Definition run_prefix (i : input) : obs := run_with false i.

(* ---- the cluster download as a function of the environment only *)
Definition download (os : list origin) : outcome * list N :=
  let o := run (mkin Cluster [] true os) in (o_res o, o_dst o).
Definition download_prefix (os : list origin) : outcome * list N :=
  let o := run_prefix (mkin Cluster [] true os) in (o_res o, o_dst o).

(* ---- specification vocabulary *)
Fixpoint bytes_eqb (a b : list N) : bool :=
  match a, b with
  | [], [] => true
  | x :: a', y :: b' => (x =? y) && bytes_eqb a' b'
  | _, _ => false
  end.

(* the response is a complete 200 *)
Definition complete (r : resp) : bool :=
  match r with RResp c _ true => c =? 200 | _ => false end.

(* an origin "delivers the whole blob" with this response *)
Definition delivers (blob : list N) (r : resp) : bool :=
  match r with RResp c b true => (c =? 200) && bytes_eqb b blob | _ => false end.

(* origins are honest: a complete 200 carries exactly the blob (HTTP framing makes a cut
   body detectable; what a complete body contains is the origin's business) *)
Definition honest_resp (blob : list N) (r : resp) : bool := implb (complete r) (delivers blob r).
Definition honest (blob : list N) (os : list origin) : bool :=
  forallb (fun o => forallb (honest_resp blob) (script o)) os.

Definition any_complete (os : list origin) : bool :=
  existsb (fun o => existsb complete (script o)) os.

Definition is_ok (r : outcome) : bool := match r with Ok => true | _ => false end.

(* an origin whose turn ends with "try the next origin" and nothing written: 202s within the
   back-off budget followed by the end of the script, a refused connection, a 5xx, a 200 whose
   body was cut before the first byte, or one 202 too many *)
Definition is202 (r : resp) : bool := match r with RResp c _ _ => c =? 202 | RNet => false end.
Fixpoint silent_fail (sc : list resp) (bud : N) : bool :=
  match sc with
  | [] => true
  | RNet :: _ => true
  | RResp c b clean :: sc' =>
      if c =? 200 then negb clean && is_nil b
      else if c =? 202 then (if bud =? 0 then true else silent_fail sc' (bud - 1))
      else negb (c <? 500)
  end.

(* a 200 whose body was cut after at least one byte: the only kind of response after which
   the patched and the pinned code behave differently *)
Definition is_partial (r : resp) : bool :=
  match r with RResp c b false => (c =? 200) && negb (is_nil b) | _ => false end.
Definition no_partial (os : list origin) : bool :=
  forallb (fun o => forallb (fun r => negb (is_partial r)) (script o)) os.

(* ---- the property on one observed run (spec-based; uses the implementation's result and
   destination bytes only):
   (a) cluster download succeeded and origins are honest => the destination holds exactly the blob;
   (b) no origin ever gives a complete 200 => the call fails. *)
Definition C35_check (i : input) (o : obs) : bool :=
  (match i_entry i with
   | Cluster => implb (is_ok (o_res o) && honest (i_blob i) (i_origins i)) (bytes_eqb (o_dst o) (i_blob i))
   | PollDirect => true
   end) &&
  implb (negb (i_resolve i && any_complete (i_origins i))) (negb (is_ok (o_res o))).

(* ---- comparison of observables *)
Definition outcome_eqb (a b : outcome) : bool :=
  match a, b with
  | Ok, Ok | NotFound, NotFound | Failed, Failed => true
  | StatusErr x, StatusErr y => x =? y
  | _, _ => false
  end.
Definition obs_eqb (a b : obs) : bool :=
  outcome_eqb (o_res a) (o_res b) && bytes_eqb (o_dst a) (o_dst b) && bytes_eqb (o_cnt a) (o_cnt b).
