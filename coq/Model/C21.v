(* C21 — model of lib/hashring/ring.go (Locations, Refresh, New) on top of the shared
   rendezvous model, core/digest.go ShardID, the statement as a specification function and
   the oracle C21_check.  Executable definitions only; proofs in Proof/C21.v. *)
From Coq Require Import List NArith ZArith Bool.
From K.Model Require Export Rendezvous.
From K.Gen Require Import C21_consts.   (* default_weight (ring.go:33), default_max_replica (config.go:38) *)
Import ListNotations.

(* Addresses are canonicalised to small N; a stringset.Set is a list without duplicates whose
   order is the iteration order the implementation happened to use (oracle). *)
Definition memb (a : N) (s : list N) : bool := existsb (N.eqb a) s.
Definition subsetb (a b : list N) : bool := forallb (fun x => memb x b) a.
(* stringset.go:83 Equal: same length and s1 included in s2 *)
Definition set_eqb (a b : list N) : bool := Nat.eqb (length a) (length b) && subsetb a b.
Definition nodupb (l : list N) : bool :=
  (fix go (l : list N) : bool :=
     match l with [] => true | x :: t => negb (memb x t) && go t end) l.

(* core/digest.go:154 ShardID = hex[:4]; a digest's hex is 64 hex characters (digest.go:159) *)
Definition shard_id (hex : list N) : list N := firstn 4 hex.

(* config.go:36 applyDefaults (MaxReplica only; the other fields are timers) *)
Definition apply_defaults (m : Z) : Z := if (m =? 0)%Z then default_max_replica else m.

(* ring.go:67 ring {config, addrs, hash, healthy};  hash = None is the nil *RendezvousHash of
   a ring that never saw a membership different from the empty one *)
Record ring := mkring { r_max : Z; r_addrs : list N; r_hash : option (list node); r_healthy : list N }.

(* ring.go:210-213: fresh hash, AddNode(addr, _defaultWeight) in map-iteration order *)
Definition build_hash (order : list N) : list node :=
  fold_left (fun ns a => add_node (mknode a default_weight) ns) order [].

(* ring.go:202 Refresh.  [latest] = cluster.Resolve() in the order `range latest` yields it,
   [healthy] = filter.Run(latest): both are environment responses carried by the op. *)
Definition refresh (r : ring) (latest healthy : list N) : ring :=
  let hash := if set_eqb (r_addrs r) latest then r_hash r else Some (build_hash latest) in
  mkring (r_max r) latest hash healthy.

(* ring.go:91 New: applyDefaults, then Refresh on the zero ring (addrs nil, hash nil) *)
Definition new_ring (maxr : Z) (latest healthy : list N) : ring :=
  refresh (mkring (apply_defaults maxr) [] None []) latest healthy.

(* a history: New, then any number of Refresh (Monitor) *)
Definition run_ring (maxr : Z) (first : list N * list N) (steps : list (list N * list N)) : ring :=
  fold_left (fun r s => refresh r (fst s) (snd s)) steps (new_ring maxr (fst first) (snd first)).

Inductive res := Panic | Fatal | Locs (l : list N).

(* ring.go:133-138 the selection loop; i and MaxReplica are Go ints *)
Fixpoint loc_loop (maxr : Z) (healthy : list N) (nodes : list node) (i : Z) (locs : list N) : list N :=
  match nodes with
  | [] => locs
  | x :: t =>
      if (match locs with [] => true | _ => false end) || (i <? maxr)%Z
      then loc_loop maxr healthy t (i + 1)%Z
             (if memb (label x) healthy then locs ++ [label x] else locs)
      else locs
  end.

Section Ring.
  Variables key T : Type.
  Variable ltb : T -> T -> bool.
  Variable score : node -> key -> T.

  (* ring.go:118 Locations(d), k = d.ShardID() *)
  Definition locations (r : ring) (k : key) : res :=
    match r_hash r with
    | None => Panic                                  (* r.hash.GetOrderedNodes on a nil hash *)
    | Some ns =>
        let nodes := get_ordered_nodes ltb score ns k (length (r_addrs r)) in    (* :122 *)
        if negb (Nat.eqb (length nodes) (length (r_addrs r))) then Fatal         (* :123 log.Fatal *)
        else match r_healthy r with
             | [] => match nodes with [] => Panic | x :: _ => Locs [label x] end  (* :128-130 *)
             | _ => Locs (loc_loop (r_max r) (r_healthy r) nodes 0%Z [])          (* :132-139 *)
             end
    end.

  (* ---- the statement, written down as a function of the rank order ----
     ranked = the members ordered by descending score (rank 0 = "top owner") *)
  Definition spec_locations (maxr : Z) (healthy : list N) (ranked : list node) : list N :=
    let is_h := fun x => memb (label x) healthy in
    if existsb is_h ranked then                          (* some member is healthy *)
      match filter is_h (firstn (Z.to_nat maxr) ranked) with
      | [] => match find is_h ranked with               (* none of the top MaxReplica is healthy: *)
              | Some x => [label x]                      (*   the single highest-ranked healthy member *)
              | None => []
              end
      | top => map label top                             (* the healthy among the top MaxReplica owners *)
      end
    else match ranked with x :: _ => [label x] | [] => [] end.   (* no member healthy: the top owner *)

  (* members as hash nodes, in a given order *)
  Definition member_nodes (addrs : list N) : list node := map (fun a => mknode a default_weight) addrs.
End Ring.

Arguments locations {key T} ltb score r k.

(* ring.go:122: the key is the digest's shard id; scores are then functions of the 4 hex digits *)
Definition locations_digest {T : Type} (ltb : T -> T -> bool) (score : node -> list N -> T)
  (r : ring) (hex : list N) : res := locations ltb score r (shard_id hex).

(* a history is well formed when every environment response respects the contracts Ring relies
   on: hostlist.List.Resolve never returns an empty set (hostlist/list.go:47-49), a Go set has no
   duplicates, healthcheck.Filter.Run returns a subset of what it was given (C23_subset) *)
Definition step_wf (s : list N * list N) : bool :=
  (match fst s with [] => false | _ => true end) && nodupb (fst s) && nodupb (snd s) && subsetb (snd s) (fst s).
Definition history_wf (first : list N * list N) (steps : list (list N * list N)) : bool :=
  step_wf first && forallb step_wf steps.

(* ---- executed instance and oracle ---- *)
Definition res_eqb (a b : res) : bool :=
  match a, b with
  | Panic, Panic => true
  | Fatal, Fatal => true
  | Locs x, Locs y => (fix eq (x y : list N) : bool :=
                         match x, y with
                         | [], [] => true
                         | a :: x', b :: y' => N.eqb a b && eq x' y'
                         | _, _ => false
                         end) x y
  | _, _ => false
  end.

Definition locations_run (maxr : Z) (first : list N * list N) (steps : list (list N * list N)) (r : row) : res :=
  locations N.ltb tscore (run_ring maxr first steps) r.

Definition last_step (first : list N * list N) (steps : list (list N * list N)) : list N * list N :=
  last steps first.

(* The property evaluated on one observation.  members/healthy = the last environment response
   of the history, maxr = configured MaxReplica, r = the real scores of the pool on this shard.
   The rank order is computed from the members in ascending-address order, i.e. from the SET. *)
Fixpoint insert_asc (a : N) (l : list N) : list N :=
  match l with [] => [a] | b :: t => if N.leb a b then a :: b :: t else b :: insert_asc a t end.
Definition sort_asc (l : list N) : list N := fold_right insert_asc [] l.

Definition C21_check (maxr : Z) (first : list N * list N) (steps : list (list N * list N)) (r : row) (o : res) : bool :=
  if negb (history_wf first steps) then true else
  let '(members, healthy) := last_step first steps in
  let ms := member_nodes (sort_asc members) in
  match o with
  | Locs l =>
      negb (match l with [] => true | _ => false end)                 (* non-empty *)
      && subsetb l members                                            (* drawn from current members *)
      && (match healthy with [] => true | _ => subsetb l healthy end) (* healthy if anyone is *)
      && Nat.leb (length l) (Nat.max 1 (Z.to_nat (apply_defaults maxr)))   (* bounded *)
      && (if tie_freeb N.ltb tscore r ms
          then res_eqb o (Locs (spec_locations (apply_defaults maxr) healthy (ordered N.ltb tscore ms r)))
          else true)                                                  (* exactly the stated set, in rank order *)
  | _ => false
  end.
