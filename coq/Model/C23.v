(* Model of lib/healthcheck: state.go (state), filter.go (filter.Run), monitor.go (Monitor),
   config.go (FilterConfig.applyDefaults).  Executable definitions only; proofs are in Proof/C23.v.

   The model transcribes the code WITH the proposed fix fixes/C23_rejoin.patch (sync prunes
   `all`; the single-host path of Run records membership).  The code as it stands at the pinned
   commit is kept as the mutant definitions sync_prefix / frun_prefix below. *)
From Coq Require Import List NArith ZArith Bool.
From K.Gen Require Import C23_consts.
Import ListNotations.
Local Open Scope Z_scope.

(* ---- configuration (config.go:23-44) *)
Record cfg := mkcfg { fails : Z; passes : Z }.

(* config.go:34-44 applyDefaults: 0 means "use the default" *)
Definition apply_defaults (f p : Z) : cfg :=
  mkcfg (if f =? 0 then default_fails else f) (if p =? 0 then default_passes else p).

(* the settings the property speaks about: positive thresholds *)
Definition valid (c : cfg) : bool := (1 <=? fails c) && (1 <=? passes c).

(* ---- stringset.Set and map[string]int over canonical host ids *)
Definition mem (x : N) (l : list N) : bool := existsb (N.eqb x) l.
Definition add (x : N) (l : list N) : list N := if mem x l then l else x :: l.
Definition del (x : N) (l : list N) : list N := filter (fun y => negb (N.eqb x y)) l.

Fixpoint get (x : N) (m : list (N * Z)) : Z :=          (* missing key reads as 0 *)
  match m with
  | [] => 0
  | (k, v) :: t => if N.eqb x k then v else get x t
  end.
Definition mdel (x : N) (m : list (N * Z)) : list (N * Z) :=
  filter (fun kv => negb (N.eqb x (fst kv))) m.
Definition put (x : N) (v : Z) (m : list (N * Z)) : list (N * Z) := (x, v) :: mdel x m.

(* ---- state.go:28-34 *)
Record st := mk { all : list N; healthy : list N; trend : list (N * Z) }.
Definition init : st := mk [] [] [].                                   (* state.go:36 newState *)

(* state.go:51-56: new entries are added to all and healthy *)
Definition sync_add (s : st) (a : N) : st :=
  if mem a (all s) then s else mk (add a (all s)) (add a (healthy s)) (trend s).

(* state.go:58-64 WITH THE FIX: range over s.all; entries not in addrs leave all, healthy, trend *)
Definition prune1 (addrs : list N) (s : st) (a : N) : st :=
  if mem a addrs then s else mk (del a (all s)) (del a (healthy s)) (mdel a (trend s)).

Definition sync (s : st) (addrs : list N) : st :=                       (* state.go:47 *)
  let s1 := fold_left sync_add addrs s in
  fold_left (prune1 addrs) (all s1) s1.

(* state.go:67-77 *)
Definition failed (c : cfg) (s : st) (a : N) : st :=
  let t := Z.max (Z.min (get a (trend s) - 1) (-1)) (- fails c) in     (* state.go:71 *)
  mk (all s)
     (if (t =? - fails c) && mem a (healthy s) then del a (healthy s) else healthy s)  (* :73-76 *)
     (put a t (trend s)).

(* state.go:80-88 *)
Definition passed (c : cfg) (s : st) (a : N) : st :=
  let t := Z.min (Z.max (get a (trend s) + 1) 1) (passes c) in         (* state.go:84 *)
  mk (all s)
     (if t =? passes c then add a (healthy s) else healthy s)           (* state.go:85-87 *)
     (put a t (trend s)).

(* ---- filter.go:49-74 Run.  One call = the address set with, for every address, whether its
   check passed (checker error or context timeout = false, filter.go:64,80-84).  The list order
   is the order in which the goroutines of filter.go:60-70 entered the state's lock (an oracle;
   Proof/C23.v shows that it does not matter). *)
Definition runop := list (N * bool).
Definition addrs_of (r : runop) : list N := map fst r.

Definition check1 (c : cfg) (s : st) (ab : N * bool) : st :=
  if snd ab then passed c s (fst ab) else failed c s (fst ab).

Definition single (r : runop) : bool := (length r =? 1)%nat.

Definition frun (c : cfg) (s : st) (r : runop) : st * list N :=
  let addrs := addrs_of r in
  if single r
  then (sync s addrs, addrs)                 (* filter.go:50-52 WITH THE FIX: sync, then addrs.Copy() *)
  else
    let s1 := sync s addrs in                (* filter.go:54 *)
    let s2 := fold_left (check1 c) r s1 in   (* filter.go:59-71 *)
    (s2, healthy s2).                        (* filter.go:73 getHealthy *)

Fixpoint run (c : cfg) (s : st) (h : list runop) : st * list (list N) :=
  match h with
  | [] => (s, [])
  | r :: t => let '(s1, o) := frun c s r in
              let '(s2, os) := run c s1 t in (s2, o :: os)
  end.
Definition outs (c : cfg) (h : list runop) : list (list N) := snd (run c init h).

(* monitor.go:33-73: healthy := hosts.Resolve() at construction, then after every interval
   healthy := filter.Run(hosts.Resolve()).  Resolve() snapshots before the first and after each
   iteration: *)
Definition monitor (c : cfg) (initial : list N) (h : list runop) : list (list N) :=
  initial :: outs c h.

(* ---- the code at the pinned commit (mutants; see C23_rejoin_refuted, C23_single_skip_refuted) *)
Definition prune1_prefix (addrs : list N) (s : st) (a : N) : st :=   (* range over s.healthy; all kept *)
  if mem a addrs then s else mk (all s) (del a (healthy s)) (mdel a (trend s)).
Definition sync_prefix (s : st) (addrs : list N) : st :=
  let s1 := fold_left sync_add addrs s in
  fold_left (prune1_prefix addrs) (healthy s1) s1.
Definition frun_gen (sy : st -> list N -> st) (sync_single : bool) (c : cfg) (s : st) (r : runop) : st * list N :=
  let addrs := addrs_of r in
  if single r
  then ((if sync_single then sy s addrs else s), addrs)
  else let s2 := fold_left (check1 c) r (sy s addrs) in (s2, healthy s2).
Fixpoint run_gen (fr : st -> runop -> st * list N) (s : st) (h : list runop) : list (list N) :=
  match h with
  | [] => []
  | r :: t => let '(s1, o) := fr s r in o :: run_gen fr s1 t
  end.
(* pinned commit: neither fix *)
Definition outs_prefix (c : cfg) (h : list runop) := run_gen (frun_gen sync_prefix false c) init h.
(* only `all` pruned, single-host path still skips sync *)
Definition outs_halffix (c : cfg) (h : list runop) := run_gen (frun_gen sync false c) init h.

(* ---- specification: per host, the outcomes since it (re)joined, and the streak rule *)

(* length of the run of b at the head (outcome lists are most recent first) *)
Fixpoint streak (b : bool) (ros : list bool) : Z :=
  match ros with
  | o :: t => if Bool.eqb o b then 1 + streak b t else 0
  | [] => 0
  end.

(* healthy? after the outcomes ros (most recent first): the latest completed streak decides;
   before any streak completed the host is healthy *)
Fixpoint status (c : cfg) (ros : list bool) : bool :=
  match ros with
  | [] => true
  | o :: t =>
      if negb o && (fails c <=? streak false ros) then false
      else if o && (passes c <=? streak true ros) then true
      else status c t
  end.

(* the value the trend counter of state.go holds after the outcomes ros (most recent first):
   the current streak, signed, clamped to [-Fails, Passes] *)
Definition enc (c : cfg) (ros : list bool) : Z :=
  match ros with
  | [] => 0
  | true :: _ => Z.min (streak true ros) (passes c)
  | false :: _ => - Z.min (streak false ros) (fails c)
  end.

(* outcomes of host x, most recent first, since it last (re)joined the list; None = x was not
   in the list of the last call (or there was no call).  A single-host call performs no check. *)
Definition outcomes_of (x : N) (r : runop) : list bool :=
  map snd (filter (fun ab => N.eqb x (fst ab)) r).

Definition tenure_step (x : N) (ten : option (list bool)) (r : runop) : option (list bool) :=
  if mem x (addrs_of r) then
    let old := match ten with Some os => os | None => [] end in
    if single r then Some old else Some (rev (outcomes_of x r) ++ old)
  else None.
Definition tenure (x : N) (h : list runop) : option (list bool) := fold_left (tenure_step x) h None.

Definition healthy_spec (c : cfg) (x : N) (h : list runop) : bool :=
  match tenure x h with Some ros => status c ros | None => false end.

(* what Run must return for the call r after the calls pre *)
Definition spec_out (c : cfg) (pre : list runop) (r : runop) : list N :=
  if single r then addrs_of r
  else filter (fun x => healthy_spec c x (pre ++ [r])) (addrs_of r).

Fixpoint spec_outs_from (c : cfg) (pre h : list runop) : list (list N) :=
  match h with
  | [] => []
  | r :: t => spec_out c pre r :: spec_outs_from c (pre ++ [r]) t
  end.
Definition spec_outs (c : cfg) (h : list runop) : list (list N) := spec_outs_from c [] h.

(* ---- boolean oracles on observed traces *)
Definition set_eqb (a b : list N) : bool :=
  forallb (fun x => mem x b) a && forallb (fun x => mem x a) b.
Fixpoint sets_eqb (a b : list (list N)) : bool :=
  match a, b with
  | [], [] => true
  | x :: a', y :: b' => set_eqb x y && sets_eqb a' b'
  | _, _ => false
  end.

(* The property on one observed trace: raw configuration (f, p) as given to NewFilter, the
   calls, and what Filter.Run returned for each. *)
Definition C23_check (f p : Z) (h : list runop) (obs : list (list N)) : bool :=
  let c := apply_defaults f p in
  if valid c then sets_eqb obs (spec_outs c h) else true.

(* ... and on the Resolve() snapshots of a Monitor driving the same calls *)
Definition C23_check_mon (f p : Z) (initial : list N) (h : list runop) (snaps : list (list N)) : bool :=
  let c := apply_defaults f p in
  if valid c then sets_eqb snaps (initial :: spec_outs c h) else true.
