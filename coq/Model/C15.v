(* Model of lib/torrent/scheduler/dispatch/piecerequest (Manager + the two selection policies).
   Executable definitions only; proofs live in Proof/C15*.v.

   The manager keeps two indexes over the same *Request objects (manager.go:62):
     requests       : piece |-> []*Request          (complete: every live request)
     requestsByPeer : peer  |-> piece |-> *Request   (only the newest request per (peer,piece))
   A pointer is modelled as the request's unique id; the object itself lives in `requests`,
   `byPeer` stores the id and is dereferenced through `requests` (deref).  Go map iteration
   order never influences an observable here (counts, multisets), so maps are association
   lists; the policy's selection (random for the default policy, heap order for rarest-first)
   is an oracle carried by the Reserve op and accepted iff it is a legal selection.

   ClearPeer is modelled AFTER the proposed fix fixes/C15_clearpeer_all.patch (remove every
   request of the peer); the code as it is at the pinned commit (remove only the first request
   of the peer per piece, manager.go:186 `break`) is kept as step_prefix / clearpeer_prefix. *)
From Coq Require Import List NArith ZArith Bool.
Import ListNotations.
Local Open Scope N_scope.

(* manager.go:33-45.  StatusExpired is never stored: it is derived in GetFailedRequests. *)
Inductive status := SPending | SUnsent | SInvalid.

(* manager.go:48-54 plus the pointer identity r_id *)
Record req := mkreq { r_id : N; r_piece : N; r_peer : N; r_sent : N; r_status : status }.

(* NewManager arguments (manager.go:73): timeout, agentPipelineLimit, originPipelineLimit *)
Record cfg := mkcfg { c_timeout : N; c_agent : Z; c_origin : Z }.

Record st := mkst {
  now : N;                               (* mock clock *)
  next : N;                              (* next fresh pointer *)
  requests : list (N * list req);        (* manager.go:62 *)
  byPeer : list (N * list (N * N)) }.    (* manager.go:63 *)

Definition init : st := mkst 0 0 [] [].

Inductive op :=
| Reserve (p : N) (origin : bool) (cands : list N) (endgame : bool) (choice : list N)
| MarkUnsent (p i : N)
| MarkInvalid (p i : N)
| Clear (i : N)
| ClearPeer (p : N)
| Tick (dt : N)
| GetFailed
| Pending (p : N).

(* failed report entries: (piece, peer, status code); codes as in manager.go:33-45 *)
Definition code_expired : N := 1.
Definition code_unsent : N := 2.
Definition code_invalid : N := 3.

Inductive out := OUnit | ORes (legal : bool) | OFailed (l : list (N * N * N)) | OPending (l : list N).

(* ---- association lists (Go maps) *)
Fixpoint aget {V} (k : N) (l : list (N * V)) : option V :=
  match l with
  | [] => None
  | (k', v) :: t => if N.eqb k k' then Some v else aget k t
  end.
Fixpoint aset {V} (k : N) (v : V) (l : list (N * V)) : list (N * V) :=
  match l with
  | [] => [(k, v)]
  | (k', v') :: t => if N.eqb k k' then (k, v) :: t else (k', v') :: aset k v t
  end.
Definition adel {V} (k : N) (l : list (N * V)) : list (N * V) :=
  filter (fun e => negb (N.eqb k (fst e))) l.
Definition aget_list {V} (k : N) (l : list (N * list V)) : list V :=
  match aget k l with Some x => x | None => [] end.

Definition memb (x : N) (l : list N) : bool := existsb (N.eqb x) l.
Fixpoint nodupb (l : list N) : bool :=
  match l with [] => true | x :: t => negb (memb x t) && nodupb t end.

(* ---- request predicates *)
Definition is_pending (r : req) : bool := match r_status r with SPending => true | _ => false end.

(* manager.go:267-270: clock.Now().After(sentAt + timeout) *)
Definition expired (c : cfg) (t : N) (r : req) : bool := r_sent r + c_timeout c <? t.

(* pending and unexpired: the "outstanding" requests of the property *)
Definition pu (c : cfg) (t : N) (r : req) : bool := is_pending r && negb (expired c t r).

Definition set_status (s : status) (r : req) : req :=
  mkreq (r_id r) (r_piece r) (r_peer r) (r_sent r) s.

(* every live request, i.e. the complete index flattened *)
Definition live (s : st) : list req := flat_map snd (requests s).

(* pointer dereference: the object with this id in requests[i] *)
Definition deref (s : st) (i id : N) : option req :=
  find (fun r => N.eqb (r_id r) id) (aget_list i (requests s)).

Definition bp_get (s : st) (p i : N) : option N :=
  match aget p (byPeer s) with Some pm => aget i pm | None => None end.

(* ---- manager.go:228-240 validRequest *)
Definition valid_in (c : cfg) (t : N) (rs : list req) (p : N) (dup : bool) : bool :=
  forallb (fun r => if pu c t r then (if N.eqb (r_peer r) p then false else dup) else true) rs.
Definition valid (c : cfg) (s : st) (p i : N) (dup : bool) : bool :=
  valid_in c (now s) (aget_list i (requests s)) p dup.

(* ---- manager.go:242-265 requestQuota, including the `quota--; if quota == 0 break` *)
Definition limit_of (c : cfg) (origin : bool) : Z := if origin then c_origin c else c_agent c.

Fixpoint quota_loop (c : cfg) (s : st) (pm : list (N * N)) (q : Z) : Z :=
  match pm with
  | [] => q
  | (i, id) :: t =>
      match deref s i id with
      | Some r => if pu c (now s) r
                  then (if Z.eqb (q - 1) 0 then 0%Z else quota_loop c s t (q - 1)%Z)
                  else quota_loop c s t q
      | None => quota_loop c s t q
      end
  end.
Definition quota (c : cfg) (s : st) (p : N) (origin : bool) : Z :=
  match aget p (byPeer s) with
  | None => limit_of c origin
  | Some pm => quota_loop c s pm (limit_of c origin)
  end.

(* ---- what every policy guarantees about its selection (manager.go:116-125 + policies):
   nothing when the quota is not positive (ReservePieces returns before calling the policy),
   otherwise at most `quota` distinct valid candidates. *)
Definition legal_sel (q : Z) (validf : N -> bool) (cands choice : list N) : bool :=
  if Z.leb q 0 then (match choice with [] => true | _ => false end)
  else Z.leb (Z.of_nat (length choice)) q && nodupb choice
       && forallb (fun i => memb i cands && validf i) choice.

Definition legal (c : cfg) (s : st) (p : N) (origin : bool) (cands : list N) (dup : bool) (choice : list N) : bool :=
  legal_sel (quota c s p origin) (fun i => valid c s p i dup) cands choice.

(* ---- manager.go:127-141: register one selected piece in both indexes *)
Definition add_req (p : N) (s : st) (i : N) : st :=
  let r := mkreq (next s) i p (now s) SPending in
  mkst (now s) (N.succ (next s))
       (aset i (aget_list i (requests s) ++ [r]) (requests s))
       (aset p (aset i (next s) (aget_list p (byPeer s))) (byPeer s)).
Definition reserve_all (p : N) (s : st) (choice : list N) : st := fold_left (add_req p) choice s.

(* ---- manager.go:272-282 markStatus: every request of p in requests[i] *)
Definition mark_list (p : N) (x : status) (rs : list req) : list req :=
  map (fun r => if N.eqb (r_peer r) p then set_status x r else r) rs.
Definition mark (s : st) (p i : N) (x : status) : st :=
  match aget i (requests s) with
  | None => s
  | Some rs => mkst (now s) (next s) (aset i (mark_list p x rs) (requests s)) (byPeer s)
  end.

(* ---- manager.go:157-169 Clear *)
Definition is_nil {A} (l : list A) : bool := match l with [] => true | _ => false end.
Definition clear (s : st) (i : N) : st :=
  mkst (now s) (next s) (adel i (requests s))
       (filter (fun e => negb (is_nil (snd e))) (map (fun e => (fst e, adel i (snd e))) (byPeer s))).

(* ---- ClearPeer with the fix: every request of p is ejected from every piece's list *)
Definition not_peer (p : N) (r : req) : bool := negb (N.eqb (r_peer r) p).
Definition clearpeer (s : st) (p : N) : st :=
  mkst (now s) (next s)
       (map (fun e => (fst e, filter (not_peer p) (snd e))) (requests s))
       (adel p (byPeer s)).

(* ---- ClearPeer at the pinned commit (manager.go:186-203): for each piece, the first request
   of p is overwritten by the last element, the slice is truncated, and the loop `break`s *)
Fixpoint eject_first (p : N) (rs : list req) : list req :=
  match rs with
  | [] => []
  | r :: t => if N.eqb (r_peer r) p
              then (match t with [] => [] | _ => last t r :: removelast t end)
              else r :: eject_first p t
  end.
Definition clearpeer_prefix (s : st) (p : N) : st :=
  mkst (now s) (next s)
       (map (fun e => (fst e, eject_first p (snd e))) (requests s))
       (adel p (byPeer s)).

(* ---- manager.go:205-226 GetFailedRequests *)
Definition failed_entry (c : cfg) (t : N) (r : req) : option (N * N * N) :=
  match r_status r with
  | SPending => if expired c t r then Some (r_piece r, r_peer r, code_expired) else None
  | SUnsent => Some (r_piece r, r_peer r, code_unsent)
  | SInvalid => Some (r_piece r, r_peer r, code_invalid)
  end.
Fixpoint failed_of (c : cfg) (t : N) (rs : list req) : list (N * N * N) :=
  match rs with
  | [] => []
  | r :: tl => match failed_entry c t r with
               | Some e => e :: failed_of c t tl
               | None => failed_of c t tl
               end
  end.
Definition get_failed (c : cfg) (s : st) : list (N * N * N) :=
  flat_map (fun e => failed_of c (now s) (snd e)) (requests s).

(* ---- manager.go:171-184 PendingPieces: Status == Pending through the by-peer index
   (expiry is not consulted); the result is compared as a set, so sort.Ints is not modelled *)
Fixpoint pending_loop (s : st) (pm : list (N * N)) : list N :=
  match pm with
  | [] => []
  | (i, id) :: t => match deref s i id with
                    | Some r => if is_pending r then i :: pending_loop s t else pending_loop s t
                    | None => pending_loop s t
                    end
  end.
Definition pending_pieces (s : st) (p : N) : list N := pending_loop s (aget_list p (byPeer s)).

(* ---- one API call.  `cp` is the ClearPeer implementation (fixed or pinned). *)
Definition step_with (cp : st -> N -> st) (c : cfg) (s : st) (o : op) : st * out :=
  match o with
  | Reserve p origin cands dup choice =>
      if legal c s p origin cands dup choice
      then (reserve_all p s choice, ORes true)
      else (s, ORes false)
  | MarkUnsent p i => (mark s p i SUnsent, OUnit)
  | MarkInvalid p i => (mark s p i SInvalid, OUnit)
  | Clear i => (clear s i, OUnit)
  | ClearPeer p => (cp s p, OUnit)
  | Tick dt => (mkst (now s + dt) (next s) (requests s) (byPeer s), OUnit)
  | GetFailed => (s, OFailed (get_failed c s))
  | Pending p => (s, OPending (pending_pieces s p))
  end.
Definition step := step_with clearpeer.
Definition step_prefix := step_with clearpeer_prefix.

Fixpoint run_with (stp : st -> op -> st * out) (s : st) (ops : list op) : st * list out :=
  match ops with
  | [] => (s, [])
  | o :: t => let '(s1, r) := stp s o in
              let '(s2, rs) := run_with stp s1 t in (s2, r :: rs)
  end.
Definition run (c : cfg) := run_with (step c).
Definition run_prefix (c : cfg) := run_with (step_prefix c).

(* ================= Specification: one flat log of requests =================
   A request exists from the Reserve that created it until its piece is cleared or its peer
   is removed; MarkUnsent/MarkInvalid (p,i) label the requests of p for i.  No indexes. *)
Record sst := mksst { snow : N; snext : N; sreqs : list req }.
Definition sinit : sst := mksst 0 0 [].

Definition count_pu_peer (c : cfg) (t : N) (p : N) (l : list req) : nat :=
  length (filter (fun r => N.eqb (r_peer r) p && pu c t r) l).
Definition count_pu_piece (c : cfg) (t : N) (i : N) (l : list req) : nat :=
  length (filter (fun r => N.eqb (r_piece r) i && pu c t r) l).

Definition squota (c : cfg) (s : sst) (p : N) (origin : bool) : Z :=
  (limit_of c origin - Z.of_nat (count_pu_peer c (snow s) p (sreqs s)))%Z.
Definition svalid (c : cfg) (s : sst) (p i : N) (dup : bool) : bool :=
  valid_in c (snow s) (filter (fun r => N.eqb (r_piece r) i) (sreqs s)) p dup.
Definition slegal (c : cfg) (s : sst) (p : N) (origin : bool) (cands : list N) (dup : bool) (choice : list N) : bool :=
  legal_sel (squota c s p origin) (fun i => svalid c s p i dup) cands choice.

Definition sadd (p : N) (s : sst) (i : N) : sst :=
  mksst (snow s) (N.succ (snext s)) (sreqs s ++ [mkreq (snext s) i p (snow s) SPending]).
Definition smark (s : sst) (p i : N) (x : status) : sst :=
  mksst (snow s) (snext s)
        (map (fun r => if N.eqb (r_piece r) i && N.eqb (r_peer r) p then set_status x r else r) (sreqs s)).

(* pieces of p with a request whose status is Pending, each once *)
Fixpoint dedup (l : list N) : list N :=
  match l with [] => [] | x :: t => if memb x t then dedup t else x :: dedup t end.
Definition spending (s : sst) (p : N) : list N :=
  dedup (map r_piece (filter (fun r => N.eqb (r_peer r) p && is_pending r) (sreqs s))).

Definition sstep (c : cfg) (s : sst) (o : op) : sst * out :=
  match o with
  | Reserve p origin cands dup choice =>
      if slegal c s p origin cands dup choice
      then (fold_left (sadd p) choice s, ORes true)
      else (s, ORes false)
  | MarkUnsent p i => (smark s p i SUnsent, OUnit)
  | MarkInvalid p i => (smark s p i SInvalid, OUnit)
  | Clear i => (mksst (snow s) (snext s) (filter (fun r => negb (N.eqb (r_piece r) i)) (sreqs s)), OUnit)
  | ClearPeer p => (mksst (snow s) (snext s) (filter (not_peer p) (sreqs s)), OUnit)
  | Tick dt => (mksst (snow s + dt) (snext s) (sreqs s), OUnit)
  | GetFailed => (s, OFailed (failed_of c (snow s) (sreqs s)))
  | Pending p => (s, OPending (spending s p))
  end.
Fixpoint srun (c : cfg) (s : sst) (ops : list op) : sst * list out :=
  match ops with
  | [] => (s, [])
  | o :: t => let '(s1, r) := sstep c s o in
              let '(s2, rs) := srun c s1 t in (s2, r :: rs)
  end.

(* ================= boolean oracles on observed traces ================= *)
Definition t3_eqb (a b : N * N * N) : bool :=
  let '(a1, a2, a3) := a in let '(b1, b2, b3) := b in N.eqb a1 b1 && N.eqb a2 b2 && N.eqb a3 b3.
Definition count3 (x : N * N * N) (l : list (N * N * N)) : nat := length (filter (t3_eqb x) l).
(* multiset equality: report order depends on Go map iteration and is not compared *)
Definition mset3_eqb (a b : list (N * N * N)) : bool :=
  forallb (fun x => Nat.eqb (count3 x a) (count3 x b)) (a ++ b).
Definition countN (x : N) (l : list N) : nat := length (filter (N.eqb x) l).
Definition msetN_eqb (a b : list N) : bool :=
  forallb (fun x => Nat.eqb (countN x a) (countN x b)) (a ++ b).

Definition out_eqb (a b : out) : bool :=
  match a, b with
  | OUnit, OUnit => true
  | ORes x, ORes y => Bool.eqb x y
  | OFailed x, OFailed y => mset3_eqb x y
  | OPending x, OPending y => msetN_eqb x y
  | _, _ => false
  end.
Fixpoint outs_eqb (a b : list out) : bool :=
  match a, b with
  | [], [] => true
  | x :: a', y :: b' => out_eqb x y && outs_eqb a' b'
  | _, _ => false
  end.

(* The property on one observed trace (spec-based, independent of the two-index model):
   every selection the implementation made respects the pipeline limit and the no-duplicate
   rule as judged on the flat log (ORes true), and every failed / pending report is exactly
   what the flat log says. *)
Definition C15_check (c : cfg) (ops : list op) (obs : list out) : bool :=
  outs_eqb (snd (srun c sinit ops)) obs.

(* ================= the two selection policies =================
   default_policy.go:36-63, reservoir sampling; `rnd` are the values rand.Intn returned. *)
Fixpoint replace_nth (n : nat) (x : N) (l : list N) : list N :=
  match l, n with
  | [], _ => []
  | _ :: t, O => x :: t
  | y :: t, S n' => y :: replace_nth n' x t
  end.
Fixpoint default_loop (limit : nat) (validf : N -> bool) (cands : list N) (rnd : list nat) (pieces : list N) : list N :=
  match cands with
  | [] => pieces
  | i :: t =>
      if validf i then
        if Nat.ltb (length pieces) limit then default_loop limit validf t rnd (pieces ++ [i])
        else match rnd with
             | [] => default_loop limit validf t [] pieces          (* no randomness left: keep *)
             | j :: rnd' => default_loop limit validf t rnd'
                              (if Nat.ltb j limit then replace_nth j i pieces else pieces)
             end
      else default_loop limit validf t rnd pieces
  end.
Definition default_select (limit : nat) (validf : N -> bool) (cands : list N) (rnd : list nat) : list N :=
  match limit with O => [] | _ => default_loop limit validf cands rnd [] end.

(* rarest_first_policy.go:35-63: candidates are popped from the priority queue in some order
   `order` (a permutation of the candidates, by ascending numPeersByPiece; ties are broken by
   container/heap) until `limit` valid ones are found. *)
Fixpoint rarest_loop (limit : nat) (validf : N -> bool) (order : list N) (pieces : list N) : list N :=
  match order with
  | [] => pieces
  | i :: t => if Nat.ltb (length pieces) limit
              then rarest_loop limit validf t (if validf i then pieces ++ [i] else pieces)
              else pieces
  end.
Definition rarest_select (limit : nat) (validf : N -> bool) (order : list N) : list N :=
  rarest_loop limit validf order [].
