(* C12 — in-memory blob buffers behave like ordinary files.
   Executable definitions only; proofs live in Proof/C12.v.

   Models (line-anchored to /repo):
     BufRW   lib/store/base/buffer_readwriter.go  (+ aws.WriteAtBuffer.WriteAt, aws/types.go:182-200)
     MemFile lib/store/memory/file.go             (+ resizeSliceIfNecessary, file.go:149-161)
     BufRd   lib/store/utils.go:45-56             (bufferFileReader = bytes.Reader, read-only)
   Specification:
     PosixFile  an operating-system file: data + file position, pwrite extends with zero fill,
                a zero-length write changes nothing, reads are short at end of file.

   The models describe the code WITH the proposed fix fixes/C12_zero_len_write.patch
   (zero-length writes are no-ops); `false` for the flag `fx` gives the code before the fix. *)
From Coq Require Import List NArith ZArith Bool.
Import ListNotations.

(* ---------- operations and observables ---------- *)
Inductive whence := SeekStart | SeekCurrent | SeekEnd | SeekBad.   (* io.SeekStart/Current/End, anything else *)

Inductive op :=
| Write (p : list N)                 (* Write(p) *)
| WriteAt (p : list N) (off : Z)     (* WriteAt(p, off) *)
| Read (n : N)                       (* Read(make([]byte, n)) *)
| ReadAt (n : N) (off : Z)           (* ReadAt(make([]byte, n), off) *)
| Seek (off : Z) (w : whence)        (* Seek(off, w) *)
| Size.                              (* Size() / Stat().Size() *)

(* what one call returns, plus the position and size right after it
   (observed by the driver with Seek(0, SeekCurrent) and Size()) *)
Record out := mko {
  o_ret : Z;            (* byte count of a read/write, new offset of a Seek, size of Size *)
  o_bytes : list N;     (* bytes delivered by a read (p[:n]) *)
  o_off : Z;            (* position after the call *)
  o_size : Z            (* size after the call *)
}.

Definition zlen {A} (l : list A) : Z := Z.of_nat (length l).
Definition zeros (n : nat) : list N := repeat 0%N n.

Definition seek_target (size pos off : Z) (w : whence) : option Z :=
  match w with
  | SeekStart => Some off
  | SeekCurrent => Some (pos + off)%Z
  | SeekEnd => Some (size + off)%Z
  | SeekBad => None
  end.

(* ---------- specification: an operating-system file ---------- *)
Record pst := mkp { f_data : list N; f_pos : Z }.

(* pwrite(2): bytes land at off; a gap between the old end and off reads as zeros;
   a zero-length write does nothing *)
Definition pwrite (d p : list N) (off : nat) : list N :=
  match p with
  | [] => d
  | _ => firstn off (d ++ zeros (off - length d)) ++ p ++ skipn (off + length p) d
  end.

(* pread(2): up to n bytes from off, fewer at end of file *)
Definition pread (d : list N) (n off : nat) : list N := firstn n (skipn off d).

Definition pstep (s : pst) (o : op) : pst * out :=
  let d := f_data s in let pos := f_pos s in
  match o with
  | Write p =>
      let d' := pwrite d p (Z.to_nat pos) in
      let pos' := (pos + zlen p)%Z in
      (mkp d' pos', mko (zlen p) [] pos' (zlen d'))
  | WriteAt p off =>
      if (off <? 0)%Z then (s, mko 0 [] pos (zlen d))
      else let d' := pwrite d p (Z.to_nat off) in
           (mkp d' pos, mko (zlen p) [] pos (zlen d'))
  | Read n =>
      let bs := pread d (N.to_nat n) (Z.to_nat pos) in
      let pos' := (pos + zlen bs)%Z in
      (mkp d pos', mko (zlen bs) bs pos' (zlen d))
  | ReadAt n off =>
      if (off <? 0)%Z then (s, mko 0 [] pos (zlen d))
      else let bs := pread d (N.to_nat n) (Z.to_nat off) in
           (s, mko (zlen bs) bs pos (zlen d))
  | Seek off w =>
      match seek_target (zlen d) pos off w with
      | Some t => if (t <? 0)%Z then (s, mko 0 [] pos (zlen d))       (* EINVAL, (0, err) *)
                  else (mkp d t, mko t [] t (zlen d))
      | None => (s, mko 0 [] pos (zlen d))
      end
  | Size => (s, mko (zlen d) [] pos (zlen d))
  end.

Fixpoint prun (s : pst) (ops : list op) : pst * list out :=
  match ops with
  | [] => (s, [])
  | o :: t => let '(s1, r) := pstep s o in
              let '(s2, rs) := prun s1 t in (s2, r :: rs)
  end.

Definition pinit (d : list N) : pst := mkp d 0.

(* "seeks within the written extent": every Seek has a valid whence and lands in [0, size] *)
Definition op_in_extent (s : pst) (o : op) : bool :=
  match o with
  | Seek off w =>
      match seek_target (zlen (f_data s)) (f_pos s) off w with
      | Some t => (0 <=? t)%Z && (t <=? zlen (f_data s))%Z
      | None => false
      end
  | _ => true
  end.

Fixpoint in_extent_from (s : pst) (ops : list op) : bool :=
  match ops with
  | [] => true
  | o :: t => op_in_extent s o && in_extent_from (fst (pstep s o)) t
  end.
Definition in_extent (ops : list op) : bool := in_extent_from (pinit []) ops.

(* length of the longest prefix whose seeks are within the extent *)
Fixpoint scope_from (s : pst) (ops : list op) : nat :=
  match ops with
  | [] => 0
  | o :: t => if op_in_extent s o then S (scope_from (fst (pstep s o)) t) else 0
  end.

(* read-only histories (for the reader of utils.go) *)
Definition is_read_op (o : op) : bool :=
  match o with Write _ | WriteAt _ _ => false | _ => true end.
Definition readonly (ops : list op) : bool := forallb is_read_op ops.

(* histories without zero-length writes (where the code before the fix already behaves like a file) *)
Definition is_nonempty_write (o : op) : bool :=
  match o with Write [] | WriteAt [] _ => false | _ => true end.
Definition nonempty_writes (ops : list op) : bool := forallb is_nonempty_write ops.

(* ---------- Go slices ---------- *)
(* a []byte value: backing array (length = cap) and len; the visible bytes are arr[:len] *)
Record slice := mks { arr : list N; len : nat }.
Definition bytes_of (s : slice) : list N := firstn (len s) (arr s).
Definition cap_of (s : slice) : nat := length (arr s).
Definition make_slice (l c : nat) : slice := mks (zeros c) l.     (* make([]byte, l, c) *)

(* the growth shared by aws.WriteAtBuffer.WriteAt (types.go:187-197, GrowthCoeff = 1) and
   resizeSliceIfNecessary (file.go:149-161):
     if len(buf) < e { if cap(buf) < e { nb := make([]byte, e); copy(nb, buf); buf = nb }; buf = buf[:e] } *)
Definition grow (s : slice) (e : nat) : slice :=
  if (len s <? e)%nat then
    let a := if (cap_of s <? e)%nat
             then firstn (len s) (arr s) ++ zeros (e - len s)     (* make + copy of len(buf) bytes *)
             else arr s in
    mks a e                                                        (* buf[:e] re-slice *)
  else s.

(* n = copy(buf[pos:], p): copies min(len(buf)-pos, len(p)) bytes *)
Definition copy_at (s : slice) (pos : nat) (p : list N) : slice * nat :=
  let c := firstn (len s - pos) p in
  (mks (firstn pos (arr s) ++ c ++ skipn (pos + length c) (arr s)) (len s), length c).

(* n = copy(p, src) with len(p) = n : delivers firstn n src *)
Definition copy_out (src : list N) (n : nat) : list N := firstn n src.

(* ---------- BufferReadWriter (buffer_readwriter.go) ---------- *)
Record bst := mkb { b_buf : slice; b_off : Z }.

Definition binit (cap : nat) : bst := mkb (make_slice 0 cap) 0.          (* :33-44 *)

(* aws.WriteAtBuffer.WriteAt, types.go:182-200; returns pLen *)
Definition aws_write_at (s : slice) (p : list N) (pos : nat) : slice * Z :=
  let s1 := grow s (pos + length p) in
  (fst (copy_at s1 pos p), zlen p).

Definition bout (s : bst) (ret : Z) (bs : list N) : out :=
  mko ret bs (b_off s) (Z.of_nat (len (b_buf s))).

Definition bstep (fx : bool) (s : bst) (o : op) : bst * out :=
  let buf := b_buf s in let off := b_off s in
  match o with
  | Write p =>                                                           (* :47-51 *)
      if fx && (length p =? 0)%nat then (s, bout s 0 [])                 (* fix *)
      else let '(buf', n) := aws_write_at buf p (Z.to_nat off) in
           let s' := mkb buf' (off + n) in (s', bout s' n [])
  | WriteAt p o =>                                                       (* :54-59 *)
      if (o <? 0)%Z then (s, bout s 0 [])
      else if fx && (length p =? 0)%nat then (s, bout s 0 [])            (* fix *)
      else let '(buf', n) := aws_write_at buf p (Z.to_nat o) in
           let s' := mkb buf' off in (s', bout s' n [])
  | Read n =>                                                            (* :62-73 *)
      if (off >=? Z.of_nat (len buf))%Z then (s, bout s 0 [])
      else let bs := copy_out (skipn (Z.to_nat off) (bytes_of buf)) (N.to_nat n) in
           let s' := mkb buf (off + zlen bs) in (s', bout s' (zlen bs) bs)
  | ReadAt n o =>                                                        (* :76-89 *)
      if (o <? 0)%Z then (s, bout s 0 [])
      else if (o >=? Z.of_nat (len buf))%Z then (s, bout s 0 [])
      else let bs := copy_out (skipn (Z.to_nat o) (bytes_of buf)) (N.to_nat n) in
           (s, bout s (zlen bs) bs)
  | Seek o w =>                                                          (* :92-113 *)
      match seek_target (Z.of_nat (len buf)) off o w with
      | None => (s, bout s 0 [])
      | Some t => if (t <? 0)%Z then (s, bout s 0 [])
                  else let s' := mkb buf t in (s', bout s' t [])
      end
  | Size => (s, bout s (Z.of_nat (len buf)) [])                          (* :121 *)
  end.

Fixpoint brun (fx : bool) (s : bst) (ops : list op) : bst * list out :=
  match ops with
  | [] => (s, [])
  | o :: t => let '(s1, r) := bstep fx s o in
              let '(s2, rs) := brun fx s1 t in (s2, r :: rs)
  end.

(* ---------- memory.File (memory/file.go), one handle, blob not evicted ---------- *)
Record mst := mkm { m_buf : slice; m_off : Z }.

Definition minit (cap : nat) : mst := mkm (make_slice 0 cap) 0.   (* store.go:84 make([]byte,0,size); file.go:21 *)

Definition mout (s : mst) (ret : Z) (bs : list N) : out :=
  mko ret bs (m_off s) (Z.of_nat (len (m_buf s))).

(* the body shared by Write (:164-182) and WriteAt (:127-147):
   end := int(off)+len(p); buf, resized := resizeSliceIfNecessary(buf, end); n = copy(buf[off:], p) *)
Definition mem_write_at (s : slice) (p : list N) (pos : nat) : slice * Z :=
  let s1 := grow s (pos + length p) in
  let '(s2, n) := copy_at s1 pos p in (s2, Z.of_nat n).

Definition mstep (fx : bool) (s : mst) (o : op) : mst * out :=
  let buf := m_buf s in let off := m_off s in
  match o with
  | Write p =>                                                           (* :164-182 *)
      let '(buf', n) := mem_write_at buf p (Z.to_nat off) in
      let s' := mkm buf' (off + n) in (s', mout s' n [])
  | WriteAt p o =>                                                       (* :127-147 *)
      if (o <? 0)%Z then (s, mout s 0 [])
      else if fx && (length p =? 0)%nat then (s, mout s 0 [])            (* fix *)
      else let '(buf', n) := mem_write_at buf p (Z.to_nat o) in
           let s' := mkm buf' off in (s', mout s' n [])
  | Read n =>                                                            (* :37-55 *)
      if (n =? 0)%N then (s, mout s 0 [])
      else if (off >=? Z.of_nat (len buf))%Z then (s, mout s 0 [])
      else let bs := copy_out (skipn (Z.to_nat off) (bytes_of buf)) (N.to_nat n) in
           let s' := mkm buf (off + zlen bs) in (s', mout s' (zlen bs) bs)
  | ReadAt n o =>                                                        (* :58-82 *)
      if (n =? 0)%N then (s, mout s 0 [])
      else if (o <? 0)%Z then (s, mout s 0 [])
      else if (o >=? Z.of_nat (len buf))%Z then (s, mout s 0 [])
      else let bs := copy_out (skipn (Z.to_nat o) (bytes_of buf)) (N.to_nat n) in
           (s, mout s (zlen bs) bs)
  | Seek o w =>                                                          (* :85-111 *)
      match seek_target (Z.of_nat (len buf)) off o w with
      | None => (s, mout s 0 [])
      | Some t => if (t <? 0)%Z || (t >? Z.of_nat (len buf))%Z then (s, mout s 0 [])
                  else let s' := mkm buf t in (s', mout s' t [])
      end
  | Size => (s, mout s (Z.of_nat (len buf)) [])                          (* :115-124 *)
  end.

Fixpoint mrun (fx : bool) (s : mst) (ops : list op) : mst * list out :=
  match ops with
  | [] => (s, [])
  | o :: t => let '(s1, r) := mstep fx s o in
              let '(s2, rs) := mrun fx s1 t in (s2, r :: rs)
  end.

(* ---------- bufferFileReader (utils.go:45-56) = bytes.Reader over a fixed byte string ---------- *)
Record rst := mkr { r_s : list N; r_i : Z }.
Definition rinit (d : list N) : rst := mkr d 0.
Definition rout (s : rst) (ret : Z) (bs : list N) : out := mko ret bs (r_i s) (zlen (r_s s)).

Definition rstep (s : rst) (o : op) : rst * out :=
  let d := r_s s in let i := r_i s in
  match o with
  | Write _ | WriteAt _ _ => (s, rout s 0 [])          (* not part of FileReader; excluded by `readonly` *)
  | Read n =>                                          (* bytes.Reader.Read *)
      if (i >=? zlen d)%Z then (s, rout s 0 [])
      else let bs := copy_out (skipn (Z.to_nat i) d) (N.to_nat n) in
           let s' := mkr d (i + zlen bs) in (s', rout s' (zlen bs) bs)
  | ReadAt n o =>                                      (* bytes.Reader.ReadAt *)
      if (o <? 0)%Z then (s, rout s 0 [])
      else if (o >=? zlen d)%Z then (s, rout s 0 [])
      else let bs := copy_out (skipn (Z.to_nat o) d) (N.to_nat n) in (s, rout s (zlen bs) bs)
  | Seek o w =>                                        (* bytes.Reader.Seek *)
      match seek_target (zlen d) i o w with
      | None => (s, rout s 0 [])
      | Some t => if (t <? 0)%Z then (s, rout s 0 [])
                  else let s' := mkr d t in (s', rout s' t [])
      end
  | Size => (s, rout s (zlen d) [])                    (* bytes.Reader.Size *)
  end.

Fixpoint rrun (s : rst) (ops : list op) : rst * list out :=
  match ops with
  | [] => (s, [])
  | o :: t => let '(s1, r) := rstep s o in
              let '(s2, rs) := rrun s1 t in (s2, r :: rs)
  end.

(* ---------- boolean comparison of observables ---------- *)
Fixpoint bytes_eqb (a b : list N) : bool :=
  match a, b with
  | [], [] => true
  | x :: a', y :: b' => N.eqb x y && bytes_eqb a' b'
  | _, _ => false
  end.
Definition out_eqb (a b : out) : bool :=
  Z.eqb (o_ret a) (o_ret b) && bytes_eqb (o_bytes a) (o_bytes b) &&
  Z.eqb (o_off a) (o_off b) && Z.eqb (o_size a) (o_size b).
Fixpoint outs_eqb (a b : list out) : bool :=
  match a, b with
  | [], [] => true
  | x :: a', y :: b' => out_eqb x y && outs_eqb a' b'
  | _, _ => false
  end.

(* ---------- the property on one observed trace ----------
   ops were applied to an in-memory buffer (observations `mem`) and to an operating-system file
   holding `init` at the start (observations `osf`).  Within the prefix whose seeks stay inside
   the written extent the two observation lists must coincide.  The prefix length is determined
   from the file specification. *)
Definition C12_check (init : list N) (ops : list op) (mem osf : list out) : bool :=
  let k := scope_from (pinit init) ops in
  outs_eqb (firstn k mem) (firstn k osf).

(* ---------- two handles on one blob ----------
   memory.Store.Create (store.go:67-91) and memory.Store.Open (store.go:123-139) both return
   newFile(b.data, &b.sliceMu): the handles share the slice through the pointer `data` and keep
   their own offsets.  The operating-system counterpart is one file opened twice. *)
Record mst2 := mkm2 { m2_buf : slice; m2_off0 : Z; m2_off1 : Z }.
Definition minit2 (cap : nat) : mst2 := mkm2 (make_slice 0 cap) 0 0.

Definition mstep2 (fx : bool) (s : mst2) (ho : bool * op) : mst2 * out :=
  let '(h, o) := ho in
  let '(m', r) := mstep fx (mkm (m2_buf s) (if h then m2_off1 s else m2_off0 s)) o in
  (if h then mkm2 (m_buf m') (m2_off0 s) (m_off m') else mkm2 (m_buf m') (m_off m') (m2_off1 s), r).

Fixpoint mrun2 (fx : bool) (s : mst2) (ops : list (bool * op)) : mst2 * list out :=
  match ops with
  | [] => (s, [])
  | o :: t => let '(s1, r) := mstep2 fx s o in
              let '(s2, rs) := mrun2 fx s1 t in (s2, r :: rs)
  end.

Record pst2 := mkp2 { f2_data : list N; f2_pos0 : Z; f2_pos1 : Z }.
Definition pinit2 : pst2 := mkp2 [] 0 0.

Definition pstep2 (s : pst2) (ho : bool * op) : pst2 * out :=
  let '(h, o) := ho in
  let '(p', r) := pstep (mkp (f2_data s) (if h then f2_pos1 s else f2_pos0 s)) o in
  (if h then mkp2 (f_data p') (f2_pos0 s) (f_pos p') else mkp2 (f_data p') (f_pos p') (f2_pos1 s), r).

Fixpoint prun2 (s : pst2) (ops : list (bool * op)) : pst2 * list out :=
  match ops with
  | [] => (s, [])
  | o :: t => let '(s1, r) := pstep2 s o in
              let '(s2, rs) := prun2 s1 t in (s2, r :: rs)
  end.

Definition op_in_extent2 (s : pst2) (ho : bool * op) : bool :=
  op_in_extent (mkp (f2_data s) (if fst ho then f2_pos1 s else f2_pos0 s)) (snd ho).

Fixpoint in_extent2_from (s : pst2) (ops : list (bool * op)) : bool :=
  match ops with
  | [] => true
  | o :: t => op_in_extent2 s o && in_extent2_from (fst (pstep2 s o)) t
  end.
Definition in_extent2 (ops : list (bool * op)) : bool := in_extent2_from pinit2 ops.

Fixpoint scope2_from (s : pst2) (ops : list (bool * op)) : nat :=
  match ops with
  | [] => 0
  | o :: t => if op_in_extent2 s o then S (scope2_from (fst (pstep2 s o)) t) else 0
  end.

Definition C12_check2 (ops : list (bool * op)) (mem osf : list out) : bool :=
  let k := scope2_from pinit2 ops in
  outs_eqb (firstn k mem) (firstn k osf).
