(* C05 — model of the origin / proxy blob cache (lib/store/ca_store.go, upload_store.go,
   cache_store.go, base/file_entry.go, base/file_op.go, base/file_map.go, lib/metainfogen/generator.go,
   origin/blobserver/server.go + uploader.go) at the level of the mutating file-system calls these
   make, typed by the store's directory layout (DESIGN §3 "Crashes").  Executable definitions only;
   proofs live in Proof/C05*.v.

   Layout:  <upload>/<uid>/{data,_last_access_time}                       (localFileEntryFactory)
            <cache>/<s1>/<s2>/<digest>/{data,_last_access_time,_persist,_torrentmeta}   (casFileEntryFactory)

   An operation is a list of BLOCKS (each block reads the disk and emits the calls of one code
   fragment: compareAndWriteFile, MkdirAll, os.Create+Truncate, rename, RemoveAll).  A crash after the
   k-th completed mutating call leaves [exec (firstn k calls) disk]; [recover] is the model of a
   restart (NewCAStore: the upload directory is wiped, in-memory state is lost).

   The model is of the FIXED read path (fixes/C05_corrupt_torrentmeta.patch): a `_torrentmeta`
   sidecar that exists but does not decode (crash between its creation and its write) is reported as
   absent, so the existing on-demand paths regenerate it.  The pre-fix read is kept as [md_old]
   (refuted in Properties/C05.v). *)
From Coq Require Import List NArith Bool.
Import ListNotations.
Local Open Scope N_scope.

Definition bytes := list N.

(* ---------------------------------------------------------------- small helpers *)
Definition upd {V} (f : N -> V) (k : N) (v : V) : N -> V := fun y => if y =? k then v else f y.
Definition isSome {A} (o : option A) : bool := match o with Some _ => true | None => false end.
Definition memb (k : N) (l : list N) : bool := existsb (N.eqb k) l.
Definition addk (k : N) (l : list N) : list N := if memb k l then l else k :: l.
Definition delk (k : N) (l : list N) : list N := filter (fun y => negb (y =? k)) l.
Fixpoint nlist_eqb (a b : list N) : bool :=
  match a, b with
  | [], [] => true
  | x :: a', y :: b' => (x =? y) && nlist_eqb a' b'
  | _, _ => false
  end.
Definition len (b : bytes) : N := N.of_nat (length b).
Definition nrange (n : N) : list N := map N.of_nat (seq 0 (N.to_nat n)).

(* file contents: write(2)/pwrite(2) at an absolute offset (holes are zero-filled); ftruncate(2) *)
Definition write_at (c : bytes) (off : N) (data : bytes) : bytes :=
  let o := N.to_nat off in
  firstn o c ++ repeat 0 (o - length c)%nat ++ data ++ skipn (o + length data)%nat c.
Definition resize (c : bytes) (n : N) : bytes :=
  let m := N.to_nat n in firstn m c ++ repeat 0 (m - length c)%nat.

(* ---------------------------------------------------------------- environment
   SHA-256, the metainfo serialiser / decoder and the configuration are parameters: the theorems hold
   for every environment satisfying [env_ok] (Proof/C05.v); the harness instantiates them with tables
   of what the real functions returned on the case's values. *)
Record env := mkenv {
  eH : bytes -> N;                    (* core.Digester: content -> digest (names are digests) *)
  eser : N -> bytes -> N -> bytes;    (* name, blob, piece length -> TorrentMeta.Serialize of core.NewMetaInfo *)
  edec : bytes -> bool;               (* TorrentMeta.Deserialize succeeds *)
  evalid : N -> bytes -> bytes -> bool;  (* name, blob, sidecar bytes: decodes to the metainfo of this blob *)
  epl : N -> N;                       (* metainfogen pieceLengthConfig.get: blob size -> piece length *)
  eshard : N -> list N;               (* casFileEntryFactory.GetRelativePath: first two bytes of the name *)
  eblob : N -> bytes                  (* what the storage backend holds under a name (on-demand refresh) *)
}.

(* ---------------------------------------------------------------- the layout-typed disk *)
Inductive area := AUp | ACa.
Inductive fname := FData | FLat | FPersist | FMeta.

(* one entry directory *)
Record edir := mkedir { e_data : option bytes; e_lat : option bytes; e_persist : option bytes; e_meta : option bytes }.
Definition empty_dir : edir := mkedir None None None None.

Definition fget (f : fname) (e : edir) : option bytes :=
  match f with FData => e_data e | FLat => e_lat e | FPersist => e_persist e | FMeta => e_meta e end.
Definition fset (f : fname) (c : option bytes) (e : edir) : edir :=
  match f with
  | FData => mkedir c (e_lat e) (e_persist e) (e_meta e)
  | FLat => mkedir (e_data e) c (e_persist e) (e_meta e)
  | FPersist => mkedir (e_data e) (e_lat e) c (e_meta e)
  | FMeta => mkedir (e_data e) (e_lat e) (e_persist e) c
  end.
Definition dir_empty (e : edir) : bool :=
  match e_data e, e_lat e, e_persist e, e_meta e with None, None, None, None => true | _, _, _, _ => false end.

Record fs := mkfs { root_up : bool; root_ca : bool; shards : list (list N); up : N -> option edir; ca : N -> option edir }.
Definition fs0 : fs := mkfs false false [] (fun _ => None) (fun _ => None).

Definition dget (a : area) (k : N) (s : fs) : option edir := match a with AUp => up s k | ACa => ca s k end.
Definition dset (a : area) (k : N) (o : option edir) (s : fs) : fs :=
  match a with
  | AUp => mkfs (root_up s) (root_ca s) (shards s) (upd (up s) k o) (ca s)
  | ACa => mkfs (root_up s) (root_ca s) (shards s) (up s) (upd (ca s) k o)
  end.
Definition fileof (a : area) (k : N) (f : fname) (s : fs) : option bytes :=
  match dget a k s with Some e => fget f e | None => None end.
Definition has_shard (p : list N) (s : fs) : bool := existsb (nlist_eqb p) (shards s).

(* the mutating calls the stores make, normalised to the layout *)
Inductive call :=
| CMkRoot (a : area)                                   (* mkdir of the upload / cache directory *)
| CMkShard (p : list N)                                (* mkdir of a cache shard directory *)
| CMkDir (a : area) (k : N)                            (* mkdir of an entry directory *)
| CCreate (a : area) (k : N) (f : fname)               (* open(2) O_CREAT|O_TRUNC *)
| CWrite (a : area) (k : N) (f : fname) (off : N) (data : bytes)
| CTrunc (a : area) (k : N) (f : fname) (n : N)        (* ftruncate(2) *)
| CRename (u d : N)                                    (* rename upload/<u>/data -> cache/<d>/data *)
| CUnlink (a : area) (k : N) (f : fname)
| CRmDir (a : area) (k : N)
| CBad (n : N).                                        (* harness: a call outside the layout *)

(* effect of a call; None = the system call fails (never the case on a trace of the real code) *)
Definition apply_opt (s : fs) (c : call) : option fs :=
  match c with
  | CMkRoot AUp => if root_up s then None else Some (mkfs true (root_ca s) (shards s) (up s) (ca s))
  | CMkRoot ACa => if root_ca s then None else Some (mkfs (root_up s) true (shards s) (up s) (ca s))
  | CMkShard p => if has_shard p s then None else Some (mkfs (root_up s) (root_ca s) (p :: shards s) (up s) (ca s))
  | CMkDir a k => match dget a k s with None => Some (dset a k (Some empty_dir) s) | Some _ => None end
  | CCreate a k f => match dget a k s with Some e => Some (dset a k (Some (fset f (Some []) e)) s) | None => None end
  | CWrite a k f off data =>
      match dget a k s with
      | Some e => match fget f e with
                  | Some c => Some (dset a k (Some (fset f (Some (write_at c off data)) e)) s)
                  | None => None
                  end
      | None => None
      end
  | CTrunc a k f n =>
      match dget a k s with
      | Some e => match fget f e with
                  | Some c => Some (dset a k (Some (fset f (Some (resize c n)) e)) s)
                  | None => None
                  end
      | None => None
      end
  | CRename u d =>
      match up s u, ca s d with
      | Some eu, Some ed =>
          match e_data eu with
          | Some c => Some (dset ACa d (Some (fset FData (Some c) ed)) (dset AUp u (Some (fset FData None eu)) s))
          | None => None
          end
      | _, _ => None
      end
  | CUnlink a k f =>
      match dget a k s with
      | Some e => match fget f e with Some _ => Some (dset a k (Some (fset f None e)) s) | None => None end
      | None => None
      end
  | CRmDir a k => match dget a k s with Some e => if dir_empty e then Some (dset a k None s) else None | None => None end
  | CBad _ => None
  end.
(* a failing call changes nothing *)
Definition apply_call (s : fs) (c : call) : fs := match apply_opt s c with Some s' => s' | None => s end.
Definition exec (cs : list call) (s : fs) : fs := fold_left apply_call cs s.
Fixpoint all_ok (cs : list call) (s : fs) : bool :=
  match cs with [] => true | c :: t => isSome (apply_opt s c) && all_ok t (apply_call s c) end.

(* ---------------------------------------------------------------- blocks: code fragments as functions disk -> calls *)
Definition block := fs -> list call.

(* os.MkdirAll of an entry directory: one mkdir per missing component *)
Definition mkdirs (E : env) (a : area) (k : N) : block := fun s =>
  match a with
  | AUp => if isSome (up s k) then [] else [CMkDir AUp k]
  | ACa =>
      let p := eshard E k in
      (if has_shard (firstn 1 p) s then [] else [CMkShard (firstn 1 p)]) ++
      (if has_shard (firstn 2 p) s then [] else [CMkShard (firstn 2 p)]) ++
      (if isSome (ca s k) then [] else [CMkDir ACa k])
  end.

Definition wr0 (a : area) (k : N) (f : fname) (b : bytes) : list call :=
  match b with [] => [] | _ => [CWrite a k f 0 b] end.          (* a zero-length write is not a mutating call *)

(* file_entry.go:590-633 compareAndWriteFile *)
Definition cawf (E : env) (a : area) (k : N) (f : fname) (b : bytes) : block := fun s =>
  match fileof a k f s with
  | None => mkdirs E a k s ++ [CCreate a k f] ++ wr0 a k f b           (* :597-605 MkdirAll; os.WriteFile *)
  | Some c =>
      if nlist_eqb c b then []                                          (* :619 *)
      else (if len c =? len b then [] else [CTrunc a k f (len b)])      (* :623-627 *)
           ++ wr0 a k f b                                               (* :629 WriteAt(b, 0) *)
  end.

(* file_map.go:251-260 (TryStore): the last-access sidecar is set when missing or undecodable.  Its
   payload is time-dependent; the harness normalises it to the single byte 1. *)
Definition lat_ok (o : option bytes) : bool := match o with Some (_ :: _) => true | _ => false end.
Definition lat_init (E : env) (a : area) (k : N) : block := fun s =>
  if lat_ok (fileof a k FLat s) then [] else cawf E a k FLat [1] s.

(* file_entry.go:268-308 localFileEntry.Create with length 0: os.Create; Truncate(0) *)
Definition create_data (u : N) : block := fun _ => [CCreate AUp u FData; CTrunc AUp u FData 0].

Definition write_data (u : N) (off : N) (data : bytes) : block := fun _ =>
  match data with [] => [] | _ => [CWrite AUp u FData off data] end.

(* ca_store.go:171-188 MoveUploadFileToCache: verify (:183) THEN MoveFileFrom; file_entry.go:341-370 MoveFrom:
   stat target (:353), stat source (:358), rename (:369).  The rename is the commit point. *)
Definition rename_b (E : env) (u d : N) : block := fun s =>
  match fileof AUp u FData s, ca s d with
  | Some c, Some ed => if (eH E c =? d) && negb (isSome (e_data ed)) then [CRename u d] else []
  | _, _ => []
  end.

(* file_entry.go:432-446 Delete -> os.RemoveAll of an upload entry; [lf] = readdir order oracle
   (last-access sidecar unlinked before the data file) *)
Definition rmall_up (u : N) (lf : bool) : block := fun s =>
  match up s u with
  | None => []
  | Some e =>
      let ul := if isSome (e_lat e) then [CUnlink AUp u FLat] else [] in
      let ud := if isSome (e_data e) then [CUnlink AUp u FData] else [] in
      (if lf then ul ++ ud else ud ++ ul) ++ [CRmDir AUp u]
  end.

(* generator.go:40-59 Generate / ca_store.go:313-330 generateMetadataFromFile / server.go:440-456:
   read the cached blob, build the metainfo, SetCacheFileMetadata -> compareAndWriteFile *)
Definition meta_b (E : env) (d : N) (plf : N -> N) : block := fun s =>
  match fileof ACa d FData s with
  | Some c => let pl := plf (len c) in if pl =? 0 then [] else cawf E ACa d FMeta (eser E d c pl) s
  | None => []
  end.

Definition persist_true : bytes := [116; 114; 117; 101].    (* strconv.FormatBool(true) *)

(* running the blocks of an operation: trace and final disk *)
Fixpoint run_blocks (bs : list block) (s : fs) : list call * fs :=
  match bs with
  | [] => ([], s)
  | b :: t => let cs := b s in let r := run_blocks t (exec cs s) in (cs ++ fst r, snd r)
  end.

(* ---------------------------------------------------------------- in-memory state (lost at a crash) *)
Record mem := mkmem { m_up : list N; m_ca : list N; m_tmp : N }.   (* file maps; next temporary upload id *)
Definition mem0 (nslots : N) : mem := mkmem [] [] nslots.

(* file_op.go:116-152 reloadFileEntryHelper: an entry not in the map is reloaded when its data file exists *)
Definition load (E : env) (a : area) (k : N) (m : mem) (s : fs) : list block * mem * bool :=
  let inmem := memb k (match a with AUp => m_up m | ACa => m_ca m end) in
  if inmem then ([], m, true)
  else if isSome (fileof a k FData s)
       then ([lat_init E a k],
             match a with AUp => mkmem (addk k (m_up m)) (m_ca m) (m_tmp m) | ACa => mkmem (m_up m) (addk k (m_ca m)) (m_tmp m) end,
             true)
       else ([], m, false).

Inductive out := OOk | ONotFound | OConflict | OAccepted | OErr | OIllegal.

Inductive op :=
| Start (u d : N)                         (* uploader.go:38 start *)
| Patch (u d off : N) (data : bytes)      (* uploader.go:56 patch *)
| Commit (u d : N) (lf : bool)            (* uploader.go:90 commit -> MoveUploadFileToCache *)
| WriteBack (d : N)                       (* server.go:954 writeBack: persist flag; task (external); Generate *)
| Generate (d : N)                        (* generator.go:40 *)
| Overwrite (d pl : N)                    (* server.go:440 overwriteMetaInfo *)
| Refresh (d : N) (c : bytes) (lf : bool) (* refresher.go:150 download -> ca_store.go:233 / :206 writeCacheFile *)
| GetMeta (d : N).                        (* server.go:462 getMetaInfo (read path) *)

Definition m_add_up (u : N) (m : mem) := mkmem (addk u (m_up m)) (m_ca m) (m_tmp m).
Definition m_del_up (u : N) (m : mem) := mkmem (delk u (m_up m)) (m_ca m) (m_tmp m).
Definition m_add_ca (d : N) (m : mem) := mkmem (m_up m) (addk d (m_ca m)) (m_tmp m).

(* store-level read of the torrent metainfo of a cached blob (fixed: undecodable = absent) *)
Inductive mclass := MAbsent | MValid | MWrong | MBroken.
Definition md_gen (broken : mclass) (E : env) (s : fs) (d : N) : mclass :=
  match ca s d with
  | None => MAbsent
  | Some e =>
      match e_data e with
      | None => MAbsent                       (* no data file: the entry cannot be loaded (os.ErrNotExist) *)
      | Some c =>
          match e_meta e with
          | None => MAbsent
          | Some b => if edec E b then (if evalid E d c b then MValid else MWrong) else broken
          end
      end
  end.
Definition md := md_gen MAbsent.        (* ca_store.go GetCacheFileMetadata, fixed *)
Definition md_old := md_gen MBroken.    (* before the fix: the deserialisation error is returned *)

(* cache side of MoveFileFrom (file_op.go:211-266 createFileHelper): blocks, memory, created? *)
Definition move_in (E : env) (u d : N) (m : mem) (s : fs) : list block * mem * bool :=
  match load E ACa d m s with
  | (bl, m1, true) => (bl, m1, false)                                   (* os.ErrExist *)
  | (_, _, false) => ([lat_init E ACa d; rename_b E u d], m_add_ca d m, true)
  end.

Definition prog (E : env) (m : mem) (s : fs) (o : op) : list block * mem * out :=
  match o with
  | Start u d =>
      if memb u (m_up m) || isSome (up s u) then ([], m, OIllegal)      (* upload ids are fresh uuids *)
      else match load E ACa d m s with
           | (bl, m1, true) => (bl, m1, OConflict)                      (* uploader.go:39-45 blobExists *)
           | (bl, m1, false) => (bl ++ [lat_init E AUp u; create_data u], m_add_up u m1, OOk)
           end
  | Patch u d off data =>
      match load E ACa d m s with
      | (bl, m1, true) => (bl, m1, OConflict)
      | (bl, m1, false) =>
          match load E AUp u m1 s with
          | (bl2, m2, true) => (bl ++ bl2 ++ [write_data u off data], m2, OOk)
          | (_, _, false) => (bl, m1, ONotFound)
          end
      end
  | Commit u d lf =>
      match load E AUp u m s with
      | (_, _, false) => ([], m, ONotFound)
      | (bl, m1, true) =>
          match fileof AUp u FData s with
          | None => (bl, m1, OErr)
          | Some c =>
              if eH E c =? d then
                match move_in E u d m1 s with
                | (bl2, m2, true) => (bl ++ bl2 ++ [rmall_up u lf], m_del_up u m2, OOk)
                | (bl2, m2, false) => (bl ++ bl2 ++ [rmall_up u lf], m_del_up u m2, OConflict)
                end
              else (bl ++ [rmall_up u lf], m_del_up u m1, OErr)          (* ca_store.go:183 verify digest *)
          end
      end
  | WriteBack d =>
      match load E ACa d m s with
      | (bl, m1, true) => (bl ++ [cawf E ACa d FPersist persist_true; meta_b E d (epl E)], m1, OOk)
      | (bl, m1, false) => (bl, m1, OErr)
      end
  | Generate d =>
      match load E ACa d m s with
      | (bl, m1, true) => (bl ++ [meta_b E d (epl E)], m1, OOk)
      | (bl, m1, false) => (bl, m1, OErr)
      end
  | Overwrite d pl =>
      match load E ACa d m s with
      | (bl, m1, true) => if pl =? 0 then (bl, m1, OErr) else (bl ++ [meta_b E d (fun _ => pl)], m1, OOk)
      | (bl, m1, false) => (bl, m1, OErr)
      end
  | Refresh d c lf =>
      let t := m_tmp m in
      let m0 := mkmem (m_up m) (m_ca m) (N.succ t) in
      let pre := [lat_init E AUp t; create_data t; write_data t 0 c] in
      if eH E c =? d then
        match move_in E t d m0 s with
        | (bl2, m2, _) => (pre ++ bl2 ++ [rmall_up t lf; meta_b E d (fun _ => epl E (len c))], m2, OOk)
        end
      else (pre ++ [rmall_up t lf], m0, OErr)
  | GetMeta d =>
      match load E ACa d m s with
      | (bl, m1, true) => (bl, m1, match md E s d with MValid | MWrong => OOk | _ => ONotFound end)
      | (bl, m1, false) => (bl, m1, ONotFound)
      end
  end.

(* NewCAStore on empty directories: MkdirAll(upload); MkdirAll(cache) (upload_store.go:36-44, cache_store.go:31) *)
Definition open_b : block := fun s =>
  (if root_up s then [] else [CMkRoot AUp]) ++ (if root_ca s then [] else [CMkRoot ACa]).

Record sres := mksres { sr_out : out; sr_calls : list call }.

Fixpoint run (E : env) (m : mem) (s : fs) (ops : list op) : list sres * (mem * fs) :=
  match ops with
  | [] => ([], (m, s))
  | o :: t =>
      match prog E m s o with
      | (bs, m', r) =>
          let tr := run_blocks bs s in
          let rest := run E m' (snd tr) t in
          (mksres r (fst tr) :: fst rest, snd rest)
      end
  end.
Definition trace (rs : list sres) : list call := flat_map sr_calls rs.

(* one epoch of the origin's life: open, then a history *)
Definition epoch_calls (E : env) (nslots : N) (s : fs) (ops : list op) : list call :=
  let oc := open_b s in oc ++ trace (fst (run E (mem0 nslots) (exec oc s) ops)).

(* ---------------------------------------------------------------- crash and recovery *)
Definition crash (k : nat) (cs : list call) (s : fs) : fs := exec (firstn k cs) s.

(* restart on the same directories: upload_store.go:36-44 wipes the upload directory (RemoveAll +
   MkdirAll), cache_store.go:31 MkdirAll; the cache is left as it is *)
Definition recover (s : fs) : fs := mkfs true true (shards s) (fun _ => None) (ca s).

(* what the restarted origin shows for one name *)
Record kobs := mkkobs {
  k_listed : bool;             (* ListCacheFiles *)
  k_data : option bytes;       (* GetCacheFileReader *)
  k_md : mclass;               (* GetCacheFileMetadata(TorrentMeta) *)
  k_gm : mclass;               (* getMetaInfo *)
  k_fin : mclass;              (* getMetaInfo after the refresh it triggered (backend holds the blob) *)
  k_rt : mclass                (* getMetaInfo after the client retried its upload (start -> 409 -> writeBack) *)
}.
Record robs := mkrobs { r_open : bool; r_upempty : bool; r_listed : list N; r_keys : list kobs }.

Definition after (E : env) (s : fs) (o : op) : fs :=
  match prog E (mem0 0) s o with (bs, _, _) => snd (run_blocks bs s) end.

Definition observe_key (E : env) (s : fs) (d : N) : kobs :=
  let listed := isSome (ca s d) in
  let data := fileof ACa d FData s in
  let m0 := md E s d in
  let touched := listed || isSome data in
  mkkobs listed data m0 m0
    (if touched then match m0 with MValid => MValid | _ => md E (after E s (Refresh d (eblob E d) true)) d end else m0)
    (if isSome data then match m0 with MValid => MValid | _ => md E (after E s (WriteBack d)) d end else m0).

Definition observe (E : env) (n : N) (s : fs) : robs :=
  let r := recover s in
  mkrobs true true (filter (fun d => isSome (ca r d)) (nrange n)) (map (observe_key E r) (nrange n)).

(* the observations at every crash point of one epoch started on an empty disk *)
Definition model_recs (E : env) (nslots n : N) (ops : list op) : list robs :=
  let cs := epoch_calls E nslots fs0 ops in
  map (fun k => observe E n (crash k cs fs0)) (seq 0 (S (length cs))).

(* ---------------------------------------------------------------- the property on one observed recovery *)
Definition opt_hash_ok (E : env) (d : N) (o : option bytes) : bool :=
  match o with Some c => eH E c =? d | None => true end.
Definition mc_eqb (a b : mclass) : bool :=
  match a, b with MAbsent, MAbsent | MValid, MValid | MWrong, MWrong | MBroken, MBroken => true | _, _ => false end.
Definition absent_or_valid (c : mclass) : bool := match c with MAbsent | MValid => true | _ => false end.

Definition kobs_ok (E : env) (d : N) (k : kobs) : bool :=
  opt_hash_ok E d (k_data k)                                    (* a served blob hashes to its name *)
  && (k_listed k || negb (isSome (k_data k)))                   (* ... and is listed *)
  && absent_or_valid (k_md k) && absent_or_valid (k_gm k)       (* metainfo absent or valid *)
  && (if k_listed k || isSome (k_data k) then mc_eqb (k_fin k) MValid else true)   (* never stuck: refresh *)
  && (if isSome (k_data k) then mc_eqb (k_rt k) MValid else true).                 (* never stuck: upload retry *)

Fixpoint keys_ok (E : env) (d : N) (ks : list kobs) : bool :=
  match ks with [] => true | k :: t => kobs_ok E d k && keys_ok E (N.succ d) t end.

Definition robs_ok (E : env) (r : robs) : bool := r_open r && r_upempty r && keys_ok E 0 (r_keys r).

Definition C05_check (E : env) (recs : list robs) : bool := forallb (robs_ok E) recs.
