(* C03 — case format, observations, macro steps and the boolean oracle for
   "an agent commits a blob only after every piece is verified".
   The torrent model itself is K.Model.AgentTorrent.  Executable definitions only. *)
From Coq Require Import List NArith ZArith Bool Arith.
From K.Model Require Export AgentTorrent.
Import ListNotations.

(* ---- byte strings are shipped as (length, big-endian numeral) ---- *)
Fixpoint ub_rev (len : nat) (v : N) : list N :=
  match len with
  | 0 => []
  | S k => N.modulo v 256 :: ub_rev k (N.div v 256)
  end.
Definition ub (len v : N) : list N := rev (ub_rev (N.to_nat len) v).

Fixpoint bytes_eqb (a b : list N) : bool :=
  match a, b with
  | [], [] => true
  | x :: a', y :: b' => N.eqb x y && bytes_eqb a' b'
  | _, _ => false
  end.

Fixpoint list_eqb {A} (e : A -> A -> bool) (a b : list A) : bool :=
  match a, b with
  | [], [] => true
  | x :: a', y :: b' => e x y && list_eqb e a' b'
  | _, _ => false
  end.

Definition opt_eqb {A} (e : A -> A -> bool) (a b : option A) : bool :=
  match a, b with
  | None, None => true
  | Some x, Some y => e x y
  | _, _ => false
  end.

(* ---- gates: the points at which the driver can park a caller of the real WritePiece ----
   1 = about to open the download file (GetDownloadFileReadWriter), 2 = inside src.Read
   (before each chunk and before EOF), 3 = about to write the sidecar byte (Download() scope),
   4 = about to MoveDownloadFileToCache, 0 = returned. *)
Definition gate_of (p : pc) : option N :=
  match p with
  | POwn _ => Some 1%N
  | PWriting _ _ _ => Some 2%N
  | PSummed _ => Some 3%N
  | PMove => Some 4%N
  | PDone _ => Some 0%N
  | _ => None
  end.

Definition pc_of (S : sys) (k : nat) : pc :=
  match nth_error (s_ths S) k with Some t => t_pc t | None => PDone RBadIndex end.

Fixpoint advance_to_gate (fuel : nat) (c : cfg) (S : sys) (k : nat) : sys :=
  match fuel with
  | 0 => S
  | S f => match gate_of (pc_of S k) with
           | Some _ => S
           | None => advance_to_gate f c (sys_step c S k) k
           end
  end.

(* one macro step of caller k: at least one atomic step, then on to the next gate *)
Definition advance (c : cfg) (S : sys) (k : nat) : sys := advance_to_gate 8 c (sys_step c S k) k.

(* the same macro step as an explicit list of atomic steps (used by the proofs:
   a macro-step history is one particular interleaving) *)
Fixpoint advance_sched (fuel : nat) (c : cfg) (S : sys) (k : nat) : list nat :=
  match fuel with
  | 0 => []
  | S f => match gate_of (pc_of S k) with
           | Some _ => []
           | None => k :: advance_sched f c (sys_step c S k) k
           end
  end.

(* ---- projected observables ---- *)
Definition res_code (r : result) : N :=
  match r with
  | ROk => 0 | RBadIndex => 1 | RBadLength => 1 | RComplete => 3 | RConflict => 4
  | RWriteErr => 5 | RMoveErr => 6
  end%N.
(* 7 = the real call panicked (only the pinned code, negative index; see notes) *)

Record obs := mkobs {
  o_status : list N;        (* pieces[i].status, in memory *)
  o_sidecar : list N;       (* the `_status` sidecar as restorePieces would read it (0/1) *)
  o_file : list N;          (* bytes of the data file, whichever state it is in *)
  o_incache : bool;         (* Cache().GetFileStat succeeds *)
  o_committed : bool;       (* Torrent.Complete() *)
  o_ncomp : N;              (* numComplete *)
  o_bytes : N;              (* BytesDownloaded() *)
  o_bits : list bool;       (* Bitfield() *)
  o_gate : N;               (* where the advanced caller is parked (0 = returned) *)
  o_res : N                 (* its result code when returned, else 0 *)
}.

(* what the implementation reports: the file only when it changed since the last report *)
Record iobs := mkiobs { i_file : option (list N); i_rest : obs }.

Definition sidecar_view (b : list N) : list N := map (fun x => if N.eqb x 1 then 1%N else 0%N) b.

Definition observe_gate (c : cfg) (s : tstate) (g r : N) : obs :=
  mkobs (map status_byte (status s)) (sidecar_view (sidecar s)) (file s) (incache s) (committed s)
        (N.of_nat (ncomp s)) (N.of_nat (bytes_downloaded c s)) (bitfield s) g r.

(* the state alone (no caller in focus) *)
Definition observe_state (c : cfg) (S : sys) : obs := observe_gate c (s_st S) 0 0.

Definition observe (c : cfg) (S : sys) (k : nat) : obs :=
  let p := pc_of S k in
  observe_gate c (s_st S)
        (match gate_of p with Some g => g | None => 99%N end)
        (match p with PDone r => res_code r | _ => 0%N end).

Definition obs_eqb (a b : obs) : bool :=
  list_eqb N.eqb (o_status a) (o_status b) && list_eqb N.eqb (o_sidecar a) (o_sidecar b) &&
  bytes_eqb (o_file a) (o_file b) && Bool.eqb (o_incache a) (o_incache b) &&
  Bool.eqb (o_committed a) (o_committed b) && N.eqb (o_ncomp a) (o_ncomp b) &&
  N.eqb (o_bytes a) (o_bytes b) && list_eqb Bool.eqb (o_bits a) (o_bits b) &&
  N.eqb (o_gate a) (o_gate b) && N.eqb (o_res a) (o_res b).

(* final observation: what clients of a quiescent torrent can read *)
Record fin := mkfin {
  f_pieces : list (option (list N));   (* GetPieceReader(i) read to EOF, i < NumPieces *)
  f_cache : option (list N);           (* Cache().GetFileReader read to EOF *)
  f_results : list N                   (* result code per caller; 9 = never started *)
}.

Definition fin_of (c : cfg) (S : sys) : fin :=
  mkfin (map (get_piece c (s_st S)) (seq 0 (length (status (s_st S)))))
        (cache_bytes (s_st S))
        (map (fun t => match t_pc t with PDone r => res_code r | PStart => 9%N | _ => 8%N end) (s_ths S)).

Definition fin_eqb (a b : fin) : bool :=
  list_eqb (opt_eqb bytes_eqb) (f_pieces a) (f_pieces b) &&
  opt_eqb bytes_eqb (f_cache a) (f_cache b) &&
  list_eqb N.eqb (f_results a) (f_results b).

(* ---- the piece status machine on its own (pieces.go:89-128), answered by the step function the
        theorems are about: for a piece whose status byte is b, what complete(), dirty(),
        tryMarkDirty() answer and what status tryMarkDirty / markEmpty / markComplete leave ---- *)
Definition pc_code (p : pc) : N :=
  match p with
  | PDone r => res_code r | POwn _ => 10 | PNotComplete _ => 11 | PNotDirty _ => 12 | PMarked => 13 | _ => 99
  end%N.
Definition piece_unit (b : N) : list N :=
  let st := if N.eqb b 1 then Complete else if N.eqb b 2 then Dirty else Empty in
  let c := mkcfg 1 1 [0%N] in
  let w := mkw 0 1 [] 0 in
  let s := mkts [st] [] [0%N] 0 false false in
  let r3 := tstep c s w (PNotDirty 0) in
  [ pc_code (snd (tstep c s w (PChecked 0)));
    pc_code (snd (tstep c s w (PNotComplete 0)));
    pc_code (snd r3);
    status_byte (st_at (fst r3) 0);
    status_byte (st_at (fst (tstep c s w (PFailed 0))) 0);
    status_byte (st_at (fst (tstep c s w (PSidecar 0))) 0) ].

(* ---- histories ---- *)
Inductive hop :=
| HAdv (k : nat)          (* macro step of caller k *)
| HReopen.                (* NewTorrent on the same store (only generated when nobody is in flight) *)

Definition hstep (c : cfg) (S : sys) (h : hop) : sys :=
  match h with
  | HAdv k => advance c S k
  | HReopen =>
      let s := s_st S in
      mksys (new_torrent c (file s) (Some (sidecar s)) (incache s)) (s_ths S)
  end.

Definition hfocus (h : hop) : nat := match h with HAdv k => k | HReopen => 0 end.

Fixpoint hrun (c : cfg) (S : sys) (hs : list hop) : sys * list obs :=
  match hs with
  | [] => (S, [])
  | h :: t =>
      let S1 := hstep c S h in
      let o := match h with
               | HAdv k => observe c S1 k
               | HReopen => observe_state c S1
               end in
      let '(S2, os) := hrun c S1 t in (S2, o :: os)
  end.

(* a history is well-formed when NewTorrent is only called again while nobody is inside WritePiece
   (torrent.go:51: two Torrent instances on one file are undefined behaviour) *)
Fixpoint hist_ok (c : cfg) (S : sys) (hs : list hop) : bool :=
  match hs with
  | [] => true
  | h :: t => (match h with HReopen => idle S | HAdv _ => true end) && hist_ok c (hstep c S h) t
  end.

(* ---- the property on one observed trace (spec-based: uses the blob, the metainfo geometry,
        the callers' inputs and the implementation's observations; never the model's state) ---- *)
Section Oracle.
Variable c : cfg.
Variable blob : list N.

Definition bpiece (i : nat) : list N := region c blob i.

Definition popcount (l : list bool) : nat := length (filter (fun b => b) l).

Fixpoint forall_idx (n : nat) (f : nat -> bool) : bool :=
  match n with 0 => true | S k => forall_idx k f && f k end.

Definition nth_bit (l : list bool) (i : nat) : bool := nth i l false.

(* one observed state *)
Definition state_ok (o : obs) : bool :=
  let n := npieces c in
  (* the reported bitfield has one bit per piece and is the set of complete pieces *)
  Nat.eqb (length (o_bits o)) n && Nat.eqb (length (o_status o)) n &&
  forall_idx n (fun i => Bool.eqb (nth_bit (o_bits o) i) (N.eqb (nth i (o_status o) 0%N) 1)) &&
  (* a reported (or persisted) piece is verified: its bytes in the file are the blob's *)
  forall_idx n (fun i => implb (nth_bit (o_bits o) i)
                           (bytes_eqb (region c (o_file o) i) (bpiece i) && N.eqb (nth i (o_sidecar o) 0%N) 1)) &&
  forall_idx n (fun i => implb (N.eqb (nth i (o_sidecar o) 0%N) 1) (bytes_eqb (region c (o_file o) i) (bpiece i))) &&
  (* moved to the cache / reported complete only with every piece verified and file = blob *)
  implb (o_committed o) (o_incache o) &&
  implb (o_incache o) (forall_idx n (nth_bit (o_bits o)) && bytes_eqb (o_file o) blob) &&
  (* progress *)
  N.eqb (o_bytes o) (N.min (o_ncomp o * N.of_nat (c_pl c)) (N.of_nat (c_len c))) &&
  N.leb (o_ncomp o) (N.of_nat (popcount (o_bits o))).

(* quiescent end state: progress is exact, served pieces and the cache file are the blob *)
Definition final_ok (ws : list winput) (o : obs) (f : fin) : bool :=
  let n := npieces c in
  N.eqb (o_ncomp o) (N.of_nat (popcount (o_bits o))) &&
  (* nobody is inside WritePiece => no piece is left dirty (a failed write gives the piece back) *)
  forall_idx n (fun i => negb (N.eqb (nth i (o_status o) 0%N) 2)) &&
  Nat.eqb (length (f_pieces f)) n &&
  forall_idx n (fun i => match nth i (f_pieces f) None with
                         | Some d => nth_bit (o_bits o) i && bytes_eqb d (bpiece i)
                         | None => negb (nth_bit (o_bits o) i)
                         end) &&
  (match f_cache f with Some d => o_incache o && bytes_eqb d blob | None => negb (o_incache o) end) &&
  (* every piece complete  <->  committed (nothing lost, nothing early) *)
  Bool.eqb (o_committed o) (forall_idx n (nth_bit (o_bits o))) &&
  (* per caller: accepted only with the right bytes for a valid index; invalid index or wrong
     length is rejected *)
  Nat.eqb (length (f_results f)) (length ws) &&
  forall_idx (length ws) (fun k =>
    let w := nth k ws (mkw 0 0 [] 0) in
    let r := nth k (f_results f) 9%N in
    let valid := (0 <=? w_idx w)%Z && (w_idx w <? Z.of_nat n)%Z in
    let i := Z.to_nat (w_idx w) in
    implb (N.eqb r 0) (valid && bytes_eqb (payload w) (bpiece i) && nth_bit (o_bits o) i) &&
    (* a write error means the streamed checksum did not match: good bytes are never refused so *)
    implb (N.eqb r 5) (valid && negb (N.eqb (w_hsum w) (psum c i))) &&
    implb (negb valid || negb (w_decl w =? Z.of_nat (plen c i))%Z)
          (N.eqb r 1 || N.eqb r 9 || (N.eqb r 7 && (w_idx w <? 0)%Z))).

(* guards = the hypotheses of the theorems, as booleans *)
Definition honest (w : winput) : bool := (Z.of_nat (length (payload w)) <=? w_decl w)%Z.
Definition cf_one (w : winput) : bool :=
  let valid := (0 <=? w_idx w)%Z && (w_idx w <? Z.of_nat (npieces c))%Z in
  let i := Z.to_nat (w_idx w) in
  implb (valid && N.eqb (w_hsum w) (psum c i)) (bytes_eqb (payload w) (bpiece i)).
Definition guards (ws : list winput) : bool := forallb honest ws && forallb cf_one ws.

(* [os] = the observations after each macro step; [fo],[f] = the quiescent end state *)
Definition check_raw (ws : list winput) (os : list obs) (fo : obs) (f : fin) : bool :=
  forallb state_ok os && state_ok fo && final_ok ws fo f.

End Oracle.

(* geometry of the metainfo of a blob (what core.NewMetaInfo produces, C02) *)
Definition geometry_ok (c : cfg) (blob : list N) : bool :=
  wf_cfg c && Nat.eqb (c_len c) (length blob).

Definition C03_check (c : cfg) (blob : list N) (ws : list winput) (os : list obs) (fo : obs) (f : fin) : bool :=
  if geometry_ok c blob && guards c blob ws
  then check_raw c blob ws os fo f
  else true.
