(* Model of lib/torrent/scheduler/announcequeue/queue.go (QueueImpl).
   Executable definitions only; proofs live in Proof/C20.v. *)
From Coq Require Import List NArith Bool.
Import ListNotations.
Local Open Scope N_scope.

(* Info hashes are canonicalised to small N by the harness. *)
Inductive op := Add (h : N) | Next | Ready (h : N) | Eject (h : N).
Inductive out := OUnit | ONext (r : option N).

(* queue.go:33-39: readyQueue (container/list) + pending (map[InfoHash]bool). *)
Record st := mk { ready : list N; pending : list N }.

Definition init : st := mk [] [].

Definition memb (h : N) (l : list N) : bool := existsb (N.eqb h) l.
Definition remove_all (h : N) (l : list N) : list N := filter (fun x => negb (N.eqb h x)) l.

(* Eject's loop (queue.go:86-94) calls readyQueue.Remove(e) and then e.Next();
   container/list clears e.next on removal, so the loop ends after the FIRST match. *)
Fixpoint remove_first (h : N) (l : list N) : list N :=
  match l with
  | [] => []
  | x :: t => if N.eqb h x then t else x :: remove_first h t
  end.

Definition step (s : st) (o : op) : st * out :=
  match o with
  | Add h => (mk (ready s ++ [h]) (pending s), OUnit)                      (* queue.go:67 *)
  | Next =>                                                                 (* queue.go:49 *)
      match ready s with
      | [] => (s, ONext None)
      | h :: t => (mk t (if memb h (pending s) then pending s else h :: pending s), ONext (Some h))
      end
  | Ready h =>                                                              (* queue.go:73 *)
      if memb h (pending s)
      then (mk (ready s ++ [h]) (remove_all h (pending s)), OUnit)
      else (s, OUnit)
  | Eject h => (mk (remove_first h (ready s)) (remove_all h (pending s)), OUnit)  (* queue.go:84 *)
  end.

Fixpoint run (s : st) (ops : list op) : st * list out :=
  match ops with
  | [] => (s, [])
  | o :: t => let '(s1, r) := step s o in
              let '(s2, rs) := run s1 t in (s2, r :: rs)
  end.

(* Client contract (queue.go:65: "Behavior is undefined if called twice on the same torrent"):
   Add h only when h is neither waiting nor in flight. *)
Fixpoint wf_from (s : st) (ops : list op) : bool :=
  match ops with
  | [] => true
  | o :: t =>
      (match o with
       | Add h => negb (memb h (ready s)) && negb (memb h (pending s))
       | _ => true
       end) && wf_from (fst (step s o)) t
  end.
Definition wf (ops : list op) : bool := wf_from init ops.

(* ---- Abstract specification: each torrent is Absent, Waiting since stamp t, or InFlight. *)
Record spec := mks { waiting : list (N * N)  (* (arrival stamp, torrent) *); inflight : list N; clk : N }.
Definition sinit : spec := mks [] [] 0.

(* the waiting torrent with the oldest arrival *)
Fixpoint oldest (l : list (N * N)) : option (N * N) :=
  match l with
  | [] => None
  | x :: t => match oldest t with
              | None => Some x
              | Some y => if fst x <=? fst y then Some x else Some y
              end
  end.
Definition drop_torrent (h : N) (l : list (N * N)) := filter (fun x => negb (N.eqb h (snd x))) l.

Definition sstep (s : spec) (o : op) : spec * out :=
  let c := clk s + 1 in
  match o with
  | Add h => (mks ((clk s, h) :: waiting s) (inflight s) c, OUnit)
  | Next => match oldest (waiting s) with
            | None => (mks (waiting s) (inflight s) c, ONext None)
            | Some (t, h) => (mks (drop_torrent h (waiting s)) (h :: inflight s) c, ONext (Some h))
            end
  | Ready h => if memb h (inflight s)
               then (mks ((clk s, h) :: waiting s) (remove_all h (inflight s)) c, OUnit)
               else (mks (waiting s) (inflight s) c, OUnit)
  | Eject h => (mks (drop_torrent h (waiting s)) (remove_all h (inflight s)) c, OUnit)
  end.

Fixpoint srun (s : spec) (ops : list op) : spec * list out :=
  match ops with
  | [] => (s, [])
  | o :: t => let '(s1, r) := sstep s o in
              let '(s2, rs) := srun s1 t in (s2, r :: rs)
  end.

(* ---- boolean oracles used on observed traces *)
Definition out_eqb (a b : out) : bool :=
  match a, b with
  | OUnit, OUnit => true
  | ONext None, ONext None => true
  | ONext (Some x), ONext (Some y) => N.eqb x y
  | _, _ => false
  end.
Fixpoint outs_eqb (a b : list out) : bool :=
  match a, b with
  | [], [] => true
  | x :: a', y :: b' => out_eqb x y && outs_eqb a' b'
  | _, _ => false
  end.

(* the property on one observed trace: under the client contract the observed
   outputs are those of the FIFO specification *)
Definition C20_check (ops : list op) (obs : list out) : bool :=
  if wf ops then outs_eqb (snd (srun sinit ops)) obs else true.
