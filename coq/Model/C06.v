(* C06 — model of lib/store/disk (store.go, crash_recovery.go, pather.go) at the level of the
   mutating file-system calls the store makes, typed by the store's directory layout
   (DESIGN §3 "Crashes").  Executable definitions only; proofs live in Proof/C06*.v.

   Layout (pather.go:30-52):   <root>/{complete,incomplete}/<shard>*/<key>/{data,_size,_eviction_banned,<md>,<md>-tmp}
   A store operation is a program whose mutating calls are listed by [step]; [exec] runs calls on the
   disk; a crash after the k-th completed mutating call leaves [exec (firstn k calls) disk]; [recover]
   is the model of disk.NewStore -> rebootPersistedStore on such a disk.

   The model is of the FIXED recovery (fixes/C06_*.patch): an entry that cannot be rebooted (data file
   missing, `_size` sidecar missing or undecodable) is dropped AND its leftover directory removed.
   The pre-fix behaviour is kept as [recover_old] (refuted in Properties/C06.v). *)
From Coq Require Import List NArith Bool.
Import ListNotations.
Local Open Scope N_scope.

Definition bytes := list N.

(* ---------------------------------------------------------------- small helpers *)
Fixpoint aget {V} (k : N) (m : list (N * V)) : option V :=
  match m with
  | [] => None
  | (k', v) :: t => if k' =? k then Some v else aget k t
  end.
Definition adel {V} (k : N) (m : list (N * V)) : list (N * V) := filter (fun p => negb (fst p =? k)) m.
Definition aset {V} (k : N) (v : V) (m : list (N * V)) : list (N * V) := (k, v) :: adel k m.

Definition upd {V} (f : N -> V) (k : N) (v : V) : N -> V := fun y => if y =? k then v else f y.

Definition isSome {A} (o : option A) : bool := match o with Some _ => true | None => false end.

Definition addk (k : N) (l : list N) : list N := if existsb (N.eqb k) l then l else k :: l.

Definition nrange (n : N) : list N := map N.of_nat (seq 0 (N.to_nat n)).

(* file contents: pwrite(2) / write(2) at an absolute offset; the hole is zero-filled *)
Definition write_at (c : bytes) (off : N) (data : bytes) : bytes :=
  let o := N.to_nat off in
  firstn o c ++ repeat 0 (o - length c)%nat ++ data ++ skipn (o + length data)%nat c.

(* strconv.Itoa / strconv.Atoi on the `_size` sidecar (store.go:206, crash_recovery.go:177) *)
Fixpoint digits_lsf (fuel : nat) (n : N) : list N :=
  match fuel with
  | O => []
  | S f => (n mod 10) :: (if n / 10 =? 0 then [] else digits_lsf f (n / 10))
  end.
Definition dec (n : N) : bytes := rev (map (fun d => 48 + d) (digits_lsf (S (N.to_nat n)) n)).
Fixpoint val_lsf (l : list N) : N := match l with [] => 0 | d :: t => d + 10 * val_lsf t end.
Definition is_digit (c : N) : bool := (48 <=? c) && (c <=? 57).
Definition undec (s : bytes) : option N :=
  match s with
  | [] => None                                                     (* Atoi(""): syntax error *)
  | _ => if forallb is_digit s then Some (val_lsf (map (fun c => c - 48) (rev s))) else None
  end.

(* ---------------------------------------------------------------- the layout-typed disk *)
Inductive area := AComp | AInc.
Inductive fname := FData | FSize | FBan | FMd (s : N) | FTmp (s : N).
Inductive omode := OExcl | OPlain | OTrunc.     (* O_CREAT|O_EXCL, O_CREAT, O_CREAT|O_TRUNC *)

(* one blob directory *)
Record bdir := mkbdir { d_data : option bytes; d_sizef : option bytes; d_ban : bool;
                        d_md : list (N * bytes); d_tmp : list (N * bytes) }.
Definition empty_dir : bdir := mkbdir None None false [] [].

Definition fget (f : fname) (d : bdir) : option bytes :=
  match f with
  | FData => d_data d
  | FSize => d_sizef d
  | FBan => if d_ban d then Some [] else None
  | FMd s => aget s (d_md d)
  | FTmp s => aget s (d_tmp d)
  end.
Definition fset (f : fname) (c : option bytes) (d : bdir) : bdir :=
  match f with
  | FData => mkbdir c (d_sizef d) (d_ban d) (d_md d) (d_tmp d)
  | FSize => mkbdir (d_data d) c (d_ban d) (d_md d) (d_tmp d)
  | FBan => mkbdir (d_data d) (d_sizef d) (isSome c) (d_md d) (d_tmp d)
  | FMd s => mkbdir (d_data d) (d_sizef d) (d_ban d)
                    (match c with Some b => aset s b (d_md d) | None => adel s (d_md d) end) (d_tmp d)
  | FTmp s => mkbdir (d_data d) (d_sizef d) (d_ban d) (d_md d)
                     (match c with Some b => aset s b (d_tmp d) | None => adel s (d_tmp d) end)
  end.
Definition dir_empty (d : bdir) : bool :=
  match d_data d, d_sizef d, d_md d, d_tmp d with
  | None, None, [], [] => negb (d_ban d)
  | _, _, _, _ => false
  end.

(* what exists on disk for one key: (complete/<key>, incomplete/<key>) *)
Definition kview := (option bdir * option bdir)%type.
Definition vget (a : area) (v : kview) : option bdir := match a with AComp => fst v | AInc => snd v end.
Definition vset (a : area) (o : option bdir) (v : kview) : kview :=
  match a with AComp => (o, snd v) | AInc => (fst v, o) end.

(* the mutating calls the store makes, normalised to the layout *)
Inductive call :=
| CMkShard (a : area) (p : list N)                         (* mkdir of <area> (p = []) or of a shard dir *)
| CMkBlob (a : area) (k : N)                               (* mkdir of a blob dir *)
| COpen (a : area) (k : N) (f : fname) (m : omode)         (* open(2) with O_CREAT *)
| CWrite (a : area) (k : N) (f : fname) (off : N) (data : bytes)
| CRenDir (k : N)                                          (* rename incomplete/<k> -> complete/<k> *)
| CRenFile (a : area) (k : N) (f g : fname)
| CUnlink (a : area) (k : N) (f : fname)
| CRmBlob (a : area) (k : N)                               (* rmdir of a blob dir *)
| CBad (n : N).                                            (* harness: a call outside the layout *)

Definition call_key (c : call) : option N :=
  match c with
  | CMkShard _ _ | CBad _ => None
  | CMkBlob _ k | COpen _ k _ _ | CWrite _ k _ _ _ | CRenDir k | CRenFile _ k _ _ | CUnlink _ k _ | CRmBlob _ k => Some k
  end.

(* effect of a call on its key's directories; None = the system call fails *)
Definition kstep (c : call) (v : kview) : option kview :=
  match c with
  | CMkBlob a _ => match vget a v with None => Some (vset a (Some empty_dir) v) | Some _ => None end
  | COpen a _ f m =>
      match vget a v with
      | None => None
      | Some d =>
          match m, fget f d with
          | OExcl, Some _ => None
          | OPlain, Some _ => Some v
          | _, _ => Some (vset a (Some (fset f (Some []) d)) v)
          end
      end
  | CWrite a _ f off data =>
      match vget a v with
      | None => None
      | Some d => match fget f d with
                  | None => None
                  | Some c0 => Some (vset a (Some (fset f (Some (write_at c0 off data)) d)) v)
                  end
      end
  | CRenDir _ =>
      match snd v with
      | None => None
      | Some d => match fst v with
                  | None => Some (Some d, None)
                  | Some d' => if dir_empty d' then Some (Some d, None) else None   (* ENOTEMPTY *)
                  end
      end
  | CRenFile a _ f g =>
      match vget a v with
      | None => None
      | Some d => match fget f d with
                  | None => None
                  | Some c0 => Some (vset a (Some (fset g (Some c0) (fset f None d))) v)
                  end
      end
  | CUnlink a _ f =>
      match vget a v with
      | None => None
      | Some d => match fget f d with
                  | None => None
                  | Some _ => Some (vset a (Some (fset f None d)) v)
                  end
      end
  | CRmBlob a _ =>
      match vget a v with
      | None => None
      | Some d => if dir_empty d then Some (vset a None v) else None
      end
  | CMkShard _ _ | CBad _ => None
  end.

(* [dom] = every key that ever had a directory: the enumeration a directory walk
   (pather.go:54 rebootKeys) and the in-memory map range over. *)
Record fs := mkfs { blobs : N -> kview; dom : list N; sdirs : list (area * list N) }.

Definition area_eqb (a b : area) : bool := match a, b with AComp, AComp | AInc, AInc => true | _, _ => false end.
Fixpoint nlist_eqb (a b : list N) : bool :=
  match a, b with
  | [], [] => true
  | x :: a', y :: b' => (x =? y) && nlist_eqb a' b'
  | _, _ => false
  end.
Definition sd_mem (a : area) (p : list N) (sd : list (area * list N)) : bool :=
  existsb (fun q => area_eqb a (fst q) && nlist_eqb p (snd q)) sd.

Definition call_ok (f : fs) (c : call) : bool :=
  match c with
  | CMkShard a p => negb (sd_mem a p (sdirs f))
  | CBad _ => false
  | _ => match call_key c with Some y => isSome (kstep c (blobs f y)) | None => false end
  end.
(* a failing call changes nothing *)
Definition apply_call (f : fs) (c : call) : fs :=
  match c with
  | CMkShard a p => mkfs (blobs f) (dom f) ((a, p) :: sdirs f)
  | _ => match call_key c with
         | Some y => mkfs (match kstep c (blobs f y) with Some v' => upd (blobs f) y v' | None => blobs f end)
                          (addk y (dom f)) (sdirs f)
         | None => f
         end
  end.
Definition exec (cs : list call) (f : fs) : fs := fold_left apply_call cs f.
Fixpoint all_ok (cs : list call) (f : fs) : bool :=
  match cs with [] => true | c :: t => call_ok f c && all_ok t (apply_call f c) end.

(* ---------------------------------------------------------------- the store *)
Record cfg := mkcfg { c_ri : bool;                        (* Config.RebootIncompleteBlobs *)
                      c_cap : N;                          (* Config.CapacityBytes *)
                      c_nsfx : N;                         (* registered metadata kinds 0..n-1; movable iff odd *)
                      c_kpath : list (N * list N) }.      (* pather.go:36-46: shard components of each key *)
Definition shard_path (c : cfg) (x : N) : list N := match aget x (c_kpath c) with Some p => p | None => [] end.

Record ment := mkment { e_size : N; e_complete : bool; e_banned : bool }.   (* store.go:49 blob *)
Record state := mkst { mem : N -> option ment; msize : N; disk : fs }.
Definition init : state := mkst (fun _ => None) 0 (mkfs (fun _ => (None, None)) [] []).

Definition area_of (e : ment) : area := if e_complete e then AComp else AInc.
Definition size_of (o : option ment) : N := match o with Some e => e_size e | None => 0 end.
Definition evictable (o : option ment) : bool :=
  match o with Some e => e_complete e && negb (e_banned e) | None => false end.

Inductive out := OOk | ONotExist | OExist | ONoSpace | OErr | OIllegal.

(* Operations. The order in which os.RemoveAll unlinks a directory's files ([ord]) is an oracle: the
   harness fills in what the implementation did, the model checks the choice is legal, theorems
   quantify over every legal choice.  One iteration of ensureFreeSpace's loop (store.go:216-237) is its
   own step [Evict y sz ord] (sz = the reservation the pending Create asks for); WHICH evictable
   blob goes first is the LRU policy, owned by C07/C08, and an oracle here. *)
Inductive op :=
| Evict (y sz : N) (ord : list fname)
| Create (x sz : N)
| WriteAt (x off : N) (data : bytes)                      (* Open + WriteAt + Close *)
| MarkComplete (x : N)
| Delete (x : N) (ord : list fname)
| Ban (x : N)
| Unban (x : N)
| SetMd (x s : N) (data : bytes)
| DelMd (x s : N)
| WriteAtMd (x s off : N) (data : bytes).

(* os.RemoveAll(dir): unlink every file in readdir order, then rmdir *)
Fixpoint rm_files (ord : list fname) (d : bdir) : option bdir :=
  match ord with
  | [] => Some d
  | f :: t => match fget f d with Some _ => rm_files t (fset f None d) | None => None end
  end.
Definition legal_order (ord : list fname) (o : option bdir) : bool :=
  match o with
  | Some d => match rm_files ord d with Some d' => dir_empty d' | None => false end
  | None => match ord with [] => true | _ => false end
  end.
Definition rm_calls (a : area) (y : N) (ord : list fname) (o : option bdir) : list call :=
  match o with
  | Some _ => map (CUnlink a y) ord ++ [CRmBlob a y]
  | None => []
  end.

(* os.MkdirAll (store.go:171, 273): one mkdir per missing ancestor, top down *)
Fixpoint inits {A} (l : list A) : list (list A) :=
  [] :: match l with [] => [] | x :: t => map (cons x) (inits t) end.
Definition mkdirall (a : area) (p : list N) (sd : list (area * list N)) : list call :=
  map (CMkShard a) (filter (fun q => negb (sd_mem a q sd)) (inits p)).

(* a zero-length write(2) changes nothing and is not a crash point *)
Definition wr (a : area) (x : N) (f : fname) (off : N) (data : bytes) : list call :=
  match data with [] => [] | _ => [CWrite a x f off data] end.

(* store.go:299 tryDeleteImmovableMetadata: os.ReadDir is sorted by name *)
Definition immovables (c : cfg) (d : bdir) : list N :=
  filter (fun s => N.even s && isSome (aget s (d_md d))) (nrange (c_nsfx c)).

Definition set_e (m : N -> option ment) (x : N) (e : ment) := upd m x (Some e).

Definition step (c : cfg) (s : state) (o : op) : state * out * list call :=
  let f := disk s in
  let fin (m : N -> option ment) (ms : N) (r : out) (cs : list call) := (mkst m ms (exec cs f), r, cs) in
  match o with
  | Evict y sz ord =>                                                                   (* store.go:216-237 *)
      if msize s + sz <=? c_cap c then (s, OIllegal, [])                                (* loop condition *)
      else match mem s y with
           | Some e =>
               let o := fst (blobs f y) in
               if evictable (Some e) && legal_order ord o
               then fin (upd (mem s) y None) (msize s - e_size e) OOk (rm_calls AComp y ord o)
               else (s, OIllegal, [])
           | None => (s, OIllegal, [])
           end
  | Create x sz =>                                                                      (* store.go:158 *)
      match mem s x with
      | Some _ => (s, OExist, [])
      | None =>
          if negb (msize s + sz <=? c_cap c)                                            (* store.go:209 *)
          then if existsb (fun y => evictable (mem s y)) (dom f) then (s, OIllegal, []) (* it would evict *)
               else (s, ONoSpace, [])                                                   (* store.go:217 *)
          else
            let vi := snd (blobs f x) in
            let mk := mkdirall AInc (shard_path c x) (sdirs f)
                      ++ match vi with None => [CMkBlob AInc x] | Some _ => [] end in
            let d0 := match vi with Some d => d | None => empty_dir end in
            match d_data d0 with
            | Some _ => fin (mem s) (msize s) OErr mk                                   (* O_EXCL: store.go:178 *)
            | None =>
                let szc := if c_ri c                                                    (* store.go:183, 199 *)
                           then match d_sizef d0 with
                                | None => COpen AInc x FSize OExcl :: wr AInc x FSize 0 (dec sz)
                                | Some _ => []                                          (* fail-open *)
                                end
                           else [] in
                fin (set_e (mem s) x (mkment sz false false)) (msize s + sz) OOk
                    (mk ++ [COpen AInc x FData OExcl] ++ szc)
            end
      end
  | WriteAt x off data =>                                                               (* store.go:104 Open *)
      match mem s x with
      | None => (s, ONotExist, [])
      | Some e =>
          match vget (area_of e) (blobs f x) with
          | Some d => match d_data d with
                      | Some _ => fin (mem s) (msize s) OOk (wr (area_of e) x FData off data)
                      | None => (s, ONotExist, [])
                      end
          | None => (s, ONotExist, [])
          end
      end
  | MarkComplete x =>                                                                   (* store.go:258 *)
      match mem s x with
      | None => (s, ONotExist, [])
      | Some e =>
          if e_complete e then (s, OOk, [])
          else
            let mk := mkdirall AComp (shard_path c x) (sdirs f) in
            match kstep (CRenDir x) (blobs f x), snd (blobs f x) with
            | Some _, Some d =>
                fin (set_e (mem s) x (mkment (e_size e) true (e_banned e))) (msize s) OOk
                    (mk ++ [CRenDir x] ++ map (fun sfx => CUnlink AComp x (FMd sfx)) (immovables c d))
            | _, _ => fin (mem s) (msize s) OErr mk
            end
      end
  | Delete x ord =>                                                                     (* store.go:335 *)
      match mem s x with
      | None => (s, ONotExist, [])
      | Some e =>
          let o := vget (area_of e) (blobs f x) in
          if legal_order ord o
          then fin (upd (mem s) x None) (msize s - e_size e) OOk (rm_calls (area_of e) x ord o)
          else (s, OIllegal, [])
      end
  | Ban x =>                                                                            (* store.go:373 *)
      match mem s x with
      | None => (s, ONotExist, [])
      | Some e =>
          if e_banned e then (s, OOk, [])
          else match vget (area_of e) (blobs f x) with
               | Some _ => fin (set_e (mem s) x (mkment (e_size e) (e_complete e) true)) (msize s) OOk
                               [COpen (area_of e) x FBan OPlain]
               | None => (s, OErr, [])
               end
      end
  | Unban x =>                                                                          (* store.go:406 *)
      match mem s x with
      | None => (s, ONotExist, [])
      | Some e =>
          if negb (e_banned e) then (s, OOk, [])
          else match kstep (CUnlink (area_of e) x FBan) (blobs f x) with
               | Some _ => fin (set_e (mem s) x (mkment (e_size e) (e_complete e) false)) (msize s) OOk
                               [CUnlink (area_of e) x FBan]
               | None => (s, OErr, [])
               end
      end
  | SetMd x sfx data =>                                                                 (* store.go:437 *)
      match mem s x with
      | None => (s, ONotExist, [])
      | Some e =>
          let a := area_of e in
          match vget a (blobs f x) with
          | Some _ => fin (mem s) (msize s) OOk
                          (COpen a x (FTmp sfx) OTrunc :: wr a x (FTmp sfx) 0 data ++ [CRenFile a x (FTmp sfx) (FMd sfx)])
          | None => (s, OErr, [])
          end
      end
  | DelMd x sfx =>                                                                      (* store.go:504 *)
      match mem s x with
      | None => (s, ONotExist, [])
      | Some e =>
          match kstep (CUnlink (area_of e) x (FMd sfx)) (blobs f x) with
          | Some _ => fin (mem s) (msize s) OOk [CUnlink (area_of e) x (FMd sfx)]
          | None => (s, OOk, [])
          end
      end
  | WriteAtMd x sfx off data =>                                                         (* store.go:566 *)
      match mem s x with
      | None => (s, ONotExist, [])
      | Some e =>
          let a := area_of e in
          match vget a (blobs f x) with
          | Some d => match aget sfx (d_md d) with
                      | Some _ => fin (mem s) (msize s) OOk (wr a x (FMd sfx) off data)
                      | None => (s, OErr, [])
                      end
          | None => (s, OErr, [])
          end
      end
  end.

Definition st_of (r : state * out * list call) : state := fst (fst r).
Definition out_of (r : state * out * list call) : out := snd (fst r).
Definition calls_of (r : state * out * list call) : list call := snd r.

(* the disk after a crash in the middle of [o]: the first k mutating calls completed *)
Definition crash (c : cfg) (s : state) (o : op) (k : nat) : fs :=
  exec (firstn k (calls_of (step c s o))) (disk s).

(* ---------------------------------------------------------------- recovery: disk.NewStore on a crashed disk *)
(* crash_recovery.go:122 rebootBlob for a directory under complete/ *)
Definition rec_comp (o : option bdir) : option ment * option bdir :=
  match o with
  | None => (None, None)
  | Some d => match d_data d with
              | Some b => (Some (mkment (N.of_nat (length b)) true (d_ban d)), Some d)
              | None => (None, None)                       (* fix: the leftover directory is removed *)
              end
  end.
(* ... and under incomplete/ (crash_recovery.go:29, 141, 160) *)
Definition rec_inc (ri : bool) (o : option bdir) : option ment * option bdir :=
  if ri then
    match o with
    | None => (None, None)
    | Some d => match d_data d, d_sizef d with
                | Some _, Some sb => match undec sb with
                                     | Some n => (Some (mkment n false (d_ban d)), Some d)
                                     | None => (None, None)   (* fix: undecodable size = missing size *)
                                     end
                | _, _ => (None, None)
                end
    end
  else (None, None).                                         (* RemoveAll(incomplete) *)
Definition rec_view (ri : bool) (v : kview) : option ment * kview :=
  let rc := rec_comp (fst v) in
  let rn := rec_inc ri (snd v) in
  (match fst rc with Some e => Some e | None => fst rn end, (snd rc, snd rn)).

Definition sum_sizes (m : N -> option ment) (dm : list N) : N :=
  fold_right (fun y acc => size_of (m y) + acc) 0 dm.
Definition keep_comp (q : area * list N) : bool := match fst q with AComp => true | AInc => false end.

(* existsPersistedStore (crash_recovery.go:181) only chooses between "empty store" and a reboot
   that finds nothing: on a real file system no blob directory exists without its area root.
   Reboot-time eviction (store over capacity, crash_recovery.go:108) is not modelled: [None]. *)
Definition recover (c : cfg) (f : fs) : option state :=
  let m := fun y => fst (rec_view (c_ri c) (blobs f y)) in
  let total := sum_sizes m (dom f) in
  if total <=? c_cap c
  then Some (mkst m total
               (mkfs (fun y => snd (rec_view (c_ri c) (blobs f y))) (dom f)
                     (if c_ri c then sdirs f else filter keep_comp (sdirs f))))
  else None.

(* ---- the recovery as it is at the pinned commit (before fixes/C06_*.patch) *)
Definition rec_comp_old (o : option bdir) : option ment * option bdir :=
  match o with
  | None => (None, None)
  | Some d => match d_data d with
              | Some b => (Some (mkment (N.of_nat (length b)) true (d_ban d)), Some d)
              | None => (None, Some d)                     (* skipped, left on disk *)
              end
  end.
Definition rec_inc_old (ri : bool) (o : option bdir) : option (option ment * option bdir) :=
  if ri then
    match o with
    | None => Some (None, None)
    | Some d => match d_data d, d_sizef d with
                | Some _, Some sb => match undec sb with
                                     | Some n => Some (Some (mkment n false (d_ban d)), Some d)
                                     | None => None         (* NewStore fails: "unexpected format" *)
                                     end
                | _, _ => Some (None, Some d)
                end
    end
  else Some (None, None).
Definition recover_old (c : cfg) (f : fs) : option state :=
  if forallb (fun y => isSome (rec_inc_old (c_ri c) (snd (blobs f y)))) (dom f) then
    let rv := fun y => let rc := rec_comp_old (fst (blobs f y)) in
                       match rec_inc_old (c_ri c) (snd (blobs f y)) with
                       | Some rn => (match fst rc with Some e => Some e | None => fst rn end, (snd rc, snd rn))
                       | None => (None, blobs f y)
                       end in
    let m := fun y => fst (rv y) in
    let total := sum_sizes m (dom f) in
    if total <=? c_cap c
    then Some (mkst m total (mkfs (fun y => snd (rv y)) (dom f)
                                  (if c_ri c then sdirs f else filter keep_comp (sdirs f))))
    else None
  else None.

(* ---------------------------------------------------------------- histories *)
Record stepr := mkstepr { sr_pre : state; sr_op : op; sr_out : out; sr_calls : list call; sr_post : state }.
Fixpoint run (c : cfg) (s : state) (ops : list op) : list stepr :=
  match ops with
  | [] => []
  | o :: t => let r := step c s o in
              mkstepr s o (out_of r) (calls_of r) (st_of r) :: run c (st_of r) t
  end.
Definition final (s : state) (rs : list stepr) : state := match rev rs with r :: _ => sr_post r | [] => s end.
Definition trace (rs : list stepr) : list call := flat_map sr_calls rs.

(* every crash point of a history, in trace order: (in-flight step, number of its calls done);
   the last point (after everything) is handled separately *)
Definition crash_points (rs : list stepr) : list (stepr * nat) :=
  flat_map (fun r => map (fun j => (r, j)) (seq 0 (length (sr_calls r)))) rs.
Definition crash_disk (p : stepr * nat) : fs := exec (firstn (snd p) (sr_calls (fst p))) (disk (sr_pre (fst p))).

(* ---------------------------------------------------------------- observables *)
Record kobs := mkkobs { o_present : bool; o_complete : bool; o_size : N; o_banned : bool;
                        o_bytes : bytes; o_mds : list (option bytes) }.
Record robs := mkrobs { r_ok : bool; r_total : N; r_keys : list kobs; r_probe : list (bool * bool * bool) }.
Definition absent : kobs := mkkobs false false 0 false [] [].

Definition keys_of (c : cfg) : list N := map fst (c_kpath c).

Definition observe_key (c : cfg) (s : state) (x : N) : kobs :=
  match mem s x with
  | None => absent
  | Some e =>
      match vget (area_of e) (blobs (disk s) x) with
      | Some d => mkkobs true (e_complete e) (e_size e) (e_banned e)
                         (match d_data d with Some b => b | None => [] end)
                         (map (fun sfx => aget sfx (d_md d)) (nrange (c_nsfx c)))
      | None => mkkobs true (e_complete e) 999999 (e_banned e) [] []
      end
  end.

(* some legal unlink order (the probe's Delete; only success matters) *)
Fixpoint nodupN (l : list N) : list N :=
  match l with [] => [] | x :: t => if existsb (N.eqb x) t then nodupN t else x :: nodupN t end.
Definition files_of (d : bdir) : list fname :=
  (match d_data d with Some _ => [FData] | None => [] end)
  ++ (match d_sizef d with Some _ => [FSize] | None => [] end)
  ++ (if d_ban d then [FBan] else [])
  ++ map FMd (nodupN (map fst (d_md d))) ++ map FTmp (nodupN (map fst (d_tmp d))).

Definition is_ok (o : out) : bool := match o with OOk => true | _ => false end.
Definition ample (c : cfg) : cfg := mkcfg (c_ri c) 1099511627776 (c_nsfx c) (c_kpath c).

(* "every key can be created and completed again": (Delete if present,) Create, MarkComplete *)
Definition probe_key (c : cfg) (s : state) (x : N) : state * (bool * bool * bool) :=
  let r1 := match mem s x with
            | Some e => let r := step c s (Delete x (match vget (area_of e) (blobs (disk s) x) with
                                                    | Some d => files_of d | None => [] end)) in
                        (st_of r, is_ok (out_of r))
            | None => (s, true)
            end in
  let r2 := step c (fst r1) (Create x 1) in
  let r3 := step c (st_of r2) (MarkComplete x) in
  (st_of r3, (snd r1, is_ok (out_of r2),
              is_ok (out_of r3) && match mem (st_of r3) x with Some e => e_complete e | None => false end)).
Fixpoint probe (c : cfg) (s : state) (xs : list N) : list (bool * bool * bool) :=
  match xs with
  | [] => []
  | x :: t => let r := probe_key c s x in snd r :: probe c (fst r) t
  end.

Definition observe (c : cfg) (o : option state) : robs :=
  match o with
  | None => mkrobs false 0 [] []
  | Some s => mkrobs true (msize s) (map (observe_key c s) (keys_of c)) (probe (ample c) s (keys_of c))
  end.

(* what the model says the real recovery shows at every crash point of a history *)
Definition model_recs (c : cfg) (ops : list op) : list robs :=
  let rs := run c init ops in
  map (fun p => observe c (recover c (crash_disk p))) (crash_points rs)
  ++ [observe c (recover c (disk (final init rs)))].

(* ---------------------------------------------------------------- the property on one observed history *)
Definition obytes_eqb (a b : option bytes) : bool :=
  match a, b with
  | None, None => true
  | Some x, Some y => nlist_eqb x y
  | _, _ => false
  end.
Fixpoint list_eqb {A} (eq : A -> A -> bool) (a b : list A) : bool :=
  match a, b with
  | [], [] => true
  | x :: a', y :: b' => eq x y && list_eqb eq a' b'
  | _, _ => false
  end.
Definition kobs_eqb (a b : kobs) : bool :=
  Bool.eqb (o_present a) (o_present b) && Bool.eqb (o_complete a) (o_complete b) && (o_size a =? o_size b)
  && Bool.eqb (o_banned a) (o_banned b) && nlist_eqb (o_bytes a) (o_bytes b) && list_eqb obytes_eqb (o_mds a) (o_mds b).
Definition probe_eqb (a b : bool * bool * bool) : bool :=
  Bool.eqb (fst (fst a)) (fst (fst b)) && Bool.eqb (snd (fst a)) (snd (fst b)) && Bool.eqb (snd a) (snd b).
Definition robs_eqb (a b : robs) : bool :=
  Bool.eqb (r_ok a) (r_ok b) && (r_total a =? r_total b) && list_eqb kobs_eqb (r_keys a) (r_keys b)
  && list_eqb probe_eqb (r_probe a) (r_probe b).

(* What a key must look like after recovery when the store's state was [s] and nothing was in
   flight on it: complete blobs with bytes / ban / metadata and their real size, incomplete blobs
   with their reserved size (RebootIncompleteBlobs) or dropped. *)
Definition expect (c : cfg) (s : state) (x : N) : kobs :=
  match mem s x with
  | None => absent
  | Some e =>
      let k := observe_key c s x in
      if e_complete e then mkkobs true true (N.of_nat (length (o_bytes k))) (e_banned e) (o_bytes k) (o_mds k)
      else if c_ri c then k else absent
  end.

(* keys whose directory the operation is removing *)
Definition removes (o : op) (x : N) : bool :=
  match o with
  | Delete y _ | Evict y _ _ => y =? x
  | _ => false
  end.
Definition md_sub (a b : option bytes) : bool := match a with None => true | Some _ => obytes_eqb a b end.
(* interrupted removal: gone, or still listed with its bytes and a subset of its sidecars *)
Definition degraded (pre k : kobs) : bool :=
  negb (o_present k)
  || (o_present pre && o_present k && Bool.eqb (o_complete k) (o_complete pre) && (o_size k =? o_size pre)
      && implb (o_banned k) (o_banned pre) && nlist_eqb (o_bytes k) (o_bytes pre)
      && list_eqb md_sub (o_mds k) (o_mds pre)).
(* interrupted MarkComplete after the rename: complete, immovable metadata partly removed *)
Fixpoint mds_mc (i : N) (k pre : list (option bytes)) : bool :=
  match k, pre with
  | [], [] => true
  | a :: k', b :: pre' => (if N.even i then md_sub a b else obytes_eqb a b) && mds_mc (N.succ i) k' pre'
  | _, _ => false
  end.
Definition mid_complete (c : cfg) (s : state) (o : op) (x : N) (k : kobs) : bool :=
  match o, mem s x with
  | MarkComplete y, Some e =>
      let p := observe_key c s x in
      (y =? x) && negb (e_complete e) && o_present k && o_complete k
      && (o_size k =? N.of_nat (length (o_bytes p))) && Bool.eqb (o_banned k) (e_banned e)
      && nlist_eqb (o_bytes k) (o_bytes p) && mds_mc 0 (o_mds k) (o_mds p)
  | _, _ => false
  end.

Definition key_allowed (c : cfg) (r : stepr) (x : N) (k : kobs) : bool :=
  kobs_eqb k (expect c (sr_pre r) x) || kobs_eqb k (expect c (sr_post r) x)
  || (removes (sr_op r) x && degraded (expect c (sr_pre r) x) k)
  || mid_complete c (sr_pre r) (sr_op r) x k.

Definition all_true3 (p : bool * bool * bool) : bool := fst (fst p) && snd (fst p) && snd p.
Definition sum_obs (ks : list kobs) : N := fold_right (fun k acc => (if o_present k then o_size k else 0) + acc) 0 ks.

Fixpoint forall2b {A B} (f : A -> B -> bool) (a : list A) (b : list B) : bool :=
  match a, b with
  | [], [] => true
  | x :: a', y :: b' => f x y && forall2b f a' b'
  | _, _ => false
  end.

(* one crash point: reopen succeeded; every key is as before or as after the in-flight operation
   (or a legal intermediate of a removal / completion); every key is reusable; size is the sum *)
Definition point_ok (c : cfg) (r : stepr) (ob : robs) : bool :=
  r_ok ob && forall2b (key_allowed c r) (keys_of c) (r_keys ob)
  && forallb all_true3 (r_probe ob) && Nat.eqb (length (r_probe ob)) (length (keys_of c))
  && (r_total ob =? sum_obs (r_keys ob)).
Definition final_ok (c : cfg) (s : state) (ob : robs) : bool :=
  r_ok ob && forall2b (fun x k => kobs_eqb k (expect c s x)) (keys_of c) (r_keys ob)
  && forallb all_true3 (r_probe ob) && Nat.eqb (length (r_probe ob)) (length (keys_of c))
  && (r_total ob =? sum_obs (r_keys ob)).

(* client contract under which the theorems hold: the oracles are legal, data writes stay inside the
   reserved size, metadata kinds are registered ones *)
Definition wf_op (c : cfg) (s : state) (o : op) : bool :=
  negb (match out_of (step c s o) with OIllegal => true | _ => false end)
  && match o with
     | WriteAt x off data => match mem s x with
                             | Some e => off + N.of_nat (length data) <=? e_size e
                             | None => true
                             end
     | SetMd _ sfx _ | DelMd _ sfx | WriteAtMd _ sfx _ _ => sfx <? c_nsfx c
     | _ => true
     end.
Fixpoint wf_run (c : cfg) (rs : list stepr) : bool :=
  match rs with [] => true | r :: t => wf_op c (sr_pre r) (sr_op r) && wf_run c t end.

Definition C06_check (c : cfg) (ops : list op) (recs : list robs) : bool :=
  let rs := run c init ops in
  if wf_run c rs then
    let pts := crash_points rs in
    Nat.eqb (length recs) (S (length pts))
    && forall2b (fun p ob => point_ok c (fst p) ob) pts (firstn (length pts) recs)
    && match skipn (length pts) recs with
       | [ob] => final_ok c (final init rs) ob
       | _ => false
       end
  else true.

(* ---------------------------------------------------------------- specification vocabulary of the theorems *)
(* the calls of a list that act on key y, and their effect on y's directories *)
Definition touches (y : N) (c : call) : bool := match call_key c with Some k => k =? y | None => false end.
Definition kapply (v : kview) (c : call) : kview := match kstep c v with Some v' => v' | None => v end.
Definition kexec (cs : list call) (v : kview) : kview := fold_left kapply cs v.

Definition target (o : op) : N :=
  match o with
  | Evict x _ _ | Create x _ | WriteAt x _ _ | MarkComplete x | Delete x _ | Ban x | Unban x
  | SetMd x _ _ | DelMd x _ | WriteAtMd x _ _ _ => x
  end.

(* Every state the store can be in: fresh; after a completed operation; after a crash at ANY point
   of an operation followed by recovery (so histories with any number of crashes are covered). *)
Inductive reach (c : cfg) : state -> Prop :=
| reach_init : reach c init
| reach_step : forall s o, reach c s -> wf_op c s o = true -> reach c (st_of (step c s o))
| reach_crash : forall s o k s', reach c s -> wf_op c s o = true ->
                                 recover c (crash c s o k) = Some s' -> reach c s'.

(* what the property says must survive of a blob: its bytes, its eviction ban, its metadata *)
Definition pub (d : bdir) : option bytes * bool * list (N * bytes) := (d_data d, d_ban d, d_md d).
Definition dir_of (s : state) (x : N) : option bdir :=
  match mem s x with Some e => vget (area_of e) (blobs (disk s) x) | None => None end.

(* "every key can be created and completed again": (Delete if present, unlink order [ord]), Create, MarkComplete *)
Definition reuse (c : cfg) (s : state) (x sz : N) (ord : list fname) : bool :=
  let r1 := match mem s x with
            | Some _ => let r := step c s (Delete x ord) in (st_of r, is_ok (out_of r))
            | None => (s, true)
            end in
  let r2 := step c (fst r1) (Create x sz) in
  let r3 := step c (st_of r2) (MarkComplete x) in
  snd r1 && is_ok (out_of r2) && is_ok (out_of r3)
  && match mem (st_of r3) x with Some e => e_complete e | None => false end.

(* the state after a history of completed operations, and the client contract along it *)
Definition after (c : cfg) (s : state) (ops : list op) : state := fold_left (fun s o => st_of (step c s o)) ops s.
Fixpoint wf_all (c : cfg) (s : state) (ops : list op) : bool :=
  match ops with [] => true | o :: t => wf_op c s o && wf_all c (st_of (step c s o)) t end.

(* ---- a crash DURING recovery. Recovery itself removes directories: the whole incomplete area when
   RebootIncompleteBlobs is off (crash_recovery.go:29) and, with the fix, every entry it drops. An
   interrupted os.RemoveAll leaves the directory with a subset of its files (or nothing). *)
Definition dsub (d' d : bdir) : Prop :=
  (d_data d' = d_data d \/ d_data d' = None) /\ (d_sizef d' = d_sizef d \/ d_sizef d' = None) /\
  (d_ban d' = true -> d_ban d = true) /\ (forall s v, aget s (d_md d') = Some v -> aget s (d_md d) = Some v).
Definition osub (o' o : option bdir) : Prop :=
  o' = None \/ exists d d', o = Some d /\ o' = Some d' /\ dsub d' d.
(* f' = the disk f after recovery was interrupted at any point: kept entries untouched, entries that
   recovery drops (and everything under incomplete/ when it is wiped) partially or fully removed *)
Definition interrupted_recovery (c : cfg) (f f' : fs) : Prop :=
  dom f' = dom f /\
  forall x,
    (if isSome (fst (rec_comp (fst (blobs f x)))) then fst (blobs f' x) = fst (blobs f x)
     else osub (fst (blobs f' x)) (fst (blobs f x))) /\
    (if c_ri c && isSome (fst (rec_inc true (snd (blobs f x)))) then snd (blobs f' x) = snd (blobs f x)
     else osub (snd (blobs f' x)) (snd (blobs f x))).
