(* Model of tracker/peerstore/local.go (LocalStore): a transition system whose atomic steps are
   the lock regions of the file, plus a sequential layer that compiles one observed history
   into a schedule of that transition system (used by the correspondence check).

   Atomic steps (one per mu.Lock()/RLock() ... Unlock() region):
     announcer : lookup/insert group under s.mu (local.go:157-166);
                 lock g.mu, `deleted` retry or update entry (local.go:168-173, 123-137)
     reader    : lookup group under s.mu (local.go:86-88); read list under g.mu (93-115)
     entry cleanup : snapshot under s.mu (191-196); scan g under g.mu.RLock (201-207);
                 remove from g under g.mu.Lock with re-check (215-240)
     group cleanup : holds s.mu for the whole pass (245-246); per group a check region under
                 g.mu.RLock (249-251) and a delete region under g.mu.Lock (259-266)
     clock     : advances by an arbitrary amount between any two regions.
   Pointers are positions in allocation lists (heap of peerGroup objects, per-group heap of
   peerEntry objects); Go map iteration order and rand.Perm are oracles carried by the label.
   Ghost state (never read by the transcribed code): the log of announcements in the order
   their update regions ran, the log at the moment a reader looked its group up, and the log
   at the moment a group was deleted.

   Executable definitions only; proofs are in Proof/C27*.v. *)
From Coq Require Import List NArith ZArith Bool Arith.
Import ListNotations.

(* ---------- data ---------- *)

Record peer := mkpeer { p_id : N; p_ip : N; p_port : N; p_complete : bool }.

Definition peer_eqb (a b : peer) : bool :=
  N.eqb (p_id a) (p_id b) && N.eqb (p_ip a) (p_ip b) && N.eqb (p_port a) (p_port b)
  && Bool.eqb (p_complete a) (p_complete b).

Fixpoint peers_eqb (a b : list peer) : bool :=
  match a, b with
  | [], [] => true
  | x :: a', y :: b' => peer_eqb x y && peers_eqb a' b'
  | _, _ => false
  end.

(* ghost: one announcement = one executed update region (local.go:123-137) *)
Record ann := mkann { a_hash : N; a_peer : peer; a_time : N }.

(* peerEntry (local.go:56): id, ip, port, complete = the peer; expiresAt *)
Record entry := mkent { e_peer : peer; e_exp : N }.
Definition dummy_peer := mkpeer 0 0 0 false.
Definition dummy_entry := mkent dummy_peer 0.

(* peerGroup (local.go:45) *)
Record group := mkgrp {
  g_hash : N;                    (* the key the group was created for *)
  g_ents : list entry;           (* heap of this group's peerEntry objects; pointer = position *)
  g_list : list nat;             (* peerList : pointers *)
  g_map  : list (N * nat);       (* peerMap  : PeerID -> pointer *)
  g_last : N;                    (* lastExpiresAt *)
  g_deleted : bool;
  g_deadlog : list ann           (* ghost: the announcement log when the group was deleted *)
}.
Definition dummy_group := mkgrp 0 [] [] [] 0 true [].

Inductive pc :=
| PAnnLookup (h : N) (p : peer)                       (* about to run local.go:157 *)
| PAnnLockG (h : N) (p : peer) (g : nat)              (* about to run local.go:168 *)
| PRdLookup (h : N) (n : Z)                           (* about to run local.go:86 *)
| PRdRead (h : N) (n : Z) (g : nat) (log0 : list ann) (* about to run local.go:93; log0 ghost *)
| PCeSnapshot                                         (* local.go:191 *)
| PCeScan (todo : list nat)                           (* local.go:198/201 *)
| PCeRemove (g : nat) (expired : list nat) (todo : list nat)   (* local.go:215 *)
| PDone (res : list peer).

(* the group-cleanup pass owns s.mu while it exists (local.go:245) *)
Inductive cg :=
| CgCheck (todo : list (N * nat))                     (* local.go:248-251 for the head of todo *)
| CgDelete (h : N) (g : nat) (todo : list (N * nat)). (* local.go:259-266 *)

Record st := mkst {
  now : N;
  ttl : N;                        (* config.TTL, constant *)
  heap : list group;              (* every peerGroup ever allocated; pointer = position *)
  gmap : list (N * nat);          (* s.peerGroups *)
  smu : option cg;                (* Some = s.mu write-held by a group-cleanup pass *)
  threads : list pc;
  log : list ann                  (* ghost, newest first *)
}.

Definition init (t : N) : st := mkst 0 t [] [] None [] [].

(* ---------- small list helpers ---------- *)

Fixpoint assoc {A} (k : N) (l : list (N * A)) : option A :=
  match l with
  | [] => None
  | (k', v) :: t => if N.eqb k k' then Some v else assoc k t
  end.

Definition adel {A} (k : N) (l : list (N * A)) : list (N * A) :=
  filter (fun kv => negb (N.eqb k (fst kv))) l.

Fixpoint set_nth {A} (i : nat) (x : A) (l : list A) : list A :=
  match l, i with
  | [], _ => []
  | _ :: t, O => x :: t
  | y :: t, S j => y :: set_nth j x t
  end.

Definition memn (x : nat) (l : list nat) : bool := existsb (Nat.eqb x) l.

Fixpoint nodupb (l : list nat) : bool :=
  match l with
  | [] => true
  | x :: t => negb (memn x t) && nodupb t
  end.

(* oracle legality: a permutation of l (duplicate-free lists) *)
Definition is_perm (o l : list nat) : bool :=
  Nat.eqb (length o) (length l) && nodupb o && forallb (fun x => memn x l) o.

(* ---------- the g.mu regions ---------- *)

Definition entry_at (G : group) (p : nat) : entry := nth p (g_ents G) dummy_entry.

(* local.go:123-137 *)
Definition update_entry (nw t : N) (G : group) (p : peer) : group :=
  let e := mkent p (nw + t) in
  match assoc (p_id p) (g_map G) with
  | Some ptr =>
      mkgrp (g_hash G) (set_nth ptr e (g_ents G)) (g_list G) (g_map G) (nw + t)
            (g_deleted G) (g_deadlog G)
  | None =>
      let ptr := length (g_ents G) in
      mkgrp (g_hash G) (g_ents G ++ [e]) (g_list G ++ [ptr]) ((p_id p, ptr) :: g_map G) (nw + t)
            (g_deleted G) (g_deadlog G)
  end.

(* local.go:202-206: indexes whose entry has Now().After(expiresAt), ascending *)
Fixpoint scan_from (nw : N) (ents : list entry) (l : list nat) (i : nat) : list nat :=
  match l with
  | [] => []
  | p :: t =>
      if N.ltb (e_exp (nth p ents dummy_entry)) nw
      then i :: scan_from nw ents t (S i) else scan_from nw ents t (S i)
  end.
Definition scan (nw : N) (G : group) : list nat := scan_from nw (g_ents G) (g_list G) 0.

(* local.go:235-236 *)
Definition swap_remove (i : nat) (l : list nat) : list nat :=
  removelast (set_nth i (last l 0%nat) l).

(* local.go:216-239, [ex] already reversed (j runs downwards) *)
Fixpoint remove_loop (nw : N) (ents : list entry) (ex : list nat)
         (l : list nat) (m : list (N * nat)) : list nat * list (N * nat) :=
  match ex with
  | [] => (l, m)
  | i :: rest =>
      if Nat.leb (length l) i then remove_loop nw ents rest l m              (* :221 *)
      else
        let e := nth (nth i l 0%nat) ents dummy_entry in                    (* :226 *)
        if N.ltb nw (e_exp e) then remove_loop nw ents rest l m              (* :230 *)
        else remove_loop nw ents rest (swap_remove i l) (adel (p_id (e_peer e)) m)
  end.

Definition remove_expired (nw : N) (G : group) (expired : list nat) : group :=
  let '(l, m) := remove_loop nw (g_ents G) (rev expired) (g_list G) (g_map G) in
  mkgrp (g_hash G) (g_ents G) l m (g_last G) (g_deleted G) (g_deadlog G).

Definition mark_deleted (lg : list ann) (G : group) : group :=
  mkgrp (g_hash G) (g_ents G) (g_list G) (g_map G) (g_last G) true lg.

(* local.go:160-163 *)
Definition new_group (h : N) (lastexp : N) : group := mkgrp h [] [] [] lastexp false [].

(* local.go:96-114 with the rand.Perm prefix as the oracle [idxs] *)
Definition read_count (n : Z) (G : group) : Z :=
  let L := Z.of_nat (length (g_list G)) in if Z.ltb L n then L else n.

Definition valid_idxs (idxs : list nat) (k L : nat) : bool :=
  Nat.eqb (length idxs) k && nodupb idxs && forallb (fun i => Nat.ltb i L) idxs.

Definition read_peers (G : group) (idxs : list nat) : list peer :=
  map (fun i => e_peer (entry_at G (nth i (g_list G) 0%nat))) idxs.

(* ---------- the transition system ---------- *)

Inductive call := CAnn (h : N) (p : peer) | CGet (h : N) (n : Z) | CCleanE.

Inductive lbl :=
| LTick (dt : N)                       (* the clock advances *)
| LSpawn (c : call)                    (* a goroutine enters UpdatePeer / GetPeers / cleanupExpiredPeerEntries *)
| LRun (tid : nat) (orc : list nat)    (* thread tid runs its next lock region; orc = oracle *)
| LCgStart (order : list nat)          (* a cleanupExpiredPeerGroups pass takes s.mu; order = map range order (positions in gmap) *)
| LCgStep.                             (* the pass runs its next g.mu region *)

Definition with_threads (s : st) (ts : list pc) : st :=
  mkst (now s) (ttl s) (heap s) (gmap s) (smu s) ts (log s).
Definition set_thread (s : st) (tid : nat) (p : pc) : st :=
  with_threads s (set_nth tid p (threads s)).
Definition with_heap (s : st) (hp : list group) : st :=
  mkst (now s) (ttl s) hp (gmap s) (smu s) (threads s) (log s).
Definition with_smu (s : st) (c : option cg) : st :=
  mkst (now s) (ttl s) (heap s) (gmap s) c (threads s) (log s).

Definition smu_free (s : st) : bool := match smu s with None => true | Some _ => false end.

Definition group_at (s : st) (g : nat) : group := nth g (heap s) dummy_group.

(* pick the pairs of gmap in the order given by positions *)
Definition pick {A} (d : A) (l : list A) (order : list nat) : list A := map (fun i => nth i l d) order.

Definition run_thread (s : st) (tid : nat) (orc : list nat) (p : pc) : option st :=
  match p with
  | PAnnLookup h pr =>                                              (* local.go:157-166 *)
      if smu_free s then
        match assoc h (gmap s) with
        | Some g => Some (set_thread s tid (PAnnLockG h pr g))
        | None =>
            let g := length (heap s) in
            Some (mkst (now s) (ttl s) (heap s ++ [new_group h (now s + ttl s)]) ((h, g) :: gmap s)
                       (smu s) (set_nth tid (PAnnLockG h pr g) (threads s)) (log s))
        end
      else None
  | PAnnLockG h pr g =>                                             (* local.go:168-173, 123-139 *)
      let G := group_at s g in
      if g_deleted G then Some (set_thread s tid (PAnnLookup h pr))
      else Some (mkst (now s) (ttl s) (set_nth g (update_entry (now s) (ttl s) G pr) (heap s)) (gmap s)
                      (smu s) (set_nth tid (PDone []) (threads s)) (mkann h pr (now s) :: log s))
  | PRdLookup h n =>                                                (* local.go:86-91 *)
      if smu_free s then
        match assoc h (gmap s) with
        | Some g => Some (set_thread s tid (PRdRead h n g (log s)))
        | None => Some (set_thread s tid (PDone []))
        end
      else None
  | PRdRead h n g _ =>                                              (* local.go:93-115 *)
      let G := group_at s g in
      let k := read_count n G in
      if Z.leb k 0 then Some (set_thread s tid (PDone []))
      else if valid_idxs orc (Z.to_nat k) (length (g_list G))
           then Some (set_thread s tid (PDone (read_peers G orc)))
           else None
  | PCeSnapshot =>                                                  (* local.go:191-196 *)
      if smu_free s then
        if is_perm orc (map snd (gmap s)) then Some (set_thread s tid (PCeScan orc)) else None
      else None
  | PCeScan [] => Some (set_thread s tid (PDone []))
  | PCeScan (g :: todo) =>                                          (* local.go:201-213 *)
      match scan (now s) (group_at s g) with
      | [] => Some (set_thread s tid (PCeScan todo))
      | ex => Some (set_thread s tid (PCeRemove g ex todo))
      end
  | PCeRemove g ex todo =>                                          (* local.go:215-240 *)
      Some (mkst (now s) (ttl s) (set_nth g (remove_expired (now s) (group_at s g) ex) (heap s)) (gmap s)
                 (smu s) (set_nth tid (PCeScan todo) (threads s)) (log s))
  | PDone _ => None
  end.

Definition spawn_pc (c : call) : pc :=
  match c with
  | CAnn h p => PAnnLookup h p
  | CGet h n => PRdLookup h n
  | CCleanE => PCeSnapshot
  end.

Definition cg_step (s : st) (c : cg) : st :=
  match c with
  | CgCheck [] => with_smu s None                                   (* deferred s.mu.Unlock *)
  | CgCheck ((h, g) :: todo) =>                                     (* local.go:249-257 *)
      if N.ltb (now s) (g_last (group_at s g))
      then with_smu s (Some (CgCheck todo))
      else with_smu s (Some (CgDelete h g todo))
  | CgDelete h g todo =>                                            (* local.go:259-266 *)
      if N.ltb (g_last (group_at s g)) (now s)
      then mkst (now s) (ttl s) (set_nth g (mark_deleted (log s) (group_at s g)) (heap s))
                (adel h (gmap s)) (Some (CgCheck todo)) (threads s) (log s)
      else with_smu s (Some (CgCheck todo))
  end.

Definition cstep (s : st) (l : lbl) : option st :=
  match l with
  | LTick dt => Some (mkst (now s + dt)%N (ttl s) (heap s) (gmap s) (smu s) (threads s) (log s))
  | LSpawn c => Some (with_threads s (threads s ++ [spawn_pc c]))
  | LRun tid orc =>
      match nth_error (threads s) tid with
      | Some p => run_thread s tid orc p
      | None => None
      end
  | LCgStart order =>                                               (* local.go:245-248: take s.mu; range order = oracle *)
      if smu_free s then
        if is_perm order (seq 0 (length (gmap s)))
        then Some (with_smu s (Some (CgCheck (pick (0%N, 0%nat) (gmap s) order))))
        else None
      else None
  | LCgStep =>
      match smu s with
      | Some c => Some (cg_step s c)
      | None => None
      end
  end.

Fixpoint exec (s : st) (ls : list lbl) : option st :=
  match ls with
  | [] => Some s
  | l :: t => match cstep s l with Some s' => exec s' t | None => None end
  end.

(* ---------- sequential layer: one observed history compiled into a schedule ---------- *)

(* a state together with the schedule (newest label first) that produced it *)
Definition tst := (st * list lbl)%type.

Definition tstep (x : tst) (l : lbl) : option tst :=
  match cstep (fst x) l with
  | Some s => Some (s, l :: snd x)
  | None => None
  end.

Definition obind {A B} (o : option A) (f : A -> option B) : option B :=
  match o with Some a => f a | None => None end.

(* an announcement between the scan and the remove region of one group (entry cleanup) *)
Record mid := mkmid { m_dt1 : N; m_peer : peer; m_dt2 : N }.

Inductive op :=
| OTick (dt : N)
| OAnn (h : N) (p : peer)
| OGet (h : N) (n : Z) (res : list peer)     (* res = what the implementation returned *)
| OCleanE (evs : list (N * option mid))     (* groups with a non-empty list in the order the pass scanned them *)
| OCleanG.

Definition thread_at (s : st) (tid : nat) : pc := nth tid (threads s) (PDone []).

(* UpdatePeer run to completion without interference: lookup, update *)
Definition seq_ann (x : tst) (h : N) (p : peer) : option tst :=
  let tid := length (threads (fst x)) in
  obind (tstep x (LSpawn (CAnn h p))) (fun x1 =>
  obind (tstep x1 (LRun tid [])) (fun x2 =>
  obind (tstep x2 (LRun tid [])) (fun x3 =>
  match thread_at (fst x3) tid with PDone _ => Some x3 | _ => None end))).

(* position in peerList of the entry that carries PeerID id *)
Fixpoint find_idx (G : group) (id : N) (l : list nat) (i : nat) : option nat :=
  match l with
  | [] => None
  | p :: t => if N.eqb (p_id (e_peer (entry_at G p))) id then Some i else find_idx G id t (S i)
  end.

Fixpoint sequence {A} (l : list (option A)) : option (list A) :=
  match l with
  | [] => Some []
  | None :: _ => None
  | Some a :: t => match sequence t with Some r => Some (a :: r) | None => None end
  end.

(* GetPeers run to completion; the rand.Perm choice is recovered from the returned ids *)
Definition seq_get (x : tst) (h : N) (n : Z) (res : list peer) : option tst :=
  let tid := length (threads (fst x)) in
  obind (tstep x (LSpawn (CGet h n))) (fun x1 =>
  obind (tstep x1 (LRun tid [])) (fun x2 =>
  match thread_at (fst x2) tid with
  | PDone r => if peers_eqb r res then Some x2 else None
  | PRdRead _ _ g _ =>
      let G := group_at (fst x2) g in
      obind (sequence (map (fun r => find_idx G (p_id r) (g_list G) 0) res)) (fun idxs =>
      obind (tstep x2 (LRun tid idxs)) (fun x3 =>
      match thread_at (fst x3) tid with
      | PDone r => if peers_eqb r res then Some x3 else None
      | _ => None
      end))
  | _ => None
  end)).

Definition apply_mid (x : tst) (h : N) (m : option mid) : option tst :=
  match m with
  | None => Some x
  | Some m =>
      obind (tstep x (LTick (m_dt1 m))) (fun x1 =>
      obind (seq_ann x1 h (m_peer m)) (fun x2 =>
      tstep x2 (LTick (m_dt2 m))))
  end.

(* scan g; the optional mid announcement (to the torrent the driver saw being scanned);
   remove from g (when the scan found something) *)
Fixpoint seq_ce_loop (fuel : nat) (x : tst) (tid : nat) (evs : list (N * option mid)) : option tst :=
  match fuel with
  | O => None
  | S f =>
      match thread_at (fst x) tid with
      | PCeScan [] => match evs with [] => tstep x (LRun tid []) | _ => None end
      | PCeScan (_ :: _) =>
          obind (tstep x (LRun tid [])) (fun x1 =>
          obind (match evs with [] => Some x1 | e :: _ => apply_mid x1 (fst e) (snd e) end) (fun x2 =>
          match thread_at (fst x2) tid with
          | PCeRemove _ _ _ => obind (tstep x2 (LRun tid [])) (fun x3 => seq_ce_loop f x3 tid (tl evs))
          | _ => seq_ce_loop f x2 tid (tl evs)
          end))
      | _ => None
      end
  end.

Definition seq_cleane (x : tst) (evs : list (N * option mid)) : option tst :=
  let s := fst x in
  let tid := length (threads s) in
  obind (sequence (map (fun e => assoc (fst e) (gmap s)) evs)) (fun first =>
  let rest := filter (fun g => negb (memn g first)) (map snd (gmap s)) in
  obind (tstep x (LSpawn CCleanE)) (fun x1 =>
  obind (tstep x1 (LRun tid (first ++ rest))) (fun x2 =>
  obind (seq_ce_loop (S (length (gmap s))) x2 tid evs) (fun x3 =>
  match thread_at (fst x3) tid with PDone _ => Some x3 | _ => None end)))).

Fixpoint seq_cg_loop (fuel : nat) (x : tst) : option tst :=
  match fuel with
  | O => None
  | S f =>
      match smu (fst x) with
      | None => Some x
      | Some _ => obind (tstep x LCgStep) (fun x1 => seq_cg_loop f x1)
      end
  end.

Definition seq_cleang (x : tst) : option tst :=
  let k := length (gmap (fst x)) in
  obind (tstep x (LCgStart (seq 0 k))) (fun x1 => seq_cg_loop (2 * k + 2) x1).

Definition seq_step (x : tst) (o : op) : option tst :=
  match o with
  | OTick dt => tstep x (LTick dt)
  | OAnn h p => seq_ann x h p
  | OGet h n res => seq_get x h n res
  | OCleanE evs => seq_cleane x evs
  | OCleanG => seq_cleang x
  end.

Fixpoint seq_run (x : tst) (ops : list op) : option tst :=
  match ops with
  | [] => Some x
  | o :: t => obind (seq_step x o) (fun x1 => seq_run x1 t)
  end.

(* None = the implementation's observations are not a behaviour of the model *)
Definition run (t : N) (ops : list op) : option tst := seq_run (init t, []) ops.

(* ---------- the property evaluated on one observed history (no reference to the model) ---------- *)

Fixpoint last_ann (lg : list ann) (h id : N) : option ann :=
  match lg with
  | [] => None
  | a :: t => if N.eqb (a_hash a) h && N.eqb (p_id (a_peer a)) id then Some a else last_ann t h id
  end.

Fixpoint nodupN (l : list N) : bool :=
  match l with
  | [] => true
  | x :: t => negb (existsb (N.eqb x) t) && nodupN t
  end.

(* an announcement is fresh while less than TTL has passed since it was made *)
Definition fresh (t nw : N) (a : ann) : bool := N.ltb nw (a_time a + t).

(* every fresh announcement of lg for h that is the latest of its peer appears in res *)
Fixpoint fresh_covered (t nw h : N) (full lg : list ann) (res : list peer) : bool :=
  match lg with
  | [] => true
  | a :: rest =>
      (if N.eqb (a_hash a) h && fresh t nw a
       then match last_ann full h (p_id (a_peer a)) with
            | Some b => negb (fresh t nw b) || existsb (peer_eqb (a_peer b)) res
            | None => true
            end
       else true) && fresh_covered t nw h full rest res
  end.

Definition get_ok (t nw : N) (lg : list ann) (h : N) (n : Z) (res : list peer) : bool :=
  Z.leb (Z.of_nat (length res)) (Z.max n 0)                         (* at most n *)
  && nodupN (map p_id res)                                          (* distinct *)
  && forallb (fun r => match last_ann lg h (p_id r) with            (* most recent announcement *)
                       | Some a => peer_eqb (a_peer a) r
                       | None => false
                       end) res
  && (if Z.ltb (Z.of_nat (length res)) n                            (* the whole list was returned: *)
      then fresh_covered t nw h lg lg res else true).               (* nothing fresh is missing *)

Definition spec_mid (nl : N * list ann) (e : N * option mid) : N * list ann :=
  match snd e with
  | None => nl
  | Some m => let t1 := (fst nl + m_dt1 m)%N in
              ((t1 + m_dt2 m)%N, mkann (fst e) (m_peer m) t1 :: snd nl)
  end.

Fixpoint check_from (t : N) (nl : N * list ann) (ops : list op) : bool :=
  match ops with
  | [] => true
  | o :: rest =>
      match o with
      | OTick dt => check_from t ((fst nl + dt)%N, snd nl) rest
      | OAnn h p => check_from t (fst nl, mkann h p (fst nl) :: snd nl) rest
      | OGet h n res => get_ok t (fst nl) (snd nl) h n res && check_from t nl rest
      | OCleanE evs => check_from t (fold_left spec_mid evs nl) rest
      | OCleanG => check_from t nl rest
      end
  end.

Definition C27_check (t : N) (ops : list op) : bool := check_from t (0%N, []) ops.

(* the observations the model itself would produce for a history: the history with every
   Get result replaced by ... is not needed: [run] succeeds only when the observed results
   are results of the model, so soundness is stated as: run t ops <> None -> C27_check. *)
