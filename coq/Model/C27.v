(* Model of tracker/peerstore/local.go (LocalStore): a transition system whose atomic steps are
   the lock regions of the file, plus a sequential layer that compiles one observed history
   into a schedule of that transition system (used by the correspondence check).

   Atomic steps (one per mu.Lock()/RLock() ... Unlock() region):
     announcer : lookup/insert group under s.mu (local.go:157-166);
                 lock g.mu, `deleted` retry or update entry (local.go:168-173, 123-137)
     reader    : lookup group under s.mu (local.go:86-88); read list under g.mu (93-115)
     entry cleanup : snapshot under s.mu (191-196); scan g under g.mu.RLock (201-207);
                 remove from g under g.mu.Lock with re-check (215-240)
     group cleanup : holds s.mu for the whole pass (245-246); per group a check region under
                 g.mu.RLock (249-251) and a delete region under g.mu.Lock (259-266)
     clock     : advances by an arbitrary amount between any two regions.
   Pointers are positions in allocation lists (heap of peerGroup objects, per-group heap of
   peerEntry objects); Go map iteration order and rand.Perm are oracles carried by the label.
   Ghost state (never read by the transcribed code): the log of announcements in the order
   their update regions ran, the log at the moment a reader looked its group up, and the log
   at the moment a group was deleted.

   Executable definitions only; proofs are in Proof/C27*.v. *)
From Coq Require Import List NArith ZArith Bool Arith.
Import ListNotations.

(* ---------- data ---------- *)

Record peer := mkpeer { p_id : N; p_ip : N; p_port : N; p_complete : bool }.

Definition peer_eqb (a b : peer) : bool :=
  N.eqb (p_id a) (p_id b) && N.eqb (p_ip a) (p_ip b) && N.eqb (p_port a) (p_port b)
  && Bool.eqb (p_complete a) (p_complete b).

Fixpoint peers_eqb (a b : list peer) : bool :=
  match a, b with
  | [], [] => true
  | x :: a', y :: b' => peer_eqb x y && peers_eqb a' b'
  | _, _ => false
  end.

(* ghost: one announcement = one executed update region (local.go:123-137) *)
Record ann := mkann { a_hash : N; a_peer : peer; a_time : N }.

(* peerEntry (local.go:56): id, ip, port, complete = the peer; expiresAt *)
Record entry := mkent { e_peer : peer; e_exp : N }.
Definition dummy_peer := mkpeer 0 0 0 false.
Definition dummy_entry := mkent dummy_peer 0.

(* peerGroup (local.go:45) *)
Record group := mkgrp {
  g_hash : N;                    (* the key the group was created for *)
  g_ents : list entry;           (* heap of this group's peerEntry objects; pointer = position *)
  g_list : list nat;             (* peerList : pointers *)
  g_map  : list (N * nat);       (* peerMap  : PeerID -> pointer *)
  g_last : N;                    (* lastExpiresAt *)
  g_deleted : bool;
  g_deadlog : list ann           (* ghost: the announcement log when the group was deleted *)
}.
Definition dummy_group := mkgrp 0 [] [] [] 0 true [].

Inductive pc :=
| PAnnLookup (h : N) (p : peer)                       (* about to run local.go:157 *)
| PAnnLockG (h : N) (p : peer) (g : nat)              (* about to run local.go:168 *)
| PRdLookup (h : N) (n : Z)                           (* about to run local.go:86 *)
| PRdRead (h : N) (n : Z) (g : nat) (log0 : list ann) (* about to run local.go:93; log0 ghost *)
| PCeSnapshot                                         (* local.go:191 *)
| PCeScan (todo : list nat)                           (* local.go:198/201 *)
| PCeRemove (g : nat) (expired : list nat) (todo : list nat)   (* local.go:215 *)
| PDone (res : list peer).

(* the group-cleanup pass owns s.mu while it exists (local.go:245) *)
Inductive cg :=
| CgCheck (todo : list (N * nat))                     (* local.go:248-251 for the head of todo *)
| CgDelete (h : N) (g : nat) (todo : list (N * nat)). (* local.go:259-266 *)

Record st := mkst {
  now : N;
  ttl : N;                        (* config.TTL, constant *)
  heap : list group;              (* every peerGroup ever allocated; pointer = position *)
  gmap : list (N * nat);          (* s.peerGroups *)
  smu : option cg;                (* Some = s.mu write-held by a group-cleanup pass *)
  threads : list pc;
  log : list ann                  (* ghost, newest first *)
}.

Definition init (t : N) : st := mkst 0 t [] [] None [] [].

(* ---------- small list helpers ---------- *)

Fixpoint assoc {A} (k : N) (l : list (N * A)) : option A :=
  match l with
  | [] => None
  | (k', v) :: t => if N.eqb k k' then Some v else assoc k t
  end.

Definition adel {A} (k : N) (l : list (N * A)) : list (N * A) :=
  filter (fun kv => negb (N.eqb k (fst kv))) l.

Fixpoint set_nth {A} (i : nat) (x : A) (l : list A) : list A :=
  match l, i with
  | [], _ => []
  | _ :: t, O => x :: t
  | y :: t, S j => y :: set_nth j x t
  end.

Definition memn (x : nat) (l : list nat) : bool := existsb (Nat.eqb x) l.

Fixpoint nodupb (l : list nat) : bool :=
  match l with
  | [] => true
  | x :: t => negb (memn x t) && nodupb t
  end.

(* oracle legality: a permutation of l (duplicate-free lists) *)
Definition is_perm (o l : list nat) : bool :=
  Nat.eqb (length o) (length l) && nodupb o && forallb (fun x => memn x l) o.

(* ---------- the g.mu regions ---------- *)

Definition entry_at (G : group) (p : nat) : entry := nth p (g_ents G) dummy_entry.

(* local.go:123-137 *)
Definition update_entry (nw t : N) (G : group) (p : peer) : group :=
  let e := mkent p (nw + t) in
  match assoc (p_id p) (g_map G) with
  | Some ptr =>
      mkgrp (g_hash G) (set_nth ptr e (g_ents G)) (g_list G) (g_map G) (nw + t)
            (g_deleted G) (g_deadlog G)
  | None =>
      let ptr := length (g_ents G) in
      mkgrp (g_hash G) (g_ents G ++ [e]) (g_list G ++ [ptr]) ((p_id p, ptr) :: g_map G) (nw + t)
            (g_deleted G) (g_deadlog G)
  end.

(* local.go:202-206: indexes whose entry has Now().After(expiresAt), ascending *)
Fixpoint scan_from (nw : N) (ents : list entry) (l : list nat) (i : nat) : list nat :=
  match l with
  | [] => []
  | p :: t =>
      if N.ltb (e_exp (nth p ents dummy_entry)) nw
      then i :: scan_from nw ents t (S i) else scan_from nw ents t (S i)
  end.
Definition scan (nw : N) (G : group) : list nat := scan_from nw (g_ents G) (g_list G) 0.

(* local.go:235-236 *)
Definition swap_remove (i : nat) (l : list nat) : list nat :=
  removelast (set_nth i (last l 0%nat) l).

(* local.go:216-239, [ex] already reversed (j runs downwards) *)
Fixpoint remove_loop (nw : N) (ents : list entry) (ex : list nat)
         (l : list nat) (m : list (N * nat)) : list nat * list (N * nat) :=
  match ex with
  | [] => (l, m)
  | i :: rest =>
      if Nat.leb (length l) i then remove_loop nw ents rest l m              (* :221 *)
      else
        let e := nth (nth i l 0%nat) ents dummy_entry in                    (* :226 *)
        if N.ltb nw (e_exp e) then remove_loop nw ents rest l m              (* :230 *)
        else remove_loop nw ents rest (swap_remove i l) (adel (p_id (e_peer e)) m)
  end.

Definition remove_expired (nw : N) (G : group) (expired : list nat) : group :=
  let '(l, m) := remove_loop nw (g_ents G) (rev expired) (g_list G) (g_map G) in
  mkgrp (g_hash G) (g_ents G) l m (g_last G) (g_deleted G) (g_deadlog G).

Definition mark_deleted (lg : list ann) (G : group) : group :=
  mkgrp (g_hash G) (g_ents G) (g_list G) (g_map G) (g_last G) true lg.

(* local.go:160-163 *)
Definition new_group (h : N) (lastexp : N) : group := mkgrp h [] [] [] lastexp false [].

(* local.go:96-114 with the rand.Perm prefix as the oracle [idxs] *)
Definition read_count (n : Z) (G : group) : Z :=
  let L := Z.of_nat (length (g_list G)) in if Z.ltb L n then L else n.

Definition valid_idxs (idxs : list nat) (k L : nat) : bool :=
  Nat.eqb (length idxs) k && nodupb idxs && forallb (fun i => Nat.ltb i L) idxs.

Definition read_peers (G : group) (idxs : list nat) : list peer :=
  map (fun i => e_peer (entry_at G (nth i (g_list G) 0%nat))) idxs.

(* ---------- the transition system ---------- *)

Inductive call := CAnn (h : N) (p : peer) | CGet (h : N) (n : Z) | CCleanE.

Inductive lbl :=
| LTick (dt : N)                       (* the clock advances *)
| LSpawn (c : call)                    (* a goroutine enters UpdatePeer / GetPeers / cleanupExpiredPeerEntries *)
| LRun (tid : nat) (orc : list nat)    (* thread tid runs its next lock region; orc = oracle *)
| LCgStart                             (* a cleanupExpiredPeerGroups pass takes s.mu; map order = gmap order permuted below *)
| LCgOrder (order : list nat)          (* unused placeholder kept out of the step function *)
| LCgStep.                             (* the pass runs its next g.mu region *)

Definition with_threads (s : st) (ts : list pc) : st :=
  mkst (now s) (ttl s) (heap s) (gmap s) (smu s) ts (log s).
Definition set_thread (s : st) (tid : nat) (p : pc) : st :=
  with_threads s (set_nth tid p (threads s)).
Definition with_heap (s : st) (hp : list group) : st :=
  mkst (now s) (ttl s) hp (gmap s) (smu s) (threads s) (log s).
Definition with_smu (s : st) (c : option cg) : st :=
  mkst (now s) (ttl s) (heap s) (gmap s) c (threads s) (log s).

Definition smu_free (s : st) : bool := match smu s with None => true | Some _ => false end.

Definition group_at (s : st) (g : nat) : group := nth g (heap s) dummy_group.

(* pick the pairs of gmap in the order given by positions *)
Definition pick {A} (d : A) (l : list A) (order : list nat) : list A := map (fun i => nth i l d) order.

Definition run_thread (s : st) (tid : nat) (orc : list nat) (p : pc) : option st :=
  match p with
  | PAnnLookup h pr =>                                              (* local.go:157-166 *)
      if smu_free s then
        match assoc h (gmap s) with
        | Some g => Some (set_thread s tid (PAnnLockG h pr g))
        | None =>
            let g := length (heap s) in
            Some (mkst (now s) (ttl s) (heap s ++ [new_group h (now s + ttl s)]) ((h, g) :: gmap s)
                       (smu s) (set_nth tid (PAnnLockG h pr g) (threads s)) (log s))
        end
      else None
  | PAnnLockG h pr g =>                                             (* local.go:168-173, 123-139 *)
      let G := group_at s g in
      if g_deleted G then Some (set_thread s tid (PAnnLookup h pr))
      else Some (mkst (now s) (ttl s) (set_nth g (update_entry (now s) (ttl s) G pr) (heap s)) (gmap s)
                      (smu s) (set_nth tid (PDone []) (threads s)) (mkann h pr (now s) :: log s))
  | PRdLookup h n =>                                                (* local.go:86-91 *)
      if smu_free s then
        match assoc h (gmap s) with
        | Some g => Some (set_thread s tid (PRdRead h n g (log s)))
        | None => Some (set_thread s tid (PDone []))
        end
      else None
  | PRdRead h n g _ =>                                              (* local.go:93-115 *)
      let G := group_at s g in
      let k := read_count n G in
      if Z.leb k 0 then Some (set_thread s tid (PDone []))
      else if valid_idxs orc (Z.to_nat k) (length (g_list G))
           then Some (set_thread s tid (PDone (read_peers G orc)))
           else None
  | PCeSnapshot =>                                                  (* local.go:191-196 *)
      if smu_free s then
        if is_perm orc (map snd (gmap s)) then Some (set_thread s tid (PCeScan orc)) else None
      else None
  | PCeScan [] => Some (set_thread s tid (PDone []))
  | PCeScan (g :: todo) =>                                          (* local.go:201-213 *)
      match scan (now s) (group_at s g) with
      | [] => Some (set_thread s tid (PCeScan todo))
      | ex => Some (set_thread s tid (PCeRemove g ex todo))
      end
  | PCeRemove g ex todo =>                                          (* local.go:215-240 *)
      Some (mkst (now s) (ttl s) (set_nth g (remove_expired (now s) (group_at s g) ex) (heap s)) (gmap s)
                 (smu s) (set_nth tid (PCeScan todo) (threads s)) (log s))
  | PDone _ => None
  end.

Definition spawn_pc (c : call) : pc :=
  match c with
  | CAnn h p => PAnnLookup h p
  | CGet h n => PRdLookup h n
  | CCleanE => PCeSnapshot
  end.

Definition cg_step (s : st) (c : cg) : st :=
  match c with
  | CgCheck [] => with_smu s None                                   (* deferred s.mu.Unlock *)
  | CgCheck ((h, g) :: todo) =>                                     (* local.go:249-257 *)
      if N.ltb (now s) (g_last (group_at s g))
      then with_smu s (Some (CgCheck todo))
      else with_smu s (Some (CgDelete h g todo))
  | CgDelete h g todo =>                                            (* local.go:259-266 *)
      if N.ltb (g_last (group_at s g)) (now s)
      then mkst (now s) (ttl s) (set_nth g (mark_deleted (log s) (group_at s g)) (heap s))
                (adel h (gmap s)) (Some (CgCheck todo)) (threads s) (log s)
      else with_smu s (Some (CgCheck todo))
  end.

Definition cstep (s : st) (l : lbl) : option st :=
  match l with
  | LTick dt => Some (mkst (now s + dt)%N (ttl s) (heap s) (gmap s) (smu s) (threads s) (log s))
  | LSpawn c => Some (with_threads s (threads s ++ [spawn_pc c]))
  | LRun tid orc =>
      match nth_error (threads s) tid with
      | Some p => run_thread s tid orc p
      | None => None
      end
  | LCgStart => None
  | LCgOrder order =>                                               (* local.go:245-248: take s.mu; range order = oracle *)
      if smu_free s then
        if is_perm order (seq 0 (length (gmap s)))
        then Some (with_smu s (Some (CgCheck (pick (0%N, 0%nat) (gmap s) order))))
        else None
      else None
  | LCgStep =>
      match smu s with
      | Some c => Some (cg_step s c)
      | None => None
      end
  end.

Fixpoint exec (s : st) (ls : list lbl) : option st :=
  match ls with
  | [] => Some s
  | l :: t => match cstep s l with Some s' => exec s' t | None => None end
  end.
