(* Model of the download-request life cycle in lib/torrent/scheduler
   (scheduler.go doDownload/RemoveTorrent/Stop, events.go newTorrentEvent /
   dispatcherCompleteEvent / preemptionTickEvent / removeTorrentEvent / shutdownEvent,
   state.go addTorrent/removeTorrent, dispatch/dispatcher.go New/complete).

   Atomic steps = events applied by the scheduler's single event loop, plus the steps the
   environment takes from other goroutines (a caller creating its torrent and queueing a
   newTorrentEvent; the dispatcher goroutine writing the last piece and queueing the
   completion notice; cache eviction; clock).  Pending events may be applied in ANY order:
   the event loop receives from whichever blocked sender it happens to pick.

   Executable definitions only; proofs are in Proof/C17.v. *)
From Coq Require Import List NArith Bool.
Import ListNotations.
Local Open Scope N_scope.

Inductive res := RNil | RNotFound | RTimeout | RRemoved | RStopped | ROther.

Definition res_eqb (a b : res) : bool :=
  match a, b with
  | RNil, RNil | RNotFound, RNotFound | RTimeout, RTimeout | RRemoved, RRemoved | RStopped, RStopped | ROther, ROther => true
  | _, _ => false
  end.

(* a storage.Torrent object; its position in [tors] is its identity, which is also the
   identity of the dispatcher built on it (dispatch.New, state.go:72) *)
Record tor := mkT { t_hash : N; t_complete : bool }.

(* torrentControl (state.go:33) *)
Record ctrl := mkC {
  c_hash : N;
  c_disp : N;              (* dispatcher = index of its torrent object *)
  c_errors : list N;       (* waiting Download calls, ctrl.errors *)
  c_lastw : N;             (* dispatcher.LastWriteTime *)
  c_lastr : N              (* dispatcher.LastReadTime (no piece is served in this model) *)
}.

(* events sitting in blocked eventLoop.send calls *)
Inductive pev :=
| PNew (w t : N)           (* newTorrentEvent{torrent t, errc of call w} *)
| PComplete (d : N)        (* dispatcherCompleteEvent{dispatcher d} *)
| PRemove (h : N)          (* removeTorrentEvent{digest of h} *)
| PTick                    (* preemptionTickEvent *)
| PShutdown.

Record cfg := mkCfg { seeder_tti : N; leecher_tti : N }.

Record st := mkS {
  tors : list tor;
  ctrls : list ctrl;
  cache : list N;                  (* hashes whose blob is in the local cache *)
  partial : list N;                (* hashes with a file in the download directory *)
  known : list N;                  (* hashes for which the tracker has metainfo *)
  pending : list pev;
  stopped : bool;                  (* event loop has exited *)
  now : N;
  results : list (N * res);        (* (call, result) in the order results were delivered *)
  calls : list (N * N);            (* ghost: (call, hash) of every Download issued so far *)
  seen : list N                    (* ghost: calls whose blob has been in the cache at some point since the call *)
}.

Definition init (kn : list N) : st := mkS [] [] [] [] kn [] false 0 [] [] [].

(* what the test driver / environment does *)
Inductive op :=
| Download (w h : N)       (* a goroutine calls Scheduler.Download *)
| Feed (h : N)             (* a peer delivers every missing piece of h to the current dispatcher *)
| Remove (h : N)           (* a goroutine calls Scheduler.RemoveTorrent *)
| Evict (h : N)            (* the cache evicts h asynchronously *)
| Advance (dt : N)
| TickSend                 (* tickerLoop sends a preemptionTickEvent *)
| Stop                     (* a goroutine calls Scheduler.Stop *)
| ApNew (w : N) | ApComplete (d : N) | ApRemove (h : N) | ApTick | ApShutdown.
                           (* the event loop receives and applies that pending event *)

Definition memb (x : N) (l : list N) : bool := existsb (N.eqb x) l.
Definition remove_all (x : N) (l : list N) : list N := filter (fun y => negb (N.eqb x y)) l.

Definition tor_complete (s : st) (t : N) : bool :=
  match nth_error (tors s) (N.to_nat t) with Some x => t_complete x | None => false end.
Definition tor_hash (s : st) (t : N) : N :=
  match nth_error (tors s) (N.to_nat t) with Some x => t_hash x | None => 0 end.

Fixpoint find_ctrl (h : N) (cs : list ctrl) : option ctrl :=
  match cs with
  | [] => None
  | c :: t => if N.eqb (c_hash c) h then Some c else find_ctrl h t
  end.
Definition drop_ctrl (h : N) (cs : list ctrl) : list ctrl :=
  filter (fun c => negb (N.eqb (c_hash c) h)) cs.

Definition deliver (ws : list N) (r : res) (rs : list (N * res)) : list (N * res) :=
  rs ++ map (fun w => (w, r)) ws.

Definition set_ctrls s cs := mkS (tors s) cs (cache s) (partial s) (known s) (pending s) (stopped s) (now s) (results s) (calls s) (seen s).
Definition set_results s rs := mkS (tors s) (ctrls s) (cache s) (partial s) (known s) (pending s) (stopped s) (now s) rs (calls s) (seen s).
Definition set_pending s p := mkS (tors s) (ctrls s) (cache s) (partial s) (known s) p (stopped s) (now s) (results s) (calls s) (seen s).
Definition set_partial s p := mkS (tors s) (ctrls s) (cache s) p (known s) (pending s) (stopped s) (now s) (results s) (calls s) (seen s).
Definition set_cache s c := mkS (tors s) (ctrls s) c (partial s) (known s) (pending s) (stopped s) (now s) (results s) (calls s) (seen s).

(* state.go:102 removeTorrent (with the fix: waiting clients of a torrent that completed
   without its completion event having been applied are notified too) *)
Definition remove_torrent (s : st) (h : N) (r : res) : st :=
  match find_ctrl h (ctrls s) with
  | None => s
  | Some c =>
      let s1 := set_ctrls (set_results s (deliver (c_errors c) r (results s))) (drop_ctrl h (ctrls s)) in
      (* state.go:115 torrentArchive.DeleteTorrent deletes the file wherever it is *)
      if tor_complete s (c_disp c) then s1
      else set_partial (set_cache s1 (remove_all h (cache s1))) (remove_all h (partial s1))
  end.

(* the pre-fix code: no notification when the dispatcher is complete *)
Definition remove_torrent_prefix (s : st) (h : N) (r : res) : st :=
  match find_ctrl h (ctrls s) with
  | None => s
  | Some c =>
      if tor_complete s (c_disp c)
      then set_ctrls s (drop_ctrl h (ctrls s))
      else set_partial (set_cache (set_ctrls (set_results s (deliver (c_errors c) r (results s))) (drop_ctrl h (ctrls s)))
                                  (remove_all h (cache s))) (remove_all h (partial s))
  end.

Fixpoint remove_first_pev (eqb : pev -> bool) (l : list pev) : option (list pev) :=
  match l with
  | [] => None
  | x :: t => if eqb x then Some t
              else match remove_first_pev eqb t with Some t' => Some (x :: t') | None => None end
  end.

Definition is_new (w : N) (e : pev) : option N :=
  match e with PNew w' t => if N.eqb w w' then Some t else None | _ => None end.
Fixpoint take_new (w : N) (l : list pev) : option (N * list pev) :=
  match l with
  | [] => None
  | x :: t => match is_new w x with
              | Some t0 => Some (t0, t)
              | None => match take_new w t with Some (t0, t') => Some (t0, x :: t') | None => None end
              end
  end.

Fixpoint set_complete_at (n : nat) (ts : list tor) : list tor :=
  match ts, n with
  | [], _ => []
  | x :: r, O => mkT (t_hash x) true :: r
  | x :: r, S k => x :: set_complete_at k r
  end.

Definition replace_ctrl (c : ctrl) (cs : list ctrl) : list ctrl :=
  map (fun x => if N.eqb (c_hash x) (c_hash c) then c else x) cs.

(* events.go:316 newTorrentEvent.apply *)
Definition apply_new (fixed : bool) (s : st) (w t : N) : st :=
  let h := tor_hash s t in
  let s1 :=
    match find_ctrl h (ctrls s) with
    | Some c =>
        if tor_complete s (c_disp c) && negb (tor_complete s t)
        then (if fixed then remove_torrent s h RRemoved else remove_torrent_prefix s h RRemoved)
        else s
    | None => s
    end in
  let s2 :=
    match find_ctrl h (ctrls s1) with
    | Some _ => s1
    | None =>
        (* state.go:68 addTorrent; dispatch.New sends the completion notice at once when the
           torrent is already complete (dispatcher.go:101) *)
        let s' := set_ctrls s1 (mkC h t [] (now s1) (now s1) :: ctrls s1) in
        if tor_complete s1 t then set_pending s' (pending s' ++ [PComplete t]) else s'
    end in
  match find_ctrl h (ctrls s2) with
  | Some c =>
      if tor_complete s2 (c_disp c)
      then set_results s2 (deliver [w] RNil (results s2))
      else set_ctrls s2 (replace_ctrl (mkC (c_hash c) (c_disp c) (c_errors c ++ [w]) (c_lastw c) (c_lastr c)) (ctrls s2))
  | None => s2
  end.

(* events.go:355 dispatcherCompleteEvent.apply (with the fix: a notice from a replaced
   dispatcher is ignored, and notified clients are forgotten) *)
Definition apply_complete (fixed : bool) (s : st) (d : N) : st :=
  let h := tor_hash s d in
  match find_ctrl h (ctrls s) with
  | None => s
  | Some c =>
      if fixed && negb (N.eqb (c_disp c) d) then s
      else
        let s' := set_results s (deliver (c_errors c) RNil (results s)) in
        if fixed
        then set_ctrls s' (replace_ctrl (mkC (c_hash c) (c_disp c) [] (c_lastw c) (c_lastr c)) (ctrls s'))
        else s'
  end.

(* events.go:463 removeTorrentEvent.apply *)
Definition apply_remove (fixed : bool) (s : st) (h : N) : st :=
  let s1 := if fixed then remove_torrent s h RRemoved else remove_torrent_prefix s h RRemoved in
  set_partial (set_cache s1 (remove_all h (cache s1))) (remove_all h (partial s1)).

(* events.go:393 preemptionTickEvent.apply, torrent part *)
Definition idle (c : cfg) (s : st) (x : ctrl) : bool :=
  if tor_complete s (c_disp x)
  then seeder_tti c <=? now s - c_lastr x
  else leecher_tti c <=? now s - c_lastw x.

Fixpoint tick_over (fixed : bool) (c : cfg) (s : st) (todo : list ctrl) : st :=
  match todo with
  | [] => s
  | x :: t =>
      let s' := if idle c s x
                then (if fixed then remove_torrent s (c_hash x) RTimeout else remove_torrent_prefix s (c_hash x) RTimeout)
                else s in
      tick_over fixed c s' t
  end.
Definition apply_tick (fixed : bool) (c : cfg) (s : st) : st := tick_over fixed c s (ctrls s).

(* events.go:484 shutdownEvent.apply, then every blocked eventLoop.send returns false
   (scheduler.go doDownload: ErrSchedulerStopped) *)
Fixpoint all_waiters (cs : list ctrl) : list N :=
  match cs with [] => [] | c :: t => c_errors c ++ all_waiters t end.
Fixpoint pending_callers (l : list pev) : list N :=
  match l with
  | [] => []
  | PNew w _ :: t => w :: pending_callers t
  | _ :: t => pending_callers t
  end.
Definition apply_shutdown (s : st) : st :=
  let rs := deliver (pending_callers (pending s)) RStopped (deliver (all_waiters (ctrls s)) RStopped (results s)) in
  mkS (tors s) (map (fun c => mkC (c_hash c) (c_disp c) [] (c_lastw c) (c_lastr c)) (ctrls s))
      (cache s) (partial s) (known s) [] true (now s) rs (calls s) (seen s).

Definition pev_eqb (a b : pev) : bool :=
  match a, b with
  | PNew w t, PNew w' t' => N.eqb w w' && N.eqb t t'
  | PComplete d, PComplete d' => N.eqb d d'
  | PRemove h, PRemove h' => N.eqb h h'
  | PTick, PTick => true
  | PShutdown, PShutdown => true
  | _, _ => false
  end.

Definition step_gen (fixed : bool) (c : cfg) (s : st) (o : op) : st :=
  match o with
  | Download w h =>
      (* scheduler.go:233 doDownload: CreateTorrent, then send newTorrentEvent *)
      if negb (memb h (known s)) && negb (memb h (cache s))
      then mkS (tors s) (ctrls s) (cache s) (partial s) (known s) (pending s) (stopped s) (now s)
               (deliver [w] RNotFound (results s)) ((w, h) :: calls s) (seen s)
      else
        let t := N.of_nat (length (tors s)) in
        let s' := mkS (tors s ++ [mkT h (memb h (cache s))]) (ctrls s) (cache s)
                      (if memb h (cache s) || memb h (partial s) then partial s else h :: partial s)
                      (known s) (pending s)
                      (stopped s) (now s) (results s) ((w, h) :: calls s)
                      (if memb h (cache s) then w :: seen s else seen s) in
        if stopped s
        then set_results s' (deliver [w] RStopped (results s'))
        else set_pending s' (pending s' ++ [PNew w t])
  | Feed h =>
      match find_ctrl h (ctrls s) with
      | Some x =>
          if tor_complete s (c_disp x) || stopped s || memb h (cache s) || negb (memb h (partial s)) then s
          else
            (* dispatcher.go:589-606: the last WritePiece commits the blob to the cache, then
               complete() queues the notice from its own goroutine *)
            mkS (set_complete_at (N.to_nat (c_disp x)) (tors s))
                (replace_ctrl (mkC (c_hash x) (c_disp x) (c_errors x) (now s) (c_lastr x)) (ctrls s))
                (h :: cache s) (remove_all h (partial s)) (known s) (pending s ++ [PComplete (c_disp x)])
                (stopped s) (now s) (results s) (calls s)
                (map fst (filter (fun p => N.eqb (snd p) h) (calls s)) ++ seen s)
      | None => s
      end
  | Remove h => if stopped s then s else set_pending s (pending s ++ [PRemove h])
  | Evict h => set_cache s (remove_all h (cache s))
  | Advance dt => mkS (tors s) (ctrls s) (cache s) (partial s) (known s) (pending s) (stopped s) (now s + dt) (results s) (calls s) (seen s)
  | TickSend => if stopped s then s else set_pending s (pending s ++ [PTick])
  | Stop => if stopped s || existsb (pev_eqb PShutdown) (pending s) then s else set_pending s (pending s ++ [PShutdown])
  | ApNew w =>
      match take_new w (pending s) with
      | Some (t, p') => apply_new fixed (set_pending s p') w t
      | None => s
      end
  | ApComplete d =>
      match remove_first_pev (pev_eqb (PComplete d)) (pending s) with
      | Some p' => apply_complete fixed (set_pending s p') d
      | None => s
      end
  | ApRemove h =>
      match remove_first_pev (pev_eqb (PRemove h)) (pending s) with
      | Some p' => apply_remove fixed (set_pending s p') h
      | None => s
      end
  | ApTick =>
      match remove_first_pev (pev_eqb PTick) (pending s) with
      | Some p' => apply_tick fixed c (set_pending s p')
      | None => s
      end
  | ApShutdown =>
      match remove_first_pev (pev_eqb PShutdown) (pending s) with
      | Some p' => apply_shutdown (set_pending s p')
      | None => s
      end
  end.

Definition step := step_gen true.           (* the code as it is (fixed) *)
Definition step_prefix := step_gen false.   (* the code before the fix: kept as a mutant *)

Definition run_gen (fixed : bool) (c : cfg) (kn : list N) (ops : list op) : st :=
  fold_left (step_gen fixed c) ops (init kn).
Definition run := run_gen true.
Definition run_prefix := run_gen false.

(* ---- observations ---- *)
(* what the driver sees of call w after the schedule: the results it was sent *)
Definition results_of (w : N) (rs : list (N * res)) : list res :=
  map snd (filter (fun p => N.eqb (fst p) w) rs).

Fixpoint callers (ops : list op) : list N :=
  match ops with
  | [] => []
  | Download w _ :: t => w :: callers t
  | _ :: t => callers t
  end.
Fixpoint hash_of_call (w : N) (ops : list op) : N :=
  match ops with
  | [] => 0
  | Download w' h :: t => if N.eqb w w' then h else hash_of_call w t
  | _ :: t => hash_of_call w t
  end.

(* client contract of the driver: call identifiers are fresh *)
Fixpoint nodupb (l : list N) : bool :=
  match l with [] => true | x :: t => negb (memb x t) && nodupb t end.
Definition wf (ops : list op) : bool := nodupb (callers ops).

(* observed outcome of one call: None = still blocked after the schedule was drained *)
Definition obs := list (N * option res).

Definition model_obs (s : st) (ops : list op) : obs :=
  map (fun w => (w, hd_error (results_of w (results s)))) (callers ops).

Definition ores_eqb (a b : option res) : bool :=
  match a, b with
  | None, None => true
  | Some x, Some y => res_eqb x y
  | _, _ => false
  end.
Fixpoint obs_eqb (a b : obs) : bool :=
  match a, b with
  | [], [] => true
  | (w, r) :: a', (w', r') :: b' => N.eqb w w' && ores_eqb r r' && obs_eqb a' b'
  | _, _ => false
  end.

(* schedules the driver produces end with Stop; ApShutdown and everything pending before
   it was drained: afterwards no goroutine is left that could deliver anything *)
Definition ends_shut_down (c : cfg) (kn : list N) (ops : list op) : bool := stopped (run c kn ops).

(* "success only when the blob is THEN in the local cache": a success for call w (blob h) is
   justified only if the blob is in the cache when the request is made (its CreateTorrent
   step), or after some event applied since.  (A RemoveTorrent applied between the request and
   its newTorrentEvent overlaps the call: "succeeded, then removed" is a valid linearisation.)
   Asynchronous cache eviction (op Evict, not an action of the scheduler) can always race with
   a success, so schedules that evict h are exempt from this clause. *)
Definition is_apply (o : op) : bool :=
  match o with ApNew _ | ApComplete _ | ApRemove _ | ApTick | ApShutdown => true | _ => false end.
Fixpoint cached_after_some_apply (c : cfg) (w h : N) (s : st) (armed : bool) (ops : list op) : bool :=
  match ops with
  | [] => false
  | o :: t =>
      let s' := step c s o in
      let mine := match o with Download w' _ => N.eqb w w' | _ => false end in
      let armed' := armed || mine in
      (armed' && (is_apply o || mine) && memb h (cache s')) || cached_after_some_apply c w h s' armed' t
  end.
Definition evicted_in (h : N) (ops : list op) : bool :=
  existsb (fun o => match o with Evict h' => N.eqb h h' | _ => false end) ops.
Definition success_justified (c : cfg) (kn : list N) (ops : list op) (w : N) : bool :=
  let h := hash_of_call w ops in
  evicted_in h ops || cached_after_some_apply c w h (init kn) false ops.

(* the property on one observed schedule: every call returned, and success is reported
   only for a blob that was in the cache at some point since the call: when the request was
   made, or after some event applied since *)
Definition C17_check (c : cfg) (kn : list N) (ops : list op) (o : obs) : bool :=
  if wf ops && ends_shut_down c kn ops then
    forallb (fun p => match snd p with
                      | None => false
                      | Some RNil => memb (fst p) (seen (run c kn ops)) && success_justified c kn ops (fst p)
                      | Some _ => true
                      end) o
    && N.eqb (N.of_nat (length o)) (N.of_nat (length (callers ops)))
  else true.

(* results sent to a call beyond the first one: they stay in its one-slot channel (or block the
   event loop on it).  The driver reads this off the real channel after the schedule. *)
Definition surplus (w : N) (rs : list (N * res)) : N := N.of_nat (length (results_of w rs)) - 1.
Definition model_surplus (s : st) (ops : list op) : list (N * N) :=
  map (fun w => (w, surplus w (results s))) (callers ops).
Definition no_surplus (x : list (N * N)) : bool := forallb (fun p => N.eqb (snd p) 0) x.
Fixpoint surplus_eqb (a b : list (N * N)) : bool :=
  match a, b with
  | [], [] => true
  | (w, n) :: a', (w', n') :: b' => N.eqb w w' && N.eqb n n' && surplus_eqb a' b'
  | _, _ => false
  end.
