(* Model of lib/store/tiered: store.go (client API), flusher.go (bookkeeping + one flush worker).
   Executable definitions only; proofs live in Proof/C09*.v.

   The two stores underneath (memory.Store, disk.Store) are abstracted to maps
       key -> entry (incarnation id, complete, eviction-banned (memory only), data, metadata)
   with capacity-driven LRU eviction as ORACLE steps (EvictMem / EvictDisk: enabled exactly for
   the entries the real stores may evict, i.e. complete and not banned) and the outcome of every
   space reservation carried by the operation (placement of Create, `nospace` of the worker's
   disk.Create).  The theorems therefore hold for every capacity and every LRU order.
   (Model/LruStore.v models one such store in full detail for C07/C08; it is not imported here
   because the interleaving proofs need a per-key view of both stores, see notes/C09.md.)

   Atomic steps: every client operation of store.go is one step (they exclude each other under
   store.mu; the worker does NOT take store.mu), the worker is a program counter over the lock
   regions of flusher.go. *)
From Coq Require Import List NArith Bool.
Import ListNotations.
Local Open Scope N_scope.

Definition key := N.
Definition sfx := N.
Definition bytes := list N.

(* ---------------------------------------------------------------- finite maps (assoc lists) *)
Fixpoint get {A} (k : N) (l : list (N * A)) : option A :=
  match l with
  | [] => None
  | (k', v) :: t => if k' =? k then Some v else get k t
  end.
Fixpoint del {A} (k : N) (l : list (N * A)) : list (N * A) :=
  match l with
  | [] => []
  | (k', v) :: t => if k' =? k then del k t else (k', v) :: del k t
  end.
Definition put {A} (k : N) (v : A) (l : list (N * A)) : list (N * A) := (k, v) :: del k l.
Definition putopt {A} (k : N) (ov : option A) (l : list (N * A)) : list (N * A) :=
  match ov with Some v => put k v l | None => del k l end.
Definition memN (k : N) (l : list N) : bool := existsb (N.eqb k) l.
Definition addN (k : N) (l : list N) : list N := if memN k l then l else l ++ [k].

Fixpoint insertN (k : N) (l : list N) : list N :=
  match l with
  | [] => [k]
  | x :: t => if k <? x then k :: x :: t else if k =? x then x :: t else x :: insertN k t
  end.
Definition sortN (l : list N) : list N := fold_right insertN [] l.

(* ---------------------------------------------------------------- state *)
Inductive scope := SAny | SComplete | SIncomplete.               (* lib/store/scope.go *)

Record ment := mkm {                    (* memory/store.go:32 blob *)
  m_inc : N;                            (* identity of the *[]byte cell (fresh per Create) *)
  m_complete : bool;
  m_banned : bool;
  m_data : bytes;
  m_mds : list (sfx * bytes) }.
Record dent := mkd {                    (* disk/store.go:49 blob + its directory *)
  d_inc : N;                            (* identity of the data file (inode) *)
  d_complete : bool;
  d_data : bytes;
  d_mds : list (sfx * bytes) }.
Record fobj := mkf {                    (* flusher.go:39 blob, a heap object *)
  f_key : key;
  f_dd : bool;                          (* dataDirty (immutable) *)
  f_dirty : list sfx }.                 (* dirtyMD *)

(* the worker: program counter over the lock regions of flusher.go:147-339 *)
Inductive pc :=
| WIdle                                           (* worker():151 waiting / before nextToFlush *)
| WStart (k : key) (id : N)                       (* flush():177, hook flusher.flush_start *)
| WOpened (k : key) (id inc : N)                  (* flushData():290 after memOpen *)
| WCreated (k : key) (id inc dinc : N)            (* :298 after disk.Create, before f.mu.Lock *)
| WChecked (k : key) (id inc dinc : N)            (* :316 before ioCopy *)
| WCopied (k : key) (id dinc : N)                 (* :323 before disk.MarkComplete *)
| WDataDone (k : key) (id : N)                    (* flush():203, hook flusher.data_flushed *)
| WLoop (k : key) (id : N)                        (* flushMetadatasAndUnmarkDirty():229 loop top, 2nd.. round *)
| WMd (k : key) (id : N) (snap : list sfx)        (* :233 hook flusher.md_snapshot / between metadata *)
| WMdW (k : key) (id : N) (s : sfx) (v : option bytes) (rest : list sfx)
                                                  (* flushMetadata():264 after mem.GetMetadata *)
| WMdFlushed (k : key) (id : N)                   (* :246 hook flusher.md_flushed, before f.mu.Lock *)
| WFail1 (k : key)                                (* handleFlushFailure():217 before disk.Delete *)
| WFail2 (k : key)                                (* :224 before f.mu.Lock; delete(f.blobs) *)
| WUnban (k : key).                               (* flush():179 deferred, hook flusher.before_unban *)

Record st := mk {
  mem : list (key * ment);
  disk : list (key * dent);
  fblobs : list (key * N);            (* flusher.blobs: key -> heap id *)
  heap : list (N * fobj);
  queue : list key;                   (* flusher.queue *)
  nxt : N;                            (* fresh identities *)
  wpc : pc }.

Definition init : st := mk [] [] [] [] [] 1 WIdle.

Definition set_mem (s : st) m := mk m (disk s) (fblobs s) (heap s) (queue s) (nxt s) (wpc s).
Definition set_disk (s : st) d := mk (mem s) d (fblobs s) (heap s) (queue s) (nxt s) (wpc s).
Definition set_fblobs (s : st) f := mk (mem s) (disk s) f (heap s) (queue s) (nxt s) (wpc s).
Definition set_heap (s : st) h := mk (mem s) (disk s) (fblobs s) h (queue s) (nxt s) (wpc s).
Definition set_queue (s : st) q := mk (mem s) (disk s) (fblobs s) (heap s) q (nxt s) (wpc s).
Definition set_nxt (s : st) n := mk (mem s) (disk s) (fblobs s) (heap s) (queue s) n (wpc s).
Definition set_pc (s : st) p := mk (mem s) (disk s) (fblobs s) (heap s) (queue s) (nxt s) p.

Definition m_set_banned (m : ment) b := mkm (m_inc m) (m_complete m) b (m_data m) (m_mds m).
Definition m_set_complete (m : ment) := mkm (m_inc m) true (m_banned m) (m_data m) (m_mds m).
Definition m_set_mds (m : ment) mds := mkm (m_inc m) (m_complete m) (m_banned m) (m_data m) mds.
Definition d_set_complete (e : dent) := mkd (d_inc e) true (d_data e) (d_mds e).
Definition d_set_data (e : dent) d := mkd (d_inc e) (d_complete e) d (d_mds e).
Definition d_set_mds (e : dent) mds := mkd (d_inc e) (d_complete e) (d_data e) mds.

Definition dirty_of (s : st) (id : N) : list sfx :=
  match get id (heap s) with Some fo => f_dirty fo | None => [] end.
Definition dd_of (s : st) (id : N) : bool :=
  match get id (heap s) with Some fo => f_dd fo | None => false end.

(* ---------------------------------------------------------------- operations *)
Inductive place := PMem | PDisk | PNoSpace.       (* where Create put the blob (oracle) *)

Inductive op :=
| Create (k : key) (d : bytes) (pl : place)   (* Create; f.Write(d); f.Close() *)
| Open (k : key) (sc : scope)                 (* Open; io.ReadAll; Close *)
| Has (k : key) (sc : scope)
| ListK (sc : scope)
| Delete (k : key)
| MarkComplete (k : key)
| SetMd (k : key) (s : sfx) (v : bytes)
| DelMd (k : key) (s : sfx)
| GetMd (k : key) (s : sfx) (sc : scope)
| Where (k : key)                             (* in-package probe: which tier holds k *)
| EvictMem (k : key)                          (* memory/store.go:94 reserveSpace victim *)
| EvictDisk (k : key)                         (* disk/store.go:214 ensureFreeSpace victim *)
| Work (nospace : bool).                      (* one atomic step of the flush worker *)

Inductive err := ENotExist | EExist | EOutOfScope | EOther.
Inductive wev := WNone | WNoSpace (k : key) | WExist (k : key).
Inductive out :=
| OOk
| OErr (e : err)
| OBytes (b : bytes)
| OHas (inStore inScope : bool)
| OKeys (l : list N)                          (* sorted *)
| OMd (v : option bytes)
| OWhere (inMem memComplete inDisk diskComplete : bool)
| OBad                                        (* eviction step that is not enabled *)
| OW (e : wev).

Definition oos (complete : bool) (sc : scope) : bool :=   (* isOutOfScope *)
  match sc with SAny => false | SComplete => negb complete | SIncomplete => complete end.

(* ---- flusher bookkeeping (flusher.go:66-145) *)
Definition alloc (s : st) (fo : fobj) : st * N :=
  (mk (mem s) (disk s) (fblobs s) (put (nxt s) fo (heap s)) (queue s) (nxt s + 1) (wpc s), nxt s).

(* markDirty():68 *)
Definition mark_dirty (s : st) (k : key) (m : ment) : st :=
  let '(s1, id) := alloc s (mkf k true (map fst (m_mds m))) in
  set_queue (set_fblobs s1 (put k id (fblobs s1))) (queue s1 ++ [k]).

(* markMetadataDirty():107 *)
Definition mark_md_dirty (s : st) (k : key) (x : sfx) : st :=
  match get k (fblobs s) with
  | Some id =>
      match get id (heap s) with
      | Some fo => set_heap s (put id (mkf (f_key fo) (f_dd fo) (addN x (f_dirty fo))) (heap s))
      | None => s
      end
  | None =>
      match get k (disk s) with
      | None => s                                               (* :121 *)
      | Some _ =>
          let '(s1, id) := alloc s (mkf k false [x]) in
          set_queue (set_fblobs s1 (put k id (fblobs s1))) (queue s1 ++ [k])
      end
  end.

(* ---- client operations (store.go) *)
Definition keys_in {A} (cpl : A -> bool) (sc : scope) (l : list (N * A)) : list N :=
  filter (fun k => match get k l with Some v => negb (oos (cpl v) sc) | None => false end) (map fst l).

Definition do_md (s : st) (k : key) (x : sfx) (ov : option bytes) : st * out :=   (* :225 / :261 *)
  match get k (mem s) with
  | None =>
      match get k (disk s) with
      | None => (s, OErr ENotExist)
      | Some e => (set_disk s (put k (d_set_mds e (putopt x ov (d_mds e))) (disk s)), OOk)
      end
  | Some m =>
      let m' := m_set_mds (m_set_banned m true) (putopt x ov (m_mds m)) in
      (mark_md_dirty (set_mem s (put k m' (mem s))) k x, OOk)
  end.

Definition cstep (s : st) (o : op) : st * out :=
  match o with
  | Create k d pl =>                                                        (* store.go:57 *)
      match get k (mem s), get k (disk s) with
      | None, None =>
          match pl with
          | PMem => (set_nxt (set_mem s (put k (mkm (nxt s) false false d []) (mem s))) (nxt s + 1), OOk)
          | PDisk => (set_nxt (set_disk s (put k (mkd (nxt s) false d []) (disk s))) (nxt s + 1), OOk)
          | PNoSpace => (s, OErr EOther)
          end
      | _, _ => (s, OErr EExist)
      end
  | Open k sc =>                                                            (* :84 *)
      match get k (mem s) with
      | Some m => if oos (m_complete m) sc then (s, OErr EOutOfScope) else (s, OBytes (m_data m))
      | None =>
          match get k (disk s) with
          | Some e => if oos (d_complete e) sc then (s, OErr EOutOfScope) else (s, OBytes (d_data e))
          | None => (s, OErr ENotExist)
          end
      end
  | Has k sc =>                                                             (* :110 *)
      match get k (mem s) with
      | Some m => (s, OHas true (negb (oos (m_complete m) sc)))
      | None =>
          match get k (disk s) with
          | Some e => (s, OHas true (negb (oos (d_complete e) sc)))
          | None => (s, OHas false false)
          end
      end
  | ListK sc =>                                                             (* :152 *)
      let all := keys_in d_complete sc (disk s) ++ keys_in m_complete sc (mem s) in
      let drop := match sc with SIncomplete => keys_in m_complete SComplete (mem s) | _ => [] end in
      (s, OKeys (sortN (filter (fun k => negb (memN k drop)) all)))
  | Delete k =>                                                             (* :124 *)
      match get k (mem s) with
      | None =>
          match get k (disk s) with
          | None => (s, OErr ENotExist)
          | Some _ => (set_disk s (del k (disk s)), OOk)
          end
      | Some _ =>
          (set_disk (set_fblobs (set_mem s (del k (mem s))) (del k (fblobs s))) (del k (disk s)), OOk)
      end
  | MarkComplete k =>                                                       (* :196 *)
      match get k (mem s) with
      | Some m =>
          if m_complete m then (s, OOk)
          else match get k (disk s) with
               | Some e => if d_complete e then (s, OOk)
                           else let m' := m_set_complete (m_set_banned m true) in
                                (mark_dirty (set_mem s (put k m' (mem s))) k m', OOk)
               | None => let m' := m_set_complete (m_set_banned m true) in
                         (mark_dirty (set_mem s (put k m' (mem s))) k m', OOk)
               end
      | None =>
          match get k (disk s) with
          | Some e => (set_disk s (put k (d_set_complete e) (disk s)), OOk)
          | None => (s, OErr ENotExist)
          end
      end
  | SetMd k x v => do_md s k x (Some v)
  | DelMd k x => do_md s k x None
  | GetMd k x sc =>                                                         (* :246 *)
      match get k (mem s) with
      | Some m => if oos (m_complete m) sc then (s, OErr EOutOfScope) else (s, OMd (get x (m_mds m)))
      | None =>
          match get k (disk s) with
          | Some e => if oos (d_complete e) sc then (s, OErr EOutOfScope) else (s, OMd (get x (d_mds e)))
          | None => (s, OErr ENotExist)
          end
      end
  | Where k =>
      (s, OWhere (match get k (mem s) with Some _ => true | None => false end)
                 (match get k (mem s) with Some m => m_complete m | None => false end)
                 (match get k (disk s) with Some _ => true | None => false end)
                 (match get k (disk s) with Some e => d_complete e | None => false end))
  | EvictMem k =>
      match get k (mem s) with
      | Some m => if m_complete m && negb (m_banned m) then (set_mem s (del k (mem s)), OOk) else (s, OBad)
      | None => (s, OBad)
      end
  | EvictDisk k =>
      match get k (disk s) with
      | Some e => if d_complete e then (set_disk s (del k (disk s)), OOk) else (s, OBad)
      | None => (s, OBad)
      end
  | Work _ => (s, OBad)
  end.

(* ---- the worker *)
(* nextToFlush():162: pop until a key that is still tracked *)
Fixpoint pop (fb : list (key * N)) (q : list key) : option (key * N) * list key :=
  match q with
  | [] => (None, [])
  | k :: t => match get k fb with
              | Some id => (Some (k, id), t)
              | None => pop fb t
              end
  end.

Definition wstep (s : st) (nospace : bool) : st * wev :=
  match wpc s with
  | WIdle =>
      match pop (fblobs s) (queue s) with
      | (Some (k, id), q) => (set_pc (set_queue s q) (WStart k id), WNone)
      | (None, q) => (set_queue s q, WNone)
      end
  | WStart k id =>                                         (* flush():187, flushData():288-295 *)
      if dd_of s id
      then match get k (mem s) with
           | Some m => (set_pc s (WOpened k id (m_inc m)), WNone)
           | None => (set_pc s (WDataDone k id), WNone)
           end
      else (set_pc s (WDataDone k id), WNone)
  | WOpened k id inc =>                                    (* :297 disk.Create *)
      match get k (disk s) with
      | Some _ => (set_pc s (WFail1 k), WExist k)
      | None =>
          if nospace then (set_pc s (WFail1 k), WNoSpace k)
          else (set_pc (set_nxt (set_disk s (put k (mkd (nxt s) false [] []) (disk s))) (nxt s + 1))
                       (WCreated k id inc (nxt s)), WNone)
      end
  | WCreated k id inc dinc =>                              (* :302-315 abort check, by key *)
      match get k (fblobs s) with
      | Some _ => (set_pc s (WChecked k id inc dinc), WNone)
      | None => (set_pc (set_disk s (del k (disk s))) (WDataDone k id), WNone)
      end
  | WChecked k id inc dinc =>                              (* :316 ioCopy *)
      match get k (mem s) with
      | Some m =>
          if m_inc m =? inc
          then match get k (disk s) with
               | Some e => if d_inc e =? dinc
                           then (set_pc (set_disk s (put k (d_set_data e (m_data m)) (disk s))) (WCopied k id dinc), WNone)
                           else (set_pc s (WCopied k id dinc), WNone)   (* bytes go to an unlinked file *)
               | None => (set_pc s (WCopied k id dinc), WNone)
               end
          else (set_pc s (WDataDone k id), WNone)          (* ErrEvicted: return nil *)
      | None => (set_pc s (WDataDone k id), WNone)
      end
  | WCopied k id dinc =>                                   (* :323 disk.MarkComplete, by key *)
      match get k (disk s) with
      | Some e => (set_pc (set_disk s (put k (d_set_complete e) (disk s))) (WDataDone k id), WNone)
      | None => (set_pc s (WDataDone k id), WNone)
      end
  | WDataDone k id | WLoop k id =>                         (* :229-232 snapshot + clear *)
      match get id (heap s) with
      | Some fo => (set_pc (set_heap s (put id (mkf (f_key fo) (f_dd fo) []) (heap s))) (WMd k id (f_dirty fo)), WNone)
      | None => (set_pc s (WMd k id []), WNone)
      end
  | WMd k id [] => (set_pc s (WMdFlushed k id), WNone)
  | WMd k id (x :: r) =>                                   (* flushMetadata():264 mem.GetMetadata *)
      match get k (mem s) with
      | Some m => (set_pc s (WMdW k id x (get x (m_mds m)) r), WNone)
      | None => (set_pc s (WMd k id r), WNone)
      end
  | WMdW k id x ov r =>                                    (* :271 / :281 disk.Delete/SetMetadata *)
      match get k (disk s) with
      | Some e => (set_pc (set_disk s (put k (d_set_mds e (putopt x ov (d_mds e))) (disk s))) (WMd k id r), WNone)
      | None => (set_pc s (WMd k id r), WNone)
      end
  | WMdFlushed k id =>                                     (* :248-257 re-check, delete by key *)
      match dirty_of s id with
      | [] => (set_pc (set_fblobs s (del k (fblobs s))) (WUnban k), WNone)
      | _ :: _ => (set_pc s (WLoop k id), WNone)
      end
  | WFail1 k => (set_pc (set_disk s (del k (disk s))) (WFail2 k), WNone)       (* :217 *)
  | WFail2 k => (set_pc (set_fblobs s (del k (fblobs s))) (WUnban k), WNone)   (* :224 *)
  | WUnban k =>                                            (* :180 mem.UnbanEviction *)
      match get k (mem s) with
      | Some m => (set_pc (set_mem s (put k (m_set_banned m false) (mem s))) WIdle, WNone)
      | None => (set_pc s WIdle, WNone)
      end
  end.

Definition step (s : st) (o : op) : st * out :=
  match o with
  | Work ns => let '(s', e) := wstep s ns in (s', OW e)
  | _ => cstep s o
  end.

Fixpoint run (s : st) (ops : list op) : st * list out :=
  match ops with
  | [] => (s, [])
  | o :: t => let '(s1, r) := step s o in
              let '(s2, rs) := run s1 t in (s2, r :: rs)
  end.

(* ---------------------------------------------------------------- the property on one trace *)
(* what the property promises about key k *)
Inductive gst :=
| GAbsent                                   (* never created / deleted: must not be visible *)
| GInc (d : bytes) (mds : list (sfx * bytes))    (* created, not yet complete *)
| GLive (d : bytes) (mds : list (sfx * bytes))   (* complete: d and mds must be served *)
| GLimbo.                                   (* evicted from disk / flush failed for lack of disk
                                               space: no promise until deleted and re-created *)
Definition ghost := list (key * gst).
Definition gget (g : ghost) (k : key) : gst := match get k g with Some x => x | None => GAbsent end.

Definition out_eqb_bytes (a b : bytes) : bool :=
  (fix go (a b : bytes) := match a, b with
     | [], [] => true | x :: a', y :: b' => (x =? y) && go a' b' | _, _ => false end) a b.
Definition opt_bytes_eqb (a b : option bytes) : bool :=
  match a, b with None, None => true | Some x, Some y => out_eqb_bytes x y | _, _ => false end.

Definition gkeys (g : ghost) : list key := map fst g.

(* gstep g o r = (g', ok): ok = the observed result r of o is one the property allows in g *)
Definition gstep (g : ghost) (o : op) (r : out) : ghost * bool :=
  match o with
  | Create k d pl =>
      match r with
      | OOk => (put k (GInc d []) g, match gget g k with GAbsent | GLimbo => true | _ => false end)
      | OErr EExist => (g, match gget g k with GAbsent => false | _ => true end)
      | OErr EOther => (g, match pl with PNoSpace => true | _ => false end)
      | _ => (g, false)
      end
  | Open k sc =>
      (g, match gget g k with
          | GAbsent => match r with OErr ENotExist => true | _ => false end
          | GLive d _ => match sc, r with
                         | SIncomplete, OErr EOutOfScope => true
                         | SIncomplete, _ => false
                         | _, OBytes b => out_eqb_bytes b d
                         | _, _ => false
                         end
          | _ => true
          end)
  | Has k sc =>
      (g, match gget g k with
          | GAbsent => match r with OHas false false => true | _ => false end
          | GLive _ _ => match r with
                         | OHas true b => Bool.eqb b (match sc with SIncomplete => false | _ => true end)
                         | _ => false
                         end
          | _ => true
          end)
  | ListK sc =>
      (g, match r with
          | OKeys l =>
              forallb (fun k => match gget g k with
                                | GAbsent => negb (memN k l)
                                | GLive _ _ => Bool.eqb (memN k l) (match sc with SIncomplete => false | _ => true end)
                                | _ => true
                                end) (gkeys g ++ l)
          | _ => false
          end)
  | Delete k =>
      match r with
      | OOk => (put k GAbsent g, true)
      | OErr ENotExist => (g, match gget g k with GInc _ _ | GLive _ _ => false | _ => true end)
      | _ => (g, false)
      end
  | MarkComplete k =>
      match r with
      | OOk => match gget g k with
               | GInc d mds => (put k (GLive d mds) g, true)
               | GAbsent => (g, false)
               | _ => (g, true)
               end
      | OErr ENotExist => (g, match gget g k with GInc _ _ | GLive _ _ => false | _ => true end)
      | _ => (g, false)
      end
  | SetMd k x v =>
      match r with
      | OOk => match gget g k with
               | GInc d mds => (put k (GInc d (put x v mds)) g, true)
               | GLive d mds => (put k (GLive d (put x v mds)) g, true)
               | GAbsent => (g, false)
               | GLimbo => (g, true)
               end
      | OErr ENotExist => (g, match gget g k with GInc _ _ | GLive _ _ => false | _ => true end)
      | _ => (g, false)
      end
  | DelMd k x =>
      match r with
      | OOk => match gget g k with
               | GInc d mds => (put k (GInc d (del x mds)) g, true)
               | GLive d mds => (put k (GLive d (del x mds)) g, true)
               | GAbsent => (g, false)
               | GLimbo => (g, true)
               end
      | OErr ENotExist => (g, match gget g k with GInc _ _ | GLive _ _ => false | _ => true end)
      | _ => (g, false)
      end
  | GetMd k x sc =>
      (g, match gget g k with
          | GAbsent => match r with OErr ENotExist => true | _ => false end
          | GLive _ mds => match sc, r with
                           | SIncomplete, OErr EOutOfScope => true
                           | SIncomplete, _ => false
                           | _, OMd v => opt_bytes_eqb v (get x mds)
                           | _, _ => false
                           end
          | _ => true
          end)
  | Where _ => (g, true)
  | EvictMem _ => (g, true)                  (* memory pressure is no excuse *)
  | EvictDisk k =>
      match r with
      | OOk => match gget g k with GLive _ _ => (put k GLimbo g, true) | _ => (g, true) end
      | _ => (g, true)
      end
  | Work _ =>
      match r with
      | OW (WNoSpace k) => match gget g k with GLive _ _ => (put k GLimbo g, true) | _ => (g, true) end
      | _ => (g, true)
      end
  end.

Fixpoint grun (g : ghost) (ops : list op) (rs : list out) : ghost * bool :=
  match ops, rs with
  | o :: t, r :: rt => let '(g1, ok1) := gstep g o r in
                       let '(g2, ok2) := grun g1 t rt in (g2, ok1 && ok2)
  | _, _ => (g, true)
  end.

(* C09 evaluated on one observed trace *)
Definition C09_check (ops : list op) (obs : list out) : bool := snd (grun [] ops obs).

(* ---------------------------------------------------------------- hypotheses of C09_partial *)
Definition won (p : pc) (k : key) : bool :=
  match p with
  | WIdle => false
  | WStart k' _ | WOpened k' _ _ | WCreated k' _ _ _ | WChecked k' _ _ _ | WCopied k' _ _
  | WDataDone k' _ | WLoop k' _ | WMd k' _ _ | WMdW k' _ _ _ _ | WMdFlushed k' _
  | WFail1 k' | WFail2 k' | WUnban k' => k' =? k
  end.
Definition at_unban (p : pc) (k : key) : bool := match p with WUnban k' => k' =? k | _ => false end.
Definition at_created (p : pc) (k : key) : bool := match p with WCreated k' _ _ _ => k' =? k | _ => false end.

(* H1: no metadata mutation of k between the worker's delete(f.blobs,k) and UnbanEviction(k)
   H2: k is not (re-)created while the worker is flushing k
   H3: no client operation looks at k between the worker's disk.Create(k) and its abort check
       once the flush of k has been aborted (the disk entry about to be removed is visible) *)
Definition opkey (o : op) : option key :=
  match o with
  | Create k _ _ | Open k _ | Has k _ | Delete k | MarkComplete k | SetMd k _ _ | DelMd k _
  | GetMd k _ _ | Where k | EvictMem k | EvictDisk k => Some k
  | ListK _ | Work _ => None
  end.
Definition in_window3 (s : st) (k : key) : bool :=
  at_created (wpc s) k && match get k (fblobs s) with None => true | Some _ => false end.
Definition wkey (p : pc) : option key :=
  match p with
  | WIdle => None
  | WStart k' _ | WOpened k' _ _ | WCreated k' _ _ _ | WChecked k' _ _ _ | WCopied k' _ _
  | WDataDone k' _ | WLoop k' _ | WMd k' _ _ | WMdW k' _ _ _ _ | WMdFlushed k' _
  | WFail1 k' | WFail2 k' | WUnban k' => Some k'
  end.
Definition guard (s : st) (o : op) : bool :=
  match o with
  | SetMd k _ _ | DelMd k _ => negb (at_unban (wpc s) k) && negb (in_window3 s k)      (* H1 *)
  | Create k _ _ => negb (won (wpc s) k)                                              (* H2 *)
  | Work _ | EvictMem _ | EvictDisk _ => true
  | ListK _ => match wkey (wpc s) with Some k => negb (in_window3 s k) | None => true end
  | Where _ => true
  | Open k _ | Has k _ | Delete k | MarkComplete k | GetMd k _ _ => negb (in_window3 s k)
  end.
Fixpoint sched_ok (s : st) (ops : list op) : bool :=
  match ops with
  | [] => true
  | o :: t => guard s o && sched_ok (fst (step s o)) t
  end.

(* the three hypotheses separately (guard s o = h1 s o && h2 s o && h3 s o, Proof/C09.v) *)
Definition h1 (s : st) (o : op) : bool :=
  match o with SetMd k _ _ | DelMd k _ => negb (at_unban (wpc s) k) | _ => true end.
Definition h2 (s : st) (o : op) : bool :=
  match o with Create k _ _ => negb (won (wpc s) k) | _ => true end.
Definition h3 (s : st) (o : op) : bool :=
  match o with
  | SetMd k _ _ | DelMd k _ | Open k _ | Has k _ | Delete k | MarkComplete k | GetMd k _ _ => negb (in_window3 s k)
  | ListK _ => match wkey (wpc s) with Some k => negb (in_window3 s k) | None => true end
  | _ => true
  end.
Fixpoint sched_by (gd : st -> op -> bool) (s : st) (ops : list op) : bool :=
  match ops with
  | [] => true
  | o :: t => gd s o && sched_by gd (fst (step s o)) t
  end.

(* the promises in force after a run of the model *)
Definition ghost_after (ops : list op) : ghost := fst (grun [] ops (snd (run init ops))).

(* witness schedules used by the refutation theorems and as harness seeds *)
Definition works (n : nat) : list op := repeat (Work false) n.
Definition wit_unban_window : list op :=
  [Create 1 [7] PMem; MarkComplete 1] ++ works 9 ++
  [SetMd 1 1 [9]; Work false; EvictMem 1; GetMd 1 1 SAny].
Definition wit_recreate : list op :=
  [Create 1 [7] PMem; MarkComplete 1] ++ works 8 ++
  [Delete 1; Create 1 [8; 8] PMem; MarkComplete 1; Work false; Work false; EvictMem 1; Open 1 SAny].
Definition wit_resurface : list op :=
  [Create 1 [7] PMem; MarkComplete 1; Work false; Work false; Delete 1; Work false;
   Has 1 SAny; Create 1 [6] PMem].
Definition wit_ok : list op :=
  [Create 1 [7; 7] PMem; SetMd 1 1 [1]; MarkComplete 1] ++ works 6 ++
  [SetMd 1 2 [2]] ++ works 3 ++ [SetMd 1 1 [3]] ++ works 12 ++
  [DelMd 1 2] ++ works 8 ++ [EvictMem 1; Open 1 SAny; GetMd 1 1 SAny; GetMd 1 2 SAny;
   Delete 1; Has 1 SAny; Create 1 [5] PDisk; MarkComplete 1; Open 1 SComplete].
