(* Model of utils/dedup: IntervalTrap (interval_trap.go), Limiter (limiter.go) and
   RequestCache (request_cache.go).
   Executable definitions only; proofs live in Proof/C29*.v.

   Concurrency: each component is a transition system whose atomic steps are the code's lock
   regions / channel operations.  A schedule is a list of labels; a label names the thread that
   moves.  A label that is not enabled in the current state leaves the state unchanged, so
   `run` is total and the theorems quantify over ALL label lists = all interleavings of any
   number of threads at that granularity, with clock advances (`Tick`) anywhere.

   Tables indexed by thread / key / task id are total functions N -> _ updated pointwise
   (the garbage collector and Broadcast are pointwise maps); time is N (nanoseconds since the
   mock clock's epoch); the zero time.Time of a fresh task is `None`. *)
From Coq Require Import List NArith Bool.
Import ListNotations.
Local Open Scope N_scope.

Definition upd {A : Type} (f : N -> A) (k : N) (v : A) : N -> A :=
  fun x => if N.eqb x k then v else f x.

(* ====================================================================================== *)
(* IntervalTrap (interval_trap.go)                                                        *)
(* ====================================================================================== *)

Inductive tpc := TIdle | TReady.         (* TReady: ready() was true under RLock (l.56-58) *)

Record tst := mkTr {
  tr_now  : N;
  tr_prev : N;                           (* interval_trap.go:33 prev *)
  tr_thr  : N -> tpc;
  tr_runs : list N                       (* ghost: start times of task.Run, latest first *)
}.

Inductive tlab :=
| TTick (dt : N)
| TCheck (c : N)                         (* interval_trap.go:56-61 RLock; ready(); RUnlock *)
| TFire (c dt : N).                      (* :63-69 Lock; ready(); task.Run(); prev = Now(); the
                                            task may itself let dt of time pass *)

Definition tinit (t0 : N) : tst := mkTr t0 t0 (fun _ => TIdle) [].

(* interval_trap.go:49-51 now.After(prev.Add(interval)) *)
Definition tready (iv : N) (now prev : N) : bool := prev + iv <? now.

Definition tstep (iv : N) (s : tst) (l : tlab) : tst :=
  match l with
  | TTick dt => mkTr (tr_now s + dt) (tr_prev s) (tr_thr s) (tr_runs s)
  | TCheck c =>
      match tr_thr s c with
      | TIdle => if tready iv (tr_now s) (tr_prev s)
                 then mkTr (tr_now s) (tr_prev s) (upd (tr_thr s) c TReady) (tr_runs s)
                 else s
      | TReady => s
      end
  | TFire c dt =>
      match tr_thr s c with
      | TReady =>
          if tready iv (tr_now s) (tr_prev s)
          then mkTr (tr_now s + dt) (tr_now s + dt) (upd (tr_thr s) c TIdle) (tr_now s :: tr_runs s)
          else mkTr (tr_now s) (tr_prev s) (upd (tr_thr s) c TIdle) (tr_runs s)
      | TIdle => s
      end
  end.

Definition trun (iv : N) (s : tst) (ls : list tlab) : tst := fold_left (tstep iv) ls s.

(* consecutive runs (latest first) are more than one interval apart *)
Fixpoint gaps (iv : N) (l : list N) : bool :=
  match l with
  | a :: ((b :: _) as t) => (b + iv <? a) && gaps iv t
  | _ => true
  end.

(* ====================================================================================== *)
(* Limiter (limiter.go)                                                                   *)
(* ====================================================================================== *)

(* limiter.go:31-38 task; t_del is the `deleted` flag of fixes/C29_gc_deleted_flag.patch
   (in the pre-fix model it is a ghost: written by the collector, never read) *)
Record task := mkT { t_key : N; t_run : bool; t_out : N; t_exp : option N; t_del : bool }.

Definition task_new (k : N) : task := mkT k false 0 None false.      (* limiter.go:40-45 *)
Definition task0 : task := mkT 0 false 0 None true.                   (* unallocated slot *)

Inductive lpc :=
| LIdle
| LStart (k : N)             (* Run entered (limiter.go:74), before gc.Trap's RLock check *)
| LTrapReady (k : N)         (* trap ready under RLock, about to take the trap's write lock *)
| LLookup (k : N)            (* trap done, before the RLock lookup (l.77) *)
| LMiss (k : N)              (* lookup missed, before the write-locked insert (l.82) *)
| LHeld (k tid : N)          (* holds a task pointer; at verifYield, before the task lock *)
| LWait (k tid : N)          (* in t.cond.Wait (l.103) *)
| LWoken (k tid : N)         (* notified; must re-acquire the task lock to read the output *)
| LRunning (k tid : N)       (* runner.Run in progress (l.111) *)
| LBcast (k tid out : N)     (* output stored (l.113-117), about to Broadcast (l.119) *)
| LDone (out : N).           (* Run returned out *)

Record lst := mkL {
  l_now  : N;
  l_prev : N;                (* the gc trap's prev *)
  l_next : N;                (* next fresh task id *)
  l_heap : N -> task;        (* every task ever allocated *)
  l_map  : N -> option N;    (* limiter.go:57 tasks: key -> task id *)
  l_thr  : N -> lpc;
  l_tids : list N            (* ghost: threads that ever called Run *)
}.

Inductive llab :=
| LTick (dt : N)
| LCall (c k : N)            (* Limiter.Run(k) entered by thread c *)
| LTrap1 (c : N)             (* interval_trap.go:56-61 *)
| LTrap2 (c : N)             (* interval_trap.go:63-69 with limiterTaskGC.Run (limiter.go:128-140) *)
| LLook (c : N)              (* limiter.go:77-79 *)
| LIns (c : N)               (* limiter.go:82-88 *)
| LDecide (c : N)            (* getOutput's first task-lock region, limiter.go:95-109 *)
| LEnd (c out ttl : N)       (* limiter.go:113-117 *)
| LBroadcast (c : N)         (* limiter.go:119 *)
| LWake (c : N).             (* Wait returns with the task lock held, limiter.go:104-105 *)

Definition linit : lst := mkL 0 0 0 (fun _ => task0) (fun _ => None) (fun _ => LIdle) [].

(* limiter.go:47-49 now.After(expiresAt) *)
Definition expired (now : N) (t : task) : bool :=
  match t_exp t with None => true | Some e => e <? now end.
(* limiter.go:134 *)
Definition gcable (now : N) (t : task) : bool := expired now t && negb (t_run t).

(* the collector deletes task tid: it is the mapped task of its key and is collectable *)
Definition gc_hit (s : lst) (tid : N) : bool :=
  match l_map s (t_key (l_heap s tid)) with
  | Some t' => N.eqb t' tid && gcable (l_now s) (l_heap s tid)
  | None => false
  end.

Definition set_del (t : task) : task := mkT (t_key t) (t_run t) (t_out t) (t_exp t) true.
Definition set_run (t : task) (b : bool) : task := mkT (t_key t) b (t_out t) (t_exp t) (t_del t).
Definition set_res (t : task) (o e : N) : task := mkT (t_key t) false o (Some e) (t_del t).

(* limiter.go:128-140: under the Limiter's write lock, every mapped task is examined under its
   own lock; the examination of one task is the linearisation point for that task and the map
   deletion commutes with every task-lock region, so the whole collection is one step *)
Definition gc_map (s : lst) : N -> option N :=
  fun k => match l_map s k with
           | Some tid => if gcable (l_now s) (l_heap s tid) then None else Some tid
           | None => None
           end.
Definition gc_heap (s : lst) : N -> task :=
  fun tid => if gc_hit s tid then set_del (l_heap s tid) else l_heap s tid.

Definition wake (tid : N) (p : lpc) : lpc :=
  match p with
  | LWait k t => if N.eqb t tid then LWoken k t else p
  | _ => p
  end.

Definition callable (p : lpc) : bool :=
  match p with LIdle | LDone _ => true | _ => false end.

Definition add_tid (c : N) (l : list N) : list N := if existsb (N.eqb c) l then l else c :: l.

Definition set_thr (s : lst) (c : N) (p : lpc) : lst :=
  mkL (l_now s) (l_prev s) (l_next s) (l_heap s) (l_map s) (upd (l_thr s) c p) (l_tids s).

(* fx = true: the code with fixes/C29_gc_deleted_flag.patch; fx = false: the code as found *)
Definition lstep (fx : bool) (iv : N) (s : lst) (l : llab) : lst :=
  match l with
  | LTick dt => mkL (l_now s + dt) (l_prev s) (l_next s) (l_heap s) (l_map s) (l_thr s) (l_tids s)
  | LCall c k =>
      if callable (l_thr s c)
      then mkL (l_now s) (l_prev s) (l_next s) (l_heap s) (l_map s) (upd (l_thr s) c (LStart k))
               (add_tid c (l_tids s))
      else s
  | LTrap1 c =>
      match l_thr s c with
      | LStart k => set_thr s c (if tready iv (l_now s) (l_prev s) then LTrapReady k else LLookup k)
      | _ => s
      end
  | LTrap2 c =>
      match l_thr s c with
      | LTrapReady k =>
          if tready iv (l_now s) (l_prev s)
          then mkL (l_now s) (l_now s) (l_next s) (gc_heap s) (gc_map s)
                   (upd (l_thr s) c (LLookup k)) (l_tids s)
          else set_thr s c (LLookup k)
      | _ => s
      end
  | LLook c =>
      match l_thr s c with
      | LLookup k => set_thr s c (match l_map s k with Some tid => LHeld k tid | None => LMiss k end)
      | _ => s
      end
  | LIns c =>
      match l_thr s c with
      | LMiss k =>
          match l_map s k with
          | Some tid => set_thr s c (LHeld k tid)
          | None => mkL (l_now s) (l_prev s) (l_next s + 1)
                        (upd (l_heap s) (l_next s) (task_new k))
                        (upd (l_map s) k (Some (l_next s)))
                        (upd (l_thr s) c (LHeld k (l_next s))) (l_tids s)
          end
      | _ => s
      end
  | LDecide c =>
      match l_thr s c with
      | LHeld k tid =>
          let t := l_heap s tid in
          if fx && t_del t then set_thr s c (LStart k)            (* patch: start over *)
          else if negb (expired (l_now s) t) then set_thr s c (LDone (t_out t))   (* l.97-100 *)
          else if t_run t then set_thr s c (LWait k tid)                           (* l.102-103 *)
          else mkL (l_now s) (l_prev s) (l_next s) (upd (l_heap s) tid (set_run t true))
                   (l_map s) (upd (l_thr s) c (LRunning k tid)) (l_tids s)         (* l.108-109 *)
      | _ => s
      end
  | LEnd c out ttl =>
      match l_thr s c with
      | LRunning k tid =>
          mkL (l_now s) (l_prev s) (l_next s)
              (upd (l_heap s) tid (set_res (l_heap s tid) out (l_now s + ttl)))
              (l_map s) (upd (l_thr s) c (LBcast k tid out)) (l_tids s)
      | _ => s
      end
  | LBroadcast c =>
      match l_thr s c with
      | LBcast k tid out =>
          mkL (l_now s) (l_prev s) (l_next s) (l_heap s) (l_map s)
              (upd (fun w => wake tid (l_thr s w)) c (LDone out)) (l_tids s)
      | _ => s
      end
  | LWake c =>
      match l_thr s c with
      | LWoken k tid => set_thr s c (LDone (t_out (l_heap s tid)))
      | _ => s
      end
  end.

Definition lrun (fx : bool) (iv : N) (s : lst) (ls : list llab) : lst := fold_left (lstep fx iv) ls s.

(* a collection that would delete a task some thread holds but has not locked yet *)
Definition gc_in_window (iv : N) (s : lst) (l : llab) : bool :=
  match l with
  | LTrap2 c =>
      match l_thr s c with
      | LTrapReady _ =>
          tready iv (l_now s) (l_prev s) &&
          existsb (fun w => match l_thr s w with LHeld _ tid => gc_hit s tid | _ => false end) (l_tids s)
      | _ => false
      end
  | _ => false
  end.

(* schedule predicate of the partial theorem: no collection falls between a caller's lookup
   and its task lock (for a task that collection deletes) *)
Fixpoint gc_safe (fx : bool) (iv : N) (s : lst) (ls : list llab) : bool :=
  match ls with
  | [] => true
  | l :: r => negb (gc_in_window iv s l) && gc_safe fx iv (lstep fx iv s l) r
  end.

(* ---- what the driver sees of a thread after the system went quiet ---- *)
Inductive lstatus := SIdle | SHook | SWait | SRun (k : N) | SDone (out : N) | STransient.

Definition lstatus_of (p : lpc) : lstatus :=
  match p with
  | LIdle => SIdle
  | LHeld _ _ => SHook
  | LWait _ _ => SWait
  | LRunning k _ => SRun k
  | LDone o => SDone o
  | _ => STransient
  end.

(* driver-level operations and their expansion into atomic steps *)
Inductive lmac :=
| MTick (dt : N)
| MBegin (c k : N)           (* go Run(k); runs until the yield point *)
| MEnter (c : N)             (* release c from the yield point *)
| MFinish (c out ttl : N).   (* let c's runner return (out, ttl) *)

Definition lexpand (n : N) (m : lmac) : list llab :=
  match m with
  | MTick dt => [LTick dt]
  | MBegin c k => [LCall c k; LTrap1 c; LTrap2 c; LLook c; LIns c]
  | MEnter c => [LDecide c; LTrap1 c; LTrap2 c; LLook c; LIns c]
  | MFinish c out ttl =>
      [LEnd c out ttl; LBroadcast c] ++ map LWake (map N.of_nat (seq 0 (N.to_nat n)))
  end.

Definition lsnap (n : N) (s : lst) : list lstatus :=
  map (fun i => lstatus_of (l_thr s (N.of_nat i))) (seq 0 (N.to_nat n)).

Fixpoint lmrun (fx : bool) (iv : N) (n : N) (s : lst) (ms : list lmac) : list (list lstatus) :=
  match ms with
  | [] => []
  | m :: r => let s' := lrun fx iv s (lexpand n m) in lsnap n s' :: lmrun fx iv n s' r
  end.

(* ====================================================================================== *)
(* RequestCache (request_cache.go)                                                        *)
(* ====================================================================================== *)

Record rcfg := mkRC { c_nf : N; c_err : N; c_clean : N; c_workers : N; c_busy : N }.

(* request_cache.go:34-53 *)
Definition rc_defaults (d c : rcfg) : rcfg :=
  let pick x y := if N.eqb x 0 then y else x in
  mkRC (pick (c_nf c) (c_nf d)) (pick (c_err c) (c_err d)) (pick (c_clean c) (c_clean d))
       (pick (c_workers c) (c_workers d)) (pick (c_busy c) (c_busy d)).

Inductive rres := RPending | RErr (e : N) | RBusy.

Inductive rpc :=
| RIdle
| RRet (r : rres)            (* Start returned an error *)
| RReserved (k : N)          (* reserve succeeded (l.163), before reserveWorker's clk.After *)
| RArmed (k d : N)           (* in reserveWorker's select, timer due at d (l.198-204) *)
| RRunning (k : N)           (* Start returned nil; r executes in the worker goroutine (l.135-138) *)
| RReleasing (k : N).        (* run() finished (l.168-174), before releaseWorker (l.207-209) *)

Record rst := mkR {
  r_now  : N;
  r_pend : N -> bool;                 (* request_cache.go:86 *)
  r_errs : N -> option (N * N);       (* :87 key -> (error id, expiresAt) *)
  r_last : N;                         (* :88 lastClean *)
  r_used : N;                         (* len(numWorkers) *)
  r_thr  : N -> rpc;
  r_tids : list N                     (* ghost: threads that ever called Start *)
}.

Inductive rlab :=
| RTick (dt : N)
| RStart (c k : N)                    (* reserve, request_cache.go:142-166 *)
| RArm (c : N)                        (* clk.After(BusyTimeout) evaluated, l.202 *)
| RWorkerOk (c : N)                   (* numWorkers <- struct{}{}, l.199; go func, l.135 *)
| RTimeout (c : N)                    (* timer fired, l.202-203; release(id), l.132 *)
| RFinish (c : N) (res : option (N * bool))   (* r returned: None = nil, Some (e, isNotFound e);
                                                  release (l.176-181) or error (l.183-195) *)
| RRelease (c : N).                   (* releaseWorker, l.207-209 *)

Definition rinit : rst := mkR 0 (fun _ => false) (fun _ => None) 0 0 (fun _ => RIdle) [].

(* request_cache.go:66-68 *)
Definition cexpired (now exp : N) : bool := exp <? now.

(* request_cache.go:147-154 *)
Definition rclean (cf : rcfg) (s : rst) : (N -> option (N * N)) * N :=
  if r_last s + c_clean cf <? r_now s
  then (fun k => match r_errs s k with
                 | Some (e, exp) => if cexpired (r_now s) exp then None else Some (e, exp)
                 | None => None
                 end, r_now s)
  else (r_errs s, r_last s).

Definition startable (p : rpc) : bool :=
  match p with RIdle | RRet _ => true | _ => false end.

Definition rstep (cf : rcfg) (s : rst) (l : rlab) : rst :=
  match l with
  | RTick dt => mkR (r_now s + dt) (r_pend s) (r_errs s) (r_last s) (r_used s) (r_thr s) (r_tids s)
  | RStart c k =>
      if startable (r_thr s c) then
        let '(errs, last) := rclean cf s in
        let tids := add_tid c (r_tids s) in
        if r_pend s k then mkR (r_now s) (r_pend s) errs last (r_used s) (upd (r_thr s) c (RRet RPending)) tids
        else match errs k with
             | Some (e, exp) =>
                 if cexpired (r_now s) exp
                 then mkR (r_now s) (upd (r_pend s) k true) errs last (r_used s) (upd (r_thr s) c (RReserved k)) tids
                 else mkR (r_now s) (r_pend s) errs last (r_used s) (upd (r_thr s) c (RRet (RErr e))) tids
             | None => mkR (r_now s) (upd (r_pend s) k true) errs last (r_used s) (upd (r_thr s) c (RReserved k)) tids
             end
      else s
  | RArm c =>
      match r_thr s c with
      | RReserved k => mkR (r_now s) (r_pend s) (r_errs s) (r_last s) (r_used s)
                           (upd (r_thr s) c (RArmed k (r_now s + c_busy cf))) (r_tids s)
      | _ => s
      end
  | RWorkerOk c =>
      match r_thr s c with
      | RArmed k _ =>
          if r_used s <? c_workers cf
          then mkR (r_now s) (r_pend s) (r_errs s) (r_last s) (r_used s + 1) (upd (r_thr s) c (RRunning k)) (r_tids s)
          else s
      | _ => s
      end
  | RTimeout c =>
      match r_thr s c with
      | RArmed k d =>
          if d <=? r_now s
          then mkR (r_now s) (upd (r_pend s) k false) (r_errs s) (r_last s) (r_used s)
                   (upd (r_thr s) c (RRet RBusy)) (r_tids s)
          else s
      | _ => s
      end
  | RFinish c res =>
      match r_thr s c with
      | RRunning k =>
          let errs := match res with
                      | None => r_errs s
                      | Some (e, nf) => upd (r_errs s) k (Some (e, r_now s + (if nf then c_nf cf else c_err cf)))
                      end in
          mkR (r_now s) (upd (r_pend s) k false) errs (r_last s) (r_used s) (upd (r_thr s) c (RReleasing k)) (r_tids s)
      | _ => s
      end
  | RRelease c =>
      match r_thr s c with
      | RReleasing _ => mkR (r_now s) (r_pend s) (r_errs s) (r_last s) (r_used s - 1) (upd (r_thr s) c RIdle) (r_tids s)
      | _ => s
      end
  end.

Definition rrun (cf : rcfg) (s : rst) (ls : list rlab) : rst := fold_left (rstep cf) ls s.

(* thread p holds a worker: it executes its request or is about to give the worker back *)
Definition occupying (p : rpc) : bool :=
  match p with RRunning _ | RReleasing _ => true | _ => false end.
(* number of threads (among those that ever called Start) holding a worker *)
Definition inflight (s : rst) : N :=
  N.of_nat (length (filter (fun c => occupying (r_thr s c)) (r_tids s))).

(* thread p has key k reserved or executing *)
Definition holdsb (p : rpc) (k : N) : bool :=
  match p with
  | RReserved k' | RArmed k' _ | RRunning k' => N.eqb k' k
  | _ => false
  end.

Inductive rstatus := QIdle | QRet (r : rres) | QBlocked (k : N) | QRun (k : N) | QTransient.

Definition rstatus_of (p : rpc) : rstatus :=
  match p with
  | RIdle => QIdle
  | RRet r => QRet r
  | RArmed k _ => QBlocked k
  | RRunning k => QRun k
  | _ => QTransient
  end.

Inductive rmac :=
| QTick (dt : N)
| QStart (c k : N)
| QFinish (c : N) (res : option (N * bool)) (next : option N).
    (* next: the blocked Start that obtained the freed worker (chosen by the Go runtime) *)

Definition nthreads (n : N) : list N := map N.of_nat (seq 0 (N.to_nat n)).

Definition rexpand (n : N) (m : rmac) : list rlab :=
  match m with
  | QTick dt => RTick dt :: map RTimeout (nthreads n)
  | QStart c k => [RStart c k; RArm c; RWorkerOk c]
  | QFinish c res nx => [RFinish c res; RRelease c] ++ match nx with Some w => [RWorkerOk w] | None => [] end
  end.

Definition rsnap (n : N) (s : rst) : list rstatus := map (fun c => rstatus_of (r_thr s c)) (nthreads n).

Fixpoint rmrun (cf : rcfg) (n : N) (s : rst) (ms : list rmac) : list (list rstatus) :=
  match ms with
  | [] => []
  | m :: r => let s' := rrun cf s (rexpand n m) in rsnap n s' :: rmrun cf n s' r
  end.

(* ====================================================================================== *)
(* The property on one observed trace (independent of the models above)                   *)
(* ====================================================================================== *)

(* no two positions of a snapshot execute the same key *)
Fixpoint keys_run_l (l : list lstatus) : list N :=
  match l with [] => [] | SRun k :: t => k :: keys_run_l t | _ :: t => keys_run_l t end.
Fixpoint keys_run_r (l : list rstatus) : list N :=
  match l with [] => [] | QRun k :: t => k :: keys_run_r t | _ :: t => keys_run_r t end.
Fixpoint nodupb (l : list N) : bool :=
  match l with [] => true | x :: t => negb (existsb (N.eqb x) t) && nodupb t end.

Definition lim_check (obs : list (list lstatus)) : bool :=
  forallb (fun sn => nodupb (keys_run_l sn)) obs.

(* RequestCache: a sequential reading of the observed trace.  `prev` is the snapshot before
   the operation; `cache` is what the observed failures say must still be cached. *)
Definition key_busy (prev : list rstatus) (k : N) : bool :=
  existsb (fun q => match q with QRun k' | QBlocked k' => N.eqb k' k | _ => false end) prev.

Definition nth_status (sn : list rstatus) (c : N) : rstatus := nth (N.to_nat c) sn QTransient.

Definition status_startable (q : rstatus) : bool :=
  match q with QIdle | QRet _ => true | _ => false end.

(* what a Start of k may answer, given who was busy with k before and what must be cached *)
Definition start_ok (now : N) (cache : N -> option (N * N)) (prev : list rstatus) (k : N) (q : rstatus) : bool :=
  if key_busy prev k
  then match q with QRet RPending => true | _ => false end          (* pending is reported *)
  else match q with
       | QRet RPending => false                                      (* nothing was pending *)
       | _ => match cache k with
              | Some (e, exp) =>
                  if cexpired now exp then true
                  else match q with QRet (RErr e') => N.eqb e e' | _ => false end
              | None => true
              end
       end.

Definition cache_upd (cf : rcfg) (now : N) (cache : N -> option (N * N))
           (res : option (N * bool)) (prevq : rstatus) : N -> option (N * N) :=
  match res, prevq with
  | Some (e, nf), QRun k => upd cache k (Some (e, now + (if nf then c_nf cf else c_err cf)))
  | _, _ => cache
  end.

Fixpoint rc_check_from (cf : rcfg) (now : N) (cache : N -> option (N * N)) (prev : list rstatus)
         (ms : list rmac) (obs : list (list rstatus)) : bool :=
  match ms, obs with
  | [], [] => true
  | m :: ms', sn :: obs' =>
      nodupb (keys_run_r sn) &&
      match m with
      | QTick dt => rc_check_from cf (now + dt) cache sn ms' obs'
      | QStart c k =>
          (if status_startable (nth_status prev c)
           then start_ok now cache prev k (nth_status sn c)
           else true)                               (* c is inside Start already: not enabled *)
          && rc_check_from cf now cache sn ms' obs'
      | QFinish c res _ =>
          rc_check_from cf now (cache_upd cf now cache res (nth_status prev c)) sn ms' obs'
      end
  | _, _ => false
  end.

(* every operation names a thread of the case *)
Definition wf_rops (n : N) (ms : list rmac) : bool :=
  forallb (fun m => match m with
                    | QTick _ => true
                    | QStart c _ => c <? n
                    | QFinish c _ nx => (c <? n) && match nx with Some w => w <? n | None => true end
                    end) ms.

Definition rc_check (cf : rcfg) (n : N) (ms : list rmac) (obs : list (list rstatus)) : bool :=
  rc_check_from cf 0 (fun _ => None) (map (fun _ => QIdle) (nthreads n)) ms obs.

(* ---- IntervalTrap at driver level ---- *)
Inductive tmac := TmTick (dt : N) | TmTrap (c dt : N).   (* dt: time the task lets pass if it runs *)

Definition texpand (m : tmac) : list tlab :=
  match m with TmTick dt => [TTick dt] | TmTrap c dt => [TCheck c; TFire c dt] end.

(* observation of one operation: did the task run *)
Fixpoint tmrun (iv : N) (s : tst) (ms : list tmac) : list bool :=
  match ms with
  | [] => []
  | m :: r => let s' := trun iv s (texpand m) in
              negb (Nat.eqb (length (tr_runs s')) (length (tr_runs s))) :: tmrun iv s' r
  end.

(* run times (latest first) implied by an observed trace *)
Fixpoint trap_times (now : N) (acc : list N) (ms : list tmac) (obs : list bool) : option (list N) :=
  match ms, obs with
  | [], [] => Some acc
  | TmTick dt :: ms', false :: obs' => trap_times (now + dt) acc ms' obs'
  | TmTrap _ dt :: ms', true :: obs' => trap_times (now + dt) (now :: acc) ms' obs'
  | TmTrap _ _ :: ms', false :: obs' => trap_times now acc ms' obs'
  | _, _ => None
  end.

Definition trap_check (iv : N) (ms : list tmac) (obs : list bool) : bool :=
  match trap_times 0 [] ms obs with Some l => gaps iv l | None => false end.

(* ---- equality on observations ---- *)
Definition lstatus_eqb (a b : lstatus) : bool :=
  match a, b with
  | SIdle, SIdle | SHook, SHook | SWait, SWait | STransient, STransient => true
  | SRun x, SRun y | SDone x, SDone y => N.eqb x y
  | _, _ => false
  end.
Definition rres_eqb (a b : rres) : bool :=
  match a, b with
  | RPending, RPending | RBusy, RBusy => true
  | RErr x, RErr y => N.eqb x y
  | _, _ => false
  end.
Definition rstatus_eqb (a b : rstatus) : bool :=
  match a, b with
  | QIdle, QIdle | QTransient, QTransient => true
  | QRet x, QRet y => rres_eqb x y
  | QBlocked x, QBlocked y | QRun x, QRun y => N.eqb x y
  | _, _ => false
  end.
Fixpoint list_eqb {A : Type} (e : A -> A -> bool) (a b : list A) : bool :=
  match a, b with
  | [], [] => true
  | x :: a', y :: b' => e x y && list_eqb e a' b'
  | _, _ => false
  end.
