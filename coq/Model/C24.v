(* Model of lib/healthcheck/passive_filter.go (passiveFilter) and lib/healthcheck/passive.go
   (Passive), with PassiveFilterConfig.applyDefaults from lib/healthcheck/config.go.
   Executable definitions only; proofs live in Proof/C24.v. *)
From Coq Require Import List NArith ZArith Bool.
From K.Gen Require Import C24_consts.
Import ListNotations.
Local Open Scope Z_scope.

(* Hosts are canonicalised to small N by the harness. Times and durations are Z in the unit of
   time.Duration (nanoseconds); the clock starts at 0 (only differences are ever used). *)

(* ---- configuration (config.go:46-66) *)
Record config := mkcfg { c_fails : Z; c_timeout : Z }.

(* the two defaults (config.go:60, :63) are extracted from the source on every run:
   Gen/C24_consts.v defines pf_default_fails and pf_default_fail_timeout *)
Definition apply_defaults (c : config) : config :=                      (* config.go:58-65 *)
  mkcfg (if c_fails c =? 0 then pf_default_fails else c_fails c)
        (if c_timeout c =? 0 then pf_default_fail_timeout else c_timeout c).

(* ---- operations and outputs *)
Inductive op :=
| Failed (via : bool) (h : N)   (* PassiveFilter.Failed h; via = true: through Passive.Failed *)
| Tick (d : Z)                  (* the clock moves by d *)
| Run (addrs : list N)          (* PassiveFilter.Run addrs *)
| Resolve (all : list N).       (* Passive.Resolve when the wrapped host list resolves to `all` *)

Inductive out := OUnit | OSet (l : list N).

(* ---- Go maps with N keys as association lists (at most one entry per key) *)
Section Map.
  Context {A : Type}.
  Fixpoint get (k : N) (m : list (N * A)) : option A :=
    match m with
    | [] => None
    | (k', v) :: r => if N.eqb k k' then Some v else get k r
    end.
  Definition del (k : N) (m : list (N * A)) : list (N * A) :=
    filter (fun e => negb (N.eqb k (fst e))) m.
  Definition put (k : N) (v : A) (m : list (N * A)) : list (N * A) := (k, v) :: del k m.
End Map.

(* passive_filter.go:34-40 (the mutex makes Run and Failed atomic steps) *)
Record st := mk { now : Z; unhealthy : list (N * Z); failures : list (N * list Z) }.
Definition init : st := mk 0 [] [].

Definition lenZ {A} (l : list A) : Z := Z.of_nat (length l).

(* passive_filter.go:81-87: pop expired failures off the FRONT until the first live one *)
Fixpoint prune (ft nw : Z) (l : list Z) : list Z :=
  match l with
  | [] => []
  | t :: r => if ft <? nw - t then prune ft nw r else l
  end.

Definition failures_of (h : N) (s : st) : list Z :=
  match get h (failures s) with Some l => l | None => [] end.

(* passive_filter.go:72-96 *)
Definition failed (c : config) (s : st) (h : N) : st :=
  let fs := prune (c_timeout c) (now s) (failures_of h s) ++ [now s] in  (* :78-90 *)
  mk (now s)
     (if c_fails c <=? lenZ fs then put h (now s) (unhealthy s) else unhealthy s)  (* :92-94 *)
     (put h fs (failures s)).                                                        (* :95 *)

(* passive_filter.go:61: f.clk.Now().Sub(t) > f.config.FailTimeout *)
Definition expired (c : config) (nw t : Z) : bool := c_timeout c <? nw - t.

(* passive_filter.go:54-69. Every entry of the map is treated independently of the others, so
   the iteration order of the Go map does not matter. *)
Definition run_filter (c : config) (s : st) (addrs : list N) : st * list N :=
  let u' := filter (fun e => negb (expired c (now s) (snd e))) (unhealthy s) in   (* :61-62 *)
  (mk (now s) u' (failures s),
   filter (fun a => match get a u' with Some _ => false | None => true end) addrs). (* :58,:64 *)

(* passive.go:35-42 *)
Definition resolve (c : config) (s : st) (all : list N) : st * list N :=
  let '(s', healthy) := run_filter c s all in
  (s', match healthy with [] => all | _ => healthy end).

(* c is the EFFECTIVE configuration (after apply_defaults) *)
Definition step (c : config) (s : st) (o : op) : st * out :=
  match o with
  | Failed _ h => (failed c s h, OUnit)
  | Tick d => (mk (now s + d) (unhealthy s) (failures s), OUnit)
  | Run addrs => let '(s', r) := run_filter c s addrs in (s', OSet r)
  | Resolve all => let '(s', r) := resolve c s all in (s', OSet r)
  end.

Fixpoint run (c : config) (s : st) (ops : list op) : st * list out :=
  match ops with
  | [] => (s, [])
  | o :: t => let '(s1, r) := step c s o in
              let '(s2, rs) := run c s1 t in (s2, r :: rs)
  end.

(* NewPassiveFilter (passive_filter.go:43-51) + a history *)
Definition exec (raw : config) (ops : list op) : st * list out := run (apply_defaults raw) init ops.

(* The property quantifies over timelines of failures and clock ADVANCES. *)
Definition monotone (ops : list op) : bool :=
  forallb (fun o => match o with Tick d => 0 <=? d | _ => true end) ops.

(* ---- Declarative specification: the timeline and the failure-window rule *)

(* what happened so far: the current time and every recorded failure (host, time), in order *)
Record timeline := mktl { t_now : Z; t_log : list (N * Z) }.
Definition tl_init : timeline := mktl 0 [].
Definition tl_step (x : timeline) (o : op) : timeline :=
  match o with
  | Failed _ h => mktl (t_now x) (t_log x ++ [(h, t_now x)])
  | Tick d => mktl (t_now x + d) (t_log x)
  | _ => x
  end.
Definition tl_of (ops : list op) : timeline := fold_left tl_step ops tl_init.

(* the times of the recorded failures of host h *)
Definition times (h : N) (log : list (N * Z)) : list Z :=
  map snd (filter (fun e => N.eqb h (fst e)) log).

(* t' falls within FailTimeout of (the FailTimeout leading up to) the failure at t *)
Definition near (ft t t' : Z) : bool := (t' <=? t) && (t - t' <=? ft).
(* the failure at t had at least Fails recorded failures within FailTimeout of it *)
Definition trips (c : config) (ts : list Z) (t : Z) : bool :=
  c_fails c <=? lenZ (filter (near (c_timeout c) t) ts).
(* ... and happened no more than FailTimeout ago *)
Definition recent (c : config) (nw t : Z) : bool := (t <=? nw) && (nw - t <=? c_timeout c).

Definition filtered_spec (c : config) (ts : list Z) (nw : Z) : bool :=
  existsb (fun t => recent c nw t && trips c ts t) ts.

Definition healthy_spec (c : config) (x : timeline) (addrs : list N) : list N :=
  filter (fun a => negb (filtered_spec c (times a (t_log x)) (t_now x))) addrs.

Definition sstep (c : config) (x : timeline) (o : op) : timeline * out :=
  (tl_step x o,
   match o with
   | Run addrs => OSet (healthy_spec c x addrs)
   | Resolve all => OSet (match healthy_spec c x all with [] => all | l => l end)
   | _ => OUnit
   end).

Fixpoint srun (c : config) (x : timeline) (ops : list op) : timeline * list out :=
  match ops with
  | [] => (x, [])
  | o :: t => let '(x1, r) := sstep c x o in
              let '(x2, rs) := srun c x1 t in (x2, r :: rs)
  end.

Definition sexec (raw : config) (ops : list op) : list out := snd (srun (apply_defaults raw) tl_init ops).

(* ---- boolean oracles used on observed traces *)
Fixpoint ns_eqb (a b : list N) : bool :=
  match a, b with
  | [], [] => true
  | x :: a', y :: b' => N.eqb x y && ns_eqb a' b'
  | _, _ => false
  end.
Definition out_eqb (a b : out) : bool :=
  match a, b with
  | OUnit, OUnit => true
  | OSet x, OSet y => ns_eqb x y
  | _, _ => false
  end.
Fixpoint outs_eqb (a b : list out) : bool :=
  match a, b with
  | [], [] => true
  | x :: a', y :: b' => out_eqb x y && outs_eqb a' b'
  | _, _ => false
  end.

Definition memN (h : N) (l : list N) : bool := existsb (N.eqb h) l.

(* clause 2 on one observed trace, independent of any model: every Resolve over a non-empty host
   list returned a non-empty subset of it *)
Fixpoint resolve_ok (ops : list op) (obs : list out) : bool :=
  match ops, obs with
  | [], [] => true
  | Resolve all :: ops', OSet l :: obs' =>
      (match all, l with _ :: _, [] => false | _, _ => true end)
      && forallb (fun a => memN a all) l && resolve_ok ops' obs'
  | Resolve _ :: _, _ => false
  | _ :: ops', _ :: obs' => resolve_ok ops' obs'
  | _, _ => false
  end.

(* the property on one observed trace: for a timeline of failures and clock advances, every
   Run / Resolve returned what the failure-window rule prescribes (clause 1) and no Resolve
   emptied a non-empty host list (clause 2) *)
Definition C24_check (raw : config) (ops : list op) (obs : list out) : bool :=
  if monotone ops then outs_eqb (sexec raw ops) obs && resolve_ok ops obs else true.
