(* Model of tracker/peerstore/redis.go (RedisStore on a Redis server).
   Executable definitions only; proofs live in Proof/C28*.v.

   The decoder modelled here is the REPAIRED deserializePeer (fixes/C28_ipv6_decode.patch):
   peer id = first ':'-field, port / complete bit = last two fields, ip = everything between.
   The decoder of the pinned commit survives as the mutant [deserialize_old]. *)
From Coq Require Import List NArith ZArith Bool.
Import ListNotations.

Definition str := list N.                         (* a Go string: bytes *)

Fixpoint str_eqb (a b : str) : bool :=
  match a, b with
  | [], [] => true
  | x :: a', y :: b' => N.eqb x y && str_eqb a' b'
  | _, _ => false
  end.
Definition mem_str (s : str) (l : list str) : bool := existsb (str_eqb s) l.
Definition byte_ok (b : N) : bool := (b <? 256)%N.

(* ------------------------------------------------------------------ *)
(* fmt "%d" and strconv.Atoi                                            *)

(* little-endian decimal digits; fuel = number of binary digits + 1 always suffices *)
Fixpoint digits_le (fuel : nat) (n : N) : list N :=
  match fuel with
  | O => []
  | S f => if (n <? 10)%N then [n] else (n mod 10)%N :: digits_le f (n / 10)%N
  end.
Definition dec_N (n : N) : str :=
  map (fun d => 48 + d)%N (rev (digits_le (S (N.to_nat (N.size n))) n)).
Definition dec_Z (z : Z) : str :=
  if (z <? 0)%Z then 45%N :: dec_N (Z.abs_N z) else dec_N (Z.abs_N z).

Definition is_digit (c : N) : bool := (48 <=? c)%N && (c <=? 57)%N.
Fixpoint parse_digits (acc : N) (s : str) : option N :=
  match s with
  | [] => Some acc
  | c :: t => if is_digit c then parse_digits (acc * 10 + (c - 48))%N t else None
  end.
(* strconv.Atoi syntax: optional sign, at least one digit, decimal digits only *)
Definition parse_int (s : str) : option Z :=
  match s with
  | [] => None
  | c :: t =>
      if (c =? 45)%N then
        match t with [] => None | _ => option_map (fun n => (- Z.of_N n)%Z) (parse_digits 0 t) end
      else if (c =? 43)%N then
        match t with [] => None | _ => option_map Z.of_N (parse_digits 0 t) end
      else option_map Z.of_N (parse_digits 0 s)
  end.
Definition in_int64 (z : Z) : bool := (- 2 ^ 63 <=? z)%Z && (z <? 2 ^ 63)%Z.
Definition atoi (s : str) : option Z :=
  match parse_int s with
  | Some z => if in_int64 z then Some z else None    (* ErrRange *)
  | None => None
  end.

(* ------------------------------------------------------------------ *)
(* encoding/hex, core.NewPeerID (peer_id.go:55-66)                      *)

Definition hexdig (d : N) : N := if (d <? 10)%N then (48 + d)%N else (87 + d)%N.
Fixpoint hex (b : list N) : str :=
  match b with
  | [] => []
  | x :: t => hexdig (x / 16) :: hexdig (x mod 16) :: hex t
  end.
Definition unhexdig (c : N) : option N :=
  if (48 <=? c)%N && (c <=? 57)%N then Some (c - 48)%N
  else if (97 <=? c)%N && (c <=? 102)%N then Some (c - 87)%N
  else if (65 <=? c)%N && (c <=? 70)%N then Some (c - 55)%N
  else None.
Fixpoint unhex (s : str) : option (list N) :=
  match s with
  | [] => Some []
  | [_] => None
  | a :: b :: t =>
      match unhexdig a, unhexdig b, unhex t with
      | Some x, Some y, Some r => Some ((16 * x + y)%N :: r)
      | _, _, _ => None
      end
  end.
Definition new_peer_id (s : str) : option (list N) :=
  match unhex s with
  | Some b => if Nat.eqb (length b) 20 then Some b else None
  | None => None
  end.

(* ------------------------------------------------------------------ *)
(* strings.Split(s, ":") / strings.Join(parts, ":")                     *)

Fixpoint split_colon (s : str) : list str :=
  match s with
  | [] => [[]]
  | c :: t =>
      if (c =? 58)%N then [] :: split_colon t
      else match split_colon t with
           | p :: ps => (c :: p) :: ps
           | [] => [[c]]
           end
  end.
Fixpoint join_colon (ps : list str) : str :=
  match ps with
  | [] => []
  | p :: rest => match rest with [] => p | _ => p ++ 58%N :: join_colon rest end
  end.

(* ------------------------------------------------------------------ *)
(* peers and the codec (redis.go:35-66)                                 *)

Record ident := mkid { i_id : list N; i_ip : str; i_port : Z }.   (* redis.go:43 peerIdentity *)
Definition peer := (ident * bool)%type.                            (* identity, Complete *)

Definition ident_eqb (a b : ident) : bool :=
  str_eqb (i_id a) (i_id b) && str_eqb (i_ip a) (i_ip b) && Z.eqb (i_port a) (i_port b).

(* what Go's types guarantee of every announcing peer: a 20-byte id, bytes, an int port *)
Definition valid_ident (i : ident) : bool :=
  Nat.eqb (length (i_id i)) 20 && forallb byte_ok (i_id i) && forallb byte_ok (i_ip i)
  && in_int64 (i_port i).
Definition valid_peer (p : peer) : bool := valid_ident (fst p).

(* redis.go:35-41 *)
Definition serialize (p : peer) : str :=
  hex (i_id (fst p)) ++ 58%N :: i_ip (fst p) ++ 58%N :: dec_Z (i_port (fst p))
  ++ [58%N; if snd p then 49%N else 48%N].

(* redis.go:49-66 with the repair: len(parts) >= 4, ip = Join(parts[1:len-2], ":") *)
Definition deserialize (s : str) : option peer :=
  match split_colon s with
  | pid :: rest =>
      match rev rest with
      | bit :: port :: iprev =>
          match iprev with
          | [] => None                                         (* len(parts) < 4 *)
          | _ =>
              match new_peer_id pid with
              | None => None
              | Some id =>
                  match atoi port with
                  | None => None
                  | Some pt => Some (mkid id (join_colon (rev iprev)) pt, str_eqb bit [49%N])
                  end
              end
          end
      | _ => None
      end
  | [] => None
  end.

(* the decoder of the pinned commit: len(parts) != 4 is an error *)
Definition deserialize_old (s : str) : option peer :=
  match split_colon s with
  | [pid; ip; port; bit] =>
      match new_peer_id pid with
      | None => None
      | Some id =>
          match atoi port with
          | None => None
          | Some pt => Some (mkid id ip pt, str_eqb bit [49%N])
          end
      end
  | _ => None
  end.

(* ------------------------------------------------------------------ *)
(* time windows and key names (redis.go:31-33, 116-128, 135-136)        *)

Record cfg := mkcfg { W : Z (* int64(PeerSetWindowSize.Seconds()) *); M : nat (* MaxPeerSetWindows *) }.
(* W = 0 makes curPeerSetWindow divide by zero, M < 0 makes make() panic: configuration domain *)
Definition cfg_ok (c : cfg) : bool := (1 <=? W c)%Z && Nat.leb 1 (M c).

Definition curw (c : cfg) (t : Z) : Z := (t - Z.rem t (W c))%Z.                    (* :116-119 *)
Definition windows (c : cfg) (t : Z) : list Z :=                                   (* :121-128 *)
  map (fun i => (curw c t - Z.of_nat i * W c)%Z) (seq 0 (M c)).
Definition expire_at (c : cfg) (w : Z) : Z := (w + W c * Z.of_nat (M c))%Z.        (* :136 *)

Definition peerset_prefix : str := [112; 101; 101; 114; 115; 101; 116; 58]%N.      (* "peerset:" *)
Definition key_string (h : list N) (w : Z) : str :=                                (* :31-33 *)
  peerset_prefix ++ hex h ++ 58%N :: dec_Z w.

(* ------------------------------------------------------------------ *)
(* the Redis server: sets with a per-key expiry                         *)

Definition key := (list N * Z)%type.                  (* info hash bytes, window *)
Definition key_eqb (a b : key) : bool := str_eqb (fst a) (fst b) && Z.eqb (snd a) (snd b).
Record entry := mkent { e_members : list str; e_exp : option Z }.
Definition rdb := key -> option entry.

Definition live_entry (now : Z) (e : entry) : bool :=
  match e_exp e with Some x => (now <? x)%Z | None => true end.
(* keys whose expiry time has been reached are gone *)
Definition purge (now : Z) (d : rdb) : rdb :=
  fun k => match d k with
           | Some e => if live_entry now e then Some e else None
           | None => None
           end.
Definition members (d : rdb) (k : key) : list str :=
  match d k with Some e => e_members e | None => [] end.
Definition sadd (k : key) (s : str) (d : rdb) : rdb :=
  fun k' => if key_eqb k' k then
              match d k with
              | Some e => Some (mkent (if mem_str s (e_members e) then e_members e
                                       else e_members e ++ [s]) (e_exp e))
              | None => Some (mkent [s] None)
              end
            else d k'.
Definition expireat (k : key) (ts : Z) (d : rdb) : rdb :=
  fun k' => if key_eqb k' k then
              match d k with
              | Some e => Some (mkent (e_members e) (Some ts))
              | None => None
              end
            else d k'.

(* state: clock (unix seconds), server content, keys ever written (only used to print dumps) *)
Record st := mkst { now : Z; dbs : rdb; touched : list key }.
Definition init_at (t0 : Z) : st := mkst t0 (fun _ => None) [].
Definition view (s : st) : rdb := purge (now s) (dbs s).

(* ------------------------------------------------------------------ *)
(* GetPeers (redis.go:160-200)                                          *)

(* selected[id] = selected[id] || complete   (:190) *)
Fixpoint merge1 (sel : list peer) (p : peer) : list peer :=
  match sel with
  | [] => [p]
  | q :: t => if ident_eqb (fst q) (fst p) then (fst q, snd q || snd p) :: t
              else q :: merge1 t p
  end.
Definition collapse_into (sel : list peer) (ps : list peer) : list peer := fold_left merge1 ps sel.
Definition collapse (ps : list peer) : list peer := collapse_into [] ps.

(* :184-191: undecodable members are logged and skipped *)
Fixpoint decode_all (ss : list str) : list peer :=
  match ss with
  | [] => []
  | s :: t => match deserialize s with Some p => p :: decode_all t | None => decode_all t end
  end.

(* every member of every window a reader at time t looks at *)
Definition visible_members (c : cfg) (d : rdb) (h : list N) (t : Z) : list str :=
  flat_map (fun w => members d (h, w)) (windows c t).

(* n at least the number of stored members: every SRANDMEMBER returns its whole set and no
   window is skipped, so the result is determined up to order *)
Definition get_full (c : cfg) (s : st) (h : list N) : list peer :=
  collapse (decode_all (visible_members c (view s) h (now s))).

(* the general loop (:176-192) with its random choices as an oracle: the batches SRANDMEMBER
   returned, in the (shuffled) order the windows were visited; None = not a possible run *)
Fixpoint sample_run (n : Z) (sel : list peer) (orc : list (list str)) : option (list peer) :=
  match orc with
  | [] => Some sel
  | ss :: rest =>
      if (Z.of_nat (length sel) <? n)%Z then
        if (Z.of_nat (length ss) <=? n - Z.of_nat (length sel))%Z
        then sample_run n (collapse_into sel (decode_all ss)) rest
        else None
      else Some sel
  end.

Definition has_ident (i : ident) (l : list peer) : bool := existsb (fun q => ident_eqb (fst q) i) l.
Definition has_peer (p : peer) (l : list peer) : bool :=
  existsb (fun q => ident_eqb (fst q) (fst p) && Bool.eqb (snd q) (snd p)) l.
Fixpoint nodup_ident (l : list peer) : bool :=
  match l with
  | [] => true
  | p :: t => negb (has_ident (fst p) t) && nodup_ident t
  end.
(* what any run of the loop guarantees of its result, given the decodable visible entries *)
Definition legal_sample (n : Z) (entries : list peer) (res : list peer) : bool :=
  (Z.of_nat (length res) <=? Z.max n 0)%Z && nodup_ident res
  && forallb (fun p => has_peer p entries) res.

Definition peers_subset (a b : list peer) : bool := forallb (fun p => has_peer p b) a.
Definition peers_seteq (a b : list peer) : bool :=
  peers_subset a b && peers_subset b a && nodup_ident a && nodup_ident b.

(* ------------------------------------------------------------------ *)
(* operations                                                           *)

Inductive op :=
| Adv (dt : N)                                   (* the clock (tracker's and Redis's) advances *)
| Upd (h : list N) (p : peer)                    (* UpdatePeer *)
| Inj (h : list N) (w : Z) (s : str)             (* some other writer SADDs a raw member *)
| Get (h : list N) (n : Z) (res : list peer).    (* GetPeers; res = what the random choices led to *)

Definition dump_row := (str * list str * option Z)%type.   (* key name, members, expiry *)
Inductive out :=
| OKeys (ks : list (str * option Z))   (* after Adv: every key Redis still holds, with its expiry *)
| ODb (rows : list dump_row)           (* after a write: every key whose content or expiry changed *)
| OGet (ok : bool) (ps : list peer).

Definition add_key (k : key) (l : list key) : list key :=
  if existsb (key_eqb k) l then l else l ++ [k].
Definition dump_key (s : st) (k : key) : list dump_row :=
  match view s k with
  | Some e => [(key_string (fst k) (snd k), e_members e, e_exp e)]
  | None => []
  end.
Definition opt_eqb (a b : option Z) : bool :=
  match a, b with
  | None, None => true
  | Some x, Some y => Z.eqb x y
  | _, _ => false
  end.
Fixpoint strs_eqb (a b : list str) : bool :=
  match a, b with
  | [], [] => true
  | x :: a', y :: b' => str_eqb x y && strs_eqb a' b'
  | _, _ => false
  end.
(* what a write changed: the key's row afterwards, or nothing when Redis holds the same as before *)
Definition changed (s s' : st) (k : key) : list dump_row :=
  match dump_key s k, dump_key s' k with
  | [(_, m, e)], [(_, m', e')] => if strs_eqb m m' && opt_eqb e e' then [] else dump_key s' k
  | _, r => r
  end.
Definition dump_keys (s : st) : list (str * option Z) :=
  flat_map (fun k => match view s k with
                     | Some e => [(key_string (fst k) (snd k), e_exp e)]
                     | None => []
                     end) (touched s).

Definition step (c : cfg) (s : st) (o : op) : st * out :=
  match o with
  | Adv dt => let s' := mkst (now s + Z.of_N dt) (dbs s) (touched s) in (s', OKeys (dump_keys s'))
  | Upd h p =>                                                                 (* :131-157 *)
      let w := curw c (now s) in
      let k := (h, w) in
      let d := expireat k (expire_at c w) (sadd k (serialize p) (view s)) in
      let s' := mkst (now s) d (add_key k (touched s)) in (s', ODb (changed s s' k))
  | Inj h w x =>
      let k := (h, w) in
      let s' := mkst (now s) (sadd k x (view s)) (add_key k (touched s)) in (s', ODb (changed s s' k))
  | Get h n res =>
      let ms := visible_members c (view s) h (now s) in
      if (Z.of_nat (length ms) <=? n)%Z
      then (s, OGet true (get_full c s h))
      else (s, OGet (legal_sample n (decode_all ms) res) res)
  end.

Fixpoint run (c : cfg) (s : st) (ops : list op) : st * list out :=
  match ops with
  | [] => (s, [])
  | o :: t => let '(s1, r) := step c s o in
              let '(s2, rs) := run c s1 t in (s2, r :: rs)
  end.

(* every oracle a history carries (the result of a GetPeers that had to sample) is one the
   loop can produce *)
Definition oks (outs : list out) : bool :=
  forallb (fun o => match o with OGet ok _ => ok | _ => true end) outs.

Definition valid_op (o : op) : bool :=
  match o with
  | Upd h p => forallb byte_ok h && valid_peer p
  | Inj h _ x => forallb byte_ok h && forallb byte_ok x
  | _ => true
  end.
Definition wf (c : cfg) (ops : list op) : bool := cfg_ok c && forallb valid_op ops.

(* ------------------------------------------------------------------ *)
(* specification: what the property says, over the history alone        *)

(* an announcement made at t0 is within reach of a reader at t *)
Definition visible (c : cfg) (t0 t : Z) : bool :=
  let d := (Z.quot t (W c) - Z.quot t0 (W c))%Z in (0 <=? d)%Z && (d <? Z.of_nat (M c))%Z.

Record ann := mkann { a_time : Z; a_hash : list N; a_peer : peer }.

(* announcements for h a reader at time t must still find *)
Definition vis_anns (c : cfg) (anns : list ann) (h : list N) (t : Z) : list peer :=
  map a_peer (filter (fun a => str_eqb (a_hash a) h && visible c (a_time a) t) anns).

(* the clock after a history, the announcements a history made (with their times), and
   whether anybody else wrote into the peer sets *)
Fixpoint end_time (t : Z) (ops : list op) : Z :=
  match ops with
  | [] => t
  | Adv dt :: r => end_time (t + Z.of_N dt) r
  | _ :: r => end_time t r
  end.
Fixpoint hist_anns (t : Z) (ops : list op) : list ann :=
  match ops with
  | [] => []
  | Adv dt :: r => hist_anns (t + Z.of_N dt) r
  | Upd h p :: r => mkann t h p :: hist_anns t r
  | _ :: r => hist_anns t r
  end.
Definition no_inj (ops : list op) : bool :=
  forallb (fun o => match o with Inj _ _ _ => false | _ => true end) ops.

(* every announced visible peer comes back; its flag is at least what it announced *)
Definition covers (spec res : list peer) : bool :=
  forallb (fun p => existsb (fun q => ident_eqb (fst q) (fst p) && implb (snd p) (snd q)) res) spec.

Definition check_get (c : cfg) (anns : list ann) (ninj : nat) (t : Z) (h : list N) (n : Z)
                     (ps : list peer) : bool :=
  let spec := vis_anns c anns h t in
  if (Z.of_nat (length spec + ninj) <=? n)%Z then
    match ninj with
    | O => peers_seteq ps (collapse spec)
    | _ => nodup_ident ps && covers (collapse spec) ps
    end
  else
    match ninj with
    | O => legal_sample n spec ps
    | _ => true
    end.

Fixpoint check_from (c : cfg) (t : Z) (anns : list ann) (ninj : nat)
                    (ops : list op) (obs : list out) : bool :=
  match ops, obs with
  | [], [] => true
  | Adv dt :: ops', OKeys _ :: obs' => check_from c (t + Z.of_N dt) anns ninj ops' obs'
  | Upd h p :: ops', ODb _ :: obs' => check_from c t (anns ++ [mkann t h p]) ninj ops' obs'
  | Inj _ _ _ :: ops', ODb _ :: obs' => check_from c t anns (S ninj) ops' obs'
  | Get h n _ :: ops', OGet ok ps :: obs' =>
      ok && check_get c anns ninj t h n ps && check_from c t anns ninj ops' obs'
  | _, _ => false
  end.

(* the property on one observed trace *)
Definition C28_check (c : cfg) (t0 : Z) (ops : list op) (obs : list out) : bool :=
  if wf c ops then check_from c t0 [] 0 ops obs else true.

(* ------------------------------------------------------------------ *)
(* the pinned commit's store, kept as a mutant: same loop, old decoder  *)
Fixpoint decode_all_old (ss : list str) : list peer :=
  match ss with
  | [] => []
  | s :: t => match deserialize_old s with Some p => p :: decode_all_old t | None => decode_all_old t end
  end.
Definition get_full_old (c : cfg) (s : st) (h : list N) : list peer :=
  collapse (decode_all_old (visible_members c (view s) h (now s))).
