(* C08 — the memory blob store (lib/store/memory/store.go, file.go, scoped_store.go) behaves like
   the capacity-bounded LRU model shared with the disk store, and stale handles fail cleanly.
   The model is Model/LruStore.v with backing = Memory (handles = memory.File values kept by the
   client: a reference to the blob's data cell plus a private offset). *)
From Coq Require Import List NArith ZArith Bool.
From K.Model Require Export LruStore.
Import ListNotations.
Local Open Scope N_scope.

Definition C08_impl (cap : N) (ops : list op) : list (out * snap) := snd (crun Memory true (cinit cap) ops).
Definition C08_spec (cap : N) (ops : list op) : list (out * snap) := snd (srun Memory (sinit cap) ops).
Definition C08_impl_prefix (cap : N) (ops : list op) : list (out * snap) := snd (crun Memory false (cinit cap) ops).

Definition mreach_c (cap : N) (ops : list op) : cstate := fst (crun Memory true (cinit cap) ops).
Definition mreach_s (cap : N) (ops : list op) : sstate := fst (srun Memory (sinit cap) ops).

(* ---- what an operation on a STALE handle (its blob was evicted or deleted) must return.
   Every operation that touches the data fails with ErrEvicted (Size: -1).  The argument checks
   that file.go performs before looking at the data keep their own results: a zero-length
   Read/ReadAt returns (0, nil) and a negative offset is rejected as such; Off/Close/Cancel/Commit
   never touch the data.  No result carries bytes. *)
Definition handle_of_op (o : op) : option N :=
  match o with
  | HRead h _ | HReadAt h _ _ | HSeek h _ _ | HSize h | HWriteAt h _ _ | HWrite h _ | HOff h | HClose h => Some h
  | _ => None
  end.
Definition is_evicted (r : out) : bool := match r with OErr EEvicted => true | _ => false end.
Definition stale_ok (o : op) (r : out) : bool :=
  match o with
  | HRead _ n => if n =? 0 then out_eqb r (ORead [] false) else is_evicted r
  | HReadAt _ n off => if n =? 0 then out_eqb r (ORead [] false)
                       else if (off <? 0)%Z then out_eqb r (OErr EOther) else is_evicted r
  | HSeek _ _ _ => is_evicted r
  | HSize _ => out_eqb r (OSize (-1))
  | HWriteAt _ _ off => if (off <? 0)%Z then out_eqb r (OErr EOther) else is_evicted r
  | HWrite _ _ => is_evicted r
  | HOff _ => match r with OSize _ => true | _ => false end
  | HClose _ => out_eqb r OOk
  | _ => true
  end.
(* the operations for which "fails with the evicted error" holds without exception *)
Definition touches_data (o : op) : bool :=
  match o with
  | HRead _ n => negb (n =? 0)
  | HReadAt _ n off => negb (n =? 0) && negb (off <? 0)%Z
  | HWriteAt _ _ off => negb (off <? 0)%Z
  | HSeek _ _ _ | HSize _ | HWrite _ _ => true
  | _ => false
  end.

(* ---- the stale-handle clause evaluated on an OBSERVED trace, independently of the model:
   the handle table is rebuilt from the observed results (OHandle h answered to Create k / Open k),
   a handle is stale from the first observed snapshot in which its key is absent (snapshots are
   taken after every operation, so a deletion followed by a re-creation cannot be missed) *)
Definition key_of_open (o : op) : option key :=
  match o with Create k _ => Some k | Open k _ => Some k | _ => None end.
Definition in_rows (k : key) (n : snap) : bool :=
  match assoc k (n_blobs n) with Some _ => true | None => false end.
Definition scan_step (tbl : list (N * (key * bool))) (o : op) (r : out) (n : snap) : bool * list (N * (key * bool)) :=
  let verdict := match handle_of_op o with
                 | Some h => match assoc h tbl with
                             | Some (_, true) => stale_ok o r
                             | _ => true
                             end
                 | None => true
                 end in
  let tbl1 := match key_of_open o, r with
              | Some k, OHandle h => tbl ++ [(h, (k, false))]
              | _, _ => tbl
              end in
  (verdict, map (fun e => (fst e, (fst (snd e), snd (snd e) || negb (in_rows (fst (snd e)) n)))) tbl1).
Fixpoint stale_scan (tbl : list (N * (key * bool))) (ops : list op) (obs : list (out * snap)) : bool :=
  match ops, obs with
  | o :: ops', (r, n) :: obs' => let '(v, tbl') := scan_step tbl o r n in v && stale_scan tbl' ops' obs'
  | _, _ => true
  end.

(* The property on one OBSERVED trace: results and snapshots are those of the reference
   specification (shared with C07), snapshots are well formed, and every operation on a handle
   observed to be stale returns what a stale handle must return. *)
Definition C08_check (cap : N) (ops : list op) (obs : list (out * snap)) : bool :=
  lru_check Memory cap ops obs && stale_scan [] ops obs.

(* ---- race stream (thorough tier): per handle, the sequence of results of read/size calls made
   by a reader goroutine while other goroutines create blobs and force evictions.  fill = the byte
   the writer of THIS incarnation stored.  Evaluated without the sequential model:
   once Evicted always Evicted, and every byte seen is the incarnation's own fill byte. *)
Inductive robs := REvicted | RBytes (b : list N) | RSize (n : Z).
Fixpoint race_ok (fill : N) (dead : bool) (l : list robs) : bool :=
  match l with
  | [] => true
  | REvicted :: t => race_ok fill true t
  | RBytes b :: t => negb dead && forallb (N.eqb fill) b && race_ok fill dead t
  | RSize n :: t => (if dead then (n =? -1)%Z else (0 <=? n)%Z || (n =? -1)%Z) && race_ok fill (dead || (n =? -1)%Z) t
  end.
