(* Model of one execution of a tag replication task:
     lib/persistedretry/tagreplication/executor.go   Executor.Exec (54-90)
     origin/blobclient/cluster_client.go              clusterClient.ReplicateToRemote (359-364), Poll (389-431)
     origin/blobclient/client.go                      HTTPClient.ReplicateToRemote (291-297), Locations (123-139)
     build-index/tagclient/client.go                  singleClient.Has (121-133), Origin (271-286),
                                                      PutAndReplicate (90-96)
     utils/httputil/httputil.go                       Send: result classification (375-381)
     origin/blobserver/server.go                      replicateToRemote (322-358), startRemoteBlobDownload (497-520)
   Executable definitions only; proofs live in Proof/C33*.v.

   The environment (remote build-index, local origin cluster) is an oracle: it carries the
   answer to the Has / Origin / PutAndReplicate requests and, for every dependency, whether the
   origins owning it could be resolved and, per resolved origin, the finite script of answers
   it gives to successive replicate requests plus the number of 202 answers the poll back-off
   tolerates for that origin before it says Stop.  Theorems quantify over all environments. *)
From Coq Require Import List NArith ZArith Bool.
From K.Gen Require Import C33_consts.
Import ListNotations.
Local Open Scope N_scope.

(* cluster_client.go:418 `serr.Status < 500`: the literal is re-extracted from the source on
   every run (Gen/C33_consts.v); statuses below it (other than 202) end the poll *)
Definition final_below : N := Z.to_N poll_final_below.

(* What one HTTP request yields, seen from the client. *)
Inductive resp :=
| RNet                 (* no HTTP response (refused, closed before the header) *)
| RCode (c : N).       (* status code *)

(* httputil.go:375-381 with the default accepted codes {200} and no retry (StopBackOff):
   200 -> nil, any other status -> StatusError, no response -> NetworkError *)
Inductive rq := QOk | QNet | QStatus (c : N).
Definition classify (r : resp) : rq :=
  match r with
  | RNet => QNet
  | RCode c => if c =? 200 then QOk else QStatus c
  end.
Definition is200 (r : resp) : bool := match r with RCode c => c =? 200 | RNet => false end.
Definition is202 (r : resp) : bool := match r with RCode c => c =? 202 | RNet => false end.

(* The request trace: every request the execution sends, in order, with the answer it got. *)
Inductive ev :=
| EHas (r : resp)                 (* HEAD /tags/<tag> at the remote build-index          executor.go:62 *)
| EOrigin (r : resp)              (* GET /origin at the remote build-index               executor.go:68 *)
| EResolve (d : N) (ok : bool)    (* ClientResolver.Resolve(d): who owns dependency d    cluster_client.go:395 *)
| ERepl (d : N) (o : N) (r : resp)(* POST /namespace/<tag>/blobs/<d>/remote/<remote origin> to the o-th
                                     resolved origin                                      cluster_client.go:405 *)
| EPut (r : resp)                 (* PUT /tags/<tag>/digest/<digest>?replicate=true       executor.go:81 *)
| EBad (k : N).                   (* harness only: a request the model never sends (wrong tag, digest,
                                     remote cluster, unknown path).  The model never produces it. *)

Inductive result := Ok | Err.

Record origin := mkorigin { o_script : list resp; o_budget : N }.
Record depenv := mkdep { d_id : N; d_resolve : bool; d_origins : list origin }.
(* e_deps = the task's dependency list (t.Dependencies, in order), each with what the local
   origin cluster does when asked to replicate it *)
Record env := mkenv { e_has : resp; e_origin : resp; e_deps : list depenv; e_put : resp }.

Definition deps (e : env) : list N := map d_id (e_deps e).

(* Result of the POLL loop for one origin. *)
Inductive pres := PDone (ok : bool) | PNext.

(* cluster_client.go:402-428 for one client.  [bud] = how many more times b.NextBackOff()
   answers a duration rather than Stop.  A request beyond the end of the script finds the
   origin gone (RNet). *)
Fixpoint poll_origin (d o : N) (sc : list resp) (bud : N) : list ev * pres :=
  match sc with
  | [] => ([ERepl d o RNet], PNext)                                   (* :422-423 *)
  | r :: sc' =>
      match classify r with
      | QOk => ([ERepl d o r], PDone true)                             (* :425 *)
      | QNet => ([ERepl d o r], PNext)                                 (* :422-423 *)
      | QStatus c =>
          if c =? 202 then                                             (* :410 *)
            if bud =? 0 then ([ERepl d o r], PNext)                    (* :412-413, :427 *)
            else let '(t, p) := poll_origin d o sc' (bud - 1) in (ERepl d o r :: t, p)  (* :415-416 *)
          else if c <? final_below then ([ERepl d o r], PDone false)           (* :418-419 *)
          else ([ERepl d o r], PNext)                                  (* :422-423 *)
      end
  end.

(* cluster_client.go:401-430: the ORIGINS loop, [o] = index of the first origin of [os] *)
Fixpoint poll (d o : N) (os : list origin) : list ev * bool :=
  match os with
  | [] => ([], false)                                                  (* :430 *)
  | x :: os' =>
      let '(t, p) := poll_origin d o (o_script x) (o_budget x) in
      match p with
      | PDone b => (t, b)
      | PNext => let '(t', b) := poll d (o + 1) os' in (t ++ t', b)
      end
  end.

(* clusterClient.ReplicateToRemote = Poll: resolve (:395-398), then the loops *)
Definition replicate (de : depenv) : list ev * bool :=
  if d_resolve de
  then let '(t, b) := poll (d_id de) 0 (d_origins de) in (EResolve (d_id de) true :: t, b)
  else ([EResolve (d_id de) false], false).

(* executor.go:72-76 *)
Fixpoint repl_all (ds : list depenv) : list ev * bool :=
  match ds with
  | [] => ([], true)
  | de :: ds' =>
      let '(t, b) := replicate de in
      if b then let '(t', b') := repl_all ds' in (t ++ t', b') else (t, false)
  end.

Definition rq_ok (q : rq) : bool := match q with QOk => true | _ => false end.

(* executor.go:54-90.  singleClient.Has: 200 -> (true,nil); 404 -> (false,nil); anything else
   -> error; the executor proceeds unless err == nil && ok. *)
Definition exec (e : env) : list ev * result :=
  if rq_ok (classify (e_has e)) then ([EHas (e_has e)], Ok)                          (* :62-66 *)
  else if rq_ok (classify (e_origin e)) then                                         (* :68-71 *)
    let '(t, b) := repl_all (e_deps e) in                                            (* :72-76 *)
    if b then
      (EHas (e_has e) :: EOrigin (e_origin e) :: t ++ [EPut (e_put e)],
       if rq_ok (classify (e_put e)) then Ok else Err)                               (* :81-89 *)
    else (EHas (e_has e) :: EOrigin (e_origin e) :: t, Err)
  else ([EHas (e_has e); EOrigin (e_origin e)], Err).

Definition trace (e : env) : list ev := fst (exec e).
Definition verdict (e : env) : result := snd (exec e).
Definition is_ok (r : result) : bool := match r with Ok => true | Err => false end.

(* ---- the origin's side of one replicate request: origin/blobserver/server.go:322-358.
   What the origin finds when the request arrives is again an oracle. *)
Inductive cachest := CPresent | CAbsent | CStatErr.          (* cas.GetCacheFileStat :325 *)
Inductive refreshr := FStarted | FPending | FNotFound | FBusy | FOther.  (* blobRefresher.Refresh :505 *)
Inductive uploadr := UOk | UFail | UNoProvider | UNoReader.  (* :337 reader, :344 provider, :350 upload *)
Record hstate := mkh { h_cache : cachest; h_refresh : refreshr; h_upload : uploadr }.

Definition handler (h : hstate) : N :=
  match h_cache h with
  | CAbsent =>                                               (* :327-329 -> :497-520 *)
      match h_refresh h with
      | FStarted | FPending => 202
      | FNotFound => 404
      | FBusy => 503
      | FOther => 500
      end
  | CStatErr => 500                                          (* :331 *)
  | CPresent =>
      match h_upload h with
      | UOk => 200                                           (* :355-357 *)
      | _ => 500                                             (* :340, :347, :353 *)
      end
  end.
(* the blob was handed to the remote cluster and the remote cluster accepted it *)
Definition uploaded (h : hstate) : bool :=
  match h_cache h, h_upload h with CPresent, UOk => true | _, _ => false end.

(* the answers of an origin whose successive replicate requests find these states *)
Definition served (hs : list hstate) : list resp := map (fun h => RCode (handler h)) hs.

(* ---- specification vocabulary and the property on one observed run *)

Definition memb (d : N) (l : list N) : bool := existsb (N.eqb d) l.

(* [seen] = dependencies whose replicate request was answered 200 so far.  Every EPut must
   find all of [ds] in [seen]. *)
Fixpoint order_ok (ds seen : list N) (tr : list ev) : bool :=
  match tr with
  | [] => true
  | EPut _ :: t => forallb (fun d => memb d seen) ds && order_ok ds seen t
  | ERepl d _ r :: t => order_ok ds (if is200 r then d :: seen else seen) t
  | _ :: t => order_ok ds seen t
  end.

Definition is_put (x : ev) : bool := match x with EPut _ => true | _ => false end.
Definition is_bad (x : ev) : bool := match x with EBad _ => true | _ => false end.

(* nothing follows a put (hence at most one put) *)
Fixpoint put_last (tr : list ev) : bool :=
  match tr with
  | [] => true
  | x :: t => (if is_put x then match t with [] => true | _ => false end else true) && put_last t
  end.

Definition last_of (tr : list ev) : option ev := last (map Some tr) None.

(* the run reported success exactly when the remote said it has the tag already, or the last
   thing that happened is a put answered 200 *)
Definition success_shape (tr : list ev) : bool :=
  match tr with
  | [EHas r] => is200 r
  | _ => match last_of tr with Some (EPut r) => is200 r | _ => false end
  end.

(* the first request asks the remote whether it has the tag; if it says yes nothing else is sent *)
Definition noop_ok (tr : list ev) : bool :=
  match tr with
  | EHas r :: t => if is200 r then match t with [] => true | _ => false end else true
  | _ => false
  end.

Definition C33_check (e : env) (tr : list ev) (res : result) : bool :=
  order_ok (deps e) [] tr && put_last tr && noop_ok tr &&
  Bool.eqb (is_ok res) (success_shape tr) && negb (existsb is_bad tr).

(* ---- the origin's side, observed: for every replicate request that reached a real origin, the
   status it answered and whether, DURING THAT REQUEST, the origin handed the blob to the remote
   cluster and the remote cluster accepted it.  "200 => uploaded" on one observed run. *)
Definition C33_uploads_check (ups : list (N * bool)) : bool :=
  forallb (fun p => implb (fst p =? 200) (snd p)) ups.
Definition observed_of (hs : list hstate) : list (N * bool) :=
  map (fun h => (handler h, uploaded h)) hs.

(* ---- comparison of observables *)
Definition resp_eqb (a b : resp) : bool :=
  match a, b with
  | RNet, RNet => true
  | RCode x, RCode y => x =? y
  | _, _ => false
  end.
Definition ev_eqb (a b : ev) : bool :=
  match a, b with
  | EHas x, EHas y => resp_eqb x y
  | EOrigin x, EOrigin y => resp_eqb x y
  | EResolve d x, EResolve d' y => (d =? d') && Bool.eqb x y
  | ERepl d o x, ERepl d' o' y => (d =? d') && (o =? o') && resp_eqb x y
  | EPut x, EPut y => resp_eqb x y
  | EBad x, EBad y => x =? y
  | _, _ => false
  end.
Fixpoint evs_eqb (a b : list ev) : bool :=
  match a, b with
  | [], [] => true
  | x :: a', y :: b' => ev_eqb x y && evs_eqb a' b'
  | _, _ => false
  end.
Definition result_eqb (a b : result) : bool := Bool.eqb (is_ok a) (is_ok b).
